package remote

// C40 conformance harness (gated replay). A behaviour emitted by
// specs/queuemanager/QueueManager.tla interleaves the enqueue attempts of the
// WAL watcher's Append call, the shard goroutines (dequeue, send attempts with
// injected recoverable / non-recoverable errors, exit) and the resharder
// (shards.stop step by step, shards.start). The real QueueManager is driven
// through exactly that interleaving: verifhook sites park the watcher before
// every enqueue attempt, each shard after it received a batch and the stopper
// after closing softShutdown; the fake WriteClient's Store is the gate for
// every send attempt and decides its result. After the scheduled prefix the
// gates are opened, the remaining WAL is appended and the manager is stopped.
// Strict observables: what the endpoint received, projected per series, must
// be exactly the kept samples of the WAL in WAL order, without duplicates,
// without samples of dropped series, minus the batches the harness failed
// non-recoverably (the spec's `received` / `lost` and WAL are carried in the
// behaviour). The exact global order and batch composition are drift-only.

import (
	"context"
	"errors"
	"fmt"
	"sort"
	"strings"
	"sync"
	"testing"
	"time"

	"github.com/prometheus/common/model"
	remoteapi "github.com/prometheus/client_golang/exp/api/remote"

	"github.com/prometheus/prometheus/config"
	"github.com/prometheus/prometheus/internal/verifh"
	"github.com/prometheus/prometheus/model/labels"
	"github.com/prometheus/prometheus/model/relabel"
	"github.com/prometheus/prometheus/tsdb/chunks"
	"github.com/prometheus/prometheus/tsdb/record"
	"github.com/prometheus/prometheus/util/verifhook"
)

type c40Smp []any // ["a", 1]

func (s c40Smp) key() string { return fmt.Sprintf("%v#%v", s[0], s[1]) }

type c40Step struct {
	A      string   `json:"a"`
	X      c40Smp   `json:"x"`
	Q      int      `json:"q"`
	OK     bool     `json:"ok"`
	Res    string   `json:"res"`
	Batch  []c40Smp `json:"batch"`
	N      int      `json:"n"`
	Closed []int    `json:"closed"`
	Final  bool     `json:"final"`
}

type c40Cfg struct {
	Batch   int            `json:"batch"`
	ChanCap int            `json:"chancap"`
	Init    int            `json:"init"`
	Dropped []string       `json:"dropped"`
	Refs    map[string]int `json:"refs"`
	Wal     []c40Smp       `json:"wal"`
	Timer   string         `json:"timer"` // "first": every shard goroutine runs into its BatchSendDeadline timer right after start
}

type c40Beh struct {
	Steps    []c40Step `json:"steps"`
	Received []c40Smp  `json:"received"`
	Lost     []c40Smp  `json:"lost"`
	Cfg      c40Cfg    `json:"cfg"`
}

type c40Fail struct{ kind, sig, msg string }

// ------------------------------------------------------------ gates

type c40Gate struct {
	ev     chan string
	resume chan struct{}
	freeCh chan struct{}
	once   sync.Once
	parked bool
}

func c40NewGate() *c40Gate {
	return &c40Gate{ev: make(chan string, 8), resume: make(chan struct{}, 1), freeCh: make(chan struct{})}
}

func (g *c40Gate) park(site string) {
	select {
	case <-g.freeCh:
		return
	case g.ev <- site:
	}
	select {
	case <-g.resume:
	case <-g.freeCh:
	}
}

func (g *c40Gate) note(site string) {
	select {
	case <-g.freeCh:
	case g.ev <- site:
	default:
	}
}

func (g *c40Gate) release() {
	if g.parked {
		g.parked = false
		g.resume <- struct{}{}
	}
}

func (g *c40Gate) free() { g.once.Do(func() { close(g.freeCh) }); g.parked = false }

func (g *c40Gate) wait(d time.Duration) (string, bool) {
	select {
	case s := <-g.ev:
		return s, true
	case <-time.After(d):
		return "", false
	}
}

// one run = one QueueManager, identified in hook calls by cfg.MaxShards (the tag)
type c40Run struct {
	tag     int64
	b       c40Beh
	qm      *QueueManager
	mu      sync.Mutex
	watcher *c40Gate
	stopper *c40Gate
	shards  map[int]*c40Gate // current generation
	stores  chan *c40Store
	pending []*c40Store
	recv    []string // samples accepted by the endpoint, in order
	fatal   map[string]bool
	fails   []*c40Fail
	stopRet chan struct{}
	appRet  chan bool
	tsOf    map[int64]string // timestamp -> sample key
}

type c40Store struct {
	smps  []string
	reply chan error
}

var c40Runs sync.Map // tag -> *c40Run

func c40Handler(site string, kv ...int64) {
	if !strings.HasPrefix(site, "qm.") || len(kv) == 0 {
		return
	}
	v, ok := c40Runs.Load(kv[0])
	if !ok {
		return
	}
	r := v.(*c40Run)
	switch site {
	case "qm.append.attempt":
		r.watcher.park(site)
	case "qm.append.enqueued", "qm.append.refused":
		r.watcher.note(site)
	case "qm.stop.soft":
		r.mu.Lock()
		g := r.stopper
		r.mu.Unlock()
		if g != nil {
			g.park(site)
		}
	case "qm.shard.dequeued", "qm.shard.exit", "qm.shard.timer_fired", "qm.shard.timer":
		r.mu.Lock()
		g := r.shards[int(kv[1])]
		r.mu.Unlock()
		if g == nil {
			return
		}
		if site == "qm.shard.dequeued" || site == "qm.shard.timer_fired" {
			g.park(site)
		} else {
			g.note(site)
		}
	}
}

// fake endpoint ---------------------------------------------------------------

type c40Client struct{ r *c40Run }

func (c *c40Client) Name() string     { return "c40" }
func (c *c40Client) Endpoint() string { return "http://c40.invalid/write" }
func (c *c40Client) Store(ctx context.Context, req []byte, _ int) (WriteResponseStats, error) {
	wr, err := DecodeWriteRequest(strings.NewReader(string(req)))
	if err != nil {
		return WriteResponseStats{}, err
	}
	st := &c40Store{reply: make(chan error, 1)}
	for _, ts := range wr.Timeseries {
		name := ""
		for _, l := range ts.Labels {
			if l.Name == "s" {
				name = l.Value
			}
		}
		for _, s := range ts.Samples {
			st.smps = append(st.smps, fmt.Sprintf("%s#%d", name, s.Timestamp%1000))
		}
	}
	select {
	case c.r.stores <- st:
	case <-ctx.Done():
		return WriteResponseStats{}, ctx.Err()
	}
	select {
	case err := <-st.reply:
		return WriteResponseStats{}, err
	case <-ctx.Done():
		return WriteResponseStats{}, ctx.Err()
	}
}

func (r *c40Run) fail(kind, sig, msg string) { r.fails = append(r.fails, &c40Fail{kind, sig, msg}) }

func c40Keys(b []c40Smp) []string {
	var res []string
	for _, s := range b {
		res = append(res, s.key())
	}
	return res
}

// takeStore waits for the Store call carrying exactly the given batch.
func (r *c40Run) takeStore(want []string, d time.Duration) *c40Store {
	deadline := time.After(d)
	for {
		for i, st := range r.pending {
			if strings.Join(st.smps, ",") == strings.Join(want, ",") || want == nil {
				r.pending = append(r.pending[:i], r.pending[i+1:]...)
				return st
			}
		}
		select {
		case st := <-r.stores:
			r.pending = append(r.pending, st)
		case <-deadline:
			return nil
		}
	}
}

func (r *c40Run) answer(st *c40Store, res string) {
	switch res {
	case "ok":
		r.recv = append(r.recv, st.smps...)
		st.reply <- nil
	case "rec":
		st.reply <- RecoverableError{errors.New("c40 injected recoverable error"), 0}
	default:
		for _, k := range st.smps {
			r.fatal[k] = true
		}
		st.reply <- errors.New("c40 injected non-recoverable error")
	}
}

func (r *c40Run) newShardGates(n int) {
	r.mu.Lock()
	r.shards = map[int]*c40Gate{}
	for i := 0; i < n; i++ {
		r.shards[i] = c40NewGate()
	}
	r.mu.Unlock()
}

const c40Wait = 10 * time.Second

func (r *c40Run) replay(t *testing.T) {
	b := r.b
	cfg := testDefaultQueueConfig()
	cfg.MaxSamplesPerSend = b.Cfg.Batch
	cfg.Capacity = b.Cfg.Batch * b.Cfg.ChanCap
	cfg.MaxShards = int(r.tag)
	cfg.MinShards = 1
	cfg.BatchSendDeadline = model.Duration(time.Hour) // the timer never fires: partial batches leave only through FlushAndShutdown
	cfg.MinBackoff = model.Duration(time.Millisecond)
	cfg.MaxBackoff = model.Duration(5 * time.Millisecond)
	r.qm = newTestQueueManager(t, cfg, config.DefaultMetadataConfig, 2*time.Minute, &c40Client{r}, remoteapi.WriteV1MessageType)
	// write relabelling drops the series listed in the behaviour
	if len(b.Cfg.Dropped) > 0 {
		r.qm.relabelConfigs = []*relabel.Config{{
			SourceLabels: model.LabelNames{"s"}, Separator: ";",
			Regex:  relabel.MustNewRegexp(strings.Join(b.Cfg.Dropped, "|")),
			Action: relabel.Drop, NameValidationScheme: model.UTF8Validation,
		}}
	}
	var series []record.RefSeries
	for s, ref := range b.Cfg.Refs {
		series = append(series, record.RefSeries{Ref: chunks.HeadSeriesRef(ref), Labels: labels.FromStrings("__name__", "c40", "s", s)})
	}
	sort.Slice(series, func(i, j int) bool { return series[i].Ref < series[j].Ref })
	r.qm.StoreSeries(series, 0)
	base := time.Now().UnixMilli() / 1000 * 1000
	var samples []record.RefSample
	for _, x := range b.Cfg.Wal {
		k := int64(x[1].(float64))
		samples = append(samples, record.RefSample{Ref: chunks.HeadSeriesRef(b.Cfg.Refs[x[0].(string)]), T: base + k, V: float64(k)})
	}
	// Timer = "first": the deadline is short while a generation of shards starts (every goroutine runs into its timer
	// and is parked before queue.Batch()) and long afterwards, so that each goroutine's timer fires exactly once, when
	// the schedule says so. (cfg is read by the shard goroutines when they arm their timers.)
	timerFirst := b.Cfg.Timer == "first"
	setDeadline := func(d time.Duration) { r.qm.cfg.BatchSendDeadline = model.Duration(d) }
	fired, gen := 0, b.Cfg.Init
	if timerFirst {
		setDeadline(25 * time.Millisecond)
	}
	r.newShardGates(b.Cfg.Init)
	r.qm.shards.start(b.Cfg.Init)
	go func() { r.appRet <- r.qm.Append(samples) }()
	appended := false
	stopping, stopped, final := false, false, false

	follow := true
	for i, st := range b.Steps {
		where := fmt.Sprintf("step %d (%s q%d)", i+1, st.A, st.Q)
		switch st.A {
		case "Enqueue":
			// the watcher is (or gets) parked before an attempt; let it make exactly one
			if !r.watcher.parked {
				s, ok := r.watcher.wait(c40Wait)
				if !ok || s != "qm.append.attempt" {
					r.fail("drift", "", fmt.Sprintf("%s: watcher not at an enqueue attempt (%q)", where, s))
					follow = false
					break
				}
				r.watcher.parked = true
			}
			r.watcher.release()
			s, ok := r.watcher.wait(c40Wait)
			if !ok {
				r.fail("infra", "", where+": no enqueue result")
				follow = false
				break
			}
			if (s == "qm.append.enqueued") != st.OK {
				r.fail("drift", "", fmt.Sprintf("%s: enqueue of %s: %s, model ok=%v", where, st.X.key(), s, st.OK))
				follow = false
			}
		case "Dequeue":
			g := r.shards[st.Q]
			s, ok := g.wait(c40Wait)
			if !ok || s != "qm.shard.dequeued" {
				r.fail("drift", "", fmt.Sprintf("%s: shard did not receive a batch (%q)", where, s))
				follow = false
				break
			}
			g.parked = true
		case "Send":
			g := r.shards[st.Q]
			g.release()
			want := c40Keys(st.Batch)
			sto := r.takeStore(want, c40Wait)
			if sto == nil {
				got := ""
				if any := r.takeStore(nil, 100*time.Millisecond); any != nil {
					got = strings.Join(any.smps, ",")
					r.pending = append(r.pending, any)
				}
				r.fail("drift", "", fmt.Sprintf("%s: no Store call with batch %v (pending %q)", where, want, got))
				follow = false
				break
			}
			r.answer(sto, st.Res)
		case "TimerFire":
			g := r.shards[st.Q]
			s, ok := g.wait(c40Wait)
			if !ok || s != "qm.shard.timer_fired" {
				r.fail("drift", "", fmt.Sprintf("%s: shard did not run into its timer (%q)", where, s))
				follow = false
				break
			}
			g.parked = true
			if fired++; fired == gen {
				setDeadline(time.Hour)
			}
		case "TimerTake":
			// the goroutine calls queue.Batch() now (site qm.shard.timer follows it) and sends what it got (Send steps follow)
			g := r.shards[st.Q]
			g.release()
			if s, ok := g.wait(c40Wait); !ok || s != "qm.shard.timer" {
				r.fail("drift", "", fmt.Sprintf("%s: shard did not call queue.Batch() (%q)", where, s))
				follow = false
			}
		case "ShardExit":
			g := r.shards[st.Q]
			s, ok := g.wait(c40Wait)
			if !ok || s != "qm.shard.exit" {
				r.fail("drift", "", fmt.Sprintf("%s: shard did not exit (%q)", where, s))
				follow = false
			}
		case "StopSoft":
			stopping = true
			r.mu.Lock()
			r.stopper = c40NewGate()
			r.mu.Unlock()
			go func() { r.qm.shards.stop(); r.stopRet <- struct{}{} }()
			if s, ok := r.stopper.wait(c40Wait); !ok || s != "qm.stop.soft" {
				r.fail("infra", "", where+": stop did not reach the soft-shutdown site")
				follow = false
				break
			}
			r.stopper.parked = true
		case "StopFlush":
			r.stopper.release()
			// wait until FlushAndShutdown has closed the queues the model closes at once
			deadline := time.Now().Add(5 * time.Second)
			for _, q := range st.Closed {
				for {
					qq := r.qm.shards.queues[q]
					qq.batchMtx.Lock()
					done := qq.batch == nil
					qq.batchMtx.Unlock()
					if done || time.Now().After(deadline) {
						if !done {
							r.fail("drift", "", fmt.Sprintf("%s: queue %d not flushed and closed", where, q))
							follow = false
						}
						break
					}
					time.Sleep(time.Millisecond)
				}
			}
		case "FlushRetry":
			deadline := time.Now().Add(5 * time.Second) // FlushAndShutdown retries once per second
			for {
				qq := r.qm.shards.queues[st.Q]
				qq.batchMtx.Lock()
				done := qq.batch == nil
				qq.batchMtx.Unlock()
				if done {
					break
				}
				if time.Now().After(deadline) {
					r.fail("drift", "", fmt.Sprintf("%s: queue %d still not flushed", where, st.Q))
					follow = false
					break
				}
				time.Sleep(5 * time.Millisecond)
			}
		case "StopDone":
			select {
			case <-r.stopRet:
				stopping, stopped, final = false, true, st.Final
			case <-time.After(c40Wait):
				r.fail("violation", "stop-stuck", where+": shards.stop does not return although all batches were delivered")
				follow = false
			}
		case "Start":
			if timerFirst {
				setDeadline(25 * time.Millisecond)
				fired, gen = 0, st.N
			}
			r.newShardGates(st.N)
			r.qm.shards.start(st.N)
			stopped = false
		default:
			r.fail("infra", "", "unknown action "+st.A)
			follow = false
		}
		if !follow {
			break
		}
	}

	// completion: open every gate, accept every send, consume the rest of the WAL, stop the manager
	setDeadline(time.Hour)
	r.watcher.free()
	r.mu.Lock()
	for _, g := range r.shards {
		g.free()
	}
	r.mu.Unlock()
	r.mu.Lock()
	if r.stopper != nil {
		r.stopper.free()
	}
	r.stopper = nil
	r.mu.Unlock()
	quit := make(chan struct{})
	var wg sync.WaitGroup
	wg.Add(1)
	go func() {
		defer wg.Done()
		// adversarial endpoint: requests that are in flight at the same time (necessarily from different shards)
		// are accepted in the reverse order of their arrival; a series that lives on one shard is unaffected
		for i := len(r.pending) - 1; i >= 0; i-- {
			r.answer(r.pending[i], "ok")
		}
		r.pending = nil
		for {
			select {
			case st := <-r.stores:
				r.pending = append(r.pending, st)
			case <-quit:
				return
			}
			time.Sleep(3 * time.Millisecond)
		drain:
			for {
				select {
				case st := <-r.stores:
					r.pending = append(r.pending, st)
				default:
					break drain
				}
			}
			for i := len(r.pending) - 1; i >= 0; i-- {
				r.answer(r.pending[i], "ok")
			}
			r.pending = nil
		}
	}()
	if stopping {
		select {
		case <-r.stopRet:
			stopped = true
		case <-time.After(c40Wait):
			r.fail("violation", "stop-stuck", "completion: shards.stop does not return")
		}
	}
	if stopped && !final {
		r.newShardGates(0)
		r.qm.shards.start(1)
	}
	if !final {
		select {
		case appended = <-r.appRet:
		case <-time.After(c40Wait):
			r.fail("violation", "append-stuck", "completion: Append does not return although the shards are running")
		}
		_ = appended
		r.newShardGates(0)
		done := make(chan struct{})
		go func() { r.qm.shards.stop(); close(done) }()
		select {
		case <-done:
		case <-time.After(c40Wait):
			r.fail("violation", "stop-stuck", "completion: final shards.stop does not return")
		}
	} else {
		select {
		case <-r.appRet:
		case <-time.After(c40Wait):
			r.fail("violation", "append-stuck", "completion: Append did not return")
		}
	}
	close(quit)
	wg.Wait()
	r.check(follow)
}

// check compares what the endpoint received with the property.
func (r *c40Run) check(followed bool) {
	b := r.b
	dropped := map[string]bool{}
	for _, d := range b.Cfg.Dropped {
		dropped[d] = true
	}
	// expected per series: the kept WAL samples in WAL order, minus the batches failed non-recoverably
	want := map[string][]string{}
	for _, x := range b.Cfg.Wal {
		s := x[0].(string)
		if dropped[s] || r.fatal[x.key()] {
			continue
		}
		want[s] = append(want[s], x.key())
	}
	got := map[string][]string{}
	seen := map[string]int{}
	for _, k := range r.recv {
		s := strings.SplitN(k, "#", 2)[0]
		got[s] = append(got[s], k)
		seen[k]++
		if dropped[s] {
			r.fail("violation", "dropped-series-sent", fmt.Sprintf("sample %s of a series dropped by write relabelling reached the endpoint", k))
		}
	}
	for k, n := range seen {
		if n > 1 {
			r.fail("violation", "duplicate", fmt.Sprintf("sample %s was delivered %d times although its batch was never reported as failed after delivery", k, n))
		}
	}
	for s, w := range want {
		g := got[s]
		if strings.Join(g, ",") == strings.Join(w, ",") {
			continue
		}
		sig := "missing"
		if len(g) == len(w) {
			sig = "out-of-order"
		}
		r.fail("violation", sig, fmt.Sprintf("series %s: endpoint received %v, WAL order of the kept samples is %v (all received: %v)", s, g, w, r.recv))
	}
	// complete behaviours carry the spec's prediction of the received log: per series it is strict (that is the
	// property, TLC has checked it on the model), the interleaving of the series in the log is drift-only
	if followed && len(b.Steps) > 0 && b.Steps[len(b.Steps)-1].A == "StopDone" && b.Steps[len(b.Steps)-1].Final {
		pred := map[string][]string{}
		for _, k := range c40Keys(b.Received) {
			sname := strings.SplitN(k, "#", 2)[0]
			pred[sname] = append(pred[sname], k)
		}
		for sname := range b.Cfg.Refs {
			if strings.Join(got[sname], ",") != strings.Join(pred[sname], ",") {
				r.fail("violation", "differs-from-spec", fmt.Sprintf("series %s: endpoint received %v, the specification predicts %v for this schedule", sname, got[sname], pred[sname]))
			}
		}
		if strings.Join(r.recv, ",") != strings.Join(c40Keys(b.Received), ",") {
			r.fail("drift", "", fmt.Sprintf("received log %v differs from the model's %v", r.recv, c40Keys(b.Received)))
		}
	}
}

func TestVerifC40Replay(t *testing.T) {
	behs, err := verifh.ReadNDJSON[c40Beh](verifh.In())
	if err != nil {
		verifh.Infra(err.Error())
		t.Fatal(err)
	}
	verifhook.Set(c40Handler)
	defer verifhook.Set(nil)
	nw := 8
	var mu sync.Mutex
	var wg sync.WaitGroup
	steps, infra := 0, ""
	for wi := 0; wi < nw; wi++ {
		wg.Add(1)
		go func(wi int) {
			defer wg.Done()
			for bi := wi; bi < len(behs); bi += nw {
				r := &c40Run{tag: int64(100000 + bi), b: behs[bi], watcher: c40NewGate(), stores: make(chan *c40Store, 16),
					fatal: map[string]bool{}, stopRet: make(chan struct{}, 2), appRet: make(chan bool, 1)}
				c40Runs.Store(r.tag, r)
				r.replay(t)
				c40Runs.Delete(r.tag)
				mu.Lock()
				steps += len(behs[bi].Steps)
				for _, f := range r.fails {
					switch f.kind {
					case "infra":
						infra = fmt.Sprintf("behaviour %d: %s", bi, f.msg)
					case "drift":
						verifh.Drift(fmt.Sprintf("behaviour %d: %s", bi, f.msg))
					case "violation":
						verifh.Violation(f.sig, fmt.Sprintf("behaviour %d: %s", bi, f.msg), map[string]any{"behaviour": behs[bi]})
					}
				}
				stop := infra != ""
				mu.Unlock()
				if stop {
					return
				}
			}
		}(wi)
	}
	wg.Wait()
	if infra != "" {
		verifh.Infra(infra)
		t.Fatal(infra)
	}
	verifh.Stat(map[string]any{"steps_replayed": steps, "behaviours_replayed": len(behs)})
	verifh.Done(len(behs))
	if verifh.Violations() > 0 {
		t.Fail()
	}
}
