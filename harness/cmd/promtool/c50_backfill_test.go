package main

// C50 conformance harness. Every input line is one terminal state of specs/backfill/Backfill.tla: an input
// (samples with window/position timestamps and value classes, possibly one sample without timestamp),
// the blocks the property demands (`want`: one per aligned block-duration window holding samples, with
// exactly those samples); `got`/`legal` carry what the transcribed algorithm produces (equal to `want` since
// the alignment fix a01d00d164). The harness renders the input as OpenMetrics text, runs the real
// promtool backfill(), opens the output directory and compares every block (time range inside its
// window, series labels, timestamps, values) with `want`.

import (
	"context"
	"fmt"
	"math"
	"math/rand"
	"os"
	"sort"
	"strconv"
	"strings"
	"testing"
	"time"

	"github.com/prometheus/prometheus/internal/verifh"
	"github.com/prometheus/prometheus/model/labels"
	"github.com/prometheus/prometheus/tsdb"
	"github.com/prometheus/prometheus/tsdb/chunkenc"
)

type c50Sample struct {
	S  int64  `json:"s"`
	Ts int64  `json:"ts"`
	V  string `json:"v"`
}

type c50Block struct {
	W       int64       `json:"w"`
	Samples []c50Sample `json:"samples"`
}

type c50Rec struct {
	In       []c50Sample   `json:"in"`
	Missing  c50Sample     `json:"missing"`
	Rejected bool          `json:"rejected"`
	Want     []c50Block    `json:"want"`
	Got      [][]c50Sample `json:"got"`
	Legal    string        `json:"legal"`
}

const c50BD = int64(2 * time.Hour / time.Millisecond) // block duration backfill uses for maxBlockDuration <= 2h

// the OpenMetrics parser computes int64(seconds * 1000): only use millisecond values that survive the text form
func c50Exact(ms int64) bool {
	f, _ := strconv.ParseFloat(c50Secs(ms), 64)
	return int64(f*1000) == ms
}

func c50Secs(ms int64) string { return strconv.FormatFloat(float64(ms)/1000, 'f', 3, 64) }

type c50Conc struct {
	mid    int64 // offset of position 2 inside a window
	same   bool  // both series in one metric family (label variants) instead of two families
	custom map[string]string
	batch  int
	where  int // where the line without timestamp goes
}

func floorDiv(a, b int64) int64 {
	q := a / b
	if a%b != 0 && (a < 0) != (b < 0) {
		q--
	}
	return q
}

func (c c50Conc) ms(ts int64) int64 {
	w := floorDiv(ts, 4)
	p := ts - 4*w
	base := w * c50BD
	var ms int64
	switch p {
	case 0:
		ms = base
	case 1:
		ms = base + 1
	case 2:
		ms = base + c.mid
	default:
		ms = base + c50BD - 1
	}
	// stay inside the window and inside the exactly representable values, keeping the order of positions
	for !c50Exact(ms) && ms > base+1 {
		ms--
	}
	return ms
}

func (c c50Conc) labels(s int64) labels.Labels {
	b := labels.NewBuilder(labels.EmptyLabels())
	if c.same {
		b.Set("__name__", "c50_metric")
		b.Set("variant", fmt.Sprint(s))
	} else {
		b.Set("__name__", fmt.Sprintf("c50_metric_%d", s))
		b.Set("job", "j")
	}
	for k, v := range c.custom {
		b.Set(k, v)
	}
	return b.Labels()
}

func (c c50Conc) line(s int64, v string, ts *int64) string {
	var name string
	if c.same {
		name = fmt.Sprintf(`c50_metric{variant="%d"}`, s)
	} else {
		name = fmt.Sprintf(`c50_metric_%d{job="j"}`, s)
	}
	val := map[string]string{"1": "1", "2": "2.5", "NaN": "NaN", "+Inf": "+Inf", "-Inf": "-Inf"}[v]
	if ts == nil {
		return name + " " + val + "\n"
	}
	return name + " " + val + " " + c50Secs(*ts) + "\n"
}

func c50Val(v string) float64 {
	switch v {
	case "2":
		return 2.5
	case "NaN":
		return math.NaN()
	case "+Inf":
		return math.Inf(1)
	case "-Inf":
		return math.Inf(-1)
	}
	return 1
}

func (c c50Conc) text(rec *c50Rec) string {
	bySeries := map[int64][]c50Sample{}
	var ids []int64
	for _, x := range rec.In {
		if _, ok := bySeries[x.S]; !ok {
			ids = append(ids, x.S)
		}
		bySeries[x.S] = append(bySeries[x.S], x)
	}
	if rec.Missing.S != 0 {
		if _, ok := bySeries[rec.Missing.S]; !ok {
			ids = append(ids, rec.Missing.S)
			bySeries[rec.Missing.S] = nil
		}
	}
	sort.Slice(ids, func(i, j int) bool { return ids[i] < ids[j] })
	var sb strings.Builder
	emit := func(s int64) {
		xs := bySeries[s]
		sort.Slice(xs, func(i, j int) bool { return xs[i].Ts < xs[j].Ts })
		pos := -1
		if rec.Missing.S == s {
			pos = c.where % (len(xs) + 1)
		}
		for i, x := range xs {
			if i == pos {
				sb.WriteString(c.line(s, rec.Missing.V, nil))
			}
			ms := c.ms(x.Ts)
			sb.WriteString(c.line(s, x.V, &ms))
		}
		if pos == len(xs) {
			sb.WriteString(c.line(s, rec.Missing.V, nil))
		}
	}
	if c.same {
		sb.WriteString("# TYPE c50_metric gauge\n")
		// one family: the samples of all label variants interleaved in time order
		type ln struct {
			ts int64
			s  string
		}
		var lines []ln
		for _, s := range ids {
			start := sb.Len()
			emit(s)
			chunk := sb.String()[start:]
			for i, l := range strings.SplitAfter(chunk, "\n") {
				if l == "" {
					continue
				}
				key := int64(math.MinInt64) + int64(i)
				f := strings.Fields(l)
				if len(f) == 3 {
					sec, _ := strconv.ParseFloat(f[2], 64)
					key = int64(sec * 1000)
				} else if i > 0 {
					key = lines[len(lines)-1].ts
				}
				lines = append(lines, ln{key, l})
			}
			s2 := sb.String()[:start]
			sb.Reset()
			sb.WriteString(s2)
		}
		sort.SliceStable(lines, func(i, j int) bool { return lines[i].ts < lines[j].ts })
		for _, l := range lines {
			sb.WriteString(l.s)
		}
	} else {
		for _, s := range ids {
			sb.WriteString(fmt.Sprintf("# TYPE c50_metric_%d gauge\n", s))
			emit(s)
		}
	}
	sb.WriteString("# EOF\n")
	return sb.String()
}

type c50Got struct {
	mint, maxt int64
	samples    []string // "labels|ts|value", sorted
}

func c50Key(l labels.Labels, ts int64, v float64) string {
	vs := strconv.FormatFloat(v, 'g', -1, 64)
	if math.IsNaN(v) {
		vs = "NaN"
	}
	return l.String() + "|" + fmt.Sprint(ts) + "|" + vs
}

func c50Read(dir string) ([]c50Got, error) {
	db, err := tsdb.OpenDBReadOnly(dir, "", nil)
	if err != nil {
		return nil, err
	}
	defer db.Close()
	blocks, err := db.Blocks()
	if err != nil {
		return nil, err
	}
	var res []c50Got
	for _, b := range blocks {
		g := c50Got{mint: b.Meta().MinTime, maxt: b.Meta().MaxTime}
		q, err := tsdb.NewBlockQuerier(b, math.MinInt64, math.MaxInt64)
		if err != nil {
			return nil, err
		}
		ss := q.Select(context.Background(), true, nil, labels.MustNewMatcher(labels.MatchRegexp, "__name__", ".*"))
		for ss.Next() {
			s := ss.At()
			it := s.Iterator(nil)
			for vt := it.Next(); vt != chunkenc.ValNone; vt = it.Next() {
				if vt != chunkenc.ValFloat {
					return nil, fmt.Errorf("unexpected value type %v", vt)
				}
				ts, v := it.At()
				g.samples = append(g.samples, c50Key(s.Labels(), ts, v))
			}
			if it.Err() != nil {
				return nil, it.Err()
			}
		}
		if ss.Err() != nil {
			return nil, ss.Err()
		}
		q.Close()
		sort.Strings(g.samples)
		res = append(res, g)
	}
	sort.Slice(res, func(i, j int) bool { return res[i].mint < res[j].mint })
	return res, nil
}

func (c c50Conc) expect(xs []c50Sample) []string {
	var r []string
	for _, x := range xs {
		r = append(r, c50Key(c.labels(x.S), c.ms(x.Ts), c50Val(x.V)))
	}
	sort.Strings(r)
	return r
}

// matches reports whether the real blocks are exactly the given list of sample sets (in time order).
func (c c50Conc) matches(got []c50Got, want [][]c50Sample) bool {
	if len(got) != len(want) {
		return false
	}
	for i := range got {
		e := c.expect(want[i])
		if len(e) != len(got[i].samples) {
			return false
		}
		for k := range e {
			if e[k] != got[i].samples[k] {
				return false
			}
		}
	}
	return true
}

func TestVerifC50Backfill(t *testing.T) {
	recs, err := verifh.ReadNDJSON[c50Rec](verifh.In())
	if err != nil {
		verifh.Infra(err.Error())
		t.Fatal(err)
	}
	rnd := rand.New(rand.NewSource(verifh.Seed()))
	nblocks := 0
	for ri := range recs {
		rec := &recs[ri]
		c := c50Conc{mid: []int64{c50BD / 2, 1234, c50BD - 2, 3_600_001}[rnd.Intn(4)], same: rnd.Intn(2) == 0,
			batch: []int{1, 2, 5000}[rnd.Intn(3)], where: rnd.Intn(8)}
		if rnd.Intn(3) == 0 {
			c.custom = map[string]string{"backfilled": "yes"}
		}
		input := c.text(rec)
		dir := t.TempDir()
		cs := map[string]any{"record": rec, "input": input, "mid": c.mid, "batch": c.batch, "custom": c.custom}
		err := backfill(c.batch, []byte(input), dir, false, true, 2*time.Hour, c.custom)
		if rec.Rejected {
			des, _ := os.ReadDir(dir)
			if err == nil || len(des) > 0 {
				verifh.Violation("not-rejected", fmt.Sprintf("record %d: input with a sample without timestamp: err=%v, %d entries written", ri, err, len(des)), cs)
			}
			continue
		}
		if err != nil {
			verifh.Violation("backfill-error", fmt.Sprintf("record %d: backfill failed: %v", ri, err), cs)
			continue
		}
		got, err := c50Read(dir)
		if err != nil {
			verifh.Violation("output-unreadable", fmt.Sprintf("record %d: %v", ri, err), cs)
			continue
		}
		nblocks += len(got)
		// every block inside one aligned window of the block duration
		for _, g := range got {
			w := floorDiv(g.mint, c50BD)
			if g.maxt-1 < g.mint || floorDiv(g.maxt-1, c50BD) != w {
				verifh.Violation("block-not-aligned", fmt.Sprintf("record %d: block [%d,%d) crosses a %d ms boundary", ri, g.mint, g.maxt, c50BD), cs)
			}
		}
		var want [][]c50Sample
		for _, b := range rec.Want {
			want = append(want, b.Samples)
		}
		if c.matches(got, want) {
			continue
		}
		desc := fmt.Sprintf("record %d: backfill wrote %d blocks %v, the input demands %d blocks %v", ri, len(got), got, len(want), want)
		// (the signature distinguishes the regression of the fixed finding KF-C50-1: samples below zero missing)
		sig := "blocks-differ"
		if len(rec.In) > 0 && rec.In[0].Ts < 0 && len(got) < len(want) {
			sig = "blocks-differ:negative-timestamps-dropped"
		}
		verifh.Violation(sig, desc, cs)
		if verifh.Violations() > 40 {
			break
		}
	}
	verifh.Stat(map[string]any{"blocks_read": nblocks})
	verifh.Done(len(recs))
	if verifh.Violations() > 0 {
		t.Fail()
	}
}
