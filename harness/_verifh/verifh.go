// Package verifh is the shared helper of the /verif conformance harnesses.
// It is injected into the repository with `go test -overlay` (it never exists
// on disk under /repo). Harnesses report through ndjson records appended to
// $VERIF_OUT; the python driver turns them into the verdict.
package verifh

import (
	"bufio"
	"encoding/json"
	"fmt"
	"os"
	"strconv"
	"sync"
)

var (
	mu  sync.Mutex
	out *os.File
)

func emit(rec map[string]any) {
	mu.Lock()
	defer mu.Unlock()
	if out == nil {
		p := os.Getenv("VERIF_OUT")
		if p == "" {
			p = os.DevNull
		}
		f, err := os.OpenFile(p, os.O_CREATE|os.O_WRONLY|os.O_APPEND, 0o644)
		if err != nil {
			panic(err)
		}
		out = f
	}
	b, err := json.Marshal(rec)
	if err != nil {
		b, _ = json.Marshal(map[string]any{"kind": "infra", "msg": "unmarshalable record: " + err.Error()})
	}
	out.Write(append(b, '\n'))
}

var (
	nviol   int
	violSig = map[string]int{}
)

// Violation records behaviour of the real code that contradicts the property.
// sig is a short stable signature (used to match known findings). At most 5 records per
// signature and 300 in total are written, so a flood of one kind cannot hide another kind.
func Violation(sig, msg string, c any) {
	mu.Lock()
	nviol++
	violSig[sig]++
	n, k := nviol, violSig[sig]
	mu.Unlock()
	if k > 5 || n > 300 {
		return
	}
	emit(map[string]any{"kind": "violation", "sig": sig, "msg": msg, "case": c})
}

var devSeen = map[string]int{}

// Deviation records that the real code took a *named* deviation from the property that the
// model knows about (a known finding). It does not count towards Violations(); the driver
// turns it into a KNOWN-FINDING line when known_findings.json lists an open finding whose
// signature matches, and into a VIOLATION otherwise. At most 3 records per signature.
func Deviation(sig, msg string, c any) {
	mu.Lock()
	devSeen[sig]++
	n := devSeen[sig]
	mu.Unlock()
	if n > 3 {
		return
	}
	emit(map[string]any{"kind": "deviation", "sig": sig, "msg": msg, "case": c})
}

// Violations returns the number of violations reported so far.
func Violations() int { mu.Lock(); defer mu.Unlock(); return nviol }

// Drift records a difference between the code and an implementation-shaped
// detail of the model that the property does not fix.
func Drift(msg string) { emit(map[string]any{"kind": "drift", "msg": msg}) }

// Infra records a harness problem (never a verdict).
func Infra(msg string) { emit(map[string]any{"kind": "infra", "msg": msg}) }

// Stat merges numeric counters / values into the evidence file.
func Stat(kv map[string]any) {
	r := map[string]any{"kind": "stat"}
	for k, v := range kv {
		r[k] = v
	}
	emit(r)
}

// Sample stores one explored case verbatim in the evidence file.
func Sample(c any) { emit(map[string]any{"kind": "sample", "case": c}) }

// Done must be called once at the end with the number of behaviours/traces
// checked against the implementation.
func Done(n int) { emit(map[string]any{"kind": "done", "n": n}) }

// Seed returns $VERIF_SEED (default 1).
func Seed() int64 {
	v, err := strconv.ParseInt(os.Getenv("VERIF_SEED"), 10, 64)
	if err != nil {
		return 1
	}
	return v
}

// Quick reports whether the quick tier is running.
func Quick() bool { return os.Getenv("VERIF_TIER") != "thorough" }

// In returns the path in $VERIF_IN.
func In() string { return os.Getenv("VERIF_IN") }

// ReadNDJSON decodes every line of path into a T.
func ReadNDJSON[T any](path string) ([]T, error) {
	f, err := os.Open(path)
	if err != nil {
		return nil, err
	}
	defer f.Close()
	var res []T
	sc := bufio.NewScanner(f)
	sc.Buffer(make([]byte, 1<<20), 1<<28)
	ln := 0
	for sc.Scan() {
		ln++
		b := sc.Bytes()
		if len(b) == 0 {
			continue
		}
		var v T
		if err := json.Unmarshal(b, &v); err != nil {
			return nil, fmt.Errorf("%s:%d: %w", path, ln, err)
		}
		res = append(res, v)
	}
	return res, sc.Err()
}

// Tracer collects ordered events for trace validation. Events get a global
// sequence number under the tracer's own lock; call Event while still holding
// the lock that protects the state change being reported.
type Tracer struct {
	mu  sync.Mutex
	seq int64
	w   *bufio.Writer
	f   *os.File
}

// NewTracer writes ndjson events to path.
func NewTracer(path string) (*Tracer, error) {
	f, err := os.Create(path)
	if err != nil {
		return nil, err
	}
	return &Tracer{f: f, w: bufio.NewWriterSize(f, 1<<16)}, nil
}

// Event appends one event; fields must be JSON-marshalable.
func (t *Tracer) Event(ev string, fields map[string]any) {
	t.mu.Lock()
	defer t.mu.Unlock()
	t.seq++
	r := map[string]any{"e": ev, "seq": t.seq}
	for k, v := range fields {
		r[k] = v
	}
	b, _ := json.Marshal(r)
	t.w.Write(b)
	t.w.WriteByte('\n')
}

// Close flushes the trace.
func (t *Tracer) Close() error {
	t.mu.Lock()
	defer t.mu.Unlock()
	t.w.Flush()
	return t.f.Close()
}
