package tsdb_test

// C03 — acknowledged writes survive a process crash at any point.
//
// Binding of specs/crash/Crash.tla to the real storage layer:
//
//	(R) every behaviour emitted by TLC is a Db.tla-style workload followed by a Crash record
//	    (site, hit) and the model's prediction of the recovered contents.  The workload is run by a
//	    CHILD PROCESS (this test binary re-executed with -test.run ^TestVerifC03Child$) against a
//	    real tsdb.DB; the child appends a line to an ack log before and after every operation and a
//	    verifhook handler SIGKILLs it at the hit-th arrival at the site.  The parent reopens the
//	    directory with the same options and checks the property with the ack log as `acked`:
//	    Open succeeds; acked ⊆ contents ⊆ acked ∪ in-flight; values unaltered; a sample that was
//	    never committed does not appear; acknowledged deletions are reflected; the recovered DB
//	    accepts new writes and keeps them over a clean restart.
//	    Besides the crash points chosen by TLC the parent enumerates the crash points of the real
//	    hook trace of a dry run of every workload ((site, hit) pairs, budgeted) and, in the thorough
//	    tier, random-time kills.  Second crashes during recovery (the Recover program of the spec)
//	    are executed by a second child that only opens the directory.
//	(T) the hook trace of a dry run, projected on the sites the spec models and cut per operation,
//	    is compared with the trace predicted by the spec for the same workload (model drift if not
//	    equal: the design verified by TLC is then not the design of the code).

import (
	"bufio"
	"context"
	"encoding/json"
	"fmt"
	"log/slog"
	"math"
	"os"
	"os/exec"
	"path/filepath"
	"sort"
	"strconv"
	"strings"
	"sync"
	"sync/atomic"
	"syscall"
	"testing"
	"time"

	"github.com/prometheus/prometheus/internal/verifh"
	"github.com/prometheus/prometheus/model/histogram"
	"github.com/prometheus/prometheus/model/labels"
	"github.com/prometheus/prometheus/model/value"
	"github.com/prometheus/prometheus/storage"
	"github.com/prometheus/prometheus/tsdb"
	"github.com/prometheus/prometheus/util/verifhook"
)

type c03Step struct {
	cdbStep
	// Init
	Seg  int      `json:"seg"`  // WAL segment size in pages (0 = default)
	Bigs []string `json:"bigs"` // series whose label set is bigger than a WAL page
	Snap bool     `json:"snap"` // run with EnableMemorySnapshotOnShutdown
	// Crash
	Site  string   `json:"site"`
	Hit   int      `json:"hit"`
	Ops   int      `json:"ops"`   // number of operations completed (acknowledged) before the crash, as the model sees it
	Infl  string   `json:"infl"`  // kind of the operation in flight ("" = none)
	Trace []string `json:"trace"` // predicted hook trace (modelled sites) of the crashed process, "op:<i>" markers included
	// Crash: predicted contents after recovery; Recover: the same after a second crash
	Must map[string][]cdbExp `json:"must"`
	May  map[string][]cdbExp `json:"may"`
	// Crash: a second crash, during recovery
	Site2 string `json:"site2"`
	Hit2  int    `json:"hit2"`
	// End / Crash: known findings whose trigger Crash.tla marked in this behaviour (KF-C03-3 is only accepted there)
	Ckf []string `json:"ckf"`
}

func c03HasKF(l []string, id string) bool {
	for _, x := range l {
		if x == id {
			return true
		}
	}
	return false
}

// c03Spec is what a child process is told to do.
type c03Spec struct {
	Mode     string    `json:"mode"` // "run" (workload) or "open" (recovery only)
	Dir      string    `json:"dir"`
	W        []c03Step `json:"w"`
	Seed     int64     `json:"seed"`
	KillSite string    `json:"kill_site"`
	KillHit  int       `json:"kill_hit"`
	Ack      string    `json:"ack"`
	TraceOut string    `json:"trace_out"`
}

const c03Pad = 36 * 1024

func c03Labels(s string, bigs []string) labels.Labels {
	for _, b := range bigs {
		if b == s {
			return labels.FromStrings("__name__", "m", "series", s, "pad", strings.Repeat("x", c03Pad))
		}
	}
	return cdbLabels(s)
}

func c03Options(c cdbConc, init c03Step) *tsdb.Options {
	o := cdbOptions(c, init.W, init.Cap)
	if init.Seg > 0 {
		o.WALSegmentSize = init.Seg * 32 * 1024
	}
	return o
}

func c03Conc(seed int64, init c03Step) cdbConc {
	c := cdbMakeConc(seed, init.R, false)
	// EnableMemorySnapshotOnShutdown for every other workload. The snapshot itself is opaque to Crash.tla: its sites
	// inside Head.Close are removed from the trace before the comparison (c03DropSnapshot), the kills inside it stay.
	c.Snapshot = seed%2 == 1 || init.Snap
	c.STStorage = false
	return c
}

// ---------------------------------------------------------------------------------------------
// child

// c03Sites whose handler events are composed with the kind of write log they belong to.
func c03SiteName(site string, kv []int64) string {
	if strings.HasPrefix(site, "wlog.") && len(kv) >= 2 {
		switch {
		case kv[1] >= 0:
			return site + "/tmp"
		case kv[0] >= 0:
			return site + "/wbl"
		}
		return site + "/wal"
	}
	return site
}

type c03Child struct {
	mu    sync.Mutex
	trace *os.File
	ack   *os.File
	hits  map[string]int
	spec  c03Spec
	dead  bool
}

func (c *c03Child) die(why string) {
	// written bytes survive a process kill; nothing is flushed or closed
	c.trace.WriteString("KILL " + why + "\n")
	c.dead = true
	syscall.Kill(os.Getpid(), syscall.SIGKILL)
	select {} // never returns; c.mu stays locked so that every other goroutine stops at its next hook site
}

func (c *c03Child) handler(site string, kv ...int64) {
	name := c03SiteName(site, kv)
	c.mu.Lock()
	c.hits[name]++
	n := c.hits[name]
	var sb strings.Builder
	sb.WriteString(name)
	for _, v := range kv {
		sb.WriteByte(' ')
		sb.WriteString(strconv.FormatInt(v, 10))
	}
	sb.WriteByte('\n')
	c.trace.WriteString(sb.String())
	if name == c.spec.KillSite && n == c.spec.KillHit {
		c.die(fmt.Sprintf("%s %d", name, n))
	}
	c.mu.Unlock()
}

func (c *c03Child) mark(s string) {
	c.mu.Lock()
	c.trace.WriteString(s + "\n")
	c.mu.Unlock()
}

func (c *c03Child) ackLine(s string) {
	c.ack.WriteString(s + "\n")
	c.ack.Sync()
}

// c03Runner executes the calls of a Db.tla-style workload on a real DB.
type c03Runner struct {
	db   *tsdb.DB
	dir  string
	opts *tsdb.Options
	conc cdbConc
	init c03Step
	apps map[string]any
	rej  map[string]bool
}

func (r *c03Runner) do(s c03Step, onClosed func()) error {
	ctx := context.Background()
	conc, db := r.conc, r.db
	switch s.A {
	case "NewAppender":
		if s.Api == "v2" {
			r.apps[s.App] = db.AppenderV2(ctx)
		} else {
			a := db.Appender(ctx)
			if s.Rej {
				a.SetOptions(&storage.AppendOptions{DiscardOutOfOrder: true})
			}
			r.apps[s.App] = a
		}
		r.rej[s.App] = s.Rej
	case "Append":
		ls := c03Labels(s.Ser, r.init.Bigs)
		tm := conc.tm(s.T)
		var f float64
		var h *histogram.Histogram
		var fh *histogram.FloatHistogram
		switch {
		case s.Ty == "f" && s.V == 0:
			f = math.Float64frombits(value.StaleNaN)
		case s.Ty == "f":
			f = conc.Floats[s.V]
		case s.Ty == "h" && s.V == 0:
			h = &histogram.Histogram{Sum: math.Float64frombits(value.StaleNaN)}
		case s.Ty == "h":
			h = cdbHist(s.V)
		case s.V == 0:
			fh = &histogram.FloatHistogram{Sum: math.Float64frombits(value.StaleNaN)}
		default:
			fh = cdbFloatHist(s.V)
		}
		var err error
		switch a := r.apps[s.App].(type) {
		case storage.AppenderV2:
			_, err = a.Append(0, ls, 0, tm, f, h, fh, storage.AOptions{RejectOutOfOrder: r.rej[s.App]})
		case storage.Appender:
			if s.Ty == "f" {
				_, err = a.Append(0, ls, tm, f)
			} else {
				_, err = a.AppendHistogram(0, ls, tm, h, fh)
			}
		default:
			return fmt.Errorf("append on unknown appender")
		}
		if got := cdbErrClass(err); got != s.Ret {
			// the admission rules are C02's subject; a workload that does not run as generated is useless here
			return fmt.Errorf("Append returned %q, workload expects %q", got, s.Ret)
		}
	case "Commit", "Rollback":
		var err error
		switch a := r.apps[s.App].(type) {
		case storage.AppenderV2:
			if s.A == "Commit" {
				err = a.Commit()
			} else {
				err = a.Rollback()
			}
		case storage.Appender:
			if s.A == "Commit" {
				err = a.Commit()
			} else {
				err = a.Rollback()
			}
		}
		delete(r.apps, s.App)
		if err != nil {
			return fmt.Errorf("%s: %w", s.A, err)
		}
	case "Delete":
		var names []string
		if l, ok := s.S.([]any); ok {
			for _, x := range l {
				names = append(names, x.(string))
			}
		}
		sort.Strings(names)
		m := labels.MustNewMatcher(labels.MatchRegexp, "series", strings.Join(names, "|"))
		if err := db.Delete(ctx, conc.tm(s.Lo), conc.tm(s.Hi), m); err != nil {
			return fmt.Errorf("Delete: %w", err)
		}
	case "Compact":
		if err := db.Compact(ctx); err != nil {
			return fmt.Errorf("Compact: %w", err)
		}
	case "CompactOOO":
		if err := db.CompactOOOHead(ctx); err != nil {
			return fmt.Errorf("CompactOOOHead: %w", err)
		}
	case "CleanTombstones":
		if err := db.CleanTombstones(); err != nil {
			return fmt.Errorf("CleanTombstones: %w", err)
		}
	case "Mmap":
		db.ForceHeadMMap()
	case "Reopen":
		if err := db.Close(); err != nil {
			return fmt.Errorf("Close: %w", err)
		}
		if onClosed != nil {
			onClosed()
		}
		ndb, err := tsdb.Open(r.dir, nil, nil, r.opts, nil)
		if err != nil {
			return fmt.Errorf("Open: %w", err)
		}
		ndb.DisableCompactions()
		r.db = ndb
	default:
		return fmt.Errorf("unknown action %s", s.A)
	}
	return nil
}

// TestVerifC03Child is the crash victim: it only runs when re-executed by TestVerifC03Crash.
func TestVerifC03Child(t *testing.T) {
	p := os.Getenv("C03_CHILD_SPEC")
	if p == "" {
		t.Skip("child of TestVerifC03Crash")
	}
	raw, err := os.ReadFile(p)
	if err != nil {
		fmt.Println("C03CHILD-INFRA read spec:", err)
		os.Exit(3)
	}
	var spec c03Spec
	if err := json.Unmarshal(raw, &spec); err != nil {
		fmt.Println("C03CHILD-INFRA parse spec:", err)
		os.Exit(3)
	}
	c := &c03Child{hits: map[string]int{}, spec: spec}
	if c.trace, err = os.OpenFile(spec.TraceOut, os.O_CREATE|os.O_WRONLY|os.O_APPEND, 0o644); err != nil {
		fmt.Println("C03CHILD-INFRA", err)
		os.Exit(3)
	}
	if c.ack, err = os.OpenFile(spec.Ack, os.O_CREATE|os.O_WRONLY|os.O_APPEND, 0o644); err != nil {
		fmt.Println("C03CHILD-INFRA", err)
		os.Exit(3)
	}
	verifhook.Set(c.handler)
	init := spec.W[0]
	conc := c03Conc(spec.Seed, init)
	opts := c03Options(conc, init)
	db, err := tsdb.Open(spec.Dir, nil, nil, opts, nil)
	if err != nil {
		c.ackLine("OPENERR " + strings.ReplaceAll(err.Error(), "\n", " "))
		os.Exit(4)
	}
	db.DisableCompactions()
	c.ackLine("OPENED")
	if spec.Mode == "open" {
		c.mu.Lock()
		c.die("opened")
	}
	r := &c03Runner{db: db, dir: spec.Dir, opts: opts, conc: conc, init: init, apps: map[string]any{}, rej: map[string]bool{}}
	for i := 1; i < len(spec.W); i++ {
		s := spec.W[i]
		if s.A == "Crash" || s.A == "Recover" || s.A == "End" || s.A == "Close" || s.A == "Damage" {
			break
		}
		c.mark(fmt.Sprintf("op:%d:%s", i, s.A))
		c.ackLine(fmt.Sprintf("B %d %s", i, s.A))
		if err := r.do(s, func() { c.mark("closed") }); err != nil {
			c.ackLine(fmt.Sprintf("E %d %s", i, strings.ReplaceAll(err.Error(), "\n", " ")))
			os.Exit(5)
		}
		c.ackLine(fmt.Sprintf("A %d %s", i, s.A))
	}
	c.ackLine("END")
	c.mu.Lock()
	c.die("end")
}

// ---------------------------------------------------------------------------------------------
// parent

type c03Run struct {
	acked    int    // index of the last acknowledged operation (0 = none)
	inflight int    // index of the operation begun and not acknowledged (0 = none)
	inflA    string // its action
	ended    bool
	opened   bool
	errLine  string
	trace    []string // child's hook trace lines
	killed   string   // KILL line
	exit     string
}

var c03Exe = sync.OnceValue(func() string {
	p, err := os.Executable()
	if err != nil {
		return os.Args[0]
	}
	return p
})

func c03RunChild(spec c03Spec, scratch string, tag string, randomKill time.Duration) (*c03Run, error) {
	spec.Ack = filepath.Join(scratch, tag+".ack")
	spec.TraceOut = filepath.Join(scratch, tag+".trace")
	sp := filepath.Join(scratch, tag+".spec.json")
	raw, _ := json.Marshal(spec)
	if err := os.WriteFile(sp, raw, 0o644); err != nil {
		return nil, err
	}
	cmd := exec.Command(c03Exe(), "-test.run", "^TestVerifC03Child$", "-test.count=1")
	cmd.Env = append(os.Environ(), "C03_CHILD_SPEC="+sp, "VERIF_OUT="+os.DevNull)
	var out strings.Builder
	cmd.Stdout = &out
	cmd.Stderr = &out
	if err := cmd.Start(); err != nil {
		return nil, err
	}
	done := make(chan error, 1)
	go func() { done <- cmd.Wait() }()
	var werr error
	if randomKill > 0 {
		select {
		case werr = <-done:
		case <-time.After(randomKill):
			cmd.Process.Kill()
			werr = <-done
		}
	} else {
		select {
		case werr = <-done:
		case <-time.After(120 * time.Second):
			cmd.Process.Kill()
			<-done
			return nil, fmt.Errorf("child %s hung; output: %s", tag, out.String())
		}
	}
	r := &c03Run{}
	if werr != nil {
		r.exit = werr.Error()
	}
	if f, err := os.Open(spec.Ack); err == nil {
		sc := bufio.NewScanner(f)
		sc.Buffer(make([]byte, 1<<16), 1<<24)
		for sc.Scan() {
			l := sc.Text()
			fs := strings.SplitN(l, " ", 3)
			switch fs[0] {
			case "OPENED":
				r.opened = true
			case "B":
				r.inflight, _ = strconv.Atoi(fs[1])
				r.inflA = fs[2]
			case "A":
				r.acked, _ = strconv.Atoi(fs[1])
				r.inflight, r.inflA = 0, ""
			case "END":
				r.ended = true
			case "E", "OPENERR":
				r.errLine = l
			}
		}
		f.Close()
	}
	if f, err := os.Open(spec.TraceOut); err == nil {
		sc := bufio.NewScanner(f)
		sc.Buffer(make([]byte, 1<<16), 1<<24)
		for sc.Scan() {
			l := sc.Text()
			if strings.HasPrefix(l, "KILL ") {
				r.killed = l[5:]
				continue
			}
			r.trace = append(r.trace, l)
		}
		f.Close()
	}
	if r.errLine == "" && r.killed == "" && randomKill == 0 {
		return r, fmt.Errorf("child %s neither killed nor failed (exit %q): %s", tag, r.exit, out.String())
	}
	return r, nil
}

// contents as series -> t -> sample
type c03Contents map[string]map[int64]cdbSample

// c03Query returns the contents seen by the sample querier and by the chunk querier (where the same timestamp was
// written in order and out of order with different values either value is legitimate, so the two may differ).
func c03Query(db cdbQueryable) (c03Contents, c03Contents, error) {
	res := [2]c03Contents{}
	for qi, chunk := range []bool{false, true} {
		got, err := cdbQuery(db, math.MinInt64, math.MaxInt64, chunk)
		if err != nil {
			return nil, nil, err
		}
		cur := c03Contents{}
		for name, smp := range got {
			m := map[int64]cdbSample{}
			for i, x := range smp {
				if i > 0 && smp[i-1].T >= x.T {
					return nil, nil, fmt.Errorf("series %s not strictly increasing in time (chunkq=%v): %v", name, chunk, smp)
				}
				m[x.T] = x
			}
			if len(m) > 0 {
				cur[name] = m
			}
		}
		res[qi] = cur
	}
	// both queriers must return the same timestamps
	if a, b := c03FmtTs(res[0]), c03FmtTs(res[1]); a != b {
		return nil, nil, fmt.Errorf("sample querier and chunk querier disagree on the timestamps: %s vs %s", c03Fmt(res[0]), c03Fmt(res[1]))
	}
	return res[0], res[1], nil
}

func c03FmtTs(c c03Contents) string {
	var names []string
	for n := range c {
		names = append(names, n)
	}
	sort.Strings(names)
	var sb strings.Builder
	for _, n := range names {
		var ts []int64
		for t := range c[n] {
			ts = append(ts, t)
		}
		sort.Slice(ts, func(i, j int) bool { return ts[i] < ts[j] })
		fmt.Fprintf(&sb, "%s:%v ", n, ts)
	}
	return sb.String()
}

func c03Fmt(c c03Contents) string {
	var names []string
	for n := range c {
		names = append(names, n)
	}
	sort.Strings(names)
	var sb strings.Builder
	for _, n := range names {
		var ts []int64
		for t := range c[n] {
			ts = append(ts, t)
		}
		sort.Slice(ts, func(i, j int) bool { return ts[i] < ts[j] })
		sb.WriteString(n + ":")
		for _, t := range ts {
			sb.WriteString(c[n][t].String())
		}
		sb.WriteString(" ")
	}
	return sb.String()
}

func c03ExpFmt(c cdbConc, e map[string][]cdbExp) string {
	var names []string
	for n := range e {
		names = append(names, n)
	}
	sort.Strings(names)
	var sb strings.Builder
	for _, n := range names {
		if len(e[n]) == 0 {
			continue
		}
		sb.WriteString(n + ":" + cdbFmtExp(c, e[n]) + " ")
	}
	return sb.String()
}

// c03Bounds checks lower ⊆ got ⊆ upper (upper = union of the alternatives of `upper1` and `upper2`), values included.
// Returns a signature and message, "" if fine.
func c03Bounds(c cdbConc, got c03Contents, lower map[string][]cdbExp, uppers ...map[string][]cdbExp) (string, string) {
	sig, msg, _, _ := c03BoundsX(c, got, lower, uppers...)
	return sig, msg
}

// c03BoundsX is c03Bounds returning also the series and timestamp of the offending sample.
func c03BoundsX(c cdbConc, got c03Contents, lower map[string][]cdbExp, uppers ...map[string][]cdbExp) (string, string, string, int64) {
	for name, l := range lower {
		for _, e := range l {
			g, ok := got[name][c.tm(e.T)]
			if !ok {
				return "acked-sample-lost", fmt.Sprintf("series %s: sample at t=%d (model %d, one of %v) was acknowledged before the crash and is gone", name, c.tm(e.T), e.T, e.Alts), name, c.tm(e.T)
			}
			_ = g
		}
	}
	for name, m := range got {
		for t, g := range m {
			found, tsKnown := false, false
			for _, up := range uppers {
				for _, e := range up[name] {
					if c.tm(e.T) != t {
						continue
					}
					tsKnown = true
					for _, a := range e.Alts {
						if c.matches(g, a) {
							found = true
						}
					}
				}
			}
			if !found {
				if tsKnown {
					return "altered-value", fmt.Sprintf("series %s: sample %v has a value that was never written at that timestamp", name, g), name, t
				}
				return "phantom-sample", fmt.Sprintf("series %s: sample %v is neither acknowledged nor part of the commit in flight (deleted, rejected, rolled back or never appended)", name, g), name, t
			}
		}
	}
	return "", "", "", 0
}

// c03WasCommitted: sample g of series name was part of the acknowledged contents after some operation <= upto.
func c03WasCommitted(c cdbConc, w []c03Step, upto int, name string, g cdbSample) bool {
	for i := 1; i <= upto && i < len(w); i++ {
		for _, e := range w[i].Exp[name] {
			if c.tm(e.T) != g.T {
				continue
			}
			for _, a := range e.Alts {
				if c.matches(g, a) {
					return true
				}
			}
		}
	}
	return false
}

// c03NoBlockAbove: no persisted in-order block has MaxTime > t (Head.Init's minValidTime is at most t).
func c03NoBlockAbove(db *tsdb.DB, t int64) bool {
	for _, b := range db.Blocks() {
		m := b.Meta()
		if !m.Compaction.FromOutOfOrder() && m.MaxTime > t {
			return false
		}
	}
	return true
}

// c03Bad counts the verdicts that are not one of the named deviations of the code (known findings, see Crash.tla CKF):
// only those stop a run early and fail the test; the named ones are matched against known_findings.json by the driver.
var (
	c03Bad    atomic.Int64
	c03KFMu   sync.Mutex
	c03KFSeen = map[string]int{}
)

func c03Report(prefix, sig, msg string, c any) {
	switch {
	case strings.HasSuffix(sig, "wbl-skipped-after-wal-repair"), strings.HasSuffix(sig, "repair-file-left:acked-sample-lost"),
		strings.HasSuffix(sig, "deleted-sample-replayed-from-wal"), strings.HasSuffix(sig, "failed-open-changed-undamaged-data:cp"),
		strings.HasPrefix(sig, "snapshot:") && strings.HasSuffix(sig, "acked-sample-lost"),
		sig == "snapshot-restart-differs-from-wal-restart":
		// at most 3 records per named deviation: verifh.Violation stops writing records of ANY signature after 300 calls
		c03KFMu.Lock()
		c03KFSeen[prefix+sig]++
		n := c03KFSeen[prefix+sig]
		c03KFMu.Unlock()
		if n > 3 {
			return
		}
	default:
		c03Bad.Add(1)
	}
	verifh.Violation(prefix+sig, msg, c)
}

// c03Equal: got == exp exactly (with alternatives).
func c03Equal(c cdbConc, got c03Contents, exp map[string][]cdbExp) bool {
	if sig, _ := c03Bounds(c, got, exp, exp); sig != "" {
		return false
	}
	return true
}

type c03Point struct {
	site string
	hit  int
	// second crash, during recovery
	site2  string
	hit2   int
	rnd    time.Duration
	model  *c03Step // the Crash record of the behaviour this point comes from (nil for points taken from the real trace)
	model2 *c03Step
}

func (p c03Point) String() string {
	s := fmt.Sprintf("%s#%d", p.site, p.hit)
	if p.rnd > 0 {
		s = fmt.Sprintf("random-kill@%v", p.rnd)
	}
	if p.site2 != "" {
		s += fmt.Sprintf(" then %s#%d during recovery", p.site2, p.hit2)
	}
	return s
}

// expAfter returns the predicted contents after operation i (0 = empty DB) of workload w.
func c03ExpAfter(w []c03Step, i int) map[string][]cdbExp {
	for ; i >= 1; i-- {
		if w[i].Exp != nil {
			return w[i].Exp
		}
	}
	return map[string][]cdbExp{}
}

// c03LogWatch is a slog handler that remembers whether tsdb.Open repaired the WAL / WBL.
type c03LogWatch struct {
	mu   sync.Mutex
	msgs []string
}

func (h *c03LogWatch) Enabled(context.Context, slog.Level) bool { return true }
func (h *c03LogWatch) Handle(_ context.Context, r slog.Record) error {
	if strings.Contains(r.Message, "repair") || strings.Contains(r.Message, "Repair") || strings.Contains(r.Message, "orrupt") {
		h.mu.Lock()
		h.msgs = append(h.msgs, r.Message)
		h.mu.Unlock()
	}
	return nil
}
func (h *c03LogWatch) WithAttrs([]slog.Attr) slog.Handler { return h }
func (h *c03LogWatch) WithGroup(string) slog.Handler      { return h }
func (h *c03LogWatch) has(sub string) bool {
	h.mu.Lock()
	defer h.mu.Unlock()
	for _, m := range h.msgs {
		if strings.Contains(m, sub) {
			return true
		}
	}
	return false
}

// c03Verdict is called with the directory left by the crashed child(ren).
func c03Verdict(w []c03Step, seed int64, dir string, run *c03Run, pt c03Point) (sig, msg string, recovered c03Contents) {
	// KF-C03-3 is a property of the workload: accepted only where the model says the workload triggers it
	kf3 := len(w) > 0 && c03HasKF(w[len(w)-1].Ckf, "KF-C03-3")
	if pt.model != nil && c03HasKF(pt.model.Ckf, "KF-C03-3") {
		kf3 = true
	}
	sig, msg, recovered = c03Verdict2(w, seed, dir, run, pt)
	if sig == "deleted-sample-replayed-from-wal" && !kf3 {
		sig = "phantom-sample"
	}
	return sig, msg, recovered
}

func c03Verdict2(w []c03Step, seed int64, dir string, run *c03Run, pt c03Point) (sig, msg string, recovered c03Contents) {
	conc := c03Conc(seed, w[0])
	what := fmt.Sprintf("crash at %s [%s]; acked ops=%d, in flight=%d %s", pt, conc, run.acked, run.inflight, run.inflA)
	acked := c03ExpAfter(w, run.acked)
	lower, uppers := acked, []map[string][]cdbExp{acked}
	if run.inflight > 0 {
		next := c03ExpAfter(w, run.inflight)
		switch run.inflA {
		case "Commit":
			uppers = append(uppers, next) // wholly or partly, never altered
		case "Delete":
			lower = next // a deletion in flight may be applied to some blocks / the head and not to others
		}
	}
	return c03JudgeDir(w, seed, dir, run.acked, what, lower, uppers, nil)
}

// c03JudgeDir opens dir and checks lower ⊆ contents ⊆ ∪uppers (values included), then that the database accepts new
// writes and keeps them over a clean restart. onOpenErr, if set, decides about a failing Open (C04 allows some).
func c03JudgeDir(w []c03Step, seed int64, dir string, ackedOp int, what string, lower map[string][]cdbExp, uppers []map[string][]cdbExp,
	onOpenErr func(error) (string, string)) (sig, msg string, recovered c03Contents) {
	return c03JudgeDirX(w, seed, dir, ackedOp, what, lower, uppers, onOpenErr, false)
}

// c03JudgeDirX: with durable=true the state the recovering Open left ON DISK is judged too: the directory is copied while
// the database is open (= what a process kill right after recovery leaves) and the copy must open with the same bounds.
func c03JudgeDirX(w []c03Step, seed int64, dir string, ackedOp int, what string, lower map[string][]cdbExp, uppers []map[string][]cdbExp,
	onOpenErr func(error) (string, string), durable bool) (sig, msg string, recovered c03Contents) {
	init := w[0]
	conc := c03Conc(seed, init)
	opts := c03Options(conc, init)
	acked := lower
	repairLeft, _ := filepath.Glob(filepath.Join(dir, "wal", "*.repair"))
	watch := &c03LogWatch{}
	db, err := tsdb.Open(dir, slog.New(watch), nil, opts, nil)
	if err != nil {
		if onOpenErr != nil {
			sig, msg := onOpenErr(err)
			return sig, msg, nil
		}
		return "open-failed", fmt.Sprintf("%s: reopening the database failed: %v", what, err), nil
	}
	db.DisableCompactions()
	closed := false
	defer func() {
		if !closed {
			db.Close()
		}
	}()
	got, gotC, err := c03Query(db)
	if err != nil {
		return "query-error", fmt.Sprintf("%s: query after reopen failed: %v", what, err), nil
	}
	sig, msg, badSeries, badT := c03BoundsX(conc, got, lower, uppers...)
	if sig == "" {
		sig, msg, badSeries, badT = c03BoundsX(conc, gotC, lower, uppers...)
		if sig != "" {
			msg += " (chunk querier)"
			got = gotC
		}
	}
	if sig != "" {
		// narrow signatures of the known deviations (see Crash.tla CKF)
		switch {
		case sig == "phantom-sample" && c03WasCommitted(conc, w, ackedOp, badSeries, got[badSeries][badT]) && c03NoBlockAbove(db, badT):
			sig = "deleted-sample-replayed-from-wal"
			msg += " (the sample was committed and later deleted by an acknowledged Delete; no in-order block reaches above its timestamp any more, so minValidTime does not keep the WAL replay from appending it again)"
		case sig == "acked-sample-lost" && len(repairLeft) > 0:
			sig = "repair-file-left:" + sig
			msg += fmt.Sprintf(" (the WAL directory holds %s: an earlier WL.Repair was interrupted after renaming the damaged segment)", filepath.Base(repairLeft[0]))
		case sig == "acked-sample-lost" && watch.has("Encountered WAL read error, attempting repair"):
			// is the sample back after a clean restart (the WBL was not replayed by the open that repaired the WAL)?
			db.Close()
			closed = true
			if db3, err3 := tsdb.Open(dir, nil, nil, opts, nil); err3 == nil {
				db3.DisableCompactions()
				got3, _, err3 := c03Query(db3)
				db3.Close()
				if err3 == nil {
					if s3, _ := c03Bounds(conc, got3, lower, uppers...); s3 == "" {
						sig = "wbl-skipped-after-wal-repair"
						msg += " (this Open repaired a torn WAL record and returned without replaying the WBL; the sample is back after one more restart)"
					}
				}
			}
		}
		return sig, fmt.Sprintf("%s: %s\n  recovered: %s\n  acknowledged: %s", what, msg, c03Fmt(got), c03ExpFmt(conc, acked)), got
	}
	if durable {
		cp := dir + "-killcopy"
		os.RemoveAll(cp)
		if err := cdbCopyTree(dir, cp); err != nil {
			return "infra", "copy: " + err.Error(), got
		}
		os.Remove(filepath.Join(cp, "lock"))
		dbk, err := tsdb.Open(cp, nil, nil, opts, nil)
		if err != nil {
			os.RemoveAll(cp)
			return "open-failed-after-recovery", fmt.Sprintf("%s: the directory as the recovering Open left it on disk does not open again: %v", what, err), got
		}
		dbk.DisableCompactions()
		gk, gkC, err := c03Query(dbk)
		dbk.Close()
		os.RemoveAll(cp)
		if err != nil {
			return "query-error", fmt.Sprintf("%s: query of the on-disk state after recovery failed: %v", what, err), got
		}
		for _, g := range []c03Contents{gk, gkC} {
			if s2, m2 := c03Bounds(conc, g, lower, uppers...); s2 != "" {
				return "not-durable-after-recovery:" + s2, fmt.Sprintf("%s: the recovered database answered correctly, but the state it left on disk does not (a kill right after recovery): %s\n  on disk: %s", what, m2, c03Fmt(g)), got
			}
		}
	}
	// the recovered database accepts new writes and keeps them over a clean restart
	var maxT int64 = math.MinInt64
	for _, m := range got {
		for t := range m {
			if t > maxT {
				maxT = t
			}
		}
	}
	// beyond everything that may still be hidden on disk (data of a log that was not replayed in this session)
	for _, up := range uppers {
		for _, es := range up {
			for _, e := range es {
				if t := conc.tm(e.T); t > maxT {
					maxT = t
				}
			}
		}
	}
	for _, st := range w {
		if st.A == "Append" {
			if t := conc.tm(st.T); t > maxT {
				maxT = t
			}
		}
	}
	if hm := db.Head().MaxTime(); hm > maxT && hm != math.MinInt64 {
		maxT = hm
	}
	if maxT == math.MinInt64 {
		maxT = conc.tm(0)
	}
	newT := maxT + conc.Unit
	app := db.Appender(context.Background())
	names := []string{"s1", "s2", "s9"}
	for _, n := range names {
		if _, err := app.Append(0, c03Labels(n, init.Bigs), newT, 42.5); err != nil {
			return "post-append-error", fmt.Sprintf("%s: append of a new sample (t=%d) after recovery failed: %v", what, newT, err), got
		}
	}
	if err := app.Commit(); err != nil {
		return "post-commit-error", fmt.Sprintf("%s: commit after recovery failed: %v", what, err), got
	}
	if err := db.Close(); err != nil {
		closed = true
		return "post-close-error", fmt.Sprintf("%s: Close after recovery failed: %v", what, err), got
	}
	closed = true
	db2, err := tsdb.Open(dir, nil, nil, opts, nil)
	if err != nil {
		return "second-open-failed", fmt.Sprintf("%s: second reopen failed: %v", what, err), got
	}
	db2.DisableCompactions()
	got2, got2C, err := c03Query(db2)
	db2.Close()
	if err != nil {
		return "query-error", fmt.Sprintf("%s: query after second reopen failed: %v", what, err), got
	}
	want := c03Contents{}
	for n, m := range got {
		want[n] = map[int64]cdbSample{}
		for t, x := range m {
			want[n][t] = x
		}
	}
	for _, n := range names {
		if want[n] == nil {
			want[n] = map[int64]cdbSample{}
		}
		want[n][newT] = cdbSample{T: newT, Ty: "f", F: 42.5}
	}
	// same timestamps as recovered + the new samples; values within what was written (a timestamp written twice with
	// different values may legitimately show either)
	if a, b := c03FmtTs(got2), c03FmtTs(want); a != b {
		// only samples that an acknowledged Delete removed earlier came back, nothing is missing: the known way of a
		// deletion to be undone by a (second) restart once its block has been dropped (KF-C03-3, gated by the caller)
		onlyDeletedBack := true
		for n, m := range want {
			for t := range m {
				if _, ok := got2[n][t]; !ok {
					onlyDeletedBack = false
				}
			}
		}
		for n, m := range got2 {
			for t, x := range m {
				if _, ok := want[n][t]; !ok && !c03WasCommitted(conc, w, ackedOp, n, x) {
					onlyDeletedBack = false
				}
			}
		}
		missing := false
		for n, m := range want {
			for t := range m {
				if _, ok := got2[n][t]; !ok {
					missing = true
				}
			}
		}
		if durable && !missing {
			// C04: what the damaged log no longer deletes (a lost tombstone record) or what an unreplayed log still holds may
			// show up at the next restart; it is checked against the upper bound below
			a = b
		}
		if a == b {
			// fall through to the value check
		} else if onlyDeletedBack {
			return "deleted-sample-replayed-from-wal", fmt.Sprintf("%s: after appending (t=%d) to the recovered database and a clean restart samples deleted by an acknowledged Delete are back:\n  %s\nexpected\n  %s", what, newT, c03Fmt(got2), c03Fmt(want)), got
		}
		if a != b && conc.Snapshot {
			// does the same directory give the expected contents when it is started from the WAL instead of the chunk snapshot?
			// (KF-C03-4: m-mapped chunks are matched to series by ref; after a WAL-replay start a re-created series lives under
			// its oldest WAL ref, chunks written earlier carry the newer ref and chunks cut during the replay the older one; a
			// snapshot start has no multiRef mapping for them)
			cp := dir + "-nosnap"
			os.RemoveAll(cp)
			if err := cdbCopyTree(dir, cp); err == nil {
				os.Remove(filepath.Join(cp, "lock"))
				snaps, _ := filepath.Glob(filepath.Join(cp, "chunk_snapshot.*"))
				for _, x := range snaps {
					os.RemoveAll(x)
				}
				if dbn, err := tsdb.Open(cp, nil, nil, opts, nil); err == nil {
					dbn.DisableCompactions()
					gn, _, errq := c03Query(dbn)
					dbn.Close()
					if errq == nil && len(snaps) > 0 && c03FmtTs(gn) == b {
						os.RemoveAll(cp)
						return "snapshot-restart-differs-from-wal-restart", fmt.Sprintf("%s: after appending (t=%d) to the recovered database and a clean restart FROM THE CHUNK SNAPSHOT the contents are\n  %s\nexpected (and returned when the same directory is started without the snapshot)\n  %s", what, newT, c03Fmt(got2), c03Fmt(want)), got
					}
				}
			}
			os.RemoveAll(cp)
		}
		if a != b {
			return "post-recovery-contents-changed", fmt.Sprintf("%s: after appending (t=%d) to the recovered database and a clean restart the contents are\n  %s\nexpected\n  %s", what, newT, c03Fmt(got2), c03Fmt(want)), got
		}
	}
	for _, g2 := range []c03Contents{got2, got2C} {
		for n, m := range g2 {
			for t, x := range m {
				if t == newT {
					if x.Ty != "f" || x.F != 42.5 {
						return "post-recovery-value-altered", fmt.Sprintf("%s: the sample appended after recovery reads back as %v", what, x), got
					}
					delete(m, t)
				}
			}
			if len(m) == 0 {
				delete(g2, n)
			}
		}
		if s2, m2 := c03Bounds(conc, g2, nil, uppers...); s2 != "" {
			return "post-recovery-" + s2, fmt.Sprintf("%s: after a clean restart of the recovered database: %s", what, m2), got
		}
	}
	return "", "", got
}

// c03DropSnapshot removes the events of Head.ChunkSnapshot (between the close of the logs and head.close.done) from a
// projected trace: the write log of the snapshot tmp dir and the rename of the snapshot directory.
func c03DropSnapshot(tr []string) []string {
	var out []string
	inClose := false
	for _, e := range tr {
		switch e {
		case "head.close.mmapped":
			inClose = true
		case "head.close.done":
			inClose = false
		}
		if inClose && (strings.HasSuffix(e, "/tmp") || strings.HasPrefix(e, "fileutil.")) {
			continue
		}
		out = append(out, e)
	}
	return out
}

// c03Project keeps the trace lines of modelled sites (site name only) and the op markers.
func c03Project(lines []string, modelled map[string]bool) []string {
	var out []string
	for _, l := range lines {
		name := l
		if i := strings.IndexByte(l, ' '); i >= 0 {
			name = l[:i]
		}
		if strings.HasPrefix(name, "op:") || modelled[name] {
			out = append(out, name)
		}
	}
	return out
}

type c03Case struct {
	W       []c03Step `json:"w"`       // workload with Init, ending in an "End" record that carries the predicted trace of a run without crash
	Crashes []c03Step `json:"crashes"` // Crash records of the model for this workload
	Sites   []string  `json:"sites"`   // sites the spec models (projection of the trace comparison)
}

func TestVerifC03Crash(t *testing.T) {
	cases, err := verifh.ReadNDJSON[c03Case](verifh.In())
	if err != nil {
		verifh.Infra(err.Error())
		t.Fatal(err)
	}
	root := os.Getenv("VERIF_SCRATCH")
	if root == "" {
		root = t.TempDir()
	}
	budget := 25 // real-trace crash points per workload
	maxHit := 3
	nrandom := 0
	if !verifh.Quick() {
		budget, maxHit, nrandom = 60, 1<<30, 4
	}
	if v := os.Getenv("C03_BUDGET"); v != "" {
		budget, _ = strconv.Atoi(v)
	}
	type job struct {
		ci int
		pt c03Point
	}
	var (
		mu        sync.Mutex
		infra     atomic.Value
		nruns     atomic.Int64
		unreached atomic.Int64
		ndrift    atomic.Int64
		traceOK   atomic.Int64
		sitesSeen = map[string]int{}
		inflSeen  = map[string]int{}
	)
	seedOf := func(ci int) int64 { return verifh.Seed() + int64(ci%7) }
	// phase 1: dry run of every workload: real hook trace, trace comparison (T), crash points
	jobs := []job{}
	var wg sync.WaitGroup
	sem := make(chan struct{}, 8)
	for ci := range cases {
		wg.Add(1)
		sem <- struct{}{}
		go func(ci int) {
			defer wg.Done()
			defer func() { <-sem }()
			cs := cases[ci]
			if n := len(cs.W); n == 0 || cs.W[n-1].A != "End" {
				// a workload prefix of crash behaviours only: no dry run, the model's crash points are executed directly
				mu.Lock()
				for _, cr := range cs.Crashes {
					cr := cr
					jobs = append(jobs, job{ci, c03Point{site: cr.Site, hit: cr.Hit, site2: cr.Site2, hit2: cr.Hit2, model: &cr}})
				}
				mu.Unlock()
				return
			}
			sc := filepath.Join(root, fmt.Sprintf("c03-%d-dry", ci))
			os.MkdirAll(sc, 0o777)
			defer os.RemoveAll(sc)
			run, err := c03RunChild(c03Spec{Mode: "run", Dir: filepath.Join(sc, "db"), W: cs.W, Seed: seedOf(ci)}, sc, "dry", 0)
			if err != nil {
				infra.Store(err.Error())
				return
			}
			if run.errLine != "" {
				if strings.Contains(run.errLine, " Open: ") {
					// the database does not open after a clean Close inside the workload: "reopening succeeds" is violated without any kill
					c03Report("", "open-failed-in-workload", fmt.Sprintf("workload %d: tsdb.Open after a clean Close failed: %s", ci, run.errLine),
						map[string]any{"workload": cs.W, "seed": seedOf(ci)})
					return
				}
				infra.Store(fmt.Sprintf("workload %d does not run on the real code as generated: %s", ci, run.errLine))
				return
			}
			// a kill after the last operation is a crash point too: judge it
			if sig, msg, _ := c03Verdict(cs.W, seedOf(ci), filepath.Join(sc, "db"), run, c03Point{site: "end-of-workload", hit: 1}); sig != "" {
				c03Report("", sig, fmt.Sprintf("workload %d: %s", ci, msg), map[string]any{"workload": cs.W, "crash": "end-of-workload", "seed": seedOf(ci)})
			}
			nruns.Add(1)
			modelled := map[string]bool{}
			for _, s := range cs.Sites {
				modelled[s] = true
			}
			// (T) trace comparison
			if n := len(cs.W); n > 0 && cs.W[n-1].A == "End" && len(cs.Sites) > 0 {
				real := c03Project(run.trace, modelled)
				if c03Conc(seedOf(ci), cs.W[0]).Snapshot {
					real = c03DropSnapshot(real)
				}
				if p := os.Getenv("C03_TRACES_OUT"); p != "" {
					// handed to TLC (Trace_Crash.tla): is this trace a behaviour of Crash.tla for this workload?
					raw, _ := json.Marshal(map[string]any{"id": ci, "tr": real})
					mu.Lock()
					if f, err := os.OpenFile(p, os.O_CREATE|os.O_WRONLY|os.O_APPEND, 0o644); err == nil {
						f.Write(append(raw, '\n'))
						f.Close()
					}
					mu.Unlock()
				}
				pred := cs.W[n-1].Trace
				if d := c03TraceDiff(pred, real); d != "" {
					ndrift.Add(1)
					verifh.Drift(fmt.Sprintf("workload %d: hook trace of the real run differs from the trace predicted by Crash.tla: %s", ci, d))
				} else {
					traceOK.Add(1)
				}
			}
			// crash points of the real trace
			cnt := map[string]int{}
			var pts []c03Point
			for _, l := range run.trace {
				if strings.HasPrefix(l, "op:") || l == "closed" {
					continue
				}
				name := l
				if i := strings.IndexByte(l, ' '); i >= 0 {
					name = l[:i]
				}
				cnt[name]++
				if cnt[name] <= maxHit {
					pts = append(pts, c03Point{site: name, hit: cnt[name]})
				}
			}
			// prefer persistence sites over observation-only sites when the budget is short
			sort.SliceStable(pts, func(i, j int) bool { return c03SiteRank(pts[i].site) < c03SiteRank(pts[j].site) })
			if len(pts) > budget {
				// deterministic thinning that keeps every site
				keep := []c03Point{}
				seen := map[string]bool{}
				for _, p := range pts {
					if !seen[p.site] {
						seen[p.site] = true
						keep = append(keep, p)
					}
				}
				for _, p := range pts {
					// every Close of the workload: the window between the logs' close and the end of Head.Close
					if p.hit > 1 && (strings.HasPrefix(p.site, "snapshot.") || p.site == "cdm.closed" || p.site == "head.close.mmapped") {
						keep = append(keep, p)
					}
				}
				for i, p := range pts {
					if len(keep) >= budget {
						break
					}
					if p.hit > 1 && (int64(i)+verifh.Seed())%2 == 0 {
						keep = append(keep, p)
					}
				}
				pts = keep
			}
			mu.Lock()
			for _, p := range pts {
				jobs = append(jobs, job{ci, p})
			}
			for _, cr := range cs.Crashes {
				cr := cr
				jobs = append(jobs, job{ci, c03Point{site: cr.Site, hit: cr.Hit, site2: cr.Site2, hit2: cr.Hit2, model: &cr}})
			}
			for k := 0; k < nrandom; k++ {
				jobs = append(jobs, job{ci, c03Point{rnd: time.Duration(20+((int(verifh.Seed())*31+ci*17+k*53)%400)) * time.Millisecond}})
			}
			mu.Unlock()
		}(ci)
	}
	wg.Wait()
	if m := infra.Load(); m != nil {
		verifh.Infra(m.(string))
		t.Fatal(m)
	}
	// phase 2: crash runs
	var next atomic.Int64
	workers := 10
	for w := 0; w < workers; w++ {
		wg.Add(1)
		go func(w int) {
			defer wg.Done()
			for {
				ji := int(next.Add(1)) - 1
				if ji >= len(jobs) || c03Bad.Load() >= 20 || infra.Load() != nil {
					return
				}
				j := jobs[ji]
				cs := cases[j.ci]
				sc := filepath.Join(root, fmt.Sprintf("c03-%d-%d", j.ci, ji))
				os.MkdirAll(sc, 0o777)
				dir := filepath.Join(sc, "db")
				run, err := c03RunChild(c03Spec{Mode: "run", Dir: dir, W: cs.W, Seed: seedOf(j.ci), KillSite: j.pt.site, KillHit: j.pt.hit}, sc, "c1", j.pt.rnd)
				if err != nil {
					infra.Store(err.Error())
					return
				}
				if run.errLine != "" {
					if strings.Contains(run.errLine, " Open: ") {
						c03Report("", "open-failed-in-workload", fmt.Sprintf("workload %d: tsdb.Open after a clean Close failed: %s", j.ci, run.errLine),
							map[string]any{"workload": cs.W, "seed": seedOf(j.ci)})
						os.RemoveAll(sc)
						continue
					}
					infra.Store(fmt.Sprintf("workload %d failed in the crash run: %s", j.ci, run.errLine))
					return
				}
				nruns.Add(1)
				if run.ended && j.pt.rnd == 0 && j.pt.site != "end-of-workload" {
					unreached.Add(1) // the crash point was not reached (model drift or scheduling): still a kill after the last op
				}
				if j.pt.site2 != "" {
					// second crash: a process that only opens the directory is killed during recovery
					run2, err := c03RunChild(c03Spec{Mode: "open", Dir: dir, W: cs.W, Seed: seedOf(j.ci), KillSite: j.pt.site2, KillHit: j.pt.hit2}, sc, "c2", 0)
					if err != nil {
						infra.Store(err.Error())
						return
					}
					nruns.Add(1)
					if run2.errLine != "" {
						c03Report("", "open-failed", fmt.Sprintf("workload %d: crash at %s: reopening the database failed in the recovering process: %s", j.ci, j.pt, run2.errLine),
							map[string]any{"workload": cs.W, "crash": j.pt.String(), "seed": seedOf(j.ci)})
						os.RemoveAll(sc)
						continue
					}
					if run2.killed == "opened" {
						unreached.Add(1)
					}
				}
				sig, msg, got := c03Verdict(cs.W, seedOf(j.ci), dir, run, j.pt)
				mu.Lock()
				sitesSeen[j.pt.site]++
				inflSeen[run.inflA]++
				mu.Unlock()
				if sig != "" {
					c03Report("", sig, fmt.Sprintf("workload %d: %s", j.ci, msg),
						map[string]any{"workload": cs.W, "crash": j.pt.String(), "seed": seedOf(j.ci), "acked": run.acked, "inflight": run.inflight})
				} else if j.pt.model != nil && !run.ended && got != nil && run.inflA != "Delete" { // DB.Delete is concurrent inside: no exact prediction
					// the model's own prediction for this crash point (stronger than the property: drift only)
					conc := c03Conc(seedOf(j.ci), cs.W[0])
					if s2, m2 := c03Bounds(conc, got, j.pt.model.Exp, j.pt.model.Exp); s2 != "" && !(run.ended && j.pt.site != "end-of-workload") {
						ndrift.Add(1)
						verifh.Drift(fmt.Sprintf("workload %d crash %s: recovered contents differ from the model's prediction for this crash point (%s): %s", j.ci, j.pt, s2, m2))
					}
				}
				os.RemoveAll(sc)
			}
		}(w)
	}
	wg.Wait()
	if m := infra.Load(); m != nil {
		verifh.Infra(m.(string))
		t.Fatal(m)
	}
	verifh.Stat(map[string]any{"crash_runs": nruns.Load(), "crash_points_unreached": unreached.Load(), "workloads": len(cases),
		"traces_equal_to_model": traceOK.Load(), "sites_killed_at": len(sitesSeen), "inflight_kinds": fmt.Sprint(inflSeen)})
	verifh.Done(int(nruns.Load()))
	if c03Bad.Load() > 0 {
		t.Fail()
	}
}

func c03SiteRank(site string) int {
	switch {
	case strings.HasPrefix(site, "wlog."), strings.HasPrefix(site, "checkpoint."), strings.HasPrefix(site, "block"),
		strings.HasPrefix(site, "fileutil."), strings.HasPrefix(site, "tombstones."), strings.HasPrefix(site, "db.delete."),
		strings.HasPrefix(site, "cdm."), strings.HasPrefix(site, "snapshot."):
		return 0
	case strings.HasPrefix(site, "db.open."), strings.HasPrefix(site, "db.compact"), strings.HasPrefix(site, "db.reload"),
		strings.HasPrefix(site, "head.wal_trunc"), strings.HasPrefix(site, "head.close"):
		return 1
	}
	return 2
}

// c03TraceDiff compares two traces cut at op markers; "" if equal.
func c03TraceDiff(pred, real []string) string {
	cut := func(tr []string) (keys []string, m map[string][]string) {
		m = map[string][]string{}
		cur := "open"
		keys = append(keys, cur)
		for _, l := range tr {
			if strings.HasPrefix(l, "op:") {
				cur = l
				keys = append(keys, cur)
				continue
			}
			m[cur] = append(m[cur], l)
		}
		return keys, m
	}
	pk, pm := cut(pred)
	rk, rm := cut(real)
	if strings.Join(pk, ",") != strings.Join(rk, ",") {
		return fmt.Sprintf("operations differ: predicted %v, real %v", pk, rk)
	}
	for _, k := range pk {
		a, b := pm[k], rm[k]
		if strings.HasSuffix(k, ":Delete") {
			// DB.Delete runs the blocks and the head in parallel: compare as multisets
			a, b = append([]string(nil), a...), append([]string(nil), b...)
			sort.Strings(a)
			sort.Strings(b)
		}
		if strings.Join(a, " ") != strings.Join(b, " ") {
			return fmt.Sprintf("%s: predicted [%s], real [%s]", k, strings.Join(a, " "), strings.Join(b, " "))
		}
	}
	return ""
}
