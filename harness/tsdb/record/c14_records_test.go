package record_test

// C14 conformance harness: every case enumerated by specs/records/Records.tla (a batch of items over
// symbolic refs / timestamps / start timestamps / payload symbols, with the predicted decode result,
// start-timestamp markers and histogram split) is concretised several ways (extreme refs and
// timestamps, NaN payloads, empty and large label sets, histogram shapes), encoded with the real
// record.Encoder, decoded with record.Decoder and compared bitwise with the prediction.

import (
	"encoding/binary"
	"fmt"
	"math"
	"reflect"
	"strings"
	"testing"

	"github.com/prometheus/prometheus/internal/verifh"
	"github.com/prometheus/prometheus/model/histogram"
	"github.com/prometheus/prometheus/model/labels"
	"github.com/prometheus/prometheus/storage"
	"github.com/prometheus/prometheus/tsdb/chunks"
	"github.com/prometheus/prometheus/tsdb/record"
	"github.com/prometheus/prometheus/tsdb/tombstones"
)

type c14Item struct {
	R   int64      `json:"r"`
	T   int64      `json:"t"`
	ST  int64      `json:"st"`
	P   string     `json:"p"`
	Ivs [][2]int64 `json:"ivs"`
	Iv  [2]int64   `json:"iv"`
}

type c14Case struct {
	Ty   string    `json:"ty"`
	Xs   []c14Item `json:"xs"`
	Pred struct {
		Markers []string  `json:"markers"`
		Out     []c14Item `json:"out"`
		Left    []c14Item `json:"left"`
		Empty   bool      `json:"empty"`
	} `json:"pred"`
}

type c14Conc struct {
	ref  map[int64]uint64
	t    map[int64]int64
	st   map[int64]int64
	seed int64
}

func c14MakeConc(k int64) c14Conc {
	refs := [][3]uint64{{1, 2, 9}, {5, 6, 1 << 62}, {1<<63 + 7, 3, 1<<63 + 9}, {100, 50, 1}, {math.MaxUint64, 0, 1 << 40}}
	ts := [][4]int64{{1000, 1001, 5000, 9000}, {math.MinInt64, 0, math.MaxInt64, 7}, {-5, -4, 1 << 40, 1 << 41},
		{math.MaxInt64 - 1, math.MaxInt64, math.MinInt64, -1}, {1700000000000, 1700000015000, 1700000030000, 1700000045000}}
	sts := [][2]int64{{900, 950}, {math.MinInt64, math.MaxInt64}, {-1, 1}, {1699999999000, 1700000000000}, {math.MaxInt64, 1}}
	r, t, s := refs[int(k)%5], ts[int(k/5)%5], sts[int(k/25)%5]
	if k < 5 { // first variants: everything moderate / everything extreme
		t, s = ts[int(k)%5], sts[int(k)%5]
	}
	return c14Conc{ref: map[int64]uint64{1: r[0], 2: r[1], 9: r[2]}, t: map[int64]int64{0: 0, 1: t[0], 2: t[1], 5: t[2], 9: t[3]},
		st: map[int64]int64{0: 0, 3: s[0], 7: s[1]}, seed: k}
}

func (c c14Conc) val(p string, i int) float64 {
	switch p {
	case "nan":
		return []float64{math.Float64frombits(0x7ff8000000000123), math.Float64frombits(0x7ff0000000000002), math.Inf(-1), math.Copysign(0, -1)}[int(c.seed)%4]
	}
	return []float64{1.5, -123456.789e100, 5e-324, float64(i) + 0.25}[int(c.seed+int64(i))%4]
}

func (c c14Conc) lset(p string) labels.Labels {
	switch p {
	case "l0":
		return labels.EmptyLabels()
	case "l2":
		return labels.FromStrings("__name__", strings.Repeat("n", 300), "a", "", "b", strings.Repeat("é", 70), "z\x00", "v\n")
	}
	return labels.FromStrings("__name__", "metric", "job", fmt.Sprint("j", c.seed), "trace_id", "abc")
}

func (c c14Conc) hist(p string, i int) *histogram.Histogram {
	sum := []float64{12.5, math.Float64frombits(0x7ff8000000000001), -0.0, math.Inf(1)}[int(c.seed+int64(i))%4]
	if p == "cb" {
		return &histogram.Histogram{Schema: histogram.CustomBucketsSchema, Count: 9, Sum: sum,
			PositiveSpans:   []histogram.Span{{Offset: 0, Length: 2}, {Offset: 1, Length: 1}},
			PositiveBuckets: []int64{3, -1, 4}, CustomValues: []float64{0.5, 1, 2.5, math.Inf(1)}, CounterResetHint: histogram.CounterResetHint(c.seed % 4)}
	}
	h := &histogram.Histogram{Schema: int32(c.seed%12) - 4, ZeroThreshold: 1e-128, ZeroCount: uint64(c.seed) % 3, Count: 1 << 40, Sum: sum,
		PositiveSpans: []histogram.Span{{Offset: -3, Length: 2}, {Offset: 5, Length: 1}}, PositiveBuckets: []int64{1, math.MaxInt64, math.MinInt64},
		CounterResetHint: histogram.CounterResetHint(c.seed % 4)}
	if (c.seed+int64(i))%2 == 0 {
		h.NegativeSpans = []histogram.Span{{Offset: math.MinInt32, Length: 1}, {Offset: math.MaxInt32, Length: math.MaxUint32}}
		h.NegativeBuckets = []int64{-7, 7}
	}
	return h
}

func (c c14Conc) fhist(p string, i int) *histogram.FloatHistogram {
	return c.hist(p, i).ToFloat(nil)
}

func c14Bits(f float64) uint64 { return math.Float64bits(f) }

func c14SameFloats(a, b []float64) bool {
	if len(a) != len(b) {
		return false
	}
	for i := range a {
		if c14Bits(a[i]) != c14Bits(b[i]) {
			return false
		}
	}
	return true
}

func c14SameSpans(a, b []histogram.Span) bool { return len(a) == len(b) && (len(a) == 0 || reflect.DeepEqual(a, b)) }

func c14SameH(a, b *histogram.Histogram) bool {
	return a.CounterResetHint == b.CounterResetHint && a.Schema == b.Schema && c14Bits(a.ZeroThreshold) == c14Bits(b.ZeroThreshold) &&
		a.ZeroCount == b.ZeroCount && a.Count == b.Count && c14Bits(a.Sum) == c14Bits(b.Sum) &&
		c14SameSpans(a.PositiveSpans, b.PositiveSpans) && c14SameSpans(a.NegativeSpans, b.NegativeSpans) &&
		len(a.PositiveBuckets) == len(b.PositiveBuckets) && (len(a.PositiveBuckets) == 0 || reflect.DeepEqual(a.PositiveBuckets, b.PositiveBuckets)) &&
		len(a.NegativeBuckets) == len(b.NegativeBuckets) && (len(a.NegativeBuckets) == 0 || reflect.DeepEqual(a.NegativeBuckets, b.NegativeBuckets)) &&
		c14SameFloats(a.CustomValues, b.CustomValues)
}

func c14SameFH(a, b *histogram.FloatHistogram) bool {
	return a.CounterResetHint == b.CounterResetHint && a.Schema == b.Schema && c14Bits(a.ZeroThreshold) == c14Bits(b.ZeroThreshold) &&
		c14Bits(a.ZeroCount) == c14Bits(b.ZeroCount) && c14Bits(a.Count) == c14Bits(b.Count) && c14Bits(a.Sum) == c14Bits(b.Sum) &&
		c14SameSpans(a.PositiveSpans, b.PositiveSpans) && c14SameSpans(a.NegativeSpans, b.NegativeSpans) &&
		c14SameFloats(a.PositiveBuckets, b.PositiveBuckets) && c14SameFloats(a.NegativeBuckets, b.NegativeBuckets) && c14SameFloats(a.CustomValues, b.CustomValues)
}

// independent scan of a SamplesV2 record for its start-timestamp markers
func c14MarkersV2(rec []byte) ([]string, bool) {
	b := rec[1:]
	uv := func() bool {
		_, n := binary.Uvarint(b)
		if n <= 0 {
			return false
		}
		b = b[n:]
		return true
	}
	var out []string
	first := true
	for len(b) > 0 {
		if first {
			if !(uv() && uv() && uv()) || len(b) < 8 {
				return nil, false
			}
			b = b[8:]
			out = append(out, "first")
			first = false
			continue
		}
		if !(uv() && uv()) || len(b) < 1 {
			return nil, false
		}
		m := b[0]
		b = b[1:]
		switch m {
		case 0:
			out = append(out, "noST")
		case 1:
			out = append(out, "sameST")
		default:
			out = append(out, "explicitST")
			if !uv() {
				return nil, false
			}
		}
		if len(b) < 8 {
			return nil, false
		}
		b = b[8:]
	}
	return out, true
}

type c14Rep struct {
	viol  [][2]string
	drift []string
	evals int
}

func (r *c14Rep) v(sig, f string, a ...any) { r.viol = append(r.viol, [2]string{sig, fmt.Sprintf(f, a...)}) }
func (r *c14Rep) d(f string, a ...any)      { r.drift = append(r.drift, fmt.Sprintf(f, a...)) }

func c14Run(cs c14Case, conc c14Conc, prefix []byte, dstPrefix bool, rep *c14Rep) {
	v2 := strings.HasSuffix(cs.Ty, "_v2")
	enc := record.Encoder{EnableSTStorage: v2}
	dec := record.NewDecoder(labels.NewSymbolTable(), nil)
	rep.evals++
	tag := fmt.Sprintf("%s %v conc=%d prefix=%d dst=%v", cs.Ty, cs.Xs, conc.seed, len(prefix), dstPrefix)
	pre := append([]byte{}, prefix...)
	checkPrefix := func(out []byte) ([]byte, bool) {
		if len(out) < len(prefix) || string(out[:len(prefix)]) != string(prefix) {
			rep.v("append:encoder:"+cs.Ty, "%s: the encoder does not append to b: the %d bytes already in b were lost or changed", tag, len(prefix))
			return nil, false
		}
		return out[len(prefix):], true
	}
	trailing := func(rec []byte, f func([]byte) error) {
		if len(rec) == 0 {
			return
		}
		if err := f(append(append([]byte{}, rec...), 0x01)); err == nil {
			rep.d("%s: decoder accepts the record with one trailing byte", tag)
		}
	}
	switch cs.Ty {
	case "samples_v1", "samples_v2":
		var in, want, dst []record.RefSample
		for i, x := range cs.Xs {
			in = append(in, record.RefSample{Ref: chunks.HeadSeriesRef(conc.ref[x.R]), T: conc.t[x.T], ST: conc.st[x.ST], V: conc.val(x.P, i)})
		}
		if dstPrefix {
			dst = append(dst, record.RefSample{Ref: 77, T: 123456, ST: 4242, V: 1})
		}
		want = append(want, dst...)
		for i, x := range cs.Pred.Out {
			want = append(want, record.RefSample{Ref: chunks.HeadSeriesRef(conc.ref[x.R]), T: conc.t[x.T], ST: conc.st[x.ST], V: conc.val(x.P, i)})
		}
		rec, ok := checkPrefix(enc.Samples(in, pre))
		if !ok {
			return
		}
		got, err := dec.Samples(rec, dst)
		same := err == nil && len(got) == len(want)
		for i := 0; same && i < len(got); i++ {
			same = got[i].Ref == want[i].Ref && got[i].T == want[i].T && got[i].ST == want[i].ST && c14Bits(got[i].V) == c14Bits(want[i].V)
		}
		if !same {
			if dstPrefix {
				// API contract ("appends samples in rec to the given slice"), not the round trip itself
				rep.d("Decoder.Samples does not append to a non-empty slice: %s: decoded %v (err %v), want %v", tag, got, err, want)
			} else {
				rep.v("roundtrip:"+cs.Ty, "%s: decoded %v (err %v), want %v", tag, got, err, want)
			}
		}
		if v2 && len(in) > 0 {
			if ms, ok := c14MarkersV2(rec); !ok || !reflect.DeepEqual(ms, cs.Pred.Markers) {
				rep.d("%s: start-timestamp markers in the record %v, reference %v", tag, ms, cs.Pred.Markers)
			}
		}
		trailing(rec, func(b []byte) error { _, err := dec.Samples(b, nil); return err })
	case "exemplars":
		var in, want []record.RefExemplar
		for i, x := range cs.Xs {
			in = append(in, record.RefExemplar{Ref: chunks.HeadSeriesRef(conc.ref[x.R]), T: conc.t[x.T], V: conc.val("nan", i), Labels: conc.lset(x.P)})
		}
		for i, x := range cs.Pred.Out {
			want = append(want, record.RefExemplar{Ref: chunks.HeadSeriesRef(conc.ref[x.R]), T: conc.t[x.T], V: conc.val("nan", i), Labels: conc.lset(x.P)})
		}
		rec, ok := checkPrefix(enc.Exemplars(in, pre))
		if !ok {
			return
		}
		got, err := dec.Exemplars(rec, nil)
		same := err == nil && len(got) == len(want)
		for i := 0; same && i < len(got); i++ {
			same = got[i].Ref == want[i].Ref && got[i].T == want[i].T && c14Bits(got[i].V) == c14Bits(want[i].V) && labels.Equal(got[i].Labels, want[i].Labels)
		}
		if !same {
			rep.v("roundtrip:"+cs.Ty, "%s: decoded %v (err %v), want %v", tag, got, err, want)
		}
		trailing(rec, func(b []byte) error { _, err := dec.Exemplars(b, nil); return err })
	case "hist_v1", "hist_v2":
		mk := func(xs []c14Item, idx func(int) int) []record.RefHistogramSample {
			var out []record.RefHistogramSample
			for i, x := range xs {
				out = append(out, record.RefHistogramSample{Ref: chunks.HeadSeriesRef(conc.ref[x.R]), T: conc.t[x.T], ST: conc.st[x.ST], H: conc.hist(x.P, idx(i))})
			}
			return out
		}
		// the payload of an item depends on its position in the input: recover positions for the predictions
		posOf := func(xs []c14Item, kind func(string) bool) []int {
			var p []int
			for i, x := range cs.Xs {
				if kind(x.P) {
					p = append(p, i)
				}
			}
			_ = xs
			return p
		}
		all := func(string) bool { return true }
		in := mk(cs.Xs, func(i int) int { return i })
		same := func(got, want []record.RefHistogramSample) bool {
			if len(got) != len(want) {
				return false
			}
			for i := range got {
				if got[i].Ref != want[i].Ref || got[i].T != want[i].T || got[i].ST != want[i].ST || !c14SameH(got[i].H, want[i].H) {
					return false
				}
			}
			return true
		}
		out, left := enc.HistogramSamples(in, pre)
		var wantOut, wantLeft []record.RefHistogramSample
		if v2 {
			p := posOf(cs.Pred.Out, all)
			wantOut = mk(cs.Pred.Out, func(i int) int { return p[i] })
		} else {
			pe := posOf(cs.Pred.Out, func(s string) bool { return s == "exp" })
			pc := posOf(cs.Pred.Left, func(s string) bool { return s == "cb" })
			wantOut = mk(cs.Pred.Out, func(i int) int { return pe[i] })
			wantLeft = mk(cs.Pred.Left, func(i int) int { return pc[i] })
		}
		if !same(left, wantLeft) {
			rep.v("split:"+cs.Ty, "%s: custom-bucket leftovers %v, reference %v", tag, left, wantLeft)
		}
		if cs.Pred.Empty {
			// nothing but custom buckets: the encoder resets its buffer, there is no record to log
			if len(out) != 0 && len(out) != len(prefix) {
				rep.d("%s: all-custom batch leaves %d bytes in the buffer", tag, len(out))
			}
			if len(prefix) > 0 && (len(out) < len(prefix) || string(out[:len(prefix)]) != string(prefix)) {
				rep.v("append:encoder:"+cs.Ty+":reset", "%s: a batch of only custom-bucket histograms wipes the %d bytes already in b (Encbuf.Reset)", tag, len(prefix))
			}
		} else {
			rec, ok := checkPrefix(out)
			if !ok {
				return
			}
			got, err := dec.HistogramSamples(rec, nil)
			if err != nil || !same(got, wantOut) {
				rep.v("roundtrip:"+cs.Ty, "%s: decoded %v (err %v), want %v", tag, got, err, wantOut)
			}
			trailing(rec, func(b []byte) error { _, err := dec.HistogramSamples(b, nil); return err })
		}
		if len(left) > 0 {
			rec2, ok := checkPrefix(enc.CustomBucketsHistogramSamples(left, pre))
			if !ok {
				return
			}
			got, err := dec.HistogramSamples(rec2, nil)
			if err != nil || !same(got, wantLeft) {
				rep.v("roundtrip:"+cs.Ty+":custom", "%s: custom-bucket record decoded %v (err %v), want %v", tag, got, err, wantLeft)
			}
		}
	case "fhist_v1", "fhist_v2":
		mk := func(xs []c14Item, idx func(int) int) []record.RefFloatHistogramSample {
			var out []record.RefFloatHistogramSample
			for i, x := range xs {
				out = append(out, record.RefFloatHistogramSample{Ref: chunks.HeadSeriesRef(conc.ref[x.R]), T: conc.t[x.T], ST: conc.st[x.ST], FH: conc.fhist(x.P, idx(i))})
			}
			return out
		}
		posOf := func(kind func(string) bool) []int {
			var p []int
			for i, x := range cs.Xs {
				if kind(x.P) {
					p = append(p, i)
				}
			}
			return p
		}
		in := mk(cs.Xs, func(i int) int { return i })
		same := func(got, want []record.RefFloatHistogramSample) bool {
			if len(got) != len(want) {
				return false
			}
			for i := range got {
				if got[i].Ref != want[i].Ref || got[i].T != want[i].T || got[i].ST != want[i].ST || !c14SameFH(got[i].FH, want[i].FH) {
					return false
				}
			}
			return true
		}
		out, left := enc.FloatHistogramSamples(in, pre)
		var wantOut, wantLeft []record.RefFloatHistogramSample
		if v2 {
			p := posOf(func(string) bool { return true })
			wantOut = mk(cs.Pred.Out, func(i int) int { return p[i] })
		} else {
			pe := posOf(func(s string) bool { return s == "exp" })
			pc := posOf(func(s string) bool { return s == "cb" })
			wantOut = mk(cs.Pred.Out, func(i int) int { return pe[i] })
			wantLeft = mk(cs.Pred.Left, func(i int) int { return pc[i] })
		}
		if !same(left, wantLeft) {
			rep.v("split:"+cs.Ty, "%s: custom-bucket leftovers %v, reference %v", tag, left, wantLeft)
		}
		if cs.Pred.Empty {
			if len(prefix) > 0 && (len(out) < len(prefix) || string(out[:len(prefix)]) != string(prefix)) {
				rep.v("append:encoder:"+cs.Ty+":reset", "%s: a batch of only custom-bucket float histograms wipes the %d bytes already in b (Encbuf.Reset)", tag, len(prefix))
			}
		} else {
			rec, ok := checkPrefix(out)
			if !ok {
				return
			}
			got, err := dec.FloatHistogramSamples(rec, nil)
			if err != nil || !same(got, wantOut) {
				rep.v("roundtrip:"+cs.Ty, "%s: decoded %v (err %v), want %v", tag, got, err, wantOut)
			}
			trailing(rec, func(b []byte) error { _, err := dec.FloatHistogramSamples(b, nil); return err })
		}
		if len(left) > 0 {
			rec2, ok := checkPrefix(enc.CustomBucketsFloatHistogramSamples(left, pre))
			if !ok {
				return
			}
			got, err := dec.FloatHistogramSamples(rec2, nil)
			if err != nil || !same(got, wantLeft) {
				rep.v("roundtrip:"+cs.Ty+":custom", "%s: custom-bucket record decoded %v (err %v), want %v", tag, got, err, wantLeft)
			}
		}
	case "tombstones":
		var in []tombstones.Stone
		type flat struct {
			ref    storage.SeriesRef
			lo, hi int64
		}
		var want, got []flat
		for _, x := range cs.Xs {
			st := tombstones.Stone{Ref: storage.SeriesRef(conc.ref[x.R])}
			for _, iv := range x.Ivs {
				st.Intervals = append(st.Intervals, tombstones.Interval{Mint: conc.t[iv[0]], Maxt: conc.t[iv[1]]})
			}
			in = append(in, st)
		}
		for _, x := range cs.Pred.Out {
			want = append(want, flat{storage.SeriesRef(conc.ref[x.R]), conc.t[x.Iv[0]], conc.t[x.Iv[1]]})
		}
		rec, ok := checkPrefix(enc.Tombstones(in, pre))
		if !ok {
			return
		}
		dd, err := dec.Tombstones(rec, nil)
		for _, s := range dd {
			for _, iv := range s.Intervals {
				got = append(got, flat{s.Ref, iv.Mint, iv.Maxt})
			}
		}
		if err != nil || !(len(got) == 0 && len(want) == 0 || reflect.DeepEqual(got, want)) {
			rep.v("roundtrip:"+cs.Ty, "%s: decoded %v (err %v), want %v", tag, got, err, want)
		}
		trailing(rec, func(b []byte) error { _, err := dec.Tombstones(b, nil); return err })
	case "series":
		var in []record.RefSeries
		for _, x := range cs.Xs {
			in = append(in, record.RefSeries{Ref: chunks.HeadSeriesRef(conc.ref[x.R]), Labels: conc.lset(x.P)})
		}
		rec, ok := checkPrefix(enc.Series(in, pre))
		if !ok {
			return
		}
		got, err := dec.Series(rec, nil)
		same := err == nil && len(got) == len(in)
		for i := 0; same && i < len(got); i++ {
			same = got[i].Ref == in[i].Ref && labels.Equal(got[i].Labels, in[i].Labels)
		}
		if !same {
			rep.v("roundtrip:"+cs.Ty, "%s: decoded %v (err %v), want %v", tag, got, err, in)
		}
		trailing(rec, func(b []byte) error { _, err := dec.Series(b, nil); return err })
	case "metadata":
		var in []record.RefMetadata
		for _, x := range cs.Xs {
			m := record.RefMetadata{Ref: chunks.HeadSeriesRef(conc.ref[x.R]), Type: uint8(conc.seed % 9)}
			switch x.P {
			case "m1":
				m.Unit, m.Help = "seconds", "some help"
			case "m2":
				m.Type, m.Unit, m.Help = 255, strings.Repeat("u", 200), "multi\nline \x00 help é"
			}
			in = append(in, m)
		}
		rec, ok := checkPrefix(enc.Metadata(in, pre))
		if !ok {
			return
		}
		got, err := dec.Metadata(rec, nil)
		if err != nil || !(len(got) == 0 && len(in) == 0 || reflect.DeepEqual(got, in)) {
			rep.v("roundtrip:"+cs.Ty, "%s: decoded %v (err %v), want %v", tag, got, err, in)
		}
		trailing(rec, func(b []byte) error { _, err := dec.Metadata(b, nil); return err })
	case "mmap":
		var in []record.RefMmapMarker
		for _, x := range cs.Xs {
			mr := chunks.ChunkDiskMapperRef(7)
			if x.P == "k2" {
				mr = chunks.ChunkDiskMapperRef(math.MaxUint64 - uint64(conc.seed))
			}
			in = append(in, record.RefMmapMarker{Ref: chunks.HeadSeriesRef(conc.ref[x.R]), MmapRef: mr})
		}
		rec, ok := checkPrefix(enc.MmapMarkers(in, pre))
		if !ok {
			return
		}
		got, err := dec.MmapMarkers(rec, nil)
		if err != nil || !(len(got) == 0 && len(in) == 0 || reflect.DeepEqual(got, in)) {
			rep.v("roundtrip:"+cs.Ty, "%s: decoded %v (err %v), want %v", tag, got, err, in)
		}
		trailing(rec, func(b []byte) error { _, err := dec.MmapMarkers(b, nil); return err })
	default:
		rep.d("unknown case type %s", cs.Ty)
	}
}

func TestVerifC14Records(t *testing.T) {
	cases, err := verifh.ReadNDJSON[c14Case](verifh.In())
	if err != nil {
		verifh.Infra(err.Error())
		t.Fatal(err)
	}
	nconc := 3
	if !verifh.Quick() {
		nconc = 12
	}
	rep := &c14Rep{}
	seen := map[string]int{}
	for i, cs := range cases {
		for k := 0; k < nconc; k++ {
			seedK := int64(k)
			if k >= 2 {
				seedK = (verifh.Seed()*7919 + int64(i)*31 + int64(k)) % 125
			}
			conc := c14MakeConc(seedK)
			c14Run(cs, conc, nil, false, rep)
			if k == 0 {
				c14Run(cs, conc, []byte{0xAA, 0xBB, 0xCC}, false, rep)
				if strings.HasPrefix(cs.Ty, "samples") {
					c14Run(cs, conc, nil, true, rep)
				}
			}
		}
		for _, v := range rep.viol {
			seen[v[0]]++
			if seen[v[0]] <= 3 {
				verifh.Violation(v[0], v[1], map[string]any{"case": cs})
			}
		}
		rep.viol = rep.viol[:0]
	}
	for i, d := range rep.drift {
		if i < 10 {
			verifh.Drift(d)
		}
	}
	verifh.Stat(map[string]any{"evaluations": rep.evals, "cases": len(cases), "drift_total": len(rep.drift)})
	verifh.Done(len(cases))
	if verifh.Violations() > 0 {
		t.Fail()
	}
}
