package chunkenc_test

// C10 conformance harness: replays behaviours emitted by
// specs/floatchunk/FloatChunk.tla (class-level operation sequences on a float
// chunk: Append / Reopen / Open / Next / Seek) against the real XOR and XOR2
// chunks. Classes are concretised to boundary values (exact, +-1; seeded);
// every iterator call is compared with the sample index the spec predicts,
// bit for bit on (start timestamp, timestamp, value). In addition every built
// chunk is read completely with a fresh, a recycled and a reloaded-from-bytes
// iterator, and the dod packing ranges named in the Init record are swept
// exhaustively.

import (
	"fmt"
	"math"
	"math/rand"
	"runtime"
	"strings"
	"sync"
	"testing"

	"github.com/prometheus/prometheus/internal/verifh"
	"github.com/prometheus/prometheus/model/value"
	"github.com/prometheus/prometheus/tsdb/chunkenc"
)

type fcClass struct {
	Tc string `json:"tc"`
	Vc string `json:"vc"`
	Sc string `json:"sc"`
}

type fcStep struct {
	Op   string   `json:"op"`
	Enc  string   `json:"enc"`
	C    *fcClass `json:"c"`
	N    int      `json:"n"`
	Kind string   `json:"kind"`
	Tg   []any    `json:"tg"`
	At   int      `json:"at"`

	Sweeps []struct {
		Lo int64 `json:"lo"`
		Hi int64 `json:"hi"`
	} `json:"sweeps"`
}

type fcTriple struct {
	st, t int64
	v     uint64
}

func (x fcTriple) String() string {
	return fmt.Sprintf("(st=%d t=%d v=%#016x)", x.st, x.t, x.v)
}

type fcConc struct {
	rnd *rand.Rand
	enc chunkenc.Encoding
	// mirror of what was appended, for choosing the next concrete values
	n          int
	t          int64
	delta      int64
	v          uint64
	lead, trl  int // last window the harness created (-1 = none)
	st, stDiff int64
	stActive   bool
	flip       int
}

var fcBoundary = map[string][]int64{
	"p13": {4094, 4095, 4096, 4097}, "n13": {-4095, -4096, -4097, -4098},
	"p14": {8191, 8192, 8193, 8194}, "n14": {-8190, -8191, -8192, -8193},
	"p17": {65535, 65536, 65537}, "n17": {-65534, -65535, -65536, -65537},
	"p20": {524286, 524287, 524288, 524289}, "n20": {-524286, -524287, -524288, -524289},
	"hugep": {1 << 21, 1 << 40, 1<<32 + 1}, "hugen": {-(1 << 21), -(1 << 40), -(1<<32 + 1)},
}

func (c *fcConc) pick(xs []int64) int64 { return xs[c.rnd.Intn(len(xs))] }

func (c *fcConc) next(cl *fcClass) fcTriple {
	var t int64
	switch {
	case cl.Tc == "first":
		t = c.pick([]int64{0, 1, -1, 1600000000000, -(1 << 62) + 1, 1 << 61, -1 << 40})
		c.delta = 0
	case c.n == 1:
		d := map[string]int64{"d1": 1, "dsmall": 15000, "dbig": 1<<21 + 7, "dhuge": 1 << 45}[cl.Tc]
		if d == 0 {
			d = 1000
		}
		t = c.t + d
		c.delta = d
	default:
		var dod int64
		switch cl.Tc {
		case "z":
			dod = 0
		case "s":
			dod = c.pick([]int64{1, -1, 2, -3, 100, -100})
		default:
			dod = c.pick(fcBoundary[cl.Tc])
		}
		if c.delta+dod < 1 { // timestamps must keep increasing: mirror the class to the positive side
			dod = -dod
		}
		c.delta += dod
		t = c.t + c.delta
	}
	// value
	v := c.v
	switch cl.Vc {
	case "same":
	case "reuse":
		if c.lead < 0 {
			v ^= 0x000ff00000000000
			c.lead, c.trl = 12, 44
		} else {
			pos := c.trl
			if c.flip%2 == 1 {
				pos = 63 - c.lead
			}
			v ^= 1 << uint(pos)
		}
	case "newwin":
		// alternately widen the window at the low and at the high end
		if c.flip%2 == 0 {
			v ^= 0x0000000000000001 | 1<<20
			c.lead, c.trl = 31, 0 // leading zeros are clamped to 31
		} else {
			v ^= 1<<62 | 1<<40
			c.lead, c.trl = 1, 40
		}
	case "lead32":
		// 32 or more leading zeros (the 5-bit field holds at most 31): exactly 32, 33, or many
		v ^= uint64(c.pick([]int64{1 << 31, 1 << 30, 1<<31 | 1, 1 << uint(c.rnd.Intn(20))}))
		c.lead, c.trl = -1, -1
	case "full64":
		v ^= 1<<63 | 1
		c.lead, c.trl = 0, 0
	case "stale":
		v = value.StaleNaN
	case "nan2":
		v = 0x7ff8000000000001
		c.lead, c.trl = -1, -1
	case "negzero":
		v = math.Float64bits(math.Copysign(0, -1))
		c.lead, c.trl = -1, -1
	case "inf":
		v = math.Float64bits(math.Inf(1))
		c.lead, c.trl = -1, -1
	default: // "rand"
		v = c.rnd.Uint64()
		c.lead, c.trl = -1, -1
	}
	if cl.Vc == "same" && c.n == 0 {
		v = math.Float64bits(1.5)
	}
	c.flip++
	// start timestamp
	var st int64
	switch cl.Sc {
	case "none":
		st = 0
	case "same":
		st = c.st
	case "prevt":
		st = c.t
	case "jit":
		d := c.pick([]int64{0, 1, -3, 4, -4, 5, -31, 32, -32, 33, -255, 256, -256, 257, -2047, 2048, -2048, 2049, -131071, 131072, 131073, -16777215, 16777216, 16777217, 1 << 55, -(1 << 55), 1<<55 + 1})
		st = c.t - (c.stDiff + d)
		if c.n == 0 {
			st = t - c.pick([]int64{1, 1000, 15000})
		}
	default: // "big"
		st = c.pick([]int64{1, -1, t, t + 5, -(1 << 62), 1 << 62, c.rnd.Int63n(1 << 50)})
	}
	if c.n > 0 {
		c.stDiff = c.t - st
	}
	c.st = st
	c.t, c.n = t, c.n+1
	if v != value.StaleNaN {
		c.v = v
	}
	return fcTriple{st: st, t: t, v: v}
}

type fcRun struct {
	fails []string
	sigs  []string
	stat  map[string]int
}

func (r *fcRun) fail(sig, format string, a ...any) {
	r.sigs = append(r.sigs, sig)
	r.fails = append(r.fails, fmt.Sprintf(format, a...))
}

func fcWant(enc chunkenc.Encoding, x fcTriple) fcTriple {
	if enc == chunkenc.EncXOR {
		x.st = 0 // XOR chunks do not store start timestamps
	}
	return x
}

func fcAt(it chunkenc.Iterator) fcTriple {
	t, v := it.At()
	if it.AtT() != t {
		return fcTriple{st: it.AtST(), t: it.AtT(), v: math.Float64bits(v) ^ 0xdeadbeef}
	}
	return fcTriple{st: it.AtST(), t: t, v: math.Float64bits(v)}
}

// fullRead iterates a chunk completely and compares with the appended triples.
func (r *fcRun) fullRead(what string, ch chunkenc.Chunk, it chunkenc.Iterator, want []fcTriple) chunkenc.Iterator {
	it = ch.Iterator(it)
	k := 0
	for it.Next() == chunkenc.ValFloat {
		if k >= len(want) {
			r.fail("read:extra", "%s: iteration yields more than the %d appended samples", what, len(want))
			return it
		}
		if got, w := fcAt(it), fcWant(ch.Encoding(), want[k]); got != w {
			r.fail("read:differs", "%s: sample %d of %d is %v, appended %v (previous appended %v)", what, k+1, len(want), got, w, func() any {
				if k > 0 {
					return want[k-1]
				}
				return "-"
			}())
			return it
		}
		k++
	}
	if it.Err() != nil {
		r.fail("read:err", "%s: iterator error after %d of %d samples: %v", what, k, len(want), it.Err())
		return it
	}
	if k != len(want) {
		r.fail("read:short", "%s: iteration stops after %d of %d appended samples", what, k, len(want))
	}
	return it
}

func fcEnc(name string) chunkenc.Encoding {
	if name == "xor2" || name == "xor2n" {
		return chunkenc.EncXOR2
	}
	return chunkenc.EncXOR
}

func (r *fcRun) replay(b []fcStep, seed int64, stretch int, noBytes bool) {
	if len(b) == 0 || b[0].Op != "Init" {
		r.fail("infra", "behaviour does not start with Init")
		return
	}
	enc := fcEnc(b[0].Enc)
	c := &fcConc{rnd: rand.New(rand.NewSource(seed)), enc: enc, lead: -1, trl: -1}
	ch, err := chunkenc.NewEmptyChunk(enc)
	if err != nil {
		r.fail("infra", "%v", err)
		return
	}
	app, err := ch.Appender()
	if err != nil {
		r.fail("infra", "%v", err)
		return
	}
	var want []fcTriple
	var it, recycled chunkenc.Iterator
	reopenBytes := false
	for si, s := range b[1:] {
		switch s.Op {
		case "Append":
			reps := 1
			if stretch > 1 && s.C.Tc != "first" && c.n >= 2 {
				reps = stretch // long chunks: the same class again and again (classes are relative)
			}
			for k := 0; k < reps; k++ {
				cl := *s.C
				if stretch > 1 && seed%2 == 0 && c.n < 130 && cl.Sc != "none" {
					cl.Sc = "none" // half of the long chunks get their first start timestamp after sample 127
				}
				x := c.next(&cl)
				app.Append(x.st, x.t, math.Float64frombits(x.v))
				want = append(want, x)
				r.stat["appends"]++
			}
		case "Reopen":
			if s.Kind == "bytes" && !noBytes {
				// appending resumes on a chunk reloaded from (a copy of) its bytes
				nc, err := chunkenc.FromData(enc, append(make([]byte, 0, len(ch.Bytes())+64), ch.Bytes()...))
				if err != nil {
					r.fail("infra", "FromData: %v", err)
					return
				}
				ch = nc
				reopenBytes = true
			}
			if app, err = ch.Appender(); err != nil {
				r.fail("reopen:err", "Appender() on a chunk with %d samples: %v", len(want), err)
				return
			}
			r.stat["reopen_"+s.Kind]++
		case "Open":
			it = ch.Iterator(nil)
		case "Next", "Seek":
			var vt chunkenc.ValueType
			what := "Next"
			if s.Op == "Next" {
				vt = it.Next()
			} else {
				k := int(s.Tg[1].(float64))
				var tg int64
				switch s.Tg[0].(string) {
				case "at":
					tg = want[k-1].t
				case "gap":
					if k == 1 {
						tg = want[0].t - 1
					} else {
						tg = want[k-2].t + 1
					}
				default:
					tg = want[len(want)-1].t + 1
				}
				what = fmt.Sprintf("Seek(%d) [%v]", tg, s.Tg)
				vt = it.Seek(tg)
			}
			r.stat["iter_calls"]++
			if stretch > 1 {
				continue // sample indices of the model do not apply to stretched chunks
			}
			if s.At == 0 {
				if vt != chunkenc.ValNone {
					r.fail("iter:not-none", "step %d %s returns a sample %v, the reference says none is left", si+1, what, fcAt(it))
					return
				}
				continue
			}
			if vt != chunkenc.ValFloat {
				r.fail("iter:none", "step %d %s returns %v (err %v), the reference says sample %d %v", si+1, what, vt, it.Err(), s.At, want[s.At-1])
				return
			}
			if got, w := fcAt(it), fcWant(enc, want[s.At-1]); got != w {
				r.fail("iter:differs", "step %d %s stands on %v, the reference says sample %d = %v", si+1, what, got, s.At, w)
				return
			}
		}
	}
	if ch.NumSamples() != len(want) {
		r.fail("numsamples", "NumSamples() = %d after %d appends", ch.NumSamples(), len(want))
	}
	sfx := ""
	if reopenBytes {
		sfx = " (appender resumed on reloaded bytes)"
	}
	recycled = r.fullRead("fresh iterator"+sfx, ch, nil, want)
	if len(r.fails) > 0 {
		return
	}
	r.fullRead("recycled iterator"+sfx, ch, recycled, want)
	cp, err := chunkenc.FromData(enc, append([]byte(nil), ch.Bytes()...))
	if err != nil {
		r.fail("infra", "FromData: %v", err)
		return
	}
	r.fullRead("chunk reloaded from bytes"+sfx, cp, nil, want)
	// Seek to every sample on a fresh iterator each
	if len(want) <= 64 {
		for k := range want {
			si := ch.Iterator(nil)
			if si.Seek(want[k].t) != chunkenc.ValFloat || fcAt(si) != fcWant(enc, want[k]) {
				r.fail("seek:fresh", "fresh iterator Seek(%d) does not stand on sample %d %v", want[k].t, k+1, want[k])
				return
			}
		}
	}
}

// sweep: every dod of the packed ranges (and a margin) as third sample, followed by a fourth sample.
func (r *fcRun) sweep(enc chunkenc.Encoding, lo, hi int64, seed int64) {
	rnd := rand.New(rand.NewSource(seed))
	base := int64(1 << 21)
	for dod := lo; dod <= hi; dod++ {
		ch, _ := chunkenc.NewEmptyChunk(enc)
		app, _ := ch.Appender()
		t0 := rnd.Int63n(1<<40) - 1<<39
		v := math.Float64bits(float64(rnd.Intn(1000)))
		w := []fcTriple{{0, t0, v}, {0, t0 + base, v ^ 1}, {0, t0 + 2*base + dod, v}, {0, t0 + 3*base + 2*dod + 1, v ^ 0xff00}}
		for _, x := range w {
			app.Append(x.st, x.t, math.Float64frombits(x.v))
		}
		r.stat["sweep"]++
		r.fullRead(fmt.Sprintf("dod sweep %s dod=%d", enc, dod), ch, nil, w)
		if len(r.fails) > 0 {
			return
		}
	}
}

func fcBytesReopenThenAppend(b []fcStep) bool {
	seen := false
	for _, s := range b {
		if s.Op == "Reopen" && s.Kind == "bytes" {
			seen = true
		}
		if seen && s.Op == "Append" {
			return true
		}
	}
	return false
}

func TestVerifC10Replay(t *testing.T) {
	behs, err := verifh.ReadNDJSON[[]fcStep](verifh.In())
	if err != nil {
		verifh.Infra(err.Error())
		t.Fatal(err)
	}
	var mu sync.Mutex
	total := map[string]int{}
	known := map[string]int{}
	report := func(bi int, r *fcRun, c any) {
		mu.Lock()
		defer mu.Unlock()
		for k, v := range r.stat {
			total[k] += v
		}
		for i, f := range r.fails {
			sig := r.sigs[i]
			if sig == "infra" {
				verifh.Infra(f)
				continue
			}
			if strings.HasPrefix(sig, "KF") {
				known[sig]++
				if known[sig] > 2 {
					continue
				}
			}
			verifh.Violation(sig, fmt.Sprintf("behaviour %d: %s", bi, f), c)
		}
	}
	var wg sync.WaitGroup
	sem := make(chan struct{}, runtime.GOMAXPROCS(0))
	nconc := 2
	if !verifh.Quick() {
		nconc = 6
	}
	for bi := range behs {
		wg.Add(1)
		sem <- struct{}{}
		go func(bi int) {
			defer wg.Done()
			defer func() { <-sem }()
			b := behs[bi]
			for k := 0; k < nconc; k++ {
				seed := verifh.Seed()*1000003 + int64(bi)*13 + int64(k)
				stretch := 1
				if k == 1 && len(b) > 20 {
					stretch = 60 // about 2000 samples, crosses the 127-sample ST header limit
				}
				run := func(noBytes bool) *fcRun {
					r := &fcRun{stat: map[string]int{}}
					defer func() {
						if p := recover(); p != nil {
							buf := make([]byte, 2048)
							buf = buf[:runtime.Stack(buf, false)]
							r.fail("panic", "panic: %v\n%s", p, buf)
						}
					}()
					r.replay(b, seed, stretch, noBytes)
					return r
				}
				r := run(false)
				report(bi, r, map[string]any{"behaviour": b, "seed": seed, "stretch": stretch})
				if len(r.fails) > 0 {
					break
				}
			}
		}(bi)
	}
	wg.Wait()
	// exhaustive sweep of the delta-of-delta ranges named by the spec (Init record), once per encoding
	sw := &fcRun{stat: map[string]int{}}
	swept := map[string]bool{}
	for _, b := range behs {
		if len(b) == 0 || swept[b[0].Enc] {
			continue
		}
		swept[b[0].Enc] = true
		for _, rg := range b[0].Sweeps {
			sw.sweep(fcEnc(b[0].Enc), rg.Lo, rg.Hi, verifh.Seed()+rg.Lo)
		}
	}
	report(-1, sw, "dod sweep")
	st := map[string]any{"behaviours_replayed": len(behs)}
	for k, v := range total {
		st[k] = v
	}
	for k, v := range known {
		st["known_"+k] = v
	}
	verifh.Stat(st)
	verifh.Done(len(behs))
	if verifh.Violations() > 0 {
		t.Fail()
	}
}
