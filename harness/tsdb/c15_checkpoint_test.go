package tsdb

// C15 conformance harness (in-package: drives Head.Truncate / truncateSelectedSeries / wal.NextSegment).
//
// Input: behaviours emitted by specs/checkpoint/Checkpoint.tla: a history of head operations
// (hist) and the spec's predictions for the final state (fin): the entries left in checkpoint +
// segments, what a replay of the untruncated log reconstructs at or after T (want), what the
// design reconstructs from checkpoint + segments (got) and which known findings explain a
// difference (kf).
//
// For every behaviour the history is driven into a real tsdb.Head on a WAL directory; a copy of
// every segment is retained before each truncation.  At the end
//   - the real WAL is decoded (checkpoint, then segments) and compared with the predicted entries
//     (difference = model drift) and appended to $VERIF_TRACE for Trace_Checkpoint.tla, where TLC
//     evaluates RefClosed on the real entries;
//   - a fresh Head replays a copy of checkpoint+segments and another the retained untruncated
//     log; both contents are compared with `want` (strict: a difference of the truncated replay is
//     a violation, a difference of the full replay means the model's Replay is not Head.Init).

import (
	"context"
	"encoding/json"
	"fmt"
	"io"
	"math"
	"os"
	"path/filepath"
	"reflect"
	"sort"
	"strconv"
	"strings"
	"sync"
	"testing"

	"github.com/prometheus/client_golang/prometheus"
	"github.com/prometheus/common/model"

	"github.com/prometheus/prometheus/internal/verifh"
	"github.com/prometheus/prometheus/model/exemplar"
	"github.com/prometheus/prometheus/model/labels"
	"github.com/prometheus/prometheus/model/metadata"
	"github.com/prometheus/prometheus/storage"
	"github.com/prometheus/prometheus/tsdb/chunkenc"
	"github.com/prometheus/prometheus/tsdb/record"
	"github.com/prometheus/prometheus/tsdb/wlog"
	"github.com/prometheus/prometheus/util/compression"
)

const (
	c15INF = 1000000
	c15NEG = -1000000
)

type c15Entry struct {
	K   string `json:"k"`
	Ref uint64 `json:"ref"`
	Lab string `json:"lab"`
	T   int64  `json:"t"`
	T2  int64  `json:"t2"`
	V   int64  `json:"v"`
}

type c15Ex struct {
	Lab string `json:"lab"`
	T   int64  `json:"t"`
	V   int64  `json:"v"`
}

type c15Content struct {
	Smp  map[string][][2]int64 `json:"smp"`
	Del  map[string][]int64    `json:"del"`
	Meta map[string]int64      `json:"meta"`
	Ex   []c15Ex               `json:"ex"`
}

type c15Step struct {
	A       string   `json:"a"`
	Labs    []string `json:"labs"`
	Cut     bool     `json:"cut"`
	T       int64    `json:"t"`
	Refs    []uint64 `json:"refs"`
	Vals    []int64  `json:"vals"`
	Lab     string   `json:"lab"`
	Ref     uint64   `json:"ref"`
	V       int64    `json:"v"`
	Lo      int64    `json:"lo"`
	Lo2     int64    `json:"lo2"`
	Hi2     int64    `json:"hi2"`
	Maxt    int64    `json:"maxt"`
	M       int64    `json:"m"`
	K       int      `json:"k"`
	Ckpt    bool     `json:"ckpt"`
	Ord     string   `json:"ord"`
	First   int      `json:"first"`
	Last    int      `json:"last"`
	Unk     int      `json:"unk"`
	NSeries int      `json:"nseries"`
	LastRef uint64   `json:"lastRef"`
}

type c15Seg struct {
	Seg int        `json:"seg"`
	Es  []c15Entry `json:"es"`
}

type c15Final struct {
	T    int64      `json:"T"`
	TMax int64      `json:"tmax"`
	Want c15Content `json:"want"`
	Got  c15Content `json:"got"`
	MDup bool       `json:"mdup"` // two refs of one label set in the checkpoint's metadata record: repeat the history
	Racy []c15Ex    `json:"racy"` // exemplars whose replay outcome is a race in loadWAL: not compared
	Unk  int        `json:"unk"`
	KF   []string   `json:"kf"`
	Cp   struct {
		Idx int        `json:"idx"`
		Es  []c15Entry `json:"es"`
	} `json:"cp"`
	Segs []c15Seg   `json:"segs"`
	Orph []c15Entry `json:"orph"`
}

type c15Beh struct {
	Hist []c15Step `json:"hist"`
	Fin  c15Final  `json:"fin"`
}

// concretisation of the model's time axis, values and label sets
type c15Conc struct {
	base, scale int64
	job         string
}

func c15MakeConc(seed int64) c15Conc {
	bases := []int64{0, 1700000000000, 5, 86400000, 1 << 50} // non-negative: a missing walExpiries entry reads as 0
	scales := []int64{1000, 15000, 1, 60000, 7}
	return c15Conc{base: bases[int(seed%5+5)%5], scale: scales[int(seed/5%5+5)%5], job: "j" + strconv.FormatInt(seed%97, 10)}
}

func (c c15Conc) ts(t int64) int64 {
	switch {
	case t <= c15NEG:
		return math.MinInt64
	case t >= c15INF:
		return math.MaxInt64
	}
	return c.base + t*c.scale
}

func (c c15Conc) unts(x int64) int64 {
	switch x {
	case math.MinInt64:
		return c15NEG
	case math.MaxInt64:
		return c15INF
	}
	d := x - c.base
	if d%c.scale != 0 {
		return -777777 // not a model time point: will show up as a difference
	}
	return d / c.scale
}

func (c c15Conc) lset(lab string) labels.Labels {
	return labels.FromStrings("__name__", "m_"+lab, "job", c.job)
}

func c15LabOf(l labels.Labels) string { return strings.TrimPrefix(l.Get("__name__"), "m_") }

func c15Meta(v int64) metadata.Metadata {
	typ := model.MetricTypeCounter
	if v%2 == 0 {
		typ = model.MetricTypeGauge
	}
	return metadata.Metadata{Type: typ, Unit: "u", Help: "help " + strconv.FormatInt(v, 10)}
}

type c15Head struct {
	h   *Head
	reg *prometheus.Registry
}

func c15Open(dir string, minValid int64) (*c15Head, error) {
	w, err := wlog.NewSize(nil, nil, filepath.Join(dir, "wal"), 32768, compression.None)
	if err != nil {
		return nil, err
	}
	opts := DefaultHeadOptions()
	opts.ChunkRange = 1 << 56 // one head chunk per series, appendable window = minValidTime
	opts.ChunkDirRoot = dir
	opts.StripeSize = 4
	opts.WALReplayConcurrency = 2
	opts.EnableExemplarStorage = true
	opts.MaxExemplars.Store(1000)
	reg := prometheus.NewRegistry()
	h, err := NewHead(reg, nil, w, nil, opts, nil)
	if err != nil {
		return nil, err
	}
	if err := h.Init(minValid); err != nil {
		return nil, err
	}
	return &c15Head{h: h, reg: reg}, nil
}

// unknown refs counted by Head.loadWAL (prometheus_tsdb_wal_replay_unknown_refs_total, all types but "series")
func (ch *c15Head) unknownRefs() int {
	mfs, _ := ch.reg.Gather()
	n := 0.0
	for _, mf := range mfs {
		if mf.GetName() != "prometheus_tsdb_wal_replay_unknown_refs_total" {
			continue
		}
		for _, m := range mf.GetMetric() {
			typ := ""
			for _, lp := range m.GetLabel() {
				if lp.GetName() == "type" {
					typ = lp.GetValue()
				}
			}
			if typ != "series" {
				n += m.GetCounter().GetValue()
			}
		}
	}
	return int(n)
}

func c15CopyFile(src, dst string) error {
	in, err := os.Open(src)
	if err != nil {
		return err
	}
	defer in.Close()
	out, err := os.Create(dst)
	if err != nil {
		return err
	}
	if _, err := io.Copy(out, in); err != nil {
		out.Close()
		return err
	}
	return out.Close()
}

// copy segment files (and, if withCheckpoints, checkpoint directories) of a WAL directory
func c15CopyWAL(src, dst string, withCheckpoints bool) error {
	if err := os.MkdirAll(dst, 0o777); err != nil {
		return err
	}
	ents, err := os.ReadDir(src)
	if err != nil {
		return err
	}
	for _, e := range ents {
		switch {
		case e.IsDir() && withCheckpoints && strings.HasPrefix(e.Name(), "checkpoint.") && !strings.HasSuffix(e.Name(), ".tmp"):
			if err := c15CopyWAL(filepath.Join(src, e.Name()), filepath.Join(dst, e.Name()), false); err != nil {
				return err
			}
		case !e.IsDir():
			if _, err := strconv.Atoi(e.Name()); err != nil {
				continue
			}
			if err := c15CopyFile(filepath.Join(src, e.Name()), filepath.Join(dst, e.Name())); err != nil {
				return err
			}
		}
	}
	return nil
}

func c15Decode(r *wlog.Reader, conc c15Conc, names map[uint64]string, out []c15Entry) ([]c15Entry, error) {
	dec := record.NewDecoder(labels.NewSymbolTable(), nil)
	for r.Next() {
		rec := r.Record()
		switch dec.Type(rec) {
		case record.Series:
			ss, err := dec.Series(rec, nil)
			if err != nil {
				return out, err
			}
			for _, s := range ss {
				out = append(out, c15Entry{K: "S", Ref: uint64(s.Ref), Lab: c15LabOf(s.Labels)})
			}
		case record.Samples, record.SamplesV2:
			ss, err := dec.Samples(rec, nil)
			if err != nil {
				return out, err
			}
			for _, s := range ss {
				out = append(out, c15Entry{K: "D", Ref: uint64(s.Ref), T: conc.unts(s.T), V: int64(s.V)})
			}
		case record.Tombstones:
			ss, err := dec.Tombstones(rec, nil)
			if err != nil {
				return out, err
			}
			for _, s := range ss {
				for _, iv := range s.Intervals {
					out = append(out, c15Entry{K: "T", Ref: uint64(s.Ref), T: conc.unts(iv.Mint), T2: conc.unts(iv.Maxt)})
				}
			}
		case record.Exemplars:
			ss, err := dec.Exemplars(rec, nil)
			if err != nil {
				return out, err
			}
			for _, s := range ss {
				out = append(out, c15Entry{K: "X", Ref: uint64(s.Ref), T: conc.unts(s.T), V: int64(s.V)})
			}
		case record.Metadata:
			ss, err := dec.Metadata(rec, nil)
			if err != nil {
				return out, err
			}
			for _, s := range ss {
				v, _ := strconv.ParseInt(strings.TrimPrefix(s.Help, "help "), 10, 64)
				out = append(out, c15Entry{K: "M", Ref: uint64(s.Ref), V: v})
			}
		default:
			out = append(out, c15Entry{K: "?" + dec.Type(rec).String()})
		}
	}
	return out, r.Err()
}

// c15ReadLog decodes checkpoint + segments of a WAL dir in replay order.
func c15ReadLog(wdir string, conc c15Conc) (cpIdx int, cpEs []c15Entry, segs []c15Seg, err error) {
	cpIdx = -1
	names := map[uint64]string{}
	cpDir, idx, e := wlog.LastCheckpoint(wdir)
	if e == nil {
		cpIdx = idx
		sr, err := wlog.NewSegmentsReader(cpDir)
		if err != nil {
			return 0, nil, nil, err
		}
		cpEs, err = c15Decode(wlog.NewReader(sr), conc, names, nil)
		sr.Close()
		if err != nil {
			return 0, nil, nil, err
		}
	}
	first, last, e := wlog.Segments(wdir)
	if e != nil {
		return 0, nil, nil, e
	}
	for i := first; i <= last && i >= 0; i++ {
		if i <= cpIdx {
			continue // superseded by the checkpoint (Head.Init starts at idx+1)
		}
		s, err := wlog.OpenReadSegment(wlog.SegmentName(wdir, i))
		if err != nil {
			return 0, nil, nil, err
		}
		sr := wlog.NewSegmentBufReader(s)
		es, err := c15Decode(wlog.NewReader(sr), conc, names, nil)
		sr.Close()
		if err != nil {
			return 0, nil, nil, err
		}
		segs = append(segs, c15Seg{Seg: i, Es: es})
	}
	return cpIdx, cpEs, segs, nil
}

// c15ContentOf extracts what the property talks about from a replayed head.
func c15ContentOf(ch *c15Head, conc c15Conc, labs []string, T, tmax int64) (c15Content, error) {
	h := ch.h
	c := c15Content{Smp: map[string][][2]int64{}, Del: map[string][]int64{}, Meta: map[string]int64{}, Ex: []c15Ex{}}
	q, err := NewBlockQuerier(h, conc.ts(T), math.MaxInt64)
	if err != nil {
		return c, err
	}
	defer q.Close()
	for _, lab := range labs {
		c.Smp[lab] = [][2]int64{}
		c.Del[lab] = []int64{}
		c.Meta[lab] = 0
		ls := conc.lset(lab)
		ss := q.Select(context.Background(), true, nil, labels.MustNewMatcher(labels.MatchEqual, "__name__", ls.Get("__name__")))
		var it chunkenc.Iterator
		for ss.Next() {
			it = ss.At().Iterator(it)
			for it.Next() == chunkenc.ValFloat {
				t, v := it.At()
				c.Smp[lab] = append(c.Smp[lab], [2]int64{conc.unts(t), int64(v)})
			}
			if it.Err() != nil {
				return c, it.Err()
			}
		}
		if ss.Err() != nil {
			return c, ss.Err()
		}
		ms := h.series.getByHash(ls.Hash(), ls)
		if ms == nil {
			continue
		}
		ms.Lock()
		if ms.meta != nil {
			v, _ := strconv.ParseInt(strings.TrimPrefix(ms.meta.Help, "help "), 10, 64)
			c.Meta[lab] = v
		}
		ms.Unlock()
		ivs, err := h.tombstones.Get(storage.SeriesRef(ms.ref))
		if err != nil {
			return c, err
		}
		for t := T; t <= tmax; t++ {
			for _, iv := range ivs {
				if iv.InBounds(conc.ts(t)) {
					c.Del[lab] = append(c.Del[lab], t)
					break
				}
			}
		}
	}
	if ces, ok := h.exemplars.(*CircularExemplarStorage); ok {
		ces.IterateExemplars(func(l labels.Labels, e exemplar.Exemplar) error {
			c.Ex = append(c.Ex, c15Ex{Lab: c15LabOf(l), T: conc.unts(e.Ts), V: int64(e.Value)})
			return nil
		})
	}
	return c, nil
}

func (c *c15Content) norm() {
	for _, v := range c.Smp {
		sort.Slice(v, func(i, j int) bool { return v[i][0] < v[j][0] || (v[i][0] == v[j][0] && v[i][1] < v[j][1]) })
	}
	for _, v := range c.Del {
		sort.Slice(v, func(i, j int) bool { return v[i] < v[j] })
	}
	sort.Slice(c.Ex, func(i, j int) bool {
		a, b := c.Ex[i], c.Ex[j]
		if a.Lab != b.Lab {
			return a.Lab < b.Lab
		}
		if a.T != b.T {
			return a.T < b.T
		}
		return a.V < b.V
	})
	if c.Ex == nil {
		c.Ex = []c15Ex{}
	}
}

// components of two contents that differ
func c15Diff(a, b c15Content, labs []string) []string {
	var d []string
	smp, del, meta := false, false, false
	for _, l := range labs {
		if !(len(a.Smp[l]) == 0 && len(b.Smp[l]) == 0) && !reflect.DeepEqual(a.Smp[l], b.Smp[l]) {
			smp = true
		}
		if !(len(a.Del[l]) == 0 && len(b.Del[l]) == 0) && !reflect.DeepEqual(a.Del[l], b.Del[l]) {
			del = true
		}
		if a.Meta[l] != b.Meta[l] {
			meta = true
		}
	}
	if smp {
		d = append(d, "samples")
	}
	if del {
		d = append(d, "tombstones")
	}
	if meta {
		d = append(d, "metadata")
	}
	if !(len(a.Ex) == 0 && len(b.Ex) == 0) && !reflect.DeepEqual(a.Ex, b.Ex) {
		d = append(d, "exemplars")
	}
	return d
}

func c15Comp(c c15Content, comp string) any {
	switch comp {
	case "samples":
		return c.Smp
	case "tombstones":
		return c.Del
	case "metadata":
		return c.Meta
	}
	return c.Ex
}

type c15Trace struct {
	ID int        `json:"id"`
	T  int64      `json:"T"`
	Es []c15Entry `json:"es"`
}

type c15Result struct {
	infra   string
	drift   []string
	viol    [][2]string // sig, msg
	trace   *c15Trace
	replays int
}

func c15Run(id int, b c15Beh, conc c15Conc, root string, _ []string) (res c15Result) {
	defer func() {
		if r := recover(); r != nil {
			res.viol = append(res.viol, [2]string{"panic", fmt.Sprintf("behaviour %d: the head panics: %v", id, r)})
		}
	}()
	var labs []string // the model's label sets
	for l := range b.Fin.Want.Meta {
		labs = append(labs, l)
	}
	sort.Strings(labs)
	dir := filepath.Join(root, fmt.Sprintf("b%d", id))
	defer os.RemoveAll(dir)
	live := filepath.Join(dir, "live")
	full := filepath.Join(dir, "full", "wal")
	fail := func(f string, a ...any) c15Result { res.infra = fmt.Sprintf("behaviour %d: ", id) + fmt.Sprintf(f, a...); return res }
	drift := func(f string, a ...any) { res.drift = append(res.drift, fmt.Sprintf("behaviour %d: ", id)+fmt.Sprintf(f, a...)) }

	ch, err := c15Open(live, math.MinInt64)
	if err != nil {
		return fail("open: %v", err)
	}
	defer func() { ch.h.Close() }()
	ctx := context.Background()
	wdir := filepath.Join(live, "wal")
	T := int64(0)
	for i, s := range b.Hist {
		h := ch.h
		switch s.A {
		case "Scrape":
			if s.Cut {
				if _, err := h.wal.NextSegment(); err != nil {
					return fail("step %d NextSegment: %v", i, err)
				}
			}
			app := h.Appender(ctx)
			for j, lab := range s.Labs {
				ref, err := app.Append(0, conc.lset(lab), conc.ts(s.T), float64(s.Vals[j]))
				if err != nil {
					return fail("step %d Append(%s,%d): %v (the model only generates acceptable appends)", i, lab, s.T, err)
				}
				if uint64(ref) != s.Refs[j] {
					drift("step %d: series %s got ref %d, model %d", i, lab, ref, s.Refs[j])
				}
			}
			if err := app.Commit(); err != nil {
				return fail("step %d Commit: %v", i, err)
			}
		case "Exemplar":
			app := h.Appender(ctx)
			_, err := app.AppendExemplar(storage.SeriesRef(s.Ref), conc.lset(s.Lab), exemplar.Exemplar{
				Labels: labels.FromStrings("trace_id", strconv.FormatInt(s.V, 10)), Value: float64(s.V), Ts: conc.ts(s.T), HasTs: true})
			if err != nil {
				return fail("step %d AppendExemplar: %v", i, err)
			}
			if err := app.Commit(); err != nil {
				return fail("step %d Commit: %v", i, err)
			}
		case "Meta":
			app := h.Appender(ctx)
			if _, err := app.UpdateMetadata(storage.SeriesRef(s.Ref), conc.lset(s.Lab), c15Meta(s.V)); err != nil {
				return fail("step %d UpdateMetadata: %v", i, err)
			}
			if err := app.Commit(); err != nil {
				return fail("step %d Commit: %v", i, err)
			}
		case "Delete":
			lo := int64(math.MinInt64)
			if s.Lo > 0 {
				lo = conc.ts(s.Lo)
			}
			ls := conc.lset(s.Lab)
			if err := h.Delete(ctx, lo, math.MaxInt64, labels.MustNewMatcher(labels.MatchEqual, "__name__", ls.Get("__name__"))); err != nil {
				return fail("step %d Delete: %v", i, err)
			}
		case "Evict":
			if err := h.truncateSelectedSeries([]storage.SeriesRef{storage.SeriesRef(s.Ref)}, conc.ts(s.Maxt), math.MaxUint64); err != nil {
				return fail("step %d truncateSelectedSeries: %v", i, err)
			}
		case "Truncate":
			for k := 0; k < s.K; k++ {
				if _, err := h.wal.NextSegment(); err != nil {
					return fail("step %d NextSegment: %v", i, err)
				}
			}
			if err := c15CopyWAL(wdir, full, false); err != nil {
				return fail("step %d retain copy: %v", i, err)
			}
			if err := h.Truncate(conc.ts(s.M)); err != nil {
				// the model only generates truncations the head must be able to perform
				res.viol = append(res.viol, [2]string{"truncate:error", fmt.Sprintf("behaviour %d step %d: Head.Truncate(%d) fails: %v", id, i, s.M, err)})
				return res
			}
			T = s.M
			first, last, err := wlog.Segments(wdir)
			if err != nil {
				return fail("step %d Segments: %v", i, err)
			}
			if first != s.First || last != s.Last {
				drift("step %d Truncate(%d): segments [%d,%d], model [%d,%d]", i, s.M, first, last, s.First, s.Last)
			}
		case "Restart":
			if err := h.Close(); err != nil {
				return fail("step %d Close: %v", i, err)
			}
			ch, err = c15Open(live, conc.ts(s.T))
			if err != nil {
				// the head cannot restart on what truncation left behind
				res.viol = append(res.viol, [2]string{"restart:error", fmt.Sprintf("behaviour %d step %d: Head.Init after restart fails: %v", id, i, err)})
				ch = &c15Head{h: h}
				return res
			}
			if got := ch.unknownRefs(); got != s.Unk && got < s.Unk-1 {
				drift("step %d Restart: %d unknown refs, model %d", i, got, s.Unk)
			}
			if got := int(ch.h.NumSeries()); got != s.NSeries {
				drift("step %d Restart: %d series, model %d", i, got, s.NSeries)
			}
			if got := ch.h.lastSeriesID.Load(); got != s.LastRef {
				drift("step %d Restart: lastSeriesID %d, model %d", i, got, s.LastRef)
			}
		default:
			return fail("unknown action %q", s.A)
		}
	}
	if T != b.Fin.T {
		return fail("final T %d != fin.T %d", T, b.Fin.T)
	}
	// retained untruncated log = every segment file that ever existed
	if err := c15CopyWAL(wdir, full, false); err != nil {
		return fail("retain copy: %v", err)
	}
	// (1) the real log, in replay order
	cpIdx, cpEs, segs, err := c15ReadLog(wdir, conc)
	if err != nil {
		return fail("decode WAL: %v", err)
	}
	tr := &c15Trace{ID: id, T: T, Es: append([]c15Entry{}, cpEs...)}
	for _, sg := range segs {
		tr.Es = append(tr.Es, sg.Es...)
	}
	res.trace = tr
	var wantEs []c15Entry
	wantEs = append(wantEs, b.Fin.Cp.Es...)
	for _, sg := range b.Fin.Segs {
		wantEs = append(wantEs, sg.Es...)
	}
	if cpIdx != b.Fin.Cp.Idx {
		drift("final checkpoint index %d, model %d", cpIdx, b.Fin.Cp.Idx)
	}
	if !c15SameEntries(cpEs, b.Fin.Cp.Es, true) {
		drift("checkpoint entries %v, model %v", cpEs, b.Fin.Cp.Es)
	}
	var gotSegEs []c15Entry
	for _, sg := range segs {
		gotSegEs = append(gotSegEs, sg.Es...)
	}
	if !c15SameEntries(gotSegEs, wantEs[len(b.Fin.Cp.Es):], false) {
		drift("segment entries %v, model %v", gotSegEs, wantEs[len(b.Fin.Cp.Es):])
	}
	// (2) replay of a copy of checkpoint + segments, (3) replay of the retained untruncated log
	chk := filepath.Join(dir, "chk")
	if err := c15CopyWAL(wdir, filepath.Join(chk, "wal"), true); err != nil {
		return fail("copy: %v", err)
	}
	want := b.Fin.Want
	want.norm()
	got := b.Fin.Got
	got.norm()
	replay := func(d string) (c15Content, int, error) {
		rh, err := c15Open(d, conc.ts(T))
		if err != nil {
			return c15Content{}, 0, err
		}
		defer rh.h.Close()
		c, err := c15ContentOf(rh, conc, labs, T, b.Fin.TMax)
		kept := c.Ex[:0]
		for _, e := range c.Ex {
			racy := false
			for _, r := range b.Fin.Racy {
				racy = racy || r == e
			}
			if !racy {
				kept = append(kept, e)
			}
		}
		c.Ex = kept
		c.norm()
		return c, rh.unknownRefs(), err
	}
	rt, unk, err := replay(chk)
	if err != nil {
		// what truncation left behind cannot be replayed at all
		res.viol = append(res.viol, [2]string{"replay:error", fmt.Sprintf("behaviour %d: Head.Init on checkpoint+segments fails: %v", id, err)})
		return res
	}
	for _, k := range b.Fin.KF {
		if k == "REF-REUSED" {
			// a ref was re-issued: the replay of the untruncated log is not a meaningful reference any
			// more (two series records with one ref); only RefClosed on the real entries is judged.
			res.replays = 1
			return res
		}
	}
	rf, _, err := replay(filepath.Join(dir, "full"))
	if err != nil {
		return fail("replay of the untruncated log: %v", err)
	}
	res.replays = 2
	fullStone := false // entries behind a full-range stone race with the asynchronous deleteSeriesByID
	for _, e := range wantEs {
		fullStone = fullStone || (e.K == "T" && e.T == c15NEG && e.T2 == c15INF)
	}
	if unk != b.Fin.Unk && len(b.Fin.Racy) == 0 && !fullStone {
		drift("replay of checkpoint+segments counted %d unknown refs, model %d", unk, b.Fin.Unk)
	}
	if d := c15Diff(rf, want, labs); len(d) > 0 {
		// the spec's Replay is the oracle for Head.Init itself as well: reported, never excused
		drift("ORACLE: Head.Init on the retained untruncated log reconstructs %+v, the spec's Replay(full) predicts %+v (differs in %v)", rf, want, d)
	}
	for _, comp := range c15Diff(rt, want, labs) {
		kind := "unmodelled"
		if reflect.DeepEqual(c15Comp(rt, comp), c15Comp(got, comp)) && len(b.Fin.KF) > 0 {
			kind = "modelled:" + strings.Join(b.Fin.KF, "+")
		} else if comp == "metadata" && c15MetaTailRefs(cpEs) > 1 {
			// the checkpoint's metadata record holds several refs in Go map order: the model picked
			// one order, the run another (KF-C15-3)
			kind = "maporder"
		}
		res.viol = append(res.viol, [2]string{"replay:" + comp + ":" + kind,
			fmt.Sprintf("behaviour %d: after the history, replaying checkpoint+segments at T=%d reconstructs %s = %v, replaying the untruncated log %v",
				id, T, comp, c15Comp(rt, comp), c15Comp(want, comp))})
	}
	return res
}

// number of distinct refs in the checkpoint's trailing metadata record
func c15MetaTailRefs(es []c15Entry) int {
	refs := map[uint64]bool{}
	for i := len(es) - 1; i >= 0 && es[i].K == "M"; i-- {
		refs[es[i].Ref] = true
	}
	return len(refs)
}

// order matters except inside the checkpoint's trailing metadata record (Go map order)
func c15SameEntries(a, b []c15Entry, metaTailUnordered bool) bool {
	if len(a) != len(b) {
		return false
	}
	if len(a) == 0 {
		return true
	}
	if metaTailUnordered {
		i := len(a)
		for i > 0 && a[i-1].K == "M" {
			i--
		}
		key := func(e c15Entry) string { return fmt.Sprint(e) }
		ta, tb := append([]c15Entry{}, a[i:]...), append([]c15Entry{}, b[i:]...)
		sort.Slice(ta, func(x, y int) bool { return key(ta[x]) < key(ta[y]) })
		sort.Slice(tb, func(x, y int) bool { return key(tb[x]) < key(tb[y]) })
		return (i == 0 || reflect.DeepEqual(a[:i], b[:i])) && (len(ta) == 0 || reflect.DeepEqual(ta, tb))
	}
	return reflect.DeepEqual(a, b) || (len(a) == 0 && len(b) == 0)
}

func TestVerifC15Replay(t *testing.T) {
	behs, err := verifh.ReadNDJSON[c15Beh](verifh.In())
	if err != nil {
		verifh.Infra(err.Error())
		t.Fatal(err)
	}
	root := os.Getenv("VERIF_SCRATCH")
	if st, err := os.Stat("/dev/shm"); err == nil && st.IsDir() {
		root = "/dev/shm"
	}
	root, err = os.MkdirTemp(root, "verif-c15-")
	if err != nil {
		verifh.Infra(err.Error())
		t.Fatal(err)
	}
	defer os.RemoveAll(root)
	labs := []string{"a", "b", "c"}
	tracePath := os.Getenv("VERIF_TRACE")
	var tf *os.File
	if tracePath != "" {
		if tf, err = os.Create(tracePath); err != nil {
			verifh.Infra(err.Error())
			t.Fatal(err)
		}
		defer tf.Close()
	}
	workers := 8
	if n, err := strconv.Atoi(os.Getenv("VERIF_WORKERS")); err == nil && n > 0 {
		workers = n
	}
	var (
		mu      sync.Mutex
		wg      sync.WaitGroup
		next    int
		replays int
		drifts  int
		infra   string
		sampled int
		perSig  = map[string]int{}
	)
	for w := 0; w < workers; w++ {
		wg.Add(1)
		go func() {
			defer wg.Done()
			for {
				mu.Lock()
				i := next
				next++
				stop := infra != ""
				mu.Unlock()
				if i >= len(behs) || stop {
					return
				}
				conc := c15MakeConc(verifh.Seed()*31 + int64(i))
				res := c15Run(i, behs[i], conc, root, labs)
				// the order inside the checkpoint's metadata record used to be Go map order: a wrong
				// order shows only in some runs, so such histories are repeated
				for rep := 0; behs[i].Fin.MDup && rep < 7 && len(res.viol) == 0 && res.infra == ""; rep++ {
					res = c15Run(i, behs[i], conc, root, labs)
				}
				mu.Lock()
				if res.infra != "" && infra == "" {
					infra = res.infra
				}
				for _, d := range res.drift {
					drifts++
					if drifts <= 20 {
						verifh.Drift(d)
					}
				}
				for _, v := range res.viol {
					// verifh keeps the first 50 violation records only: report a few per signature so
					// that frequent (known) signatures cannot crowd out a new one
					if perSig[v[0]]++; perSig[v[0]] > 3 {
						continue
					}
					verifh.Violation(v[0], v[1], map[string]any{"behaviour": behs[i], "seed": verifh.Seed(), "conc": fmt.Sprint(conc)})
				}
				if res.trace != nil && tf != nil {
					line, _ := json.Marshal(res.trace)
					tf.Write(append(line, '\n'))
				}
				replays += res.replays
				if sampled < 2 && len(behs[i].Hist) > 3 {
					sampled++
				}
				mu.Unlock()
			}
		}()
	}
	wg.Wait()
	if infra != "" {
		verifh.Infra(infra)
		t.Fatal(infra)
	}
	verifh.Stat(map[string]any{"head_replays": replays, "behaviours_replayed": len(behs), "drift_total": drifts})
	verifh.Done(len(behs))
	if verifh.Violations() > 0 {
		t.Fail()
	}
}
