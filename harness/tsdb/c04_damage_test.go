package tsdb_test

// C04 — damaged on-disk data never yields wrong samples.
//
// Binding of specs/damage/Damage.tla: every behaviour emitted by TLC is a workload (Db.tla calls), a clean Close and a
// Damage record: per file ("wal", "wbl", "cp" = newest checkpoint) and per k the contents the property demands when
// that log ends before its k-th record (must / may, and exp = what the code is known to return), the effect class
// ("cut" / "none") of every (region, damage kind), and the prediction for a damaged head-chunk file.
// The harness builds the real directory, parses the real files into the byte classes of the spec (record fragments:
// type / len / crc / payload, page padding; head-chunk file: header, chunk fields, tail), checks that the real files
// hold the records the model says, and for every class enumerates concrete byte offsets (all of them in the thorough
// tier): truncate at the offset, flip bits of the byte, zero the byte.  Each damaged copy is reopened:
//   * Open fails  -> allowed only if no undamaged file was removed or altered (content hash);
//   * Open succeeds -> must ⊆ contents ⊆ may with the written values, then new appends, clean restart, still there.
// (c03_crash_test.go provides the workload runner and the directory judge.)

import (
	"encoding/binary"
	"fmt"
	"os"
	"path/filepath"
	"runtime"
	"sort"
	"strings"
	"sync"
	"sync/atomic"
	"testing"

	"github.com/prometheus/prometheus/internal/verifh"
	"github.com/prometheus/prometheus/tsdb"
)

type c04Pred struct {
	Must map[string][]cdbExp `json:"must"`
	May  map[string][]cdbExp `json:"may"`
	Exp  map[string][]cdbExp `json:"exp"`
}

type c04File struct {
	Kinds []string  `json:"kinds"`
	Seg   int       `json:"seg"`
	Cut   []c04Pred `json:"cut"`
}

type c04Eff struct {
	Region string `json:"region"`
	Kind   string `json:"kind"`
	Eff    string `json:"eff"`
}

type c04Step struct {
	c03Step
	Eff []c04Eff `json:"eff"`
	Wal *c04File `json:"wal"`
	Wbl *c04File `json:"wbl"`
	Cp  *c04File `json:"cp"`
	Hc  *c04Pred `json:"hc"`
}

// ---- byte-class view of a write-log segment -------------------------------------------------------------

type c04Frag struct{ off, plen int } // header at off (7 bytes), payload of plen bytes

type c04Rec struct {
	frags []c04Frag
	typ   byte // record.Type = first payload byte
}

type c04Layout struct {
	recs   []c04Rec
	padOff int // first byte after the last record
	size   int
}

const c04Page = 32 * 1024

func c04ParseSegment(b []byte) (c04Layout, error) {
	var l c04Layout
	l.size = len(b)
	var cur *c04Rec
	o := 0
	for o < len(b) {
		t := b[o] & 7
		if t == 0 { // rest of the page is padding
			end := (o/c04Page + 1) * c04Page
			if end > len(b) {
				end = len(b)
			}
			zero := true
			for _, x := range b[o:end] {
				if x != 0 {
					zero = false
				}
			}
			if !zero {
				return l, fmt.Errorf("non-zero padding at %d", o)
			}
			if cur != nil {
				return l, fmt.Errorf("padding inside a record at %d", o)
			}
			if o == l.endOfRecords() {
				// padding after the records of this page; records may follow on the next page
			}
			o = end
			continue
		}
		if o+7 > len(b) {
			return l, fmt.Errorf("short header at %d", o)
		}
		n := int(binary.BigEndian.Uint16(b[o+1:]))
		if o+7+n > len(b) {
			return l, fmt.Errorf("short payload at %d", o)
		}
		if cur == nil {
			cur = &c04Rec{}
			if n > 0 {
				cur.typ = b[o+7]
			}
		}
		cur.frags = append(cur.frags, c04Frag{o, n})
		if t == 1 || t == 4 { // full or last
			l.recs = append(l.recs, *cur)
			cur = nil
		}
		o += 7 + n
	}
	if cur != nil {
		return l, fmt.Errorf("unterminated record")
	}
	l.padOff = l.endOfRecords()
	return l, nil
}

func (l c04Layout) endOfRecords() int {
	if len(l.recs) == 0 {
		return 0
	}
	f := l.recs[len(l.recs)-1].frags
	last := f[len(f)-1]
	return last.off + 7 + last.plen
}

// record.Type values
func c04KindOf(file string, t byte) string {
	switch t {
	case 1:
		return "ser"
	case 2, 7, 9, 8, 10, 11, 12, 13: // samples / histogram samples of all versions
		if file == "wbl" {
			return "osmp"
		}
		return "smp"
	case 3:
		return "tomb"
	case 5:
		return "marker"
	}
	return fmt.Sprintf("type%d", t)
}

type c04Damage struct {
	file   string // wal | wbl | cp | hc
	path   string // relative path of the damaged file
	kind   string // trunc | flip | zero
	off    int
	mask   byte
	region string
	rec    int // 1-based index of the real record holding the byte (len+1 for padding)
	cutK   int // index (1-based, in the model's record list) of the first record lost; 0 = nothing predicted lost
}

func (d c04Damage) String() string {
	return fmt.Sprintf("%s %s %s@%d mask=%#x region=%s record=%d", d.file, d.path, d.kind, d.off, d.mask, d.region, d.rec)
}

func c04Apply(path string, d c04Damage) (changed bool, err error) {
	b, err := os.ReadFile(path)
	if err != nil {
		return false, err
	}
	switch d.kind {
	case "trunc":
		if d.off >= len(b) {
			return false, nil
		}
		return true, os.Truncate(path, int64(d.off))
	case "flip":
		b[d.off] ^= d.mask
	case "zero":
		if b[d.off] == 0 {
			return false, nil
		}
		b[d.off] = 0
	}
	return true, os.WriteFile(path, b, 0o666)
}

// offsets of [lo, hi) to try: all in the thorough tier, else both ends, the middle and a seeded stride
func c04Offsets(lo, hi int, quick bool, stride int, seed int64) []int {
	var out []int
	if hi <= lo {
		return out
	}
	if hi-lo <= 4 || (!quick && hi-lo <= 512) {
		for o := lo; o < hi; o++ {
			out = append(out, o)
		}
		return out
	}
	if !quick {
		// thorough tier: every offset of regions up to 512 bytes (all headers, CRCs, sample/tombstone/marker payloads, chunk
		// fields); the homogeneous large regions (the 36 KiB label of the big series record, page padding, preallocated tail)
		// every 127th offset and both ends
		stride = 127
	}
	m := map[int]bool{lo: true, hi - 1: true, (lo + hi) / 2: true}
	for o := lo + int(seed)%stride; o < hi; o += stride {
		m[o] = true
	}
	for o := range m {
		out = append(out, o)
	}
	sort.Ints(out)
	return out
}

func c04EffOf(tab []c04Eff, region, kind string) string {
	for _, e := range tab {
		if e.Region == region && e.Kind == kind {
			return e.Eff
		}
	}
	return "?"
}

// c04LogDamages enumerates the damages of a write-log file. model2real: for each real record its index in the model's list
// (WBL: m-map marker records are not in the model; damaging one ends the log before the next sample record).
func c04LogDamages(file, rel string, l c04Layout, modelIdx []int, nModel int, tab []c04Eff, quick bool, seed int64) []c04Damage {
	var ds []c04Damage
	add := func(kind, region string, off int, mask byte, rec int) {
		d := c04Damage{file: file, path: rel, kind: kind, off: off, mask: mask, region: region, rec: rec}
		if c04EffOf(tab, region, kind) == "cut" {
			d.cutK = modelIdx[rec-1]
		} else {
			d.cutK = nModel + 1
		}
		ds = append(ds, d)
	}
	stride := 997
	for ri, r := range l.recs {
		for _, f := range r.frags {
			// type byte: low bits (record type and compression flags) and the three unallocated bits
			add("flip", "type.lo", f.off, 0x01, ri+1)
			add("flip", "type.lo", f.off, 0x08, ri+1)
			add("flip", "type.hi", f.off, 0x80, ri+1)
			add("flip", "type.hi", f.off, 0x20, ri+1)
			add("zero", "type.lo", f.off, 0, ri+1)
			add("trunc", "type.lo", f.off, 0, ri+1)
			for _, o := range c04Offsets(f.off+1, f.off+3, quick, stride, seed) {
				add("flip", "len", o, 0xff, ri+1)
				add("flip", "len", o, 0x01, ri+1)
				add("zero", "len", o, 0, ri+1)
				add("trunc", "len", o, 0, ri+1)
			}
			for _, o := range c04Offsets(f.off+3, f.off+7, quick, stride, seed) {
				add("flip", "crc", o, 0xff, ri+1)
				add("flip", "crc", o, 0x10, ri+1)
				add("zero", "crc", o, 0, ri+1)
				add("trunc", "crc", o, 0, ri+1)
			}
			for _, o := range c04Offsets(f.off+7, f.off+7+f.plen, quick, stride, seed) {
				add("flip", "payload", o, 0xff, ri+1)
				add("flip", "payload", o, byte(1)<<uint((int64(o)+seed)%8), ri+1)
				add("zero", "payload", o, 0, ri+1)
				add("trunc", "payload", o, 0, ri+1)
			}
		}
	}
	// padding after the last record
	modelIdx = append(modelIdx, nModel+1)
	for _, o := range c04Offsets(l.padOff, l.size, quick, 4999, seed) {
		add("flip", "pad", o, 0xff, len(l.recs)+1)
		add("flip", "pad", o, 0x01, len(l.recs)+1)
		if o > l.padOff {
			add("trunc", "pad", o, 0, len(l.recs)+1)
		}
	}
	return ds
}

// head-chunk file: header(8) then chunks: seriesRef(8) mint(8) maxt(8) enc(1) len(uvarint) data crc(4), then zeros
func c04HeadChunkDamages(rel string, b []byte, quick bool, seed int64) []c04Damage {
	var ds []c04Damage
	add := func(kind, region string, off int, mask byte) {
		ds = append(ds, c04Damage{file: "hc", path: rel, kind: kind, off: off, mask: mask, region: region})
	}
	for o := 0; o < 8 && o < len(b); o++ {
		add("flip", "header", o, 0xff)
		add("zero", "header", o, 0)
		add("trunc", "header", o, 0)
	}
	o := 8
	nch := 0
	for o+25 < len(b) {
		allZero := true
		for _, x := range b[o : o+25] {
			if x != 0 {
				allZero = false
			}
		}
		if allZero {
			break
		}
		n, w := binary.Uvarint(b[o+25:])
		if w <= 0 || o+25+w+int(n)+4 > len(b) {
			break
		}
		end := o + 25 + w + int(n) + 4
		type reg struct {
			name   string
			lo, hi int
		}
		for _, r := range []reg{{"ref", o, o + 8}, {"mint", o + 8, o + 16}, {"maxt", o + 16, o + 24}, {"enc", o + 24, o + 25},
			{"len", o + 25, o + 25 + w}, {"data", o + 25 + w, end - 4}, {"crc", end - 4, end}} {
			for _, x := range c04Offsets(r.lo, r.hi, quick, 13, seed) {
				add("flip", r.name, x, 0xff)
				add("flip", r.name, x, byte(1)<<uint((int64(x)+seed)%8))
				add("zero", r.name, x, 0)
				add("trunc", r.name, x, 0)
			}
		}
		o = end
		nch++
	}
	for _, x := range c04Offsets(o, len(b), true, 65537, seed) {
		add("flip", "tail", x, 0xff)
		add("trunc", "tail", x, 0)
	}
	return ds
}

func c04NewestFile(dir string, numeric bool) (string, int) {
	es, err := os.ReadDir(dir)
	if err != nil {
		return "", -1
	}
	best, bi := "", -1
	for _, e := range es {
		var k int
		if _, err := fmt.Sscanf(e.Name(), "%d", &k); err != nil || e.IsDir() || strings.Contains(e.Name(), ".") {
			continue
		}
		if st, err := e.Info(); err != nil || st.Size() == 0 {
			continue
		}
		if k > bi {
			best, bi = e.Name(), k
		}
	}
	return best, bi
}

// c04TreeDiffUndamaged: every file of `before` other than `damaged` must still exist unchanged in `after`.
func c04TreeDiffUndamaged(before, after map[string]string, damaged string) string {
	var out []string
	for p, h := range before {
		if p == damaged || strings.HasSuffix(p, "/lock") || p == "lock" {
			continue
		}
		if h2, ok := after[p]; !ok {
			out = append(out, "removed "+p)
		} else if h2 != h {
			out = append(out, "altered "+p)
		}
	}
	sort.Strings(out)
	if len(out) > 6 {
		out = out[:6]
	}
	return strings.Join(out, "; ")
}

func c04TreeMap(dir string) map[string]string {
	m := map[string]string{}
	h, _ := cdbTreeHash(dir)
	for _, l := range strings.Split(h, "\n") {
		fs := strings.Fields(l)
		if len(fs) >= 4 && fs[0] == "f" {
			m[fs[1]] = fs[2] + ":" + fs[3]
		}
	}
	return m
}

func TestVerifC04Damage(t *testing.T) {
	behs, err := verifh.ReadNDJSON[[]c04Step](verifh.In())
	if err != nil {
		verifh.Infra(err.Error())
		t.Fatal(err)
	}
	root := os.Getenv("VERIF_SCRATCH")
	if root == "" {
		root = t.TempDir()
	}
	quick := verifh.Quick()
	var (
		infra       atomic.Value
		nrun        atomic.Int64
		nopenfail   atomic.Int64
		mu          sync.Mutex
		classes     = map[string]int{}
		layoutDrift atomic.Int64
		noChange    atomic.Int64
	)
	var perDB []string
	for bi, b := range behs {
		if infra.Load() != nil || c03Bad.Load() >= 20 {
			break
		}
		n := len(b)
		if n < 3 || b[n-1].A != "Damage" {
			verifh.Infra(fmt.Sprintf("behaviour %d does not end in a Damage record", bi))
			t.Fatal("bad behaviour")
		}
		dm := b[n-1]
		w := make([]c03Step, 0, n)
		for _, s := range b[:n-1] {
			w = append(w, s.c03Step)
		}
		seed := verifh.Seed() + int64(bi%7)
		init := w[0]
		conc := c03Conc(seed, init)
		opts := c03Options(conc, init)
		base := filepath.Join(root, fmt.Sprintf("c04-%d-base", bi))
		os.RemoveAll(base)
		db, err := tsdb.Open(base, nil, nil, opts, nil)
		if err != nil {
			verifh.Infra("open: " + err.Error())
			t.Fatal(err)
		}
		db.DisableCompactions()
		r := &c03Runner{db: db, dir: base, opts: opts, conc: conc, init: init, apps: map[string]any{}, rej: map[string]bool{}}
		for i := 1; i < len(w) && w[i].A != "Close"; i++ {
			if err := r.do(w[i], nil); err != nil {
				verifh.Infra(fmt.Sprintf("behaviour %d step %d does not run as generated: %v", bi, i, err))
				t.Fatal(err)
			}
		}
		if err := r.db.Close(); err != nil {
			verifh.Infra("close: " + err.Error())
			t.Fatal(err)
		}
		// ---- enumerate the damages
		var all []c04Damage
		logFile := func(file, dir string, mf *c04File) {
			if mf == nil || mf.Seg < 0 {
				return
			}
			name, idx := c04NewestFile(filepath.Join(base, dir), true)
			if name == "" {
				if len(mf.Kinds) > 0 {
					layoutDrift.Add(1)
					verifh.Drift(fmt.Sprintf("behaviour %d: the model has %d records in the newest %s segment %d, the directory has no non-empty segment", bi, len(mf.Kinds), file, mf.Seg))
				}
				return
			}
			rel := filepath.Join(dir, name)
			raw, err := os.ReadFile(filepath.Join(base, rel))
			if err != nil {
				infra.Store(err.Error())
				return
			}
			l, err := c04ParseSegment(raw)
			if err != nil {
				infra.Store(fmt.Sprintf("behaviour %d: cannot parse undamaged %s: %v", bi, rel, err))
				return
			}
			// the real file must hold the records the model says (m-map markers of the WBL are not modelled)
			var kinds []string
			modelIdx := make([]int, len(l.recs))
			k := 0
			for i, rc := range l.recs {
				kd := c04KindOf(file, rc.typ)
				if kd == "marker" {
					modelIdx[i] = k + 1
					continue
				}
				k++
				modelIdx[i] = k
				kinds = append(kinds, kd)
			}
			if idx != mf.Seg || strings.Join(kinds, ",") != strings.Join(mf.Kinds, ",") {
				layoutDrift.Add(1)
				verifh.Drift(fmt.Sprintf("behaviour %d: newest %s segment: model says segment %d with records %v, the directory has segment %d with %v", bi, file, mf.Seg, mf.Kinds, idx, kinds))
				return
			}
			all = append(all, c04LogDamages(file, rel, l, modelIdx, len(mf.Kinds), dm.Eff, quick, seed)...)
		}
		logFile("wal", "wal", dm.Wal)
		logFile("wbl", "wbl", dm.Wbl)
		if dm.Cp != nil && dm.Cp.Seg >= 0 {
			logFile("cp", filepath.Join("wal", fmt.Sprintf("checkpoint.%08d", dm.Cp.Seg)), &c04File{Kinds: dm.Cp.Kinds, Seg: 0, Cut: dm.Cp.Cut})
		}
		if name, _ := c04NewestFile(filepath.Join(base, "chunks_head"), true); name != "" {
			rel := filepath.Join("chunks_head", name)
			raw, _ := os.ReadFile(filepath.Join(base, rel))
			all = append(all, c04HeadChunkDamages(rel, raw, quick, seed)...)
		}
		if infra.Load() != nil {
			break
		}
		// ---- run them
		var wg sync.WaitGroup
		var next atomic.Int64
		for wk := 0; wk < 10; wk++ {
			wg.Add(1)
			go func(wk int) {
				defer wg.Done()
				for {
					di := int(next.Add(1)) - 1
					if di >= len(all) || infra.Load() != nil || c03Bad.Load() >= 20 {
						return
					}
					d := all[di]
					func() {
						defer func() {
							// a panic of the product code while opening / querying damaged data is behaviour of the code
							if p := recover(); p != nil {
								buf := make([]byte, 3000)
								buf = buf[:runtime.Stack(buf, false)]
								c03Report(d.file+":", "panic", fmt.Sprintf("behaviour %d damage %s: panic: %v\n%s", bi, d, p, buf), map[string]any{"workload": w, "damage": d.String(), "seed": seed})
							}
						}()
						c04One(bi, wk, d, root, base, w, seed, conc, dm, &nrun, &nopenfail, &noChange, &infra, &mu, classes)
					}()
				}
			}(wk)
		}
		wg.Wait()
		perDB = append(perDB, fmt.Sprintf("%d:%d", bi, len(all)))
		os.RemoveAll(base)
		for wk := 0; wk < 10; wk++ {
			os.RemoveAll(filepath.Join(root, fmt.Sprintf("c04-%d-w%d", bi, wk)))
		}
	}
	if m := infra.Load(); m != nil {
		verifh.Infra(m.(string))
		t.Fatal(m)
	}
	var cl []string
	for k, v := range classes {
		cl = append(cl, fmt.Sprintf("%s=%d", k, v))
	}
	sort.Strings(cl)
	verifh.Stat(map[string]any{"damaged_reopens": nrun.Load(), "open_failures_allowed": nopenfail.Load(), "databases": len(behs),
		"damage_classes": strings.Join(cl, " "), "layout_drift": layoutDrift.Load(), "noop_damages_skipped": noChange.Load(), "damages_per_database": strings.Join(perDB, " ")})
	verifh.Done(int(nrun.Load()))
	if c03Bad.Load() > 0 {
		t.Fail()
	}
}

// c04One damages one copy and judges it.
func c04One(bi, wk int, d c04Damage, root, base string, w []c03Step, seed int64, conc cdbConc, dm c04Step,
	nrun, nopenfail, noChange *atomic.Int64, infra *atomic.Value, mu *sync.Mutex, classes map[string]int) {
	{
		{
			{
				work := filepath.Join(root, fmt.Sprintf("c04-%d-w%d", bi, wk))
				os.RemoveAll(work)
				if err := cdbCopyTree(base, work); err != nil {
					infra.Store(err.Error())
					return
				}
				changed, err := c04Apply(filepath.Join(work, d.path), d)
				if err != nil {
					infra.Store(err.Error())
					return
				}
				if !changed {
					noChange.Add(1)
					return
				}
				var pred c04Pred
				switch d.file {
				case "wal":
					pred = dm.Wal.Cut[d.cutK-1]
				case "wbl":
					pred = dm.Wbl.Cut[d.cutK-1]
				case "cp":
					pred = dm.Cp.Cut[d.cutK-1]
				default:
					pred = *dm.Hc
				}
				what := fmt.Sprintf("behaviour %d [%s] damage %s", bi, conc, d)
				damagedTree := c04TreeMap(work)
				openFailed := false
				sig, msg, got := c03JudgeDirX(w, seed, work, len(w)-1, what, pred.Must, []map[string][]cdbExp{pred.May}, func(oerr error) (string, string) {
					// a failing Open is allowed if it leaves every undamaged file as it was
					openFailed = true
					after := c04TreeMap(work)
					if diff := c04TreeDiffUndamaged(damagedTree, after, d.path); diff != "" {
						return "failed-open-changed-undamaged-data:" + d.file, fmt.Sprintf("%s: Open failed (%v) and removed or altered undamaged data: %s", what, oerr, diff)
					}
					return "", ""
				}, true)
				// (a) only a truncation loses chunks silently (file cut below its magic: removed by repairLastChunkFile; cut at a
				// chunk boundary or inside a chunk header: IterateAllChunks sees the end of the file), any changed byte raises a
				// CorruptionErr that discards the snapshot; (b) shows in the on-disk state after the recovery
				if ((sig == "acked-sample-lost" && d.kind == "trunc") || sig == "not-durable-after-recovery:acked-sample-lost") && d.file == "hc" && conc.Snapshot {
					// known deviation KF-C04-3: with EnableMemorySnapshotOnShutdown the chunk snapshot is trusted although
					// repairLastChunkFile has silently removed the (truncated) newest head-chunk file it depends on
					sig = "snapshot:" + sig
					msg += " (chunk snapshot enabled: a snapshot stays trusted — the WAL is replayed only from its offset — although m-mapped chunk files it relies on were removed: by repairLastChunkFile in this Open, or by DeleteCorrupted in the Open before the kill)"
				}
				if sig == "deleted-sample-replayed-from-wal" {
					sig = "phantom-sample" // KF-C03-3 needs a dropped block; the damage tables already allow deleted samples (may = ever written)
				}
				nrun.Add(1)
				mu.Lock()
				cls := d.file + "/" + d.region + "/" + d.kind
				if openFailed {
					cls += "/openfail"
					nopenfail.Add(1)
				}
				classes[cls]++
				mu.Unlock()
				if sig != "" {
					c03Report(d.file+":", sig, msg, map[string]any{"workload": w, "damage": d.String(), "seed": seed, "must": pred.Must})
				}
				_ = got
			}
		}
	}
}
