package tsdb_test

// Property-specific observations made while the DB of a replayed behaviour is closed (at every Reopen step):
//   mode c53: a read-only open must return what the read-write open returns (= the spec's prediction) and
//             must leave the directory tree unchanged;
//   mode c23: a restart from the memory snapshot must equal a restart from the WAL alone.

import (
	"crypto/sha256"
	"fmt"
	"io"
	"io/fs"
	"math"
	"os"
	"path/filepath"
	"sort"
	"strings"

	"github.com/prometheus/prometheus/tsdb"
)

func init() {
	dbReopenHook = func(r *dbRun, s dbStep, mode, what string) (string, string) {
		switch mode {
		case "c53":
			return c53Check(r, s, what)
		case "c23":
			return c23Check(r, s, what)
		}
		return "", ""
	}
}

func dbTreeHash(dir string) (string, error) {
	var lines []string
	err := filepath.WalkDir(dir, func(p string, d fs.DirEntry, err error) error {
		if err != nil {
			return err
		}
		rel, _ := filepath.Rel(dir, p)
		if d.IsDir() {
			lines = append(lines, "d "+rel)
			return nil
		}
		f, err := os.Open(p)
		if err != nil {
			return err
		}
		defer f.Close()
		h := sha256.New()
		n, _ := io.Copy(h, f)
		lines = append(lines, fmt.Sprintf("f %s %d %x", rel, n, h.Sum(nil)[:8]))
		return nil
	})
	sort.Strings(lines)
	return strings.Join(lines, "\n"), err
}

func dbTreeDiff(a, b string) string {
	am := map[string]bool{}
	for _, l := range strings.Split(a, "\n") {
		am[l] = true
	}
	var out []string
	for _, l := range strings.Split(b, "\n") {
		if !am[l] {
			out = append(out, "+"+l)
		}
		delete(am, l)
	}
	for l := range am {
		out = append(out, "-"+l)
	}
	sort.Strings(out)
	if len(out) > 8 {
		out = out[:8]
	}
	return strings.Join(out, "; ")
}

var c53Count int

func c53Check(r *dbRun, s dbStep, what string) (string, string) {
	before, err := dbTreeHash(r.dir)
	if err != nil {
		return "infra", err.Error()
	}
	c53Count++
	sandbox := ""
	if c53Count%2 == 0 {
		sandbox = r.dir + "-sandbox"
		os.MkdirAll(sandbox, 0o777)
		defer os.RemoveAll(sandbox)
	}
	for _, chunk := range []bool{false, true} {
		ro, err := tsdb.OpenDBReadOnly(r.dir, sandbox, nil)
		if err != nil {
			return "ro-open-error", fmt.Sprintf("%s: OpenDBReadOnly failed: %v", what, err)
		}
		got, err := dbQuery(ro, math.MinInt64, math.MaxInt64, chunk)
		if err != nil {
			ro.Close()
			return "ro-query-error", fmt.Sprintf("%s: read-only query failed: %v", what, err)
		}
		if sig, msg := r.c.compare(got, s.Exp, math.MinInt64, math.MaxInt64, fmt.Sprintf("%s read-only open chunkq=%v", what, chunk)); sig != "" {
			ro.Close()
			return "ro-" + sig, msg + " (a read-write open returns the committed set)"
		}
		if err := ro.Close(); err != nil {
			return "ro-close-error", fmt.Sprintf("%s: read-only Close failed: %v", what, err)
		}
	}
	after, err := dbTreeHash(r.dir)
	if err != nil {
		return "infra", err.Error()
	}
	if after != before {
		return "ro-modified-dir", fmt.Sprintf("%s: the data directory changed under a read-only open/query/close: %s", what, dbTreeDiff(before, after))
	}
	if sandbox != "" {
		if es, _ := os.ReadDir(sandbox); len(es) > 0 {
			return "ro-sandbox-left", fmt.Sprintf("%s: %d entries left in the sandbox root after Close", what, len(es))
		}
	}
	return "", ""
}

func dbCopyTree(src, dst string) error {
	return filepath.WalkDir(src, func(p string, d fs.DirEntry, err error) error {
		if err != nil {
			return err
		}
		rel, _ := filepath.Rel(src, p)
		if d.IsDir() {
			return os.MkdirAll(filepath.Join(dst, rel), 0o777)
		}
		in, err := os.Open(p)
		if err != nil {
			return err
		}
		defer in.Close()
		out, err := os.Create(filepath.Join(dst, rel))
		if err != nil {
			return err
		}
		defer out.Close()
		_, err = io.Copy(out, in)
		return err
	})
}

func c23Check(r *dbRun, s dbStep, what string) (string, string) {
	snaps, _ := filepath.Glob(filepath.Join(r.dir, "chunk_snapshot.*"))
	if !r.opts.EnableMemorySnapshotOnShutdown {
		return "", ""
	}
	type variant struct {
		name string
		prep func(dir string)
	}
	vs := []variant{
		{"with-snapshot", func(string) {}},
		{"snapshot-removed", func(dir string) {
			m, _ := filepath.Glob(filepath.Join(dir, "chunk_snapshot.*"))
			for _, x := range m {
				os.RemoveAll(x)
			}
		}},
	}
	var results []map[string][]dbSample
	for _, v := range vs {
		cp := r.dir + "-" + v.name
		os.RemoveAll(cp)
		if err := dbCopyTree(r.dir, cp); err != nil {
			return "infra", err.Error()
		}
		v.prep(cp)
		db, err := tsdb.Open(cp, nil, nil, r.opts, nil)
		if err != nil {
			os.RemoveAll(cp)
			return "open-error", fmt.Sprintf("%s: Open(%s) failed: %v", what, v.name, err)
		}
		db.DisableCompactions()
		got, err := dbQuery(db, math.MinInt64, math.MaxInt64, false)
		db.Close()
		os.RemoveAll(cp)
		if err != nil {
			return "query-error", fmt.Sprintf("%s: query on %s failed: %v", what, v.name, err)
		}
		if sig, msg := r.c.compare(got, s.Exp, math.MinInt64, math.MaxInt64, fmt.Sprintf("%s restart %s (snapshot dirs: %d)", what, v.name, len(snaps))); sig != "" {
			return v.name + ":" + sig, msg
		}
		results = append(results, got)
	}
	return "", ""
}
