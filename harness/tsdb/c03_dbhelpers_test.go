package tsdb_test

// Helpers of the C03 / C04 harnesses for Db.tla-style workloads: the step record of a behaviour, the concretisation
// map (model time t |-> Unit*(t + R*K), value symbols, series symbols), TSDB options, queries through both queriers.
// Copied (with a `c` prefix) from db_replay_test.go / db_reopen_extras_test.go of the storage-core harness so that the
// crash / damage harnesses build on their own: they are bound to the frozen specs/crash/Db.tla, not to the evolving one.

import (
	"context"
	"crypto/sha256"
	"errors"
	"fmt"
	"io"
	"io/fs"
	"math"
	"os"
	"path/filepath"
	"sort"
	"strings"

	"github.com/prometheus/prometheus/model/histogram"
	"github.com/prometheus/prometheus/model/labels"
	"github.com/prometheus/prometheus/model/value"
	"github.com/prometheus/prometheus/storage"
	"github.com/prometheus/prometheus/tsdb"
	"github.com/prometheus/prometheus/tsdb/chunkenc"
)

type cdbAlt struct {
	V  int64  `json:"v"`
	Ty string `json:"ty"`
}

type cdbExp struct {
	T    int64    `json:"t"`
	Alts []cdbAlt `json:"alts"`
}

type cdbStep struct {
	A    string  `json:"a"`
	R    int64   `json:"R"`
	W    int64   `json:"W"`
	Cap  int64   `json:"cap"`
	Pre  []int64 `json:"pre"` // Init: times of committed float samples (value symbol 1) of s1 present at the start
	App  string  `json:"app"`
	Api  string  `json:"api"`
	Rej  bool    `json:"rej"`
	Ini  bool    `json:"init"`
	S    any     `json:"S"` // Delete: list of series; Append uses "s"
	Ser  string  `json:"s"`
	T    int64   `json:"t"`
	V    int64   `json:"v"`
	Ty   string  `json:"ty"`
	Ret  string  `json:"ret"`  // implementation-shaped prediction (follows named deviations of the code)
	PRet string  `json:"pret"` // what the property demands
	KF   string  `json:"kf"`   // known-finding id when Ret != PRet
	OOO  bool    `json:"ooo"`
	Mv   int64   `json:"mv"`
	Hm   int64   `json:"hm"`
	Lo   int64   `json:"lo"`
	Hi   int64   `json:"hi"`
	// predicted query result per series after the step
	Exp     map[string][]cdbExp `json:"exp"`
	NBlocks int                 `json:"nblocks"`
}

// cdbConc is the concretisation map: model time t |-> Unit*(t + R*K); model value symbols to
// float64 / histograms; series symbols to label sets.
type cdbConc struct {
	Unit, K, R int64
	Floats     map[int64]float64
	XOR2       bool
	Isolation  bool
	Snapshot   bool
	STStorage  bool
	Seed       int64
}

func (c cdbConc) tm(t int64) int64 { return c.Unit * (t + c.R*c.K) }

func (c cdbConc) String() string {
	return fmt.Sprintf("unit=%d k=%d xor2=%v iso=%v snap=%v st=%v", c.Unit, c.K, c.XOR2, c.Isolation, c.Snapshot, c.STStorage)
}

// negK: negative block offsets are only sound for behaviours without compaction (the code's
// rangeForTimestamp truncates toward zero, so t |-> unit*(t+R*k) with k<0 does not commute with it;
// negative times of compacting behaviours come from the model's own time domain instead)
func cdbMakeConc(seed, r int64, negK bool) cdbConc {
	units := []int64{1, 1000, 7, 60000}
	// with compaction in play the map must commute with Go's truncating division for negative *and* positive
	// times, so only pure scaling is used (k=0); negative times come from the model's own domain
	ks := []int64{0}
	if negK {
		ks = []int64{0, 5, -1, 1000, -3}
	}
	fl := [][]float64{{1, 2, 3}, {0.1, -0.1, 1e300}, {math.Inf(1), 0, math.Copysign(0, -1)}, {3.5, math.Float64frombits(0x7ff8000000000123), -7}}
	c := cdbConc{Unit: units[int(seed)%len(units)], K: ks[int(seed/2)%len(ks)], R: r, Seed: seed}
	f := fl[int(seed)%len(fl)]
	c.Floats = map[int64]float64{1: f[0], 2: f[1], 3: f[2]}
	c.XOR2 = seed%2 == 0
	c.Isolation = seed%3 != 0
	c.Snapshot = seed%5 == 3
	c.STStorage = c.XOR2 && seed%4 == 2 // ST storage requires XOR2 float chunks
	return c
}

func cdbLabels(s string) labels.Labels { return labels.FromStrings("__name__", "m", "series", s) }

func cdbHist(v int64) *histogram.Histogram {
	h := &histogram.Histogram{
		Schema: 1, ZeroThreshold: 0.001, ZeroCount: uint64(v),
		Count: uint64(v) + 3 + uint64(2*v), Sum: float64(v) * 2.5,
		PositiveSpans:   []histogram.Span{{Offset: 0, Length: 2}},
		PositiveBuckets: []int64{1, 1},
		NegativeSpans:   []histogram.Span{{Offset: int32(v), Length: 1}},
		NegativeBuckets: []int64{2 * v},
	}
	h.Count = h.ZeroCount + 1 + 2 + uint64(2*v)
	return h
}

func cdbFloatHist(v int64) *histogram.FloatHistogram { return cdbHist(v).ToFloat(nil) }

func cdbErrClass(err error) string {
	switch {
	case err == nil:
		return "ok"
	case errors.Is(err, storage.ErrOutOfBounds):
		return "oob"
	case errors.Is(err, storage.ErrTooOldSample):
		return "tooold"
	case errors.Is(err, storage.ErrOutOfOrderSample):
		return "ooo"
	case errors.Is(err, storage.ErrDuplicateSampleForTimestamp):
		return "dup"
	}
	return "other:" + err.Error()
}

type cdbSample struct {
	T     int64
	Ty    string // f, h, fh
	F     float64
	H     *histogram.Histogram
	FH    *histogram.FloatHistogram
	Stale bool
}

func (s cdbSample) String() string {
	if s.Stale {
		return fmt.Sprintf("(%d %s stale)", s.T, s.Ty)
	}
	switch s.Ty {
	case "f":
		return fmt.Sprintf("(%d f %v)", s.T, s.F)
	case "h":
		return fmt.Sprintf("(%d h zc=%d)", s.T, s.H.ZeroCount)
	}
	return fmt.Sprintf("(%d fh zc=%v)", s.T, s.FH.ZeroCount)
}

func cdbDrain(it chunkenc.Iterator) ([]cdbSample, error) {
	var out []cdbSample
	for {
		vt := it.Next()
		switch vt {
		case chunkenc.ValNone:
			return out, it.Err()
		case chunkenc.ValFloat:
			t, f := it.At()
			out = append(out, cdbSample{T: t, Ty: "f", F: f, Stale: value.IsStaleNaN(f)})
		case chunkenc.ValHistogram:
			t, h := it.AtHistogram(nil)
			out = append(out, cdbSample{T: t, Ty: "h", H: h.Copy(), Stale: value.IsStaleNaN(h.Sum)})
		case chunkenc.ValFloatHistogram:
			t, fh := it.AtFloatHistogram(nil)
			out = append(out, cdbSample{T: t, Ty: "fh", FH: fh.Copy(), Stale: value.IsStaleNaN(fh.Sum)})
		}
	}
}

type cdbQueryable interface {
	Querier(mint, maxt int64) (storage.Querier, error)
	ChunkQuerier(mint, maxt int64) (storage.ChunkQuerier, error)
}

// cdbQuery returns series-symbol -> samples via the sample querier (chunk=false) or the chunk querier.
func cdbQuery(q cdbQueryable, mint, maxt int64, chunk bool) (map[string][]cdbSample, error) {
	res := map[string][]cdbSample{}
	m := labels.MustNewMatcher(labels.MatchEqual, "__name__", "m")
	ctx := context.Background()
	if !chunk {
		qr, err := q.Querier(mint, maxt)
		if err != nil {
			return nil, err
		}
		defer qr.Close()
		ss := qr.Select(ctx, true, nil, m)
		for ss.Next() {
			s := ss.At()
			smp, err := cdbDrain(s.Iterator(nil))
			if err != nil {
				return nil, err
			}
			name := s.Labels().Get("series")
			if _, dup := res[name]; dup {
				return nil, fmt.Errorf("series %s returned twice", name)
			}
			res[name] = smp
		}
		return res, ss.Err()
	}
	qr, err := q.ChunkQuerier(mint, maxt)
	if err != nil {
		return nil, err
	}
	defer qr.Close()
	ss := qr.Select(ctx, true, nil, m)
	for ss.Next() {
		s := ss.At()
		name := s.Labels().Get("series")
		if _, dup := res[name]; dup {
			return nil, fmt.Errorf("series %s returned twice (chunk querier)", name)
		}
		var all []cdbSample
		cit := s.Iterator(nil)
		lastMax := int64(math.MinInt64)
		first := true
		for cit.Next() {
			mc := cit.At()
			smp, err := cdbDrain(mc.Chunk.Iterator(nil))
			if err != nil {
				return nil, err
			}
			if len(smp) > 0 {
				if !first && smp[0].T <= lastMax {
					return nil, fmt.Errorf("chunk querier returned overlapping/unordered chunks for %s", name)
				}
				first = false
				lastMax = smp[len(smp)-1].T
			}
			// the chunk querier may return chunks that extend beyond the range; clip like a caller would
			for _, x := range smp {
				if x.T >= mint && x.T <= maxt {
					all = append(all, x)
				}
			}
		}
		if err := cit.Err(); err != nil {
			return nil, err
		}
		res[name] = all
	}
	return res, ss.Err()
}

func (c cdbConc) matches(got cdbSample, a cdbAlt) bool {
	if a.V == 0 {
		return got.Stale // a staleness marker, whatever chunk type carries it
	}
	if got.Stale || got.Ty != a.Ty {
		return false
	}
	switch a.Ty {
	case "f":
		return math.Float64bits(got.F) == math.Float64bits(c.Floats[a.V])
	case "h":
		return got.H.Equals(cdbHist(a.V))
	default:
		return got.FH.Equals(cdbFloatHist(a.V))
	}
}

func cdbFmtExp(c cdbConc, e []cdbExp) string {
	var sb strings.Builder
	for _, x := range e {
		fmt.Fprintf(&sb, "(%d %v)", c.tm(x.T), x.Alts)
	}
	return sb.String()
}

func cdbOptions(c cdbConc, w, cap int64) *tsdb.Options {
	o := tsdb.DefaultOptions()
	o.MinBlockDuration = c.R * c.Unit
	o.MaxBlockDuration = c.R * c.Unit * 9
	o.RetentionDuration = 0
	o.OutOfOrderTimeWindow = w * c.Unit
	o.OutOfOrderCapMax = cap
	o.IsolationDisabled = !c.Isolation
	o.EnableMemorySnapshotOnShutdown = c.Snapshot
	o.EnableSTStorage = c.STStorage
	o.SamplesPerChunk = 4
	if c.XOR2 {
		o.FloatChunkEncoding = chunkenc.EncXOR2
	}
	return o
}

func cdbTreeHash(dir string) (string, error) {
	var lines []string
	err := filepath.WalkDir(dir, func(p string, d fs.DirEntry, err error) error {
		if err != nil {
			return err
		}
		rel, _ := filepath.Rel(dir, p)
		if d.IsDir() {
			lines = append(lines, "d "+rel)
			return nil
		}
		f, err := os.Open(p)
		if err != nil {
			return err
		}
		defer f.Close()
		h := sha256.New()
		n, _ := io.Copy(h, f)
		lines = append(lines, fmt.Sprintf("f %s %d %x", rel, n, h.Sum(nil)[:8]))
		return nil
	})
	sort.Strings(lines)
	return strings.Join(lines, "\n"), err
}

func cdbCopyTree(src, dst string) error {
	return filepath.WalkDir(src, func(p string, d fs.DirEntry, err error) error {
		if err != nil {
			return err
		}
		rel, _ := filepath.Rel(src, p)
		if d.IsDir() {
			return os.MkdirAll(filepath.Join(dst, rel), 0o777)
		}
		in, err := os.Open(p)
		if err != nil {
			return err
		}
		defer in.Close()
		out, err := os.Create(filepath.Join(dst, rel))
		if err != nil {
			return err
		}
		defer out.Close()
		_, err = io.Copy(out, in)
		return err
	})
}
