package tsdb_test

// C11 / C12 conformance harness: replays behaviours emitted by
// specs/histchunk/HistChunk.tla (series of abstract native histogram samples,
// consecutive ones one or two "edits" apart, head cuts, out-of-order samples)
//   stage 1: into the real chunk appenders (all four histogram encodings),
//            following the head's protocol, reading back through the chunk
//            iterators, with a second Appender() on the open chunk;
//   stage 2: into a real tsdb.DB (in-order head chunks, OOO head, m-mapped
//            chunks, compacted blocks, vertical merge of head and OOO blocks),
//            reading back through DB.Querier over the full range and sub-ranges.
// The spec is the oracle: the Read record carries, in time order, every sample
// a reader must get (C11) and, per position, whether a "not a counter reset"
// mark would be sound there (C12: snd). Appender decisions and chunk headers
// predicted by the model are implementation-shaped: differences are drift.

import (
	"context"
	"fmt"
	"math"
	"math/rand"
	"sort"
	"strings"
	"sync"
	"testing"

	"github.com/prometheus/prometheus/internal/verifh"
	"github.com/prometheus/prometheus/model/histogram"
	"github.com/prometheus/prometheus/model/labels"
	"github.com/prometheus/prometheus/model/value"
	"github.com/prometheus/prometheus/storage"
	"github.com/prometheus/prometheus/tsdb"
	"github.com/prometheus/prometheus/tsdb/chunkenc"
)

type hcH struct {
	Ty  string     `json:"ty"`
	Hi  string     `json:"hi"`
	St  bool       `json:"st"`
	S   int        `json:"s"`
	Z   int        `json:"z"`
	Cv  int        `json:"cv"`
	P   [][2]int64 `json:"P"`
	N   [][2]int64 `json:"N"`
	Zc  int64      `json:"zc"`
	Cnt int64      `json:"cnt"`
}

type hcRes struct {
	T    int64  `json:"t"`
	Src  string `json:"src"`
	H    hcH    `json:"h"`
	Hint string `json:"hint"`
	Snd  bool   `json:"snd"`
}

type hcChunk struct {
	Ty  string `json:"ty"`
	Hdr string `json:"hdr"`
	N   int    `json:"n"`
}

type hcStep struct {
	Op    string    `json:"op"`
	T     int64     `json:"t"`
	H     *hcH      `json:"h"`
	Dec   string    `json:"dec"`
	Prev  bool      `json:"prev"`
	Res   []hcRes   `json:"res"`
	IoRes []hcRes   `json:"iores"`
	Io    []hcChunk `json:"io"`
	Ooo   []hcChunk `json:"ooo"`
}

// ---------------------------------------------------------------- concretisation

type hcConc struct {
	rnd     *rand.Rand
	schemas [2]int32
	thr     [2]float64
	cvs     [3][]float64 // index by cv id (1,2)
	off     int32
	iscale  int64
	fscale  float64
	tbase   int64
	tstep   int64
	st      bool // ST capable encodings
	sums    map[int64]float64
	cuts    map[int64]int
	span    int64
}

func hcNewConc(seed int64) *hcConc {
	r := rand.New(rand.NewSource(seed))
	c := &hcConc{rnd: r, sums: map[int64]float64{}}
	s0 := int32(r.Intn(13) - 4)
	s1 := int32(r.Intn(13) - 4)
	for s1 == s0 {
		s1 = int32(r.Intn(13) - 4)
	}
	c.schemas = [2]int32{s0, s1}
	ths := [][2]float64{{0, 0.001}, {0.001, 0.5}, {math.Ldexp(1, -128), 0}, {1e-9, 2.938735877055719e-39}}
	c.thr = ths[r.Intn(len(ths))]
	cvs := [][2][]float64{
		{{1, 2, 5, 10}, {1, 2, 5, 10, 20}},
		{{-1, 0, 0.25, 1e6}, {-1, 0, 0.5, 1e6}},
		{{0.005, 0.01, 0.025}, {0.005, 0.01, 0.0251}},
	}
	pick := cvs[r.Intn(len(cvs))]
	c.cvs[1], c.cvs[2] = pick[0], pick[1]
	c.off = []int32{0, -2, 5, -40, 100}[r.Intn(5)]
	c.iscale = []int64{1, 1, 3, 1000, 1 << 33}[r.Intn(5)]
	c.fscale = []float64{1, 0.5, 3, 1e9, 0.001953125}[r.Intn(5)]
	c.tbase = []int64{0, 1000, 1 << 40, 1600000000000, 86400000, 0, 1000, 1 << 40, 1600000000000, -5000}[r.Intn(10)]
	c.tstep = []int64{1, 10, 15000, 60000}[r.Intn(4)]
	c.st = r.Intn(2) == 0
	return c
}

// time maps a model time (in-order samples at even times, late ones in odd slots) to a real
// timestamp. After a model Cut the in-order time jumps over a chunk range boundary (cuts, span are
// set for stage 2 only), which makes memSeries cut a new head chunk.
func (c *hcConc) time(t int64) int64 {
	return c.tbase + t*c.tstep + int64(c.cuts[t])*c.span
}

func (c *hcConc) setCuts(b []hcStep, span int64) {
	c.cuts, c.span = map[int64]int{}, span
	n := 0
	for _, s := range b {
		switch s.Op {
		case "Cut":
			n++
		case "Append":
			c.cuts[s.T] = n
			c.cuts[s.T+1] = n
		}
	}
}

func (c *hcConc) sum(t int64, stale bool) float64 {
	if stale {
		return math.Float64frombits(value.StaleNaN)
	}
	if v, ok := c.sums[t]; ok {
		return v
	}
	v := []float64{0, 1.5, -3.25, 1e10, math.Inf(1), 0.1}[c.rnd.Intn(6)] * float64(1+c.rnd.Intn(4))
	c.sums[t] = v
	return v
}

func (c *hcConc) hint(hi string) histogram.CounterResetHint {
	switch hi {
	case "R":
		return histogram.CounterReset
	case "N":
		return histogram.NotCounterReset
	case "G":
		return histogram.GaugeType
	}
	return histogram.UnknownCounterReset
}

// spans builds spans (maximal runs) and the absolute counts for a set of present buckets.
func (c *hcConc) spans(bs [][2]int64, custom bool) ([]histogram.Span, []int64) {
	b := append([][2]int64(nil), bs...)
	sort.Slice(b, func(i, j int) bool { return b[i][0] < b[j][0] })
	var spans []histogram.Span
	var counts []int64
	var next int32
	for k, e := range b {
		idx := int32(e[0]) + c.off
		if custom {
			idx = int32(e[0]) - 1
		}
		if k > 0 && idx == next {
			spans[len(spans)-1].Length++
		} else {
			spans = append(spans, histogram.Span{Offset: idx - next, Length: 1})
		}
		next = idx + 1
		counts = append(counts, e[1])
	}
	return spans, counts
}

func (c *hcConc) buildInt(h *hcH, t int64) *histogram.Histogram {
	r := &histogram.Histogram{CounterResetHint: c.hint(h.Hi), Sum: c.sum(t, h.St)}
	if h.St {
		return r
	}
	r.Count = uint64(h.Cnt * c.iscale)
	delta := func(v []int64) []int64 {
		var prev int64
		o := make([]int64, len(v))
		for i, x := range v {
			o[i] = x*c.iscale - prev
			prev = x * c.iscale
		}
		if len(o) == 0 {
			return nil
		}
		return o
	}
	var cs []int64
	if h.Cv != 0 {
		r.Schema = histogram.CustomBucketsSchema
		r.CustomValues = c.cvs[h.Cv]
		r.PositiveSpans, cs = c.spans(h.P, true)
		r.PositiveBuckets = delta(cs)
		return r
	}
	r.Schema = c.schemas[h.S]
	r.ZeroThreshold = c.thr[h.Z]
	r.ZeroCount = uint64(h.Zc * c.iscale)
	r.PositiveSpans, cs = c.spans(h.P, false)
	r.PositiveBuckets = delta(cs)
	r.NegativeSpans, cs = c.spans(h.N, false)
	r.NegativeBuckets = delta(cs)
	return r
}

func (c *hcConc) buildFloat(h *hcH, t int64) *histogram.FloatHistogram {
	r := &histogram.FloatHistogram{CounterResetHint: c.hint(h.Hi), Sum: c.sum(t, h.St)}
	if h.St {
		return r
	}
	r.Count = float64(h.Cnt) * c.fscale
	abs := func(v []int64) []float64 {
		if len(v) == 0 {
			return nil
		}
		o := make([]float64, len(v))
		for i, x := range v {
			o[i] = float64(x) * c.fscale
		}
		return o
	}
	var cs []int64
	if h.Cv != 0 {
		r.Schema = histogram.CustomBucketsSchema
		r.CustomValues = c.cvs[h.Cv]
		r.PositiveSpans, cs = c.spans(h.P, true)
		r.PositiveBuckets = abs(cs)
		return r
	}
	r.Schema = c.schemas[h.S]
	r.ZeroThreshold = c.thr[h.Z]
	r.ZeroCount = float64(h.Zc) * c.fscale
	r.PositiveSpans, cs = c.spans(h.P, false)
	r.PositiveBuckets = abs(cs)
	r.NegativeSpans, cs = c.spans(h.N, false)
	r.NegativeBuckets = abs(cs)
	return r
}

// ---------------------------------------------------------------- comparison (C11 fields)

func hcBucketsF(it histogram.BucketIterator[float64]) map[int32]float64 {
	m := map[int32]float64{}
	for it.Next() {
		b := it.At()
		if b.Count != 0 {
			m[b.Index] += b.Count
		}
	}
	return m
}

func hcEqMap(a, b map[int32]float64) bool {
	if len(a) != len(b) {
		return false
	}
	for k, v := range a {
		if b[k] != v {
			return false
		}
	}
	return true
}

func hcEqBounds(a, b []float64) bool {
	if len(a) != len(b) {
		return false
	}
	for i := range a {
		if a[i] != b[i] {
			return false
		}
	}
	return true
}

// hcSame compares on exactly the fields C11 names; want is the freshly concretised input.
func hcSame(got, want *histogram.FloatHistogram) string {
	ws, gs := value.IsStaleNaN(want.Sum), value.IsStaleNaN(got.Sum)
	if ws || gs {
		if ws != gs {
			return fmt.Sprintf("staleness: got %v want %v", gs, ws)
		}
		return ""
	}
	switch {
	case got.Schema != want.Schema:
		return fmt.Sprintf("schema %d, appended %d", got.Schema, want.Schema)
	case got.ZeroThreshold != want.ZeroThreshold:
		return fmt.Sprintf("zero threshold %g, appended %g", got.ZeroThreshold, want.ZeroThreshold)
	case !hcEqBounds(got.CustomValues, want.CustomValues):
		return fmt.Sprintf("custom bounds %v, appended %v", got.CustomValues, want.CustomValues)
	case got.Count != want.Count:
		return fmt.Sprintf("count %g, appended %g", got.Count, want.Count)
	case math.Float64bits(got.Sum) != math.Float64bits(want.Sum):
		return fmt.Sprintf("sum %g, appended %g", got.Sum, want.Sum)
	case got.ZeroCount != want.ZeroCount:
		return fmt.Sprintf("zero count %g, appended %g", got.ZeroCount, want.ZeroCount)
	}
	if !hcEqMap(hcBucketsF(got.PositiveBucketIterator()), hcBucketsF(want.PositiveBucketIterator())) {
		return fmt.Sprintf("positive buckets %v %v, appended %v %v", got.PositiveSpans, got.PositiveBuckets, want.PositiveSpans, want.PositiveBuckets)
	}
	if !hcEqMap(hcBucketsF(got.NegativeBucketIterator()), hcBucketsF(want.NegativeBucketIterator())) {
		return fmt.Sprintf("negative buckets %v %v, appended %v %v", got.NegativeSpans, got.NegativeBuckets, want.NegativeSpans, want.NegativeBuckets)
	}
	return ""
}

func (c *hcConc) wantFloat(h *hcH, t int64) *histogram.FloatHistogram {
	if h.Ty == "i" {
		return c.buildInt(h, t).ToFloat(nil)
	}
	return c.buildFloat(h, t)
}

func hcHintName(h histogram.CounterResetHint) string {
	switch h {
	case histogram.CounterReset:
		return "R"
	case histogram.NotCounterReset:
		return "N"
	case histogram.GaugeType:
		return "G"
	}
	return "U"
}

// ---------------------------------------------------------------- verdict plumbing

type hcFail struct{ sig, msg string }

type hcRun struct {
	mode  string // "C11" faithfulness is the verdict, "C12" hint soundness is the verdict
	c     *hcConc
	fails []hcFail
	drift []string
	stat  map[string]int
}

func (r *hcRun) faithful(stage, format string, a ...any) {
	msg := stage + ": " + fmt.Sprintf(format, a...)
	if r.mode == "C11" {
		sig := "unfaithful:" + stage
		if r.c.tbase < 0 && r.c.span != 0 {
			sig += ":negative-time" // stage 2 with negative timestamps (KF-C11-2 lives here)
		}
		r.fails = append(r.fails, hcFail{sig, msg})
	} else {
		r.drift = append(r.drift, "C11 mismatch seen by the C12 harness: "+msg)
	}
}

func (r *hcRun) unsound(stage, sig, format string, a ...any) {
	if r.mode == "C12" {
		r.fails = append(r.fails, hcFail{sig + ":" + stage, stage + ": " + fmt.Sprintf(format, a...)})
	}
}

func (r *hcRun) other(sig, format string, a ...any) {
	r.fails = append(r.fails, hcFail{sig, fmt.Sprintf(format, a...)})
}

// got: one returned sample
type hcGot struct {
	t    int64
	fh   *histogram.FloatHistogram // float view (ToFloat of an integer sample)
	isF  bool
	hint histogram.CounterResetHint
}

// check compares one read (a contiguous slice of the time ordered result, by construction of the
// query range) with the model's list.
func (r *hcRun) check(stage string, got []hcGot, want []hcRes, lo, hi int64) {
	var w []hcRes
	first := -1
	for i, e := range want {
		t := r.c.time(e.T)
		if t >= lo && t <= hi {
			if first < 0 {
				first = i
			}
			w = append(w, e)
		}
	}
	r.stat["samples_read"] += len(got)
	if len(got) != len(w) {
		var ts []int64
		for _, g := range got {
			ts = append(ts, g.t)
		}
		r.faithful(stage, "read [%d,%d] returned %d samples (t=%v), appended %d", lo, hi, len(got), ts, len(w))
		return
	}
	for i, g := range got {
		e := w[i]
		if g.t != r.c.time(e.T) {
			r.faithful(stage, "sample %d has t=%d, appended t=%d", i, g.t, r.c.time(e.T))
			return
		}
		if !e.H.St && g.isF != (e.H.Ty == "f") {
			r.faithful(stage, "t=%d: returned as float=%v, appended float=%v", g.t, g.isF, e.H.Ty == "f")
			return
		}
		if d := hcSame(g.fh, r.c.wantFloat(&e.H, e.T)); d != "" {
			r.faithful(stage, "t=%d (%s sample %+v): %s", g.t, e.Src, e.H, d)
			return
		}
		if value.IsStaleNaN(g.fh.Sum) {
			continue
		}
		r.stat["hints_"+hcHintName(g.hint)]++
		if g.hint == histogram.NotCounterReset {
			switch {
			case i == 0:
				// no preceding sample in this result
				if first == 0 {
					r.unsound(stage, "nr-first-in-series", "first sample of the series (t=%d) is marked NotCounterReset", g.t)
				} else {
					r.unsound(stage, "nr-first-in-result", "read [%d,%d]: first returned sample (t=%d) is marked NotCounterReset but its predecessor is not part of the result", lo, hi, g.t)
				}
			case !e.Snd:
				r.unsound(stage, "nr-unsound", "t=%d is marked NotCounterReset but the preceding returned sample (t=%d, %+v) does not allow it: %+v", g.t, got[i-1].t, w[i-1].H, e.H)
			}
		}
		if hcHintName(g.hint) != e.Hint && stage == "chunks" {
			r.drift = append(r.drift, fmt.Sprintf("%s: hint at t=%d is %s, model %s", stage, g.t, hcHintName(g.hint), e.Hint))
		}
	}
}

// ---------------------------------------------------------------- stage 1: chunk appenders

type hcHeaderer interface {
	GetCounterResetHeader() chunkenc.CounterResetHeader
}

func hcHdrName(h chunkenc.CounterResetHeader) string {
	switch h {
	case chunkenc.CounterReset:
		return "R"
	case chunkenc.NotCounterReset:
		return "N"
	case chunkenc.GaugeType:
		return "G"
	}
	return "U"
}

func (r *hcRun) stage1(b []hcStep) {
	c := r.c
	var chunks []chunkenc.Chunk
	var app chunkenc.Appender
	cut := false
	reopenAt := c.rnd.Intn(len(b) + 1)
	for si, s := range b {
		switch s.Op {
		case "Cut":
			cut = true
		case "Append":
			vt := chunkenc.ValHistogram
			if s.H.Ty == "f" {
				vt = chunkenc.ValFloatHistogram
			}
			enc := vt.ChunkEncoding(false, c.st)
			t := c.time(s.T)
			if si == reopenAt && len(chunks) > 0 && !cut {
				// a second Appender() on the open, non-empty chunk must reconstruct the appender state
				// from the stored samples (Chunk.Appender contract); half of the time the chunk is first
				// reloaded from a copy of its bytes, as after a restart
				var err error
				if c.rnd.Intn(2) == 0 {
					last := chunks[len(chunks)-1]
					cp, ferr := chunkenc.FromData(last.Encoding(), append(make([]byte, 0, len(last.Bytes())+64), last.Bytes()...))
					if ferr != nil {
						r.other("infra", "FromData: %v", ferr)
						return
					}
					chunks[len(chunks)-1] = cp
				}
				if app, err = chunks[len(chunks)-1].Appender(); err != nil {
					r.other("reopen", "Appender() on a non-empty chunk: %v", err)
					return
				}
			}
			fresh := app == nil || cut || chunks[len(chunks)-1].Encoding() != enc
			var prev chunkenc.Appender
			if fresh {
				prev = app
				nc, err := chunkenc.NewEmptyChunk(enc)
				if err != nil {
					r.other("infra", "NewEmptyChunk: %v", err)
					return
				}
				chunks = append(chunks, nc)
				if app, err = nc.Appender(); err != nil {
					r.other("infra", "Appender: %v", err)
					return
				}
			}
			cut = false
			var (
				newChunk chunkenc.Chunk
				recoded  bool
				err      error
			)
			if s.H.Ty == "f" {
				in := c.buildFloat(s.H, s.T)
				orig := in.Copy()
				newChunk, recoded, app, err = app.AppendFloatHistogram(prev, 0, t, in, false)
				if !value.IsStaleNaN(orig.Sum) {
					if d := hcSame(in, orig); d != "" {
						r.faithful("chunks", "the caller's float histogram was changed by AppendFloatHistogram: %s", d)
					}
				}
			} else {
				in := c.buildInt(s.H, s.T)
				orig := in.Copy()
				newChunk, recoded, app, err = app.AppendHistogram(prev, 0, t, in, false)
				if !value.IsStaleNaN(orig.Sum) {
					if d := hcSame(in.ToFloat(nil), orig.ToFloat(nil)); d != "" {
						r.faithful("chunks", "the caller's histogram was changed by AppendHistogram: %s", d)
					}
				}
			}
			if err != nil {
				r.other("append-err", "append at t=%d returned %v", t, err)
				return
			}
			dec := "append"
			switch {
			case fresh:
				dec = "first"
			case newChunk != nil && recoded:
				dec = "recode"
				chunks[len(chunks)-1] = newChunk
			case newChunk != nil:
				dec = "new"
				chunks = append(chunks, newChunk)
			}
			r.stat["dec_"+dec]++
			md := s.Dec
			if md == "expand" {
				md = "append"
			}
			if md != dec {
				r.drift = append(r.drift, fmt.Sprintf("appender decision at t=%d (%+v): %s, model %s", t, *s.H, dec, s.Dec))
			}
		case "Read":
			var got []hcGot
			for ci, ch := range chunks {
				it := ch.Iterator(nil)
				for vt := it.Next(); vt != chunkenc.ValNone; vt = it.Next() {
					switch vt {
					case chunkenc.ValHistogram:
						t, h := it.AtHistogram(nil)
						g := hcGot{t: t, fh: h.ToFloat(nil), hint: h.CounterResetHint}
						// the float view of an integer chunk must agree
						_, fh := it.AtFloatHistogram(nil)
						if d := hcSame(fh, g.fh); d != "" && !value.IsStaleNaN(h.Sum) {
							r.faithful("chunks", "chunk %d t=%d: AtFloatHistogram differs from AtHistogram: %s", ci, t, d)
						}
						got = append(got, g)
					case chunkenc.ValFloatHistogram:
						t, fh := it.AtFloatHistogram(nil)
						got = append(got, hcGot{t: t, fh: fh.Copy(), isF: true, hint: fh.CounterResetHint})
					default:
						r.other("value-type", "chunk %d yields value type %v", ci, vt)
						return
					}
				}
				if it.Err() != nil {
					r.other("iter-err", "chunk %d iterator error: %v", ci, it.Err())
					return
				}
				if ci < len(s.Io) {
					if hh, ok := ch.(hcHeaderer); ok && (hcHdrName(hh.GetCounterResetHeader()) != s.Io[ci].Hdr || ch.NumSamples() != s.Io[ci].N) {
						r.drift = append(r.drift, fmt.Sprintf("chunk %d: header %s with %d samples, model %s with %d", ci, hcHdrName(hh.GetCounterResetHeader()), ch.NumSamples(), s.Io[ci].Hdr, s.Io[ci].N))
					}
				}
			}
			if len(chunks) != len(s.Io) {
				r.drift = append(r.drift, fmt.Sprintf("%d chunks, model %d", len(chunks), len(s.Io)))
			}
			r.check("chunks", got, s.IoRes, math.MinInt64, math.MaxInt64)
		}
	}
}

// ---------------------------------------------------------------- stage 2: tsdb.DB

func hcQuery(db *tsdb.DB, lo, hi int64, lbls labels.Labels) ([]hcGot, error) {
	q, err := db.Querier(lo, hi)
	if err != nil {
		return nil, err
	}
	defer q.Close()
	ss := q.Select(context.Background(), false, nil, labels.MustNewMatcher(labels.MatchEqual, "__name__", lbls.Get("__name__")))
	var got []hcGot
	n := 0
	for ss.Next() {
		n++
		it := ss.At().Iterator(nil)
		for vt := it.Next(); vt != chunkenc.ValNone; vt = it.Next() {
			switch vt {
			case chunkenc.ValHistogram:
				t, h := it.AtHistogram(nil)
				got = append(got, hcGot{t: t, fh: h.ToFloat(nil), hint: h.CounterResetHint})
			case chunkenc.ValFloatHistogram:
				t, fh := it.AtFloatHistogram(nil)
				got = append(got, hcGot{t: t, fh: fh.Copy(), isF: true, hint: fh.CounterResetHint})
			default:
				return nil, fmt.Errorf("value type %v", vt)
			}
		}
		if it.Err() != nil {
			return nil, it.Err()
		}
	}
	if ss.Err() != nil {
		return nil, ss.Err()
	}
	if n > 1 {
		return nil, fmt.Errorf("%d series returned", n)
	}
	return got, nil
}

func (r *hcRun) readAll(stage string, db *tsdb.DB, lbls labels.Labels, read hcStep) bool {
	want := read.Res
	if len(want) == 0 {
		return true
	}
	t0, t1 := r.c.time(want[0].T), r.c.time(want[len(want)-1].T)
	ranges := [][2]int64{{math.MinInt64, math.MaxInt64}, {t0, t1}}
	for k := 1; k < len(want); k++ {
		// every suffix, and a few inner windows
		ranges = append(ranges, [2]int64{r.c.time(want[k].T), t1})
		if k+1 < len(want) && (k+len(want))%2 == 0 {
			ranges = append(ranges, [2]int64{r.c.time(want[k].T), r.c.time(want[k+1].T)})
		}
	}
	for _, rg := range ranges {
		got, err := hcQuery(db, rg[0], rg[1], lbls)
		if err != nil {
			r.other("query-err:"+stage, "%s: query [%d,%d]: %v", stage, rg[0], rg[1], err)
			return false
		}
		n := len(r.fails)
		r.check(stage, got, want, rg[0], rg[1])
		if len(r.fails) > n {
			return false
		}
	}
	return true
}

func (r *hcRun) stage2(b []hcStep, dir string) {
	c := r.c
	opts := tsdb.DefaultOptions()
	opts.OutOfOrderTimeWindow = 1 << 50
	opts.OutOfOrderCapMax = int64(2 + c.rnd.Intn(3))
	opts.EnableHistogramSTEncoding = c.st
	// one chunk range wide enough for a behaviour; a model Cut is concretised as a jump of the
	// in-order time over the next chunk range boundary (memSeries.nextAt)
	span := c.tstep * 64
	c.setCuts(b, span)
	opts.MinBlockDuration = span
	opts.MaxBlockDuration = span * 8
	db, err := tsdb.Open(dir, nil, nil, opts, nil)
	if err != nil {
		r.other("infra", "tsdb.Open: %v", err)
		return
	}
	defer db.Close()
	db.DisableCompactions()
	lbls := labels.FromStrings("__name__", "h", "k", fmt.Sprint(c.rnd.Intn(100)))
	ctx := context.Background()
	appendOne := func(s hcStep) error {
		a := db.Appender(ctx)
		t := c.time(s.T)
		var err error
		if s.H.Ty == "f" {
			_, err = a.AppendHistogram(0, lbls, t, nil, c.buildFloat(s.H, s.T))
		} else {
			_, err = a.AppendHistogram(0, lbls, t, c.buildInt(s.H, s.T), nil)
		}
		if err != nil {
			a.Rollback()
			return err
		}
		return a.Commit()
	}
	var read *hcStep
	for i := range b {
		s := b[i]
		switch s.Op {
		case "Append", "Late":
			if err := appendOne(s); err != nil {
				r.other("append-err:db", "DB append of %s sample at t=%d (%+v) failed: %v", s.Op, c.time(s.T), *s.H, err)
				return
			}
			r.stat["db_appends"]++
		case "Cut":
			// the cut itself happens in memSeries when the next sample crosses the chunk range
			// boundary (see hcConc.time); sometimes the finished chunks are m-mapped right away
			if c.rnd.Intn(2) == 0 {
				db.ForceHeadMMap()
			}
		case "Read":
			read = &b[i]
		}
	}
	if read == nil {
		return
	}
	if !r.readAll("head", db, lbls, *read) {
		return
	}
	db.ForceHeadMMap()
	if !r.readAll("mmap", db, lbls, *read) {
		return
	}
	// out-of-order data into its own block(s), then the in-order head into a block: overlapping blocks
	if err := db.CompactOOOHead(ctx); err != nil {
		r.other("compact-err", "CompactOOOHead: %v", err)
		return
	}
	if !r.readAll("ooo-block", db, lbls, *read) {
		return
	}
	mint, maxt := db.Head().MinTime(), db.Head().MaxTime()
	if err := db.CompactHead(tsdb.NewRangeHead(db.Head(), mint, maxt)); err != nil {
		sig := "compact-err"
		if r.mode == "C11" {
			r.other(sig, "CompactHead failed, the appended histograms cannot be read from a block: %v", err)
		}
		return
	}
	if !r.readAll("blocks", db, lbls, *read) {
		return
	}
	r.stat["db_blocks"] += len(db.Blocks())
	if len(db.Blocks()) > 1 {
		db.EnableCompactions()
		if err := db.Compact(ctx); err != nil {
			r.other("compact-err", "Compact: %v", err)
			return
		}
		db.DisableCompactions()
		r.readAll("merged-block", db, lbls, *read)
	}
}

// ---------------------------------------------------------------- driver

func hcReplayAll(t *testing.T, mode string) {
	behs, err := verifh.ReadNDJSON[[]hcStep](verifh.In())
	if err != nil {
		verifh.Infra(err.Error())
		t.Fatal(err)
	}
	dbEvery := 1
	target := 800 // stage 2 is expensive: a deterministic subset of the behaviours
	if !verifh.Quick() {
		target = 8000
	}
	if v := len(behs); v > target {
		dbEvery = v / target
	}
	var mu sync.Mutex
	total := map[string]int{}
	known := map[string]int{}
	ndrift := 0
	var wg sync.WaitGroup
	sem := make(chan struct{}, 16)
	for bi := range behs {
		wg.Add(1)
		sem <- struct{}{}
		go func(bi int) {
			defer wg.Done()
			defer func() { <-sem }()
			b := behs[bi]
			seed := verifh.Seed()*7919 + int64(bi)
			r := &hcRun{mode: mode, c: hcNewConc(seed), stat: map[string]int{}}
			func() {
				defer func() {
					if p := recover(); p != nil {
						r.other("panic", "panic: %v", p)
					}
				}()
				r.stage1(b)
				if len(r.fails) == 0 && (bi+int(verifh.Seed()))%dbEvery == 0 {
					r.c = hcNewConc(seed + 1)
					r.stage2(b, t.TempDir())
					r.stat["db_behaviours"]++
				}
			}()
			mu.Lock()
			defer mu.Unlock()
			for k, v := range r.stat {
				total[k] += v
			}
			for _, d := range r.drift {
				ndrift++
				if ndrift <= 20 {
					verifh.Drift(d)
				}
			}
			for _, f := range r.fails {
				if f.sig == "infra" {
					verifh.Infra(f.msg)
					continue
				}
				if strings.HasPrefix(f.sig, "nr-first-in-result") {
					known[f.sig]++
					if known[f.sig] > 2 {
						continue
					}
				}
				verifh.Violation(f.sig, fmt.Sprintf("behaviour %d: %s", bi, f.msg), map[string]any{"behaviour": b, "seed": seed})
			}
		}(bi)
	}
	wg.Wait()
	st := map[string]any{"behaviours_replayed": len(behs), "drift_total": ndrift}
	for k, v := range total {
		st[k] = v
	}
	for k, v := range known {
		st["known_"+k] = v
	}
	verifh.Stat(st)
	verifh.Done(len(behs))
	if verifh.Violations() > 0 {
		t.Fail()
	}
}

func TestVerifC11Replay(t *testing.T) { hcReplayAll(t, "C11") }

var _ = storage.ErrOutOfOrderSample
