package tsdb

// C24 conformance harness. Every input line is one terminal state of specs/blockfmt/BlockFmt.tla: the
// abstract block (series in label order with chunks [encoding, samples]) and the history Write / Reopen /
// Recompact (each with everything the opened block must return: symbols, label names, label values,
// postings lists, series entries with chunk metas) and optionally Damage (one byte region of one chunk
// record or series index entry, XOR mask) with the outcome every read must have: an error for the altered
// record, the unchanged original for every other one.
//
// The block is written by the real LeveledCompactor.write (index.Writer, chunks.Writer with a tiny segment
// size so that several segment files are cut), opened with OpenBlock and read through its IndexReader,
// ChunkReader and block querier. Damage is applied to the real files at every byte of the named region.

import (
	"bytes"
	"context"
	"encoding/binary"
	"fmt"
	"math"
	"os"
	"path/filepath"
	"slices"
	"sort"
	"testing"

	"github.com/prometheus/common/promslog"

	"github.com/prometheus/prometheus/internal/verifh"
	"github.com/prometheus/prometheus/model/labels"
	"github.com/prometheus/prometheus/storage"
	"github.com/prometheus/prometheus/tsdb/chunkenc"
	"github.com/prometheus/prometheus/tsdb/chunks"
	"github.com/prometheus/prometheus/tsdb/index"
	"github.com/prometheus/prometheus/tsdb/tsdbutil"
)

type c24Chunk struct {
	Enc  string `json:"enc"`
	N    int    `json:"n"`
	Mint int64  `json:"mint"`
	Maxt int64  `json:"maxt"`
}

type c24Series struct {
	Labels map[string]string `json:"labels"`
	Chunks []c24Chunk        `json:"chunks"`
}

type c24Obs struct {
	// wide block (see WideObs in BlockFmt.tla)
	Wide      int `json:"wide"`
	NValues   int `json:"nvalues"`
	FirstRank int `json:"firstrank"`
	LastRank  int `json:"lastrank"`
	All       int `json:"all"`
	NotFirst  int `json:"notfirst"`
	NotLast   int `json:"notlast"`
	OnlyLast  int `json:"onlylast"`

	Symbols  []string                      `json:"symbols"`
	Names    []string                      `json:"names"`
	Values   map[string][]string           `json:"values"`
	Postings map[string]map[string][]int64 `json:"postings"`
	Series   []c24Series                   `json:"series"`
}

type c24Damage struct {
	Kind string `json:"kind"`
	Rank int    `json:"rank"`
	K    int    `json:"k"`
	Byte string `json:"byte"`
	Mask int    `json:"mask"`
}

type c24Read struct {
	Series []string   `json:"series"`
	Chunks [][]string `json:"chunks"`
}

type c24Step struct {
	A    string    `json:"a"`
	Obs  c24Obs    `json:"obs"`
	D    c24Damage `json:"d"`
	Read c24Read   `json:"read"`
}

type c24Rec struct {
	H     []c24Step   `json:"h"`
	Block []c24Series `json:"block"`
	Wide  int         `json:"wide"`
}

// c24WideBlock is the concretisation of a wide block: n series {job="j", w="v001"..}, one XOR chunk of 2 samples each.
func c24WideBlock(n int) []c24Series {
	var blk []c24Series
	for i := 1; i <= n; i++ {
		blk = append(blk, c24Series{Labels: map[string]string{"job": "j", "w": fmt.Sprintf("v%03d", i)}, Chunks: []c24Chunk{{Enc: "xor", N: 2, Mint: 100, Maxt: 101}}})
	}
	return blk
}

// c24CheckWide compares what the opened wide block returns for the label name w with the prediction:
// all n values in order, the series behind every value, and selectors that need the complete value list.
func c24CheckWide(ri int, what, bd string, obs *c24Obs, cs map[string]any) {
	viol := func(sig, msg string) {
		verifh.Violation(sig, fmt.Sprintf("record %d (%s, wide block of %d values): %s", ri, what, obs.Wide, msg), cs)
	}
	blk, err := OpenBlock(nil, bd, nil, nil)
	if err != nil {
		viol("open", err.Error())
		return
	}
	defer blk.Close()
	ctx := context.Background()
	ir, _ := blk.Index()
	defer ir.Close()
	names, err := ir.LabelNames(ctx)
	if err != nil || !slices.Equal(names, []string{"job", "w"}) {
		viol("label-names", fmt.Sprintf("label names %v (%v)", names, err))
	}
	var want []string
	for i := 1; i <= obs.NValues; i++ {
		want = append(want, fmt.Sprintf("v%03d", i))
	}
	vals, err := ir.SortedLabelValues(ctx, "w", nil)
	if err != nil || !slices.Equal(vals, want) {
		viol("label-values", fmt.Sprintf("LabelValues(w) returns %d values (%v), last %v; specification %d values up to %s", len(vals), err, vals[max(len(vals)-2, 0):], obs.NValues, want[len(want)-1]))
	}
	// rank of every series by label order
	rank := map[storage.SeriesRef]int{}
	p := AllSortedPostings(ctx, ir)
	for p.Next() {
		rank[p.At()] = len(rank) + 1
	}
	if len(rank) != obs.All {
		viol("series", fmt.Sprintf("%d series, specification %d", len(rank), obs.All))
	}
	for i, v := range want {
		pp, err := ir.Postings(ctx, "w", v)
		var rs []int
		if err == nil {
			for pp.Next() {
				rs = append(rs, rank[pp.At()])
			}
			err = pp.Err()
		}
		if err != nil || !slices.Equal(rs, []int{i + 1}) {
			viol("postings", fmt.Sprintf("postings w=%s: series %v (%v), specification [%d]", v, rs, err, i+1))
			break
		}
	}
	count := func(pp index.Postings) int {
		n := 0
		for pp.Next() {
			n++
		}
		return n
	}
	if n := count(ir.PostingsForAllLabelValues(ctx, "w")); n != obs.All {
		viol("postings-all-values", fmt.Sprintf("PostingsForAllLabelValues(w) has %d series, specification %d", n, obs.All))
	}
	last := want[len(want)-1]
	if n := count(ir.PostingsForLabelMatching(ctx, "w", func(v string) bool { return v == last })); n != obs.OnlyLast {
		viol("postings-matching", fmt.Sprintf("PostingsForLabelMatching(w == %s) has %d series, specification %d", last, n, obs.OnlyLast))
	}
	// selectors through the block querier
	q, err := NewBlockQuerier(blk, math.MinInt64, math.MaxInt64)
	if err != nil {
		viol("querier", err.Error())
		return
	}
	defer q.Close()
	sel := func(m *labels.Matcher) (int, bool) {
		ss := q.Select(ctx, true, nil, m)
		n, hasLast := 0, false
		for ss.Next() {
			n++
			if ss.At().Labels().Get("w") == last {
				hasLast = true
			}
		}
		return n, hasLast
	}
	for _, tc := range []struct {
		m        *labels.Matcher
		n        int
		wantLast bool
	}{
		{labels.MustNewMatcher(labels.MatchRegexp, "w", "v.*"), obs.All, true},
		{labels.MustNewMatcher(labels.MatchNotEqual, "w", want[0]), obs.NotFirst, true},
		{labels.MustNewMatcher(labels.MatchNotEqual, "w", last), obs.NotLast, false},
		{labels.MustNewMatcher(labels.MatchRegexp, "w", ".*"+last[1:]), obs.OnlyLast, true},
		{labels.MustNewMatcher(labels.MatchEqual, "w", last), obs.OnlyLast, true},
	} {
		if n, hl := sel(tc.m); n != tc.n || hl != tc.wantLast {
			viol("selector", fmt.Sprintf("selector %s returns %d series (series of the last value included: %v), specification %d (%v)", tc.m, n, hl, tc.n, tc.wantLast))
		}
	}
	lv, _, err := q.LabelValues(ctx, "w", nil)
	if err != nil || len(lv) != obs.NValues {
		viol("label-values", fmt.Sprintf("querier LabelValues(w) returns %d values (%v), specification %d", len(lv), err, obs.NValues))
	}
}

type c24Orig struct {
	refs   []storage.SeriesRef // by rank-1
	labels []labels.Labels
	metas  [][]chunks.Meta
	bytes  [][][]byte
	encs   [][]chunkenc.Encoding
}

func c24Sample(enc string, rank, k, i int, t int64) sample {
	v := int64(rank*100 + k*10 + i)
	switch enc {
	case "hist":
		return sample{t: t, h: tsdbutil.GenerateTestHistogram(v)}
	case "fhist":
		return sample{t: t, fh: tsdbutil.GenerateTestFloatHistogram(v)}
	}
	return sample{t: t, f: float64(v) + 0.5}
}

func c24Compactor(t *testing.T) *LeveledCompactor {
	c, err := NewLeveledCompactorWithOptions(context.Background(), nil, promslog.NewNopLogger(), []int64{1000}, nil,
		LeveledCompactorOptions{EnableOverlappingCompaction: true, MaxBlockChunkSegmentSize: 160})
	if err != nil {
		verifh.Infra(err.Error())
		t.Fatal(err)
	}
	return c
}

// c24Write writes the abstract block with the real block writer and returns its directory.
func c24Write(t *testing.T, dir string, blk []c24Series) string {
	var tc []seriesSamples
	maxt := int64(0)
	for r, s := range blk {
		ss := seriesSamples{lset: s.Labels}
		for k, c := range s.Chunks {
			var chk []sample
			for i := 0; i < c.N; i++ {
				chk = append(chk, c24Sample(c.Enc, r+1, k+1, i, int64(100*(k+1)+i)))
			}
			maxt = max(maxt, int64(100*(k+1)+c.N))
			ss.chunks = append(ss.chunks, chk)
		}
		tc = append(tc, ss)
	}
	ir, cr, _, _ := createIdxChkReaders(t, tc)
	ulids, err := c24Compactor(t).Write(dir, &mockBReader{ir: ir, cr: cr, mint: 0, maxt: maxt}, 0, maxt, nil)
	if err != nil || len(ulids) != 1 {
		verifh.Infra(fmt.Sprintf("write: %v", err))
		t.Fatal(err)
	}
	return filepath.Join(dir, ulids[0].String())
}

// c24Check compares everything the opened block returns with the prediction; strictBytes: chunk bytes must be
// the bytes written (false after a recompaction, where only the decoded samples are fixed).
func c24Check(ri int, what, bd string, obs *c24Obs, orig *c24Orig, cs map[string]any) (*c24Orig, bool) {
	ok := true
	viol := func(sig, msg string) {
		ok = false
		verifh.Violation(sig, fmt.Sprintf("record %d (%s): %s", ri, what, msg), cs)
	}
	blk, err := OpenBlock(nil, bd, nil, nil)
	if err != nil {
		viol("open", err.Error())
		return nil, false
	}
	defer blk.Close()
	ctx := context.Background()
	ir, _ := blk.Index()
	defer ir.Close()
	cr, _ := blk.Chunks()
	defer cr.Close()
	// symbols: sorted, unique, exactly the predicted set
	var syms []string
	for it := ir.Symbols(); it.Next(); {
		syms = append(syms, it.At())
	}
	want := slices.Clone(obs.Symbols)
	sort.Strings(want)
	if !slices.Equal(syms, want) {
		viol("symbols", fmt.Sprintf("symbols %v, specification %v", syms, want))
	}
	names, err := ir.LabelNames(ctx)
	wn := slices.Clone(obs.Names)
	sort.Strings(wn)
	if err != nil || !slices.Equal(names, wn) {
		viol("label-names", fmt.Sprintf("label names %v (%v), specification %v", names, err, wn))
	}
	// series in label order
	got := &c24Orig{}
	p := AllSortedPostings(ctx, ir)
	for p.Next() {
		var lb labels.ScratchBuilder
		var chks []chunks.Meta
		if err := ir.Series(p.At(), &lb, &chks); err != nil {
			viol("series-read", err.Error())
			return nil, false
		}
		got.refs = append(got.refs, p.At())
		got.labels = append(got.labels, lb.Labels())
		got.metas = append(got.metas, slices.Clone(chks))
	}
	if len(got.refs) != len(obs.Series) {
		viol("series", fmt.Sprintf("%d series, specification %d", len(got.refs), len(obs.Series)))
		return nil, false
	}
	rankOf := map[storage.SeriesRef]int64{}
	for r := range got.refs {
		rankOf[got.refs[r]] = int64(r + 1)
		ws := obs.Series[r]
		if !labels.Equal(got.labels[r], labels.FromMap(ws.Labels)) {
			viol("series-labels", fmt.Sprintf("series %d has labels %s, specification %v", r+1, got.labels[r], ws.Labels))
		}
		if len(got.metas[r]) != len(ws.Chunks) {
			viol("series-chunks", fmt.Sprintf("series %d has %d chunks, specification %d", r+1, len(got.metas[r]), len(ws.Chunks)))
			return nil, false
		}
		var bs [][]byte
		var es []chunkenc.Encoding
		for k, cm := range got.metas[r] {
			wc := ws.Chunks[k]
			if cm.MinTime != wc.Mint || cm.MaxTime != wc.Maxt {
				viol("chunk-range", fmt.Sprintf("series %d chunk %d range [%d,%d], specification [%d,%d]", r+1, k+1, cm.MinTime, cm.MaxTime, wc.Mint, wc.Maxt))
			}
			c, _, err := cr.ChunkOrIterable(cm)
			if err != nil {
				viol("chunk-read", fmt.Sprintf("series %d chunk %d: %v", r+1, k+1, err))
				return nil, false
			}
			wantEnc := map[string]chunkenc.Encoding{"xor": chunkenc.EncXOR, "hist": chunkenc.EncHistogram, "fhist": chunkenc.EncFloatHistogram}[wc.Enc]
			if c.Encoding() != wantEnc || c.NumSamples() != wc.N {
				viol("chunk-content", fmt.Sprintf("series %d chunk %d: encoding %v with %d samples, specification %s with %d", r+1, k+1, c.Encoding(), c.NumSamples(), wc.Enc, wc.N))
			}
			// decoded samples are the generated ones
			it := c.Iterator(nil)
			for i := 0; i < wc.N; i++ {
				vt := it.Next()
				e := c24Sample(wc.Enc, r+1, k+1, i, wc.Mint+int64(i))
				good := vt != chunkenc.ValNone && it.AtT() == e.t
				if good {
					switch vt {
					case chunkenc.ValFloat:
						_, f := it.At()
						good = wc.Enc == "xor" && f == e.f
					case chunkenc.ValHistogram:
						_, h := it.AtHistogram(nil)
						good = wc.Enc == "hist" && h.Equals(e.h)
					case chunkenc.ValFloatHistogram:
						_, fh := it.AtFloatHistogram(nil)
						good = wc.Enc == "fhist" && fh.Equals(e.fh)
					}
				}
				if !good {
					viol("chunk-samples", fmt.Sprintf("series %d chunk %d sample %d is not the one written", r+1, k+1, i))
					break
				}
			}
			bs = append(bs, slices.Clone(c.Bytes()))
			es = append(es, c.Encoding())
			if orig != nil && (!bytes.Equal(c.Bytes(), orig.bytes[r][k]) || c.Encoding() != orig.encs[r][k]) {
				viol("chunk-bytes", fmt.Sprintf("series %d chunk %d: bytes differ from the first read", r+1, k+1))
			}
		}
		got.bytes = append(got.bytes, bs)
		got.encs = append(got.encs, es)
	}
	// label values and postings
	for _, n := range wn {
		vals, err := ir.LabelValues(ctx, n, nil)
		sort.Strings(vals)
		wv := slices.Clone(obs.Values[n])
		sort.Strings(wv)
		if err != nil || !slices.Equal(vals, wv) {
			viol("label-values", fmt.Sprintf("values of %s: %v (%v), specification %v", n, vals, err, wv))
		}
		for _, v := range wv {
			pp, err := ir.Postings(ctx, n, v)
			var ranks []int64
			if err == nil {
				for pp.Next() {
					ranks = append(ranks, rankOf[pp.At()])
				}
				err = pp.Err()
			}
			if err != nil || !slices.Equal(ranks, obs.Postings[n][v]) {
				viol("postings", fmt.Sprintf("postings %s=%s: series %v (%v), specification %v", n, v, ranks, err, obs.Postings[n][v]))
			}
		}
	}
	// a value that does not occur has no postings
	if pp, err := ir.Postings(ctx, wn[0], "no-such-value"); err != nil || pp.Next() {
		viol("postings", "postings for an absent value are not empty")
	}
	return got, ok
}

// c24Region returns the byte offsets (in the file) of the named region of the record starting at off.
func c24Region(file []byte, off int, chunk bool, region string) []int {
	l, n := binary.Uvarint(file[off:])
	body := off + n
	ln := int(l)
	if chunk {
		ln++ // encoding byte
	}
	crc := body + ln
	var lo, hi int // [lo, hi)
	switch region {
	case "len":
		lo, hi = off, off+n
	case "enc":
		lo, hi = body, body+1
	case "data_first":
		lo, hi = body+1, body+2
	case "body_first":
		lo, hi = body, body+1
	case "data_mid":
		lo, hi = body+2, crc-1
	case "body_mid":
		lo, hi = body+1, crc-1
	case "data_last", "body_last":
		lo, hi = crc-1, crc
	case "crc_first":
		lo, hi = crc, crc+2
	case "crc_last":
		lo, hi = crc+2, crc+4
	}
	var res []int
	for p := lo; p < hi; p++ {
		res = append(res, p)
	}
	return res
}

// c24ReadAll classifies what every entity of the (damaged) block reads as.
func c24ReadAll(bd string, orig *c24Orig) (c24Read, string, error) {
	res := c24Read{}
	blk, err := OpenBlock(nil, bd, nil, nil)
	if err != nil {
		return res, "", err
	}
	defer blk.Close()
	ir, _ := blk.Index()
	defer ir.Close()
	cr, _ := blk.Chunks()
	defer cr.Close()
	for r := range orig.refs {
		var lb labels.ScratchBuilder
		var chks []chunks.Meta
		switch err := ir.Series(orig.refs[r], &lb, &chks); {
		case err != nil:
			res.Series = append(res.Series, "error")
		case labels.Equal(lb.Labels(), orig.labels[r]) && slices.EqualFunc(chks, orig.metas[r], func(a, b chunks.Meta) bool {
			return a.Ref == b.Ref && a.MinTime == b.MinTime && a.MaxTime == b.MaxTime
		}):
			res.Series = append(res.Series, "same")
		default:
			res.Series = append(res.Series, "different")
		}
		var cc []string
		for k, cm := range orig.metas[r] {
			c, _, err := cr.ChunkOrIterable(chunks.Meta{Ref: cm.Ref, MinTime: cm.MinTime, MaxTime: cm.MaxTime})
			switch {
			case err != nil:
				cc = append(cc, "error")
			case bytes.Equal(c.Bytes(), orig.bytes[r][k]) && c.Encoding() == orig.encs[r][k]:
				cc = append(cc, "same")
			default:
				cc = append(cc, "different")
			}
		}
		res.Chunks = append(res.Chunks, cc)
	}
	// the block querier over everything: an error, or exactly the original data
	q, err := NewBlockQuerier(blk, math.MinInt64, math.MaxInt64)
	if err != nil {
		return res, "error", nil
	}
	defer q.Close()
	ss := q.Select(context.Background(), true, nil, labels.MustNewMatcher(labels.MatchRegexp, "a", ".*"))
	n, qerr := 0, error(nil)
	for ss.Next() {
		it := ss.At().Iterator(nil)
		for it.Next() != chunkenc.ValNone {
			n++
		}
		if it.Err() != nil {
			qerr = it.Err()
		}
	}
	if ss.Err() != nil {
		qerr = ss.Err()
	}
	total := 0
	for r := range orig.metas {
		for k := range orig.metas[r] {
			c, _ := chunkenc.FromData(orig.encs[r][k], orig.bytes[r][k])
			total += c.NumSamples()
		}
	}
	switch {
	case qerr != nil:
		return res, "error", nil
	case n == total:
		return res, "same", nil
	}
	return res, "different", nil
}

func TestVerifC24BlockFmt(t *testing.T) {
	recs, err := verifh.ReadNDJSON[c24Rec](verifh.In())
	if err != nil {
		verifh.Infra(err.Error())
		t.Fatal(err)
	}
	nbytes, nsegs := 0, 0
	for ri := range recs {
		rec := &recs[ri]
		cs := map[string]any{"record": rec}
		dir := t.TempDir()
		var bd string
		var orig *c24Orig
		if rec.Wide > 0 {
			bd = c24Write(t, dir, c24WideBlock(rec.Wide))
			for _, st := range rec.H {
				switch st.A {
				case "Write":
					c24CheckWide(ri, "Write", bd, &st.Obs, cs)
				case "Reopen": // every check opens the block anew
					c24CheckWide(ri, "Reopen", bd, &st.Obs, cs)
				case "Recompact":
					dest := filepath.Join(dir, "re")
					ulids, err := c24Compactor(t).Compact(dest, []string{bd}, nil)
					if err != nil || len(ulids) != 1 {
						verifh.Violation("recompact", fmt.Sprintf("record %d: compaction of the wide block: %v", ri, err), cs)
						continue
					}
					c24CheckWide(ri, "Recompact", filepath.Join(dest, ulids[0].String()), &st.Obs, cs)
				}
			}
			continue
		}
		for si, st := range rec.H {
			switch st.A {
			case "Write":
				bd = c24Write(t, dir, rec.Block)
				orig, _ = c24Check(ri, "Write", bd, &st.Obs, nil, cs)
				if fs, _ := os.ReadDir(filepath.Join(bd, "chunks")); len(fs) > 1 {
					nsegs++
				}
			case "Reopen":
				if orig != nil {
					c24Check(ri, "Reopen", bd, &st.Obs, orig, cs)
				}
			case "Recompact":
				if orig == nil {
					continue
				}
				dest := filepath.Join(dir, "re")
				ulids, err := c24Compactor(t).Compact(dest, []string{bd}, nil)
				if err != nil || len(ulids) != 1 {
					verifh.Violation("recompact", fmt.Sprintf("record %d: compaction of the block: %v", ri, err), cs)
					continue
				}
				c24Check(ri, "Recompact", filepath.Join(dest, ulids[0].String()), &st.Obs, nil, cs)
			case "Damage":
				if orig == nil {
					continue
				}
				d := st.D
				var path string
				var off int
				if d.Kind == "chunk" {
					seg, o := chunks.BlockChunkRef(orig.metas[d.Rank-1][d.K-1].Ref).Unpack()
					path, off = filepath.Join(bd, "chunks", fmt.Sprintf("%06d", seg+1)), o
				} else {
					path, off = filepath.Join(bd, "index"), int(orig.refs[d.Rank-1])*16
				}
				file, err := os.ReadFile(path)
				if err != nil {
					verifh.Infra(err.Error())
					t.Fatal(err)
				}
				pos := c24Region(file, off, d.Kind == "chunk", d.Byte)
				if verifh.Quick() && len(pos) > 6 {
					thin := []int{}
					for i := 0; i < 6; i++ {
						thin = append(thin, pos[i*(len(pos)-1)/5])
					}
					pos = thin
				}
				for _, p := range pos {
					nbytes++
					mod := slices.Clone(file)
					mod[p] ^= byte(d.Mask)
					if err := os.WriteFile(path, mod, 0o666); err != nil {
						verifh.Infra(err.Error())
						t.Fatal(err)
					}
					got, qres, oerr := c24ReadAll(bd, orig)
					dcs := map[string]any{"record": rec, "step": si, "file": path, "offset": p, "record_offset": off}
					where := fmt.Sprintf("record %d: byte %d of %s (%s of the %s record at %d, mask %#x)", ri, p, filepath.Base(path), d.Byte, d.Kind, off, d.Mask)
					if oerr != nil {
						// refusing the whole block reports the damage, but loses the undamaged records: drift
						verifh.Drift(where + ": OpenBlock fails: " + oerr.Error())
						continue
					}
					if qres == "different" {
						verifh.Violation("querier-returns-damaged-data", where+": the block querier returns different data without an error", dcs)
					}
					for r := range got.Series {
						if got.Series[r] == "different" || (st.Read.Series[r] == "error" && got.Series[r] != "error") {
							verifh.Violation("damage-undetected:series:"+d.Byte, fmt.Sprintf("%s: reading series entry %d gives %q, specification %q", where, r+1, got.Series[r], st.Read.Series[r]), dcs)
						} else if got.Series[r] != st.Read.Series[r] {
							verifh.Drift(fmt.Sprintf("%s: series entry %d reads %q, specification %q", where, r+1, got.Series[r], st.Read.Series[r]))
						}
						for k := range got.Chunks[r] {
							g, w := got.Chunks[r][k], st.Read.Chunks[r][k]
							if g == "different" || (w == "error" && g != "error") {
								verifh.Violation("damage-undetected:chunk:"+d.Byte, fmt.Sprintf("%s: reading chunk %d of series %d gives %q, specification %q", where, k+1, r+1, g, w), dcs)
							} else if g != w {
								verifh.Drift(fmt.Sprintf("%s: chunk %d of series %d reads %q, specification %q", where, k+1, r+1, g, w))
							}
						}
					}
				}
				if err := os.WriteFile(path, file, 0o666); err != nil {
					verifh.Infra(err.Error())
					t.Fatal(err)
				}
			}
		}
		if verifh.Violations() > 40 {
			break
		}
	}
	verifh.Stat(map[string]any{"bytes_altered": nbytes, "blocks_with_several_segment_files": nsegs})
	verifh.Done(len(recs))
	if verifh.Violations() > 0 {
		t.Fail()
	}
}
