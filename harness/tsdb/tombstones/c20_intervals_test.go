package tombstones_test

// C20 (interval part): replays Add sequences generated from specs/tombstones/Tombstones.tla against
// tombstones.Intervals.Add, MemTombstones.AddInterval and the WriteFile/ReadTombstones round trip.

import (
	"fmt"
	"math"
	"os"
	"path/filepath"
	"testing"

	"github.com/prometheus/prometheus/internal/verifh"
	"github.com/prometheus/prometheus/storage"
	"github.com/prometheus/prometheus/tsdb/tombstones"
)

type c20Step struct {
	A   string    `json:"a"`
	N   int64     `json:"n"`
	Gap int64     `json:"gap"`
	Lo  int64     `json:"lo"`
	Hi  int64     `json:"hi"`
	Ivs [][]int64 `json:"ivs"`
}

func c20Map(t, n, gap, base int64) int64 {
	switch {
	case gap > n:
		return base + t
	case t <= gap:
		return math.MinInt64 + t
	default:
		return math.MaxInt64 - (n - t)
	}
}

func c20Replay(b []c20Step, base int64, dir string, bi int) (int, string, string) {
	n, gap := b[0].N, b[0].Gap
	m := func(t int64) int64 { return c20Map(t, n, gap, base) }
	var ivs tombstones.Intervals
	mem := tombstones.NewMemTombstones()
	check := func(got tombstones.Intervals, want [][]int64, what string) (string, string) {
		bad := len(got) != len(want)
		for i := 0; !bad && i < len(got); i++ {
			bad = got[i].Mint != m(want[i][0]) || got[i].Maxt != m(want[i][1])
		}
		if bad {
			var w tombstones.Intervals
			for _, x := range want {
				w = append(w, tombstones.Interval{Mint: m(x[0]), Maxt: m(x[1])})
			}
			return "intervals", fmt.Sprintf("%s = %v, the sorted non-adjacent cover of the union is %v", what, got, w)
		}
		return "", ""
	}
	for i := 1; i < len(b); i++ {
		s := b[i]
		iv := tombstones.Interval{Mint: m(s.Lo), Maxt: m(s.Hi)}
		ivs = ivs.Add(iv)
		if sig, msg := check(ivs, s.Ivs, fmt.Sprintf("after Add(%v)", iv)); sig != "" {
			return i, sig, msg
		}
		mem.AddInterval(storage.SeriesRef(7), iv)
		got, _ := mem.Get(7)
		if sig, msg := check(got, s.Ivs, fmt.Sprintf("MemTombstones after AddInterval(%v)", iv)); sig != "" {
			return i, "mem-" + sig, msg
		}
		// membership agrees with the point set
		for t := int64(0); t <= n; t++ {
			in := false
			for _, x := range s.Ivs {
				if t >= x[0] && t <= x[1] {
					in = true
				}
			}
			if (tombstones.Interval{Mint: m(t), Maxt: m(t)}).IsSubrange(ivs) != in {
				return i, "membership", fmt.Sprintf("point %d: IsSubrange=%v, expected %v in %v", m(t), !in, in, ivs)
			}
		}
	}
	if bi%16 == 0 && len(b) > 1 { // file round trip (thinned: I/O)
		d := filepath.Join(dir, fmt.Sprintf("t%d", bi))
		os.MkdirAll(d, 0o777)
		defer os.RemoveAll(d)
		if _, err := tombstones.WriteFile(nil, d, mem); err != nil {
			return len(b) - 1, "infra", err.Error()
		}
		rd, _, err := tombstones.ReadTombstones(d)
		if err != nil {
			return len(b) - 1, "read-error", "ReadTombstones: " + err.Error()
		}
		got, _ := rd.Get(7)
		if sig, msg := check(got, b[len(b)-1].Ivs, "ReadTombstones(WriteFile(x))"); sig != "" {
			return len(b) - 1, "file-" + sig, msg
		}
	}
	return -1, "", ""
}

func TestVerifC20Intervals(t *testing.T) {
	behs, err := verifh.ReadNDJSON[[]c20Step](verifh.In())
	if err != nil {
		verifh.Infra(err.Error())
		t.Fatal(err)
	}
	dir := os.Getenv("VERIF_SCRATCH")
	if dir == "" {
		dir = t.TempDir()
	}
	bases := []int64{0, -4, 1 << 40, -(1 << 50) - 3}
	for bi, b := range behs {
		func() {
			defer func() {
				if p := recover(); p != nil {
					verifh.Violation("panic", fmt.Sprintf("behaviour %d: panic: %v", bi, p), b)
				}
			}()
			if i, sig, msg := c20Replay(b, bases[(int(verifh.Seed())+bi)%len(bases)], dir, bi); i >= 0 {
				if sig == "infra" {
					verifh.Infra(msg)
					t.Fatal(msg)
				}
				verifh.Violation(sig, fmt.Sprintf("behaviour %d step %d: %s", bi, i, msg), b)
			}
		}()
	}
	verifh.Done(len(behs))
	if verifh.Violations() > 0 {
		t.Fail()
	}
}
