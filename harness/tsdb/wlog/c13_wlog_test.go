package wlog_test

// C13 conformance harness: behaviours emitted by specs/wlog/Wlog.tla (record lengths chosen relative
// to the free space of the page / segment, batch boundaries, explicit segment cuts, compression
// outcome per record) are written with the real wlog.WL; then
//   - the raw segment files are parsed by an independent fragment parser and compared with the
//     layout predicted by the spec (difference = model drift),
//   - wlog.Reader must return exactly the written records (before and after Close),
//   - a persistent wlog.LiveReader per segment is fed growing prefixes of the file (every cut point
//     the spec lists: flush boundaries and positions around every fragment boundary; plus random
//     byte counts in the thorough tier) and must return exactly the number of records the spec
//     predicts for that prefix, with the written contents, and io.EOF (never a corruption).

import (
	"bytes"
	"encoding/binary"
	"errors"
	"fmt"
	"hash/crc32"
	"io"
	"math/rand"
	"os"
	"path/filepath"
	"sort"
	"testing"

	"github.com/prometheus/common/promslog"

	"github.com/prometheus/prometheus/internal/verifh"
	"github.com/prometheus/prometheus/tsdb/wlog"
	"github.com/prometheus/prometheus/util/compression"
)

const (
	c13Page = 32768
	c13Hdr  = 7
)

type c13Item struct {
	Ty string `json:"ty"`
	N  int    `json:"n"`
	R  int    `json:"r"`
	C  bool   `json:"c"`
}

type c13Step struct {
	A     string `json:"a"`
	Name  string `json:"name"`
	N     int    `json:"n"`
	C     bool   `json:"c"`
	Final bool   `json:"final"`
}

type c13Cut struct {
	N   int `json:"n"`
	Cnt int `json:"cnt"`
}

type c13Beh struct {
	SegPages int         `json:"segPages"`
	Hist     []c13Step   `json:"hist"`
	Segs     [][]c13Item `json:"segs"`
	Flushes  []struct {
		Seg int `json:"seg"`
		Len int `json:"len"`
	} `json:"flushes"`
	Ends []struct {
		Seg int `json:"seg"`
		Off int `json:"off"`
	} `json:"ends"`
	Cuts []struct {
		Vis int      `json:"vis"`
		At  []c13Cut `json:"at"`
	} `json:"cuts"`
}

var c13Castagnoli = crc32.MakeTable(crc32.Castagnoli)

// independent parser of one segment file
func c13Parse(b []byte) ([]c13Item, error) {
	var items []c13Item
	off := 0
	for off < len(b) {
		typ := b[off]
		if typ&7 == 0 {
			end := (off/c13Page + 1) * c13Page
			if end > len(b) {
				end = len(b)
			}
			for _, x := range b[off:end] {
				if x != 0 {
					return items, fmt.Errorf("non-zero byte in padding at %d", off)
				}
			}
			items = append(items, c13Item{Ty: "pad", N: end - off})
			off = end
			continue
		}
		if off+c13Hdr > len(b) {
			return items, fmt.Errorf("truncated header at %d", off)
		}
		n := int(binary.BigEndian.Uint16(b[off+1:]))
		crc := binary.BigEndian.Uint32(b[off+3:])
		if off+c13Hdr+n > len(b) {
			return items, fmt.Errorf("truncated fragment at %d", off)
		}
		if off/c13Page != (off+c13Hdr+n-1)/c13Page {
			return items, fmt.Errorf("fragment at %d crosses a page", off)
		}
		if crc32.Checksum(b[off+c13Hdr:off+c13Hdr+n], c13Castagnoli) != crc {
			return items, fmt.Errorf("bad crc at %d", off)
		}
		ty := map[byte]string{1: "full", 2: "first", 3: "middle", 4: "last"}[typ&7]
		if ty == "" {
			return items, fmt.Errorf("bad type %d at %d", typ, off)
		}
		items = append(items, c13Item{Ty: ty, N: n, C: typ&0x18 != 0})
		off += c13Hdr + n
	}
	return items, nil
}

// payload whose stored (compressed) length is exactly L and smaller than its raw length
func c13Compressible(typ compression.Type, L int, rnd *rand.Rand) []byte {
	enc := compression.NewSyncEncodeBuffer()
	base := make([]byte, L+64)
	rnd.Read(base)
	z0 := 2*L + 64
	if z0 > 3000 {
		z0 = 3000
	}
	size := func(raw []byte) int {
		out, err := compression.Encode(typ, raw, enc)
		if err != nil {
			return -1
		}
		return len(out)
	}
	mk := func(k, z, shift int, zerosFirst bool) []byte {
		if zerosFirst {
			return append(make([]byte, z, z+k), base[shift:shift+k]...)
		}
		return append(append(make([]byte, 0, z+k), base[shift:shift+k]...), make([]byte, z)...)
	}
	for attempt := 0; attempt < 64; attempt++ {
		z := z0 + attempt%16
		shift := (attempt / 16) * 7
		zf := attempt%2 == 1
		// the encoded size grows roughly 1:1 with the incompressible part: approach from below
		k := L - size(mk(0, z, shift, zf)) - 40
		if k < 0 {
			k = 0
		}
		for ; k <= L; k++ {
			raw := mk(k, z, shift, zf)
			n := size(raw)
			if n == L && len(raw) > L {
				return raw
			}
			if n < 0 || n > L {
				break
			}
			if L-n > 48 {
				k += (L - n) / 2
			}
		}
	}
	return nil
}

func c13Incompressible(typ compression.Type, n int, rnd *rand.Rand) []byte {
	raw := make([]byte, n)
	rnd.Read(raw)
	return raw
}

type c13Limited struct {
	f     *os.File
	pos   int64
	limit int64
}

func (l *c13Limited) Read(p []byte) (int, error) {
	if l.pos >= l.limit {
		return 0, io.EOF
	}
	if int64(len(p)) > l.limit-l.pos {
		p = p[:l.limit-l.pos]
	}
	n, err := l.f.ReadAt(p, l.pos)
	l.pos += int64(n)
	if err == io.EOF && n > 0 {
		err = nil
	}
	return n, err
}

type c13Res struct {
	infra string
	drift []string
	viol  [][2]string
	skip  bool
}

func c13Run(id int, b c13Beh, seed int64, root string, quick bool) (res c13Res) {
	defer func() {
		if r := recover(); r != nil { // a panic of the code under test on a valid log is a verdict, not a harness problem
			res.viol = append(res.viol, [2]string{"panic", fmt.Sprintf("behaviour %d: wlog panics while writing/reading a valid log: %v", id, r)})
		}
	}()
	rnd := rand.New(rand.NewSource(seed*1000003 + int64(id)))
	dir := filepath.Join(root, fmt.Sprintf("w%d", id))
	defer os.RemoveAll(dir)
	anyC := false
	for _, s := range b.Hist {
		anyC = anyC || (s.A == "Log" && s.C)
	}
	types := []compression.Type{compression.None, compression.Snappy, compression.Zstd}
	typ := types[(int(seed)+id)%3]
	if anyC && typ == compression.None {
		typ = types[1+(int(seed)+id/3)%2]
	}
	// concretise the records
	var recs [][]byte
	for _, s := range b.Hist {
		if s.A != "Log" {
			continue
		}
		var raw []byte
		if s.C {
			raw = c13Compressible(typ, s.N, rnd)
			if raw == nil && typ == compression.Zstd {
				typ = compression.Snappy
				return c13Res{skip: true}
			}
			if raw == nil {
				return c13Res{skip: true}
			}
		} else {
			raw = c13Incompressible(typ, s.N, rnd)
		}
		recs = append(recs, raw)
	}
	fail := func(f string, a ...any) c13Res { res.infra = fmt.Sprintf("behaviour %d: ", id) + fmt.Sprintf(f, a...); return res }
	viol := func(sig, f string, a ...any) {
		res.viol = append(res.viol, [2]string{sig, fmt.Sprintf("behaviour %d (segment=%d pages, compression=%s): ", id, b.SegPages, typ) + fmt.Sprintf(f, a...)})
	}
	w, err := wlog.NewSize(nil, nil, dir, b.SegPages*c13Page, typ)
	if err != nil {
		return fail("NewSize: %v", err)
	}
	closed := false
	defer func() {
		if !closed {
			w.Close()
		}
	}()
	ri := 0
	var batch [][]byte
	for _, s := range b.Hist {
		switch s.A {
		case "Log":
			batch = append(batch, recs[ri])
			ri++
			if s.Final {
				if err := w.Log(batch...); err != nil {
					return fail("Log: %v", err)
				}
				batch = nil
			}
		case "Cut":
			if _, err := w.NextSegmentSync(); err != nil {
				return fail("NextSegment: %v", err)
			}
		}
	}
	if len(batch) > 0 {
		return fail("behaviour ends inside a batch")
	}
	// (a) layout
	first, last, err := wlog.Segments(dir)
	if err != nil {
		return fail("Segments: %v", err)
	}
	if first != 0 || last+1 != len(b.Segs) {
		res.drift = append(res.drift, fmt.Sprintf("behaviour %d: segments %d..%d, model has %d", id, first, last, len(b.Segs)))
	}
	for s := 0; s <= last && s < len(b.Segs); s++ {
		raw, err := os.ReadFile(wlog.SegmentName(dir, s))
		if err != nil {
			return fail("read segment: %v", err)
		}
		items, perr := c13Parse(raw)
		if perr != nil {
			viol("layout:invalid", "segment %d is not a valid sequence of fragments: %v", s, perr)
			continue
		}
		want := b.Segs[s]
		// the model also lists fragments still in the page buffer; after a complete batch there are none
		same := len(items) == len(want)
		for i := 0; same && i < len(items); i++ {
			same = items[i].Ty == want[i].Ty && items[i].N == want[i].N && items[i].C == want[i].C
		}
		if !same {
			res.drift = append(res.drift, fmt.Sprintf("behaviour %d: segment %d layout %v, model %v", id, s, items, want))
		}
		if s < len(b.Cuts) && len(raw) != b.Cuts[s].Vis {
			res.drift = append(res.drift, fmt.Sprintf("behaviour %d: segment %d has %d bytes, model %d", id, s, len(raw), b.Cuts[s].Vis))
		}
	}
	// (b) Reader
	readAll := func(tag string) {
		sr, err := wlog.NewSegmentsReader(dir)
		if err != nil {
			viol("read:open", "%s: %v", tag, err)
			return
		}
		defer sr.Close()
		r := wlog.NewReader(sr)
		i := 0
		for r.Next() {
			if i >= len(recs) {
				viol("read:extra", "%s: Reader returned more than the %d records written", tag, len(recs))
				return
			}
			if !bytes.Equal(r.Record(), recs[i]) {
				viol("read:content", "%s: record %d read back with %d bytes differs from the %d bytes written", tag, i, len(r.Record()), len(recs[i]))
				return
			}
			i++
		}
		if r.Err() != nil {
			viol("read:error", "%s: Reader stopped after %d of %d records: %v", tag, i, len(recs), r.Err())
			return
		}
		if i != len(recs) {
			viol("read:missing", "%s: Reader returned %d of %d records", tag, i, len(recs))
		}
	}
	readAll("before Close")
	// (c) LiveReader on growing prefixes of every segment
	metrics := wlog.NewLiveReaderMetrics(nil)
	for s := 0; s < len(b.Segs) && s <= last; s++ {
		var mine []int
		for i, e := range b.Ends {
			if e.Seg == s+1 {
				mine = append(mine, i)
			}
		}
		cuts := append([]c13Cut{}, b.Cuts[s].At...)
		if !quick {
			for k := 0; k < 12 && b.Cuts[s].Vis > 0; k++ {
				n := rnd.Intn(b.Cuts[s].Vis + 1)
				cnt := 0
				for _, i := range mine {
					if b.Ends[i].Off <= n {
						cnt++
					}
				}
				cuts = append(cuts, c13Cut{N: n, Cnt: cnt})
			}
		}
		sort.Slice(cuts, func(i, j int) bool { return cuts[i].N < cuts[j].N })
		f, err := os.Open(wlog.SegmentName(dir, s))
		if err != nil {
			return fail("open segment: %v", err)
		}
		lim := &c13Limited{f: f}
		lr := wlog.NewLiveReader(promslog.NewNopLogger(), metrics, lim)
		got := 0
		bad := false
		for _, c := range cuts {
			lim.limit = int64(c.N)
			for lr.Next() {
				if got >= len(mine) {
					viol("live:extra", "LiveReader on segment %d returned more than its %d records at prefix %d", s, len(mine), c.N)
					bad = true
					break
				}
				if !bytes.Equal(lr.Record(), recs[mine[got]]) {
					viol("live:content", "LiveReader on segment %d prefix %d: record %d differs from what was written", s, c.N, mine[got])
					bad = true
					break
				}
				got++
			}
			if bad {
				break
			}
			if err := lr.Err(); !errors.Is(err, io.EOF) {
				viol("live:corrupt", "LiveReader on segment %d at prefix %d of a valid log reports %v instead of io.EOF", s, c.N, err)
				break
			}
			if got != c.Cnt {
				viol("live:count", "LiveReader on segment %d fed the first %d bytes returned %d records in total, the reference says %d", s, c.N, got, c.Cnt)
				break
			}
		}
		f.Close()
	}
	// (d) after Close (pads the last page)
	if err := w.Close(); err != nil {
		return fail("Close: %v", err)
	}
	closed = true
	readAll("after Close")
	return res
}

func TestVerifC13Wlog(t *testing.T) {
	behs, err := verifh.ReadNDJSON[c13Beh](verifh.In())
	if err != nil {
		verifh.Infra(err.Error())
		t.Fatal(err)
	}
	root := os.Getenv("VERIF_SCRATCH")
	if st, err := os.Stat("/dev/shm"); err == nil && st.IsDir() {
		root = "/dev/shm"
	}
	root, err = os.MkdirTemp(root, "verif-c13-")
	if err != nil {
		verifh.Infra(err.Error())
		t.Fatal(err)
	}
	defer os.RemoveAll(root)
	ndrift, nskip := 0, 0
	for i, b := range behs {
		res := c13Run(i, b, verifh.Seed(), root, verifh.Quick())
		if res.infra != "" {
			verifh.Infra(res.infra)
			t.Fatal(res.infra)
		}
		if res.skip {
			nskip++
			continue
		}
		for _, d := range res.drift {
			ndrift++
			if ndrift <= 10 {
				if len(d) > 600 {
					d = d[:600]
				}
				verifh.Drift(d)
			}
		}
		for _, v := range res.viol {
			verifh.Violation(v[0], v[1], map[string]any{"behaviour": map[string]any{"segPages": b.SegPages, "hist": b.Hist}, "seed": verifh.Seed()})
		}
	}
	verifh.Stat(map[string]any{"behaviours_replayed": len(behs) - nskip, "skipped_no_payload_found": nskip, "drift_total": ndrift})
	verifh.Done(len(behs) - nskip)
	if verifh.Violations() > 0 {
		t.Fail()
	}
}
