package chunks

// C25 conformance harness (gated replay + torn-tail sweep). A behaviour
// emitted by specs/headchunks/HeadChunks.tla interleaves the writer's calls
// (WriteChunk, CutNewFile, Truncate, Close+reopen) with the steps of the
// chunk write queue's worker goroutine, which is parked at the verifhook
// sites cwq.job.popped / cdm.write.after_cut / cwq.job.written /
// cwq.job.done. After every step every live chunk (handed to WriteChunk, file
// not truncated) is read back with Chunk(ref) and must return the bytes that
// were written (strict, the property). The behaviour also carries the
// transcription's prediction (rd) and the known-finding flag (kf), which only
// classify a failure. At a Restart step IterateAllChunks must yield the
// predicted chunk sequence with the written series ref / time range / sample
// count / encoding, and (sampled) the newest file is truncated at every offset
// and reopened: the outcome must match the spec's torn-tail table.

import (
	"bytes"
	"errors"
	"fmt"
	"math/rand"
	"os"
	"path/filepath"
	"sort"
	"sync"
	"testing"
	"time"

	"github.com/prometheus/prometheus/internal/verifh"
	"github.com/prometheus/prometheus/tsdb/chunkenc"
	"github.com/prometheus/prometheus/util/verifhook"
)

type c25Outcome struct {
	Iter []int  `json:"iter"`
	Err  string `json:"err"`
}

type c25Cut struct {
	Boundary c25Outcome `json:"boundary"`
	Inside   c25Outcome `json:"inside"`
}

type c25Torn struct {
	Last    int      `json:"last"`
	NoMagic []int    `json:"nomagic"`
	Cuts    []c25Cut `json:"cuts"`
}

type c25Step struct {
	A        string   `json:"a"`
	C        int      `json:"c"`
	Big      bool     `json:"big"`
	Cut      bool     `json:"cut"`
	Seq      int      `json:"seq"`
	Pos      int      `json:"pos"`
	N        int      `json:"n"`
	Removed  []int    `json:"removed"`
	Lost     []int    `json:"lost"`
	Iter     []int    `json:"iter"`
	Torn     c25Torn  `json:"torn"`
	Mismatch bool     `json:"mismatch"`
	Rd       []string `json:"rd"`
	KF       bool     `json:"kf"`
}

type c25Beh struct {
	Steps []c25Step `json:"steps"`
}

type c25Fail struct{ kind, sig, msg string }

// ------------------------------------------------------------ worker gate

type c25Gate struct {
	ev     chan string
	resume chan struct{}
	freeCh chan struct{} // closed when the gate is opened for good
	once   sync.Once
	parked bool
}

func c25NewGate() *c25Gate {
	return &c25Gate{ev: make(chan string, 1), resume: make(chan struct{}, 1), freeCh: make(chan struct{})}
}

var c25Gates sync.Map // run id -> *c25Gate

func c25Handler(site string, kv ...int64) {
	switch site {
	case "cwq.job.popped", "cdm.write.after_cut", "cwq.job.written", "cwq.job.done":
	default:
		return
	}
	if len(kv) == 0 {
		return
	}
	run := (kv[0] >> 16) & 0xffffffff
	g, ok := c25Gates.Load(run)
	if !ok {
		return
	}
	gate := g.(*c25Gate)
	select {
	case <-gate.freeCh:
		return
	case gate.ev <- site:
	}
	select {
	case <-gate.resume:
	case <-gate.freeCh:
	}
}

func (g *c25Gate) release() {
	if g.parked {
		g.parked = false
		g.resume <- struct{}{}
	}
}

func (g *c25Gate) wait(site string) error {
	select {
	case s := <-g.ev:
		g.parked = true
		if s != site {
			return fmt.Errorf("worker at %q, model expects %q", s, site)
		}
		return nil
	case <-time.After(60 * time.Second):
		return fmt.Errorf("worker did not reach %q", site)
	}
}

func (g *c25Gate) setFree() {
	g.once.Do(func() { close(g.freeCh) })
	g.parked = false
}

// ------------------------------------------------------------ chunks

type c25Chunk struct {
	id         int
	series     HeadSeriesRef
	mint, maxt int64
	ooo        bool
	chk        chunkenc.Chunk
	data       []byte
	enc        chunkenc.Encoding
	n          int
	ref        ChunkDiskMapperRef
	werr       error
	written    bool
}

func c25MakeChunk(run int64, id int, big bool, rnd *rand.Rand) *c25Chunk {
	c := chunkenc.NewXORChunk()
	app, _ := c.Appender()
	n := id + 1
	if big {
		n = 9000 // > 64 KiB of random floats: larger than the write buffer
	}
	t0 := int64(1000 * id)
	for i := 0; i < n; i++ {
		app.Append(0, t0+int64(i), rnd.Float64())
	}
	data := bytes.Clone(c.Bytes())
	return &c25Chunk{id: id, series: HeadSeriesRef(1<<56 | run<<16 | int64(id)), mint: t0, maxt: t0 + int64(n) - 1,
		ooo: id%2 == 0, chk: c, data: data, enc: c.Encoding(), n: n}
}

type c25Run struct {
	dir    string
	run    int64
	gate   *c25Gate
	cdm    *ChunkDiskMapper
	chunks map[int]*c25Chunk
	lost   map[int]bool
	mayGo  map[int]bool // chunks in files below some Truncate(n) issued so far
	fails  []*c25Fail
	rnd    *rand.Rand
	sweep  bool
	nsweep int
}

func (r *c25Run) fail(kind, sig, msg string) { r.fails = append(r.fails, &c25Fail{kind, sig, msg}) }

func (r *c25Run) open() error {
	cdm, err := NewChunkDiskMapper(nil, r.dir, chunkenc.NewPool(), MinWriteBufferSize, 2)
	if err != nil {
		return err
	}
	r.cdm = cdm
	return nil
}

type c25Seen struct {
	id   int
	ok   bool
	desc string
}

// iterate runs IterateAllChunks and maps every yielded chunk back to its id, checking its metadata.
func (r *c25Run) iterate(cdm *ChunkDiskMapper) ([]int, []string, error) {
	var ids []int
	var bad []string
	err := cdm.IterateAllChunks(func(sr HeadSeriesRef, ref ChunkDiskMapperRef, mint, maxt int64, ns uint16, enc chunkenc.Encoding, isOOO bool) error {
		id := int(int64(sr) & 0xffff)
		ids = append(ids, id)
		c := r.chunks[id]
		if c == nil || c.series != sr {
			bad = append(bad, fmt.Sprintf("unknown series ref %d", sr))
			return nil
		}
		if mint != c.mint || maxt != c.maxt || int(ns) != c.n || enc != c.enc || isOOO != c.ooo || ref != c.ref {
			bad = append(bad, fmt.Sprintf("chunk %d: got (ref %d, [%d,%d], n=%d, enc=%d, ooo=%v) written (ref %d, [%d,%d], n=%d, enc=%d, ooo=%v)",
				id, ref, mint, maxt, ns, enc, isOOO, c.ref, c.mint, c.maxt, c.n, c.enc, c.ooo))
		}
		return nil
	})
	return ids, bad, err
}

// readAll reads every live chunk back.
func (r *c25Run) readAll(st c25Step, where string) {
	for id, c := range r.chunks {
		if !c.written || r.lost[id] {
			continue
		}
		pred := "na"
		if id-1 < len(st.Rd) {
			pred = st.Rd[id-1]
		}
		if st.KF && pred != "ok" && c.werr == nil {
			// KF-C25-1 has struck and this chunk was misplaced: its reference points into unwritten space of a file
			// that is m-mapped larger than it is; Chunk(ref) can die with SIGBUS there, so it is not called.
			r.fail("violation", "kf1-cut-sequence-mismatch", fmt.Sprintf("%s: chunk %d (ref %d) was written after the cut-sequence mismatch and is misplaced (transcription: %s)", where, id, c.ref, pred))
			continue
		}
		got, err := r.cdm.Chunk(c.ref)
		ok := err == nil && got != nil && got.Encoding() == c.enc && bytes.Equal(got.Bytes(), c.data)
		switch {
		case ok && pred == "ok":
		case ok:
			r.fail("drift", "", fmt.Sprintf("%s: chunk %d reads back although the transcription predicts %q", where, id, pred))
		case st.KF && pred != "ok":
			r.fail("violation", "kf1-cut-sequence-mismatch", fmt.Sprintf("%s: chunk %d (ref %d, write error: %v) cannot be read back: %v", where, id, c.ref, c.werr, err))
		case r.mayGo[id]:
			// the chunk's file is older than a Truncate(n) that has been issued: the property lets it go
			r.fail("drift", "", fmt.Sprintf("%s: chunk %d (ref %d) of a file below a truncation point is gone although the model keeps that file", where, id, c.ref))
		default:
			detail := "different bytes"
			if err != nil {
				detail = err.Error()
			}
			r.fail("violation", "read-your-write", fmt.Sprintf("%s: chunk %d (ref %d) handed to WriteChunk does not read back (%s); transcription predicts %q", where, id, c.ref, detail, pred))
		}
	}
}

// liveOnly splits the ids yielded by an iteration into those of live chunks and those of chunks whose
// file the model has truncated (the code may legitimately keep more files than the model).
func (r *c25Run) liveOnly(ids []int) (live, extra []int) {
	for _, id := range ids {
		if r.lost[id] {
			extra = append(extra, id)
		} else {
			live = append(live, id)
		}
	}
	return live, extra
}

func (r *c25Run) live(ids []int) []int { l, _ := r.liveOnly(ids); return l }

func c25Eq(a, b []int) bool {
	if len(a) != len(b) {
		return false
	}
	for i := range a {
		if a[i] != b[i] {
			return false
		}
	}
	return true
}

func c25Files(dir string) []int {
	m, _ := listChunkFiles(dir)
	var res []int
	for s := range m {
		res = append(res, s)
	}
	sort.Ints(res)
	return res
}

func c25ErrClass(err error) string {
	var cerr *CorruptionErr
	switch {
	case err == nil:
		return "none"
	case errors.As(err, &cerr):
		return "corruption"
	}
	return "other:" + err.Error()
}

// tornSweep truncates a copy of the newest file at every offset and reopens it.
func (r *c25Run) tornSweep(t c25Torn, where string) {
	if t.Last == 0 {
		return
	}
	r.nsweep++
	last := segmentFile(r.dir, t.Last)
	full, err := os.ReadFile(last)
	if err != nil {
		r.fail("drift", "", where+": the newest file of the model does not exist: "+err.Error())
		return
	}
	// chunk boundaries of the newest file from the references handed out by WriteChunk
	var ends []int
	for _, cut := range t.Cuts[len(t.Cuts)-1].Boundary.Iter[len(t.NoMagic):] {
		c := r.chunks[cut]
		_, off := c.ref.Unpack()
		ends = append(ends, off+int((&chunkPos{}).bytesToWriteForChunk(uint64(len(c.data)))))
	}
	dataEnd := HeadChunkFileHeaderSize
	if len(ends) > 0 {
		dataEnd = ends[len(ends)-1]
	}
	var offsets []int
	for o := 0; o <= dataEnd+40 && o <= len(full); o++ {
		// every offset in small chunks; around the edges and a seeded sample inside big chunks
		near := o <= HeadChunkFileHeaderSize+64
		prev := HeadChunkFileHeaderSize
		for _, e := range ends {
			if o >= prev-0 && o <= prev+48 || o >= e-48 && o <= e+48 {
				near = true
			}
			prev = e
		}
		if near || r.rnd.Intn(700) == 0 {
			offsets = append(offsets, o)
		}
	}
	tmp := r.dir + "-torn"
	for _, o := range offsets {
		if o >= 4 && o < HeadChunkFileHeaderSize {
			continue // a partially written 8-byte file header is not a "tail" (assumption: header written atomically)
		}
		os.RemoveAll(tmp)
		os.MkdirAll(tmp, 0o777)
		for _, f := range c25Files(r.dir) {
			b := full
			if f != t.Last {
				b, _ = os.ReadFile(segmentFile(r.dir, f))
			} else {
				b = full[:o]
			}
			os.WriteFile(segmentFile(tmp, f), b, 0o666)
		}
		var want c25Outcome
		cls := ""
		switch {
		case o < 4:
			want, cls = c25Outcome{Iter: t.NoMagic, Err: "none"}, "nomagic"
		default:
			k := 0
			for _, e := range ends {
				if e <= o {
					k++
				}
			}
			atBoundary := o == HeadChunkFileHeaderSize && k == 0 || k > 0 && ends[k-1] == o
			if atBoundary {
				want, cls = t.Cuts[k].Boundary, fmt.Sprintf("boundary after %d chunks", k)
			} else {
				want, cls = t.Cuts[k].Inside, fmt.Sprintf("inside chunk %d", k+1)
			}
		}
		cdm, err := NewChunkDiskMapper(nil, tmp, chunkenc.NewPool(), MinWriteBufferSize, 0)
		if err != nil {
			r.fail("violation", "torn-open-error", fmt.Sprintf("%s: newest file cut at offset %d (%s): reopen fails instead of dropping the tail: %v", where, o, cls, err))
			continue
		}
		ids, bad, ierr := r.iterate(cdm)
		ids, _ = r.liveOnly(ids)
		got := c25ErrClass(ierr)
		if !c25Eq(ids, want.Iter) || got != want.Err || len(bad) > 0 {
			r.fail("violation", "torn-tail", fmt.Sprintf("%s: newest file cut at offset %d (%s): iteration yields %v err=%s %v; expected %v err=%s", where, o, cls, ids, got, bad, want.Iter, want.Err))
		} else if ierr != nil {
			// the repair path: delete the corrupted file, the earlier files must still iterate completely
			if derr := cdm.DeleteCorrupted(ierr); derr != nil {
				r.fail("violation", "torn-repair", fmt.Sprintf("%s: offset %d: DeleteCorrupted: %v", where, o, derr))
			} else if ids2, bad2, err2 := r.iterate(cdm); err2 != nil || !c25Eq(r.live(ids2), t.NoMagic) || len(bad2) > 0 {
				r.fail("violation", "torn-repair", fmt.Sprintf("%s: offset %d: after DeleteCorrupted iteration yields %v err=%v %v; expected %v", where, o, ids2, err2, bad2, t.NoMagic))
			}
		}
		cdm.Close()
	}
	os.RemoveAll(tmp)
}

func (r *c25Run) replay(b c25Beh) {
	if err := r.open(); err != nil {
		r.fail("infra", "", "open: "+err.Error())
		return
	}
	r.iterate(r.cdm) // IterateAllChunks must be called once after creation
	defer func() {
		r.gate.setFree()
		if r.cdm != nil {
			r.cdm.Close()
		}
	}()
	abort := false // the worker is not where the model has it: finish this step's checks, then give up the schedule
	for n, st := range b.Steps {
		where := fmt.Sprintf("step %d (%s %d)", n+1, st.A, st.C)
		switch st.A {
		case "Write":
			c := c25MakeChunk(r.run, st.C, st.Big, r.rnd)
			r.chunks[st.C] = c
			c.ref = r.cdm.WriteChunk(c.series, c.mint, c.maxt, c.chk, c.ooo, func(err error) { c.werr = err })
			c.written = true
			if seq, _ := c.ref.Unpack(); seq != st.Seq {
				r.fail("drift", "", fmt.Sprintf("%s: reference in file %d, model %d", where, seq, st.Seq))
			}
		case "CutFile":
			r.cdm.CutNewFile()
		case "Truncate":
			before := c25Files(r.dir)
			if err := r.cdm.Truncate(uint32(st.N)); err != nil {
				r.fail("violation", "truncate-error", fmt.Sprintf("%s: Truncate(%d): %v", where, st.N, err))
			}
			after := map[int]bool{}
			for _, f := range c25Files(r.dir) {
				after[f] = true
			}
			var removed []int
			for _, f := range before {
				if !after[f] {
					removed = append(removed, f)
					if f >= st.N {
						r.fail("violation", "truncate-newer", fmt.Sprintf("%s: Truncate(%d) removed file %d", where, st.N, f))
					}
				}
			}
			want := append([]int(nil), st.Removed...)
			sort.Ints(want)
			if !c25Eq(removed, want) {
				r.fail("drift", "", fmt.Sprintf("%s: Truncate(%d) removed files %v, model %v", where, st.N, removed, want))
			}
			for _, id := range st.Lost {
				r.lost[id] = true
			}
			gone := map[int]bool{}
			for _, f := range removed {
				gone[f] = true
			}
			for id, c := range r.chunks {
				seq, _ := c.ref.Unpack()
				if c.written && seq < st.N {
					r.mayGo[id] = true
					// a chunk whose file the code has really removed (legitimately: it is older than n) is not read any
					// more, whatever the model keeps: its reference may by now point into a new file with the same number
					if gone[seq] && !r.lost[id] {
						r.lost[id] = true
						r.fail("drift", "", fmt.Sprintf("%s: file %d of chunk %d removed, the model keeps it", where, seq, id))
					}
				}
			}
		case "WPop":
			r.gate.release()
			if err := r.gate.wait("cwq.job.popped"); err != nil {
				r.fail("drift", "", where+": "+err.Error())
				abort = true
			}
		case "WCut":
			r.gate.release()
			site := "cdm.write.after_cut"
			if st.Mismatch {
				site = "cwq.job.written" // cutAndExpectRef fails: writeChunk returns the error
			}
			if err := r.gate.wait(site); err != nil {
				r.fail("drift", "", where+": "+err.Error())
				abort = true
			}
		case "WWrite":
			r.gate.release()
			if err := r.gate.wait("cwq.job.written"); err != nil {
				r.fail("drift", "", where+": "+err.Error())
				abort = true
			}
		case "WDone":
			r.gate.release()
			if err := r.gate.wait("cwq.job.done"); err != nil {
				r.fail("drift", "", where+": "+err.Error())
				abort = true
			}
		case "Restart":
			// Close drains the queue through the worker: open the gate for the drain
			r.gate.setFree()
			if err := r.cdm.Close(); err != nil {
				r.fail("violation", "close-error", where+": Close: "+err.Error())
			}
			r.cdm = nil
			r.gate = c25NewGate()
			c25Gates.Store(r.run, r.gate)
			if r.sweep && !st.KF {
				r.tornSweep(st.Torn, where)
			}
			if err := r.open(); err != nil {
				r.fail("violation", "reopen-error", where+": reopen: "+err.Error())
				return
			}
			ids, bad, err := r.iterate(r.cdm)
			ids, extra := r.liveOnly(ids)
			// chunks of files below an issued truncation point may legitimately be gone even if the model keeps the file
			want := []int{}
			seen := map[int]bool{}
			for _, id := range ids {
				seen[id] = true
			}
			for _, id := range st.Iter {
				if seen[id] || !r.mayGo[id] {
					want = append(want, id)
				} else {
					r.fail("drift", "", fmt.Sprintf("%s: chunk %d of a file below a truncation point is not iterated although the model keeps that file", where, id))
				}
			}
			st.Iter = want
			if len(extra) > 0 {
				// files the model considers truncated are still there: the property allows keeping more
				r.fail("drift", "", fmt.Sprintf("%s: iteration also yields chunks %v of files the model has truncated", where, extra))
			}
			if err != nil || !c25Eq(ids, st.Iter) || len(bad) > 0 {
				if st.KF {
					r.fail("violation", "kf1-cut-sequence-mismatch", fmt.Sprintf("%s: after restart iteration yields %v err=%v %v; written and not truncated: %v", where, ids, err, bad, st.Iter))
				} else {
					r.fail("violation", "restart-iteration", fmt.Sprintf("%s: after restart iteration yields %v err=%v %v; written and not truncated: %v", where, ids, err, bad, st.Iter))
				}
			}
		default:
			r.fail("infra", "", "unknown action "+st.A)
			return
		}
		for _, c := range r.chunks {
			if c.werr != nil && !st.KF {
				r.fail("violation", "write-error", fmt.Sprintf("%s: asynchronous write of chunk %d failed: %v", where, c.id, c.werr))
				// the mapper is in an undefined state now (references may point into unwritten parts of an
				// oversized m-mapping: Chunk(ref) can die with SIGBUS): give up this behaviour
				return
			}
		}
		r.readAll(st, "after "+where)
		if abort {
			return
		}
	}
}

var c25Ran bool

func TestVerifC25Replay(t *testing.T) {
	// the package's TestMain runs every test twice (write queue off / on for its own tests); once is enough here
	if c25Ran {
		t.Skip("already replayed in this process")
	}
	c25Ran = true
	behs, err := verifh.ReadNDJSON[c25Beh](verifh.In())
	if err != nil {
		verifh.Infra(err.Error())
		t.Fatal(err)
	}
	verifhook.Set(c25Handler)
	defer verifhook.Set(nil)
	scratch := os.Getenv("VERIF_SCRATCH")
	if scratch == "" {
		scratch = t.TempDir()
	}
	sweepEvery := 40
	if !verifh.Quick() {
		sweepEvery = 25
	}
	nw := 8
	var mu sync.Mutex
	var wg sync.WaitGroup
	steps, sweeps, kfs, infra := 0, 0, 0, ""
	reported := map[string]bool{}
	for wi := 0; wi < nw; wi++ {
		wg.Add(1)
		go func(wi int) {
			defer wg.Done()
			for bi := wi; bi < len(behs); bi += nw {
				run := int64(bi + 1)
				r := &c25Run{dir: filepath.Join(scratch, fmt.Sprintf("c25-%d", bi)), run: run,
					gate:   c25NewGate(),
					chunks: map[int]*c25Chunk{}, lost: map[int]bool{}, mayGo: map[int]bool{},
					rnd:   rand.New(rand.NewSource(verifh.Seed()*1000003 + int64(bi))),
					sweep: (bi+int(verifh.Seed()))%sweepEvery == 0}
				c25Gates.Store(run, r.gate)
				os.RemoveAll(r.dir)
				r.replay(behs[bi])
				c25Gates.Delete(run)
				os.RemoveAll(r.dir)
				mu.Lock()
				steps += len(behs[bi].Steps)
				sweeps += r.nsweep
				for _, f := range r.fails {
					switch f.kind {
					case "infra":
						infra = fmt.Sprintf("behaviour %d: %s", bi, f.msg)
					case "drift":
						verifh.Drift(fmt.Sprintf("behaviour %d: %s", bi, f.msg))
					case "violation":
						if f.sig == "kf1-cut-sequence-mismatch" {
							kfs++
							if reported[f.sig] {
								continue
							}
						}
						reported[f.sig] = true
						verifh.Violation(f.sig, fmt.Sprintf("behaviour %d: %s", bi, f.msg), map[string]any{"behaviour": behs[bi], "seed": verifh.Seed()})
					}
				}
				stop := infra != ""
				mu.Unlock()
				if stop {
					return
				}
			}
		}(wi)
	}
	wg.Wait()
	if infra != "" {
		verifh.Infra(infra)
		t.Fatal(infra)
	}
	verifh.Stat(map[string]any{"steps_replayed": steps, "behaviours_replayed": len(behs), "torn_tail_sweeps": sweeps, "kf1_reproductions": kfs})
	verifh.Done(len(behs))
	if verifh.Violations() > 0 {
		t.Fail()
	}
}
