package agent

// C48 conformance harness (in-package: DB.truncate, DB.wal.NextSegment).  Histories emitted by
// specs/agent/AgentDb.tla are driven into a real agent.DB: Append / AppendHistogram / AppendExemplar
// results are compared with the out-of-order verdict predicted by the spec (strict), the WAL is
// decoded at the end, compared with the predicted entries (drift) and appended to $VERIF_TRACE together
// with the samples the real appenders accepted and committed; Trace_Agent.tla then evaluates
// AcceptedKept and RefClosed on the real entries.  Querier / ChunkQuerier / ExemplarQuerier must fail.

import (
	"context"
	"encoding/json"
	"errors"
	"fmt"
	"math"
	"os"
	"path/filepath"
	"reflect"
	"strconv"
	"strings"
	"sync"
	"testing"
	"time"

	"github.com/prometheus/common/promslog"

	"github.com/prometheus/prometheus/internal/verifh"
	"github.com/prometheus/prometheus/model/exemplar"
	"github.com/prometheus/prometheus/model/histogram"
	"github.com/prometheus/prometheus/model/labels"
	"github.com/prometheus/prometheus/storage"
	"github.com/prometheus/prometheus/tsdb/record"
	"github.com/prometheus/prometheus/tsdb/wlog"
)

type c48Entry struct {
	K   string `json:"k"`
	Ref uint64 `json:"ref"`
	Lab string `json:"lab"`
	T   int64  `json:"t"`
	T2  int64  `json:"t2"`
	V   int64  `json:"v"`
}

type c48Step struct {
	A       string `json:"a"`
	Lab     string `json:"lab"`
	T       int64  `json:"t"`
	K       any    `json:"k"`
	Ref     uint64 `json:"ref"`
	V       int64  `json:"v"`
	Fresh   bool   `json:"fresh"`
	Res     string `json:"res"`
	Cut     bool   `json:"cut"`
	M       int64  `json:"m"`
	Ckpt    bool   `json:"ckpt"`
	First   int    `json:"first"`
	Last    int    `json:"last"`
	NSeries int    `json:"nseries"`
	NextRef uint64 `json:"nextRef"`
}

type c48Seg struct {
	Seg int        `json:"seg"`
	Es  []c48Entry `json:"es"`
}

type c48Beh struct {
	Hist []c48Step `json:"hist"`
	Fin  struct {
		T  int64 `json:"T"`
		Cp struct {
			Idx int        `json:"idx"`
			Es  []c48Entry `json:"es"`
		} `json:"cp"`
		Segs []c48Seg   `json:"segs"`
		Acc  []c48Entry `json:"acc"`
		Late bool       `json:"late"`
		Dups []uint64   `json:"dups"`
		Open bool       `json:"open"`
	} `json:"fin"`
	Win int64 `json:"win"`
}

type c48Conc struct {
	base, scale int64
	job         string
}

func c48MakeConc(seed int64) c48Conc {
	bases := []int64{0, 1700000000000, 5, 86400000, 1 << 50}
	scales := []int64{1000, 15000, 1, 60000, 7}
	return c48Conc{base: bases[int(seed%5+5)%5], scale: scales[int(seed/5%5+5)%5], job: "j" + strconv.FormatInt(seed%97, 10)}
}

func (c c48Conc) ts(t int64) int64 { return c.base + t*c.scale }
func (c c48Conc) unts(x int64) int64 {
	d := x - c.base
	if d%c.scale != 0 {
		return -777777
	}
	return d / c.scale
}
func (c c48Conc) lset(lab string) labels.Labels {
	return labels.FromStrings("__name__", "m_"+lab, "job", c.job)
}

func c48Open(dir string, win int64) (*DB, error) {
	opts := DefaultOptions()
	opts.WALSegmentSize = 32768
	opts.StripeSize = 4
	opts.TruncateFrequency = 1000 * time.Hour // truncation is driven by the harness only
	opts.NoLockfile = true
	opts.OutOfOrderTimeWindow = win
	return Open(promslog.NewNopLogger(), nil, nil, dir, opts)
}

func c48Decode(r *wlog.Reader, conc c48Conc, out []c48Entry) ([]c48Entry, error) {
	dec := record.NewDecoder(labels.NewSymbolTable(), promslog.NewNopLogger())
	for r.Next() {
		rec := r.Record()
		switch dec.Type(rec) {
		case record.Series:
			ss, err := dec.Series(rec, nil)
			if err != nil {
				return out, err
			}
			for _, s := range ss {
				out = append(out, c48Entry{K: "S", Ref: uint64(s.Ref), Lab: strings.TrimPrefix(s.Labels.Get("__name__"), "m_")})
			}
		case record.Samples, record.SamplesV2:
			ss, err := dec.Samples(rec, nil)
			if err != nil {
				return out, err
			}
			for _, s := range ss {
				out = append(out, c48Entry{K: "D", Ref: uint64(s.Ref), T: conc.unts(s.T), V: int64(s.V)})
			}
		case record.HistogramSamples, record.HistogramSamplesV2, record.CustomBucketsHistogramSamples:
			ss, err := dec.HistogramSamples(rec, nil)
			if err != nil {
				return out, err
			}
			for _, s := range ss {
				out = append(out, c48Entry{K: "H", Ref: uint64(s.Ref), T: conc.unts(s.T), V: int64(s.H.Sum)})
			}
		case record.Exemplars:
			ss, err := dec.Exemplars(rec, nil)
			if err != nil {
				return out, err
			}
			for _, s := range ss {
				out = append(out, c48Entry{K: "X", Ref: uint64(s.Ref), T: conc.unts(s.T), V: int64(s.V)})
			}
		default:
			out = append(out, c48Entry{K: "?" + dec.Type(rec).String()})
		}
	}
	return out, r.Err()
}

func c48ReadLog(wdir string, conc c48Conc) (cpIdx int, cpEs []c48Entry, segs []c48Seg, err error) {
	cpIdx = -1
	if cpDir, idx, e := wlog.LastCheckpoint(wdir); e == nil {
		cpIdx = idx
		sr, err := wlog.NewSegmentsReader(cpDir)
		if err != nil {
			return 0, nil, nil, err
		}
		cpEs, err = c48Decode(wlog.NewReader(sr), conc, nil)
		sr.Close()
		if err != nil {
			return 0, nil, nil, err
		}
	}
	first, last, e := wlog.Segments(wdir)
	if e != nil {
		return 0, nil, nil, e
	}
	for i := first; i <= last && i >= 0; i++ {
		if i <= cpIdx {
			continue
		}
		s, err := wlog.OpenReadSegment(wlog.SegmentName(wdir, i))
		if err != nil {
			return 0, nil, nil, err
		}
		sr := wlog.NewSegmentBufReader(s)
		es, err := c48Decode(wlog.NewReader(sr), conc, nil)
		sr.Close()
		if err != nil {
			return 0, nil, nil, err
		}
		segs = append(segs, c48Seg{Seg: i, Es: es})
	}
	return cpIdx, cpEs, segs, nil
}

type c48Trace struct {
	ID   int        `json:"id"`
	T    int64      `json:"T"`
	Es   []c48Entry `json:"es"`
	Acc  []c48Entry `json:"acc"`
	Late bool       `json:"late"`
	Dups []uint64   `json:"dups"`
}

type c48Res struct {
	infra string
	drift []string
	viol  [][2]string
	trace *c48Trace
}

func c48Same(a, b []c48Entry) bool { return len(a) == len(b) && (len(a) == 0 || reflect.DeepEqual(a, b)) }

func c48Run(id int, b c48Beh, conc c48Conc, root string) (res c48Res) {
	defer func() {
		if r := recover(); r != nil {
			res.viol = append(res.viol, [2]string{"panic", fmt.Sprintf("behaviour %d: the agent DB panics: %v", id, r)})
		}
	}()
	dir := filepath.Join(root, fmt.Sprintf("a%d", id))
	defer os.RemoveAll(dir)
	fail := func(f string, a ...any) c48Res { res.infra = fmt.Sprintf("behaviour %d: ", id) + fmt.Sprintf(f, a...); return res }
	drift := func(f string, a ...any) { res.drift = append(res.drift, fmt.Sprintf("behaviour %d: ", id)+fmt.Sprintf(f, a...)) }
	win := b.Win * conc.scale
	db, err := c48Open(dir, win)
	if err != nil {
		return fail("open: %v", err)
	}
	defer func() { db.Close() }()
	ctx := context.Background()
	wdir := filepath.Join(dir, "wal")
	var app storage.Appender
	var pending, accepted []c48Entry
	T := int64(0)
	for i, s := range b.Hist {
		switch s.A {
		case "Append":
			if app == nil {
				app = db.Appender(ctx)
			}
			kind, _ := s.K.(string)
			var ref storage.SeriesRef
			var err error
			if kind == "H" {
				ref, err = app.AppendHistogram(0, conc.lset(s.Lab), conc.ts(s.T), &histogram.Histogram{Count: 1, Sum: float64(s.V),
					PositiveSpans: []histogram.Span{{Offset: 0, Length: 1}}, PositiveBuckets: []int64{1}}, nil)
			} else {
				ref, err = app.Append(0, conc.lset(s.Lab), conc.ts(s.T), float64(s.V))
			}
			switch {
			case err == nil && s.Res == "ooo":
				res.viol = append(res.viol, [2]string{"ooo:accepted", fmt.Sprintf("behaviour %d step %d: sample (%s,t=%d) accepted although the series' last written sample minus the window (%d) is not older", id, i, s.Lab, s.T, b.Win)})
			case err != nil && !errors.Is(err, storage.ErrOutOfOrderSample):
				return fail("step %d Append: %v", i, err)
			case err != nil && s.Res == "ok":
				drift("step %d: sample (%s,t=%d) rejected as out of order, model accepts", i, s.Lab, s.T)
			}
			if err == nil {
				if uint64(ref) != s.Ref {
					drift("step %d: series %s got ref %d, model %d", i, s.Lab, ref, s.Ref)
				}
				pending = append(pending, c48Entry{K: kind, Ref: uint64(ref), T: s.T, V: s.V})
			}
		case "AppendEx":
			if app == nil {
				app = db.Appender(ctx)
			}
			_, err := app.AppendExemplar(storage.SeriesRef(s.Ref), conc.lset(s.Lab), exemplar.Exemplar{
				Labels: labels.FromStrings("trace_id", strconv.FormatInt(s.V, 10)), Value: float64(s.V), Ts: conc.ts(s.T), HasTs: true})
			if err != nil {
				return fail("step %d AppendExemplar: %v", i, err)
			}
		case "Commit":
			if s.Cut {
				if _, err := db.wal.NextSegment(); err != nil {
					return fail("step %d NextSegment: %v", i, err)
				}
			}
			if err := app.Commit(); err != nil {
				return fail("step %d Commit: %v", i, err)
			}
			accepted = append(accepted, pending...)
			app, pending = nil, nil
		case "Rollback":
			if err := app.Rollback(); err != nil {
				return fail("step %d Rollback: %v", i, err)
			}
			app, pending = nil, nil
		case "Truncate":
			k := 0
			if f, ok := s.K.(float64); ok {
				k = int(f)
			}
			for j := 0; j < k; j++ {
				if _, err := db.wal.NextSegment(); err != nil {
					return fail("step %d NextSegment: %v", i, err)
				}
			}
			if err := db.truncate(conc.ts(s.M)); err != nil {
				return fail("step %d truncate: %v", i, err)
			}
			T = s.M
			first, last, err := wlog.Segments(wdir)
			if err != nil {
				return fail("step %d Segments: %v", i, err)
			}
			if first != s.First || last != s.Last {
				drift("step %d truncate(%d): segments [%d,%d], model [%d,%d]", i, s.M, first, last, s.First, s.Last)
			}
		case "Restart":
			if err := db.Close(); err != nil {
				return fail("step %d Close: %v", i, err)
			}
			if db, err = c48Open(dir, win); err != nil {
				return fail("step %d reopen: %v", i, err)
			}
			if got := db.nextRef.Load(); got != s.NextRef {
				drift("step %d Restart: nextRef %d, model %d", i, got, s.NextRef)
			}
		default:
			return fail("unknown action %q", s.A)
		}
	}
	// the agent never serves queries
	if _, err := db.Querier(math.MinInt64, math.MaxInt64); err == nil {
		res.viol = append(res.viol, [2]string{"querier", "agent DB returned a Querier"})
	}
	if _, err := db.ChunkQuerier(math.MinInt64, math.MaxInt64); err == nil {
		res.viol = append(res.viol, [2]string{"querier", "agent DB returned a ChunkQuerier"})
	}
	if _, err := db.ExemplarQuerier(ctx); err == nil {
		res.viol = append(res.viol, [2]string{"querier", "agent DB returned an ExemplarQuerier"})
	}
	cpIdx, cpEs, segs, err := c48ReadLog(wdir, conc)
	if err != nil {
		return fail("decode WAL: %v", err)
	}
	if app != nil {
		app.Rollback()
	}
	tr := &c48Trace{ID: id, T: T, Es: append([]c48Entry{}, cpEs...), Acc: accepted, Late: b.Fin.Late, Dups: b.Fin.Dups}
	if tr.Acc == nil {
		tr.Acc = []c48Entry{}
	}
	if tr.Dups == nil {
		tr.Dups = []uint64{}
	}
	var gotSeg, wantSeg []c48Entry
	for _, sg := range segs {
		tr.Es = append(tr.Es, sg.Es...)
		gotSeg = append(gotSeg, sg.Es...)
	}
	for _, sg := range b.Fin.Segs {
		wantSeg = append(wantSeg, sg.Es...)
	}
	res.trace = tr
	if cpIdx != b.Fin.Cp.Idx || !c48Same(cpEs, b.Fin.Cp.Es) {
		drift("checkpoint %d %v, model %d %v", cpIdx, cpEs, b.Fin.Cp.Idx, b.Fin.Cp.Es)
	}
	if !c48Same(gotSeg, wantSeg) {
		drift("segment entries %v, model %v", gotSeg, wantSeg)
	}
	return res
}

func TestVerifC48Agent(t *testing.T) {
	behs, err := verifh.ReadNDJSON[c48Beh](verifh.In())
	if err != nil {
		verifh.Infra(err.Error())
		t.Fatal(err)
	}
	root := os.Getenv("VERIF_SCRATCH")
	if st, err := os.Stat("/dev/shm"); err == nil && st.IsDir() {
		root = "/dev/shm"
	}
	if root, err = os.MkdirTemp(root, "verif-c48-"); err != nil {
		verifh.Infra(err.Error())
		t.Fatal(err)
	}
	defer os.RemoveAll(root)
	var tf *os.File
	if p := os.Getenv("VERIF_TRACE"); p != "" {
		if tf, err = os.Create(p); err != nil {
			verifh.Infra(err.Error())
			t.Fatal(err)
		}
		defer tf.Close()
	}
	var (
		mu     sync.Mutex
		wg     sync.WaitGroup
		next   int
		drifts int
		infra  string
		perSig = map[string]int{}
	)
	for w := 0; w < 4; w++ {
		wg.Add(1)
		go func() {
			defer wg.Done()
			for {
				mu.Lock()
				i := next
				next++
				stop := infra != ""
				mu.Unlock()
				if i >= len(behs) || stop {
					return
				}
				res := c48Run(i, behs[i], c48MakeConc(verifh.Seed()*31+int64(i)), root)
				mu.Lock()
				if res.infra != "" && infra == "" {
					infra = res.infra
				}
				for _, d := range res.drift {
					drifts++
					if drifts <= 10 {
						if len(d) > 700 {
							d = d[:700]
						}
						verifh.Drift(d)
					}
				}
				for _, v := range res.viol {
					// verifh keeps the first 50 violation records only: report a few per signature so
					// that frequent (known) signatures cannot crowd out a new one
					if perSig[v[0]]++; perSig[v[0]] > 3 {
						continue
					}
					verifh.Violation(v[0], v[1], map[string]any{"behaviour": behs[i], "seed": verifh.Seed()})
				}
				if res.trace != nil && tf != nil {
					line, _ := json.Marshal(res.trace)
					tf.Write(append(line, '\n'))
				}
				mu.Unlock()
			}
		}()
	}
	wg.Wait()
	if infra != "" {
		verifh.Infra(infra)
		t.Fatal(infra)
	}
	verifh.Stat(map[string]any{"behaviours_replayed": len(behs), "drift_total": drifts})
	verifh.Done(len(behs))
	if verifh.Violations() > 0 {
		t.Fail()
	}
}
