package tsdb_test

// C12: counter-reset hints returned by chunk iterators and queriers are sound.
// Shares the replay machinery of c11_histchunk_test.go (same behaviours of
// specs/histchunk/HistChunk.tla); here the verdict is the soundness of every
// NotCounterReset mark against the `snd` flags predicted by the spec, and a
// faithfulness mismatch (C11's business) is only reported as drift.

import "testing"

func TestVerifC12Replay(t *testing.T) { hcReplayAll(t, "C12") }
