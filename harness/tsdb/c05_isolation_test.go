package tsdb

// C05 conformance harness (gated replay): every behaviour emitted by
// specs/isolation/Isolation.tla is an interleaving of appender, reader and
// m-map steps chosen by TLC. Each appender runs on its own goroutine; the
// verifhook site "head.commit.sample" (after the series lock is released in
// commitFloats) parks it, so that exactly the critical sections named by the
// behaviour have executed when the queriers are opened and drained. What each
// open querier returns is compared with the views predicted by the spec:
//   ref  = what the property demands (samples of appenders closed before the
//          querier was opened), strict;
//   impl = the spec's transcription of memSeries.iterator, used to recognise
//          the known finding KF-C05-1 and as drift information.

import (
	"context"
	"fmt"
	"math"
	"os"
	"path/filepath"
	"runtime"
	"strconv"
	"strings"
	"sync"
	"testing"
	"time"

	"github.com/prometheus/prometheus/internal/verifh"
	"github.com/prometheus/prometheus/model/labels"
	"github.com/prometheus/prometheus/storage"
	"github.com/prometheus/prometheus/tsdb/chunkenc"
	"github.com/prometheus/prometheus/util/verifhook"
)

type c05Smp struct {
	S string `json:"s"`
	T int64  `json:"t"`
}

type c05View struct {
	St   string             `json:"st"`
	Impl map[string][][]any `json:"impl"`
	Ref  map[string][][]any `json:"ref"`
	H2   map[string]bool    `json:"h2"`
	// per series: [t, samples] where the transcription predicts that Seek(t)+Next differs from the tail of impl
	SeekDev map[string][][]any `json:"seekdev"`
}

type c05Shape struct {
	Ring   []int64 `json:"ring"`
	Cap    int     `json:"cap"`   // len(txRing.txIDs)
	First  int     `json:"first"` // txRing.txIDFirst
	Chunks []int   `json:"chunks"`
	MM     int     `json:"mm"`
}

type c05Step struct {
	A      string              `json:"a"`
	App    string              `json:"app"`
	ID     int64               `json:"id"`
	Tx     []c05Smp            `json:"tx"`
	Acc    []bool              `json:"acc"`
	N      int                 `json:"n"`
	S      string              `json:"s"`
	Stored bool                `json:"stored"`
	R      int                 `json:"r"`
	Views  []c05View           `json:"views"`
	Shape  map[string]c05Shape `json:"shape"`
}

type c05Beh struct {
	Steps []c05Step           `json:"steps"`
	Views []c05View           `json:"views"`
	Shape map[string]c05Shape `json:"shape"`
}

// ---------------------------------------------------------------- gates

type c05Ev struct {
	kind string // "begun" | "parked" | "returned"
	acc  []bool
	err  error
}

type c05Gate struct {
	ev     chan c05Ev
	resume chan struct{}
	free   bool // pass through without parking (clean-up)
	mu     sync.Mutex
}

var c05Gates sync.Map // goroutine id -> *c05Gate

func c05Goid() uint64 {
	var buf [64]byte
	n := runtime.Stack(buf[:], false)
	f := strings.Fields(string(buf[:n]))
	if len(f) < 2 {
		return 0
	}
	id, _ := strconv.ParseUint(f[1], 10, 64)
	return id
}

func c05Handler(site string, _ ...int64) {
	if site != "head.commit.sample" {
		return
	}
	g, ok := c05Gates.Load(c05Goid())
	if !ok {
		return
	}
	gate := g.(*c05Gate)
	gate.mu.Lock()
	free := gate.free
	gate.mu.Unlock()
	if free {
		return
	}
	gate.ev <- c05Ev{kind: "parked"}
	<-gate.resume
}

type c05Cmd struct {
	op   string
	lset []labels.Labels
	ts   []int64
	vs   []float64
}

type c05App struct {
	cmd   chan c05Cmd
	gate  *c05Gate
	state string // idle | open | commit | done
}

func c05StartApp(db *DB) *c05App {
	a := &c05App{cmd: make(chan c05Cmd), gate: &c05Gate{ev: make(chan c05Ev, 1), resume: make(chan struct{})}, state: "idle"}
	go func() {
		id := c05Goid()
		c05Gates.Store(id, a.gate)
		defer c05Gates.Delete(id)
		var app storage.Appender
		for c := range a.cmd {
			switch c.op {
			case "begin":
				app = db.Appender(context.Background())
				acc := make([]bool, len(c.ts))
				for i := range c.ts {
					_, err := app.Append(0, c.lset[i], c.ts[i], c.vs[i])
					acc[i] = err == nil
				}
				a.gate.ev <- c05Ev{kind: "begun", acc: acc}
			case "commit":
				err := app.Commit()
				a.gate.ev <- c05Ev{kind: "returned", err: err}
			case "rollback":
				err := app.Rollback()
				a.gate.ev <- c05Ev{kind: "returned", err: err}
			}
		}
	}()
	return a
}

func (a *c05App) wait() (c05Ev, error) {
	select {
	case e := <-a.gate.ev:
		return e, nil
	case <-time.After(60 * time.Second):
		return c05Ev{}, fmt.Errorf("appender goroutine did not reach a gate within 60s")
	}
}

// finish drives the appender to completion without parking.
func (a *c05App) finish() {
	a.gate.mu.Lock()
	a.gate.free = true
	a.gate.mu.Unlock()
	switch a.state {
	case "open":
		a.cmd <- c05Cmd{op: "rollback"}
		a.wait()
	case "commit":
		a.gate.resume <- struct{}{}
		a.wait()
	}
	close(a.cmd)
}

// ---------------------------------------------------------------- worker

type c05Worker struct {
	db   *DB
	id   int
	base int64
	step int64
	nbeh int
}

type c05Fail struct {
	kind string // violation | drift | infra
	sig  string
	msg  string
}

func c05Open(dir string, id int) (*c05Worker, error) {
	opts := DefaultOptions()
	opts.SamplesPerChunk = 1 // a head chunk is cut when it holds 2*SamplesPerChunk = 2 samples (ChunkCap)
	opts.BlockReloadInterval = 24 * time.Hour
	opts.RetentionDuration = 0
	db, err := Open(dir, nil, nil, opts, nil)
	if err != nil {
		return nil, err
	}
	db.DisableCompactions()
	w := &c05Worker{db: db, id: id}
	cr := db.head.chunkRange.Load()
	// time concretisation: all model times fall into one chunk range (no time-based cut), base varies by seed
	bases := []int64{3*cr + 1000, 1000, -50000, 7*cr + cr/2}
	w.base = bases[int(verifh.Seed()+int64(id))%len(bases)]
	w.step = []int64{1, 15, 1000}[int(verifh.Seed()+int64(id))%3]
	// initialise the head (the first appender of an empty head is an initAppender without append id)
	app := db.Appender(context.Background())
	if _, err := app.Append(0, labels.FromStrings("__name__", "c05_seed"), w.base, 0); err != nil {
		return nil, err
	}
	if err := app.Commit(); err != nil {
		return nil, err
	}
	return w, nil
}

func (w *c05Worker) lset(s string) labels.Labels {
	return labels.FromStrings("__name__", "c05", "s", s, "b", strconv.Itoa(w.nbeh), "w", strconv.Itoa(w.id))
}

func c05Val(appIdx, n int) float64 { return float64(appIdx*100+n) + 0.25 }

func c05AppIdx(a string) int {
	i, _ := strconv.Atoi(strings.TrimPrefix(a, "a"))
	return i
}

type c05Obs struct {
	a string
	n int
	t int64
}

func (o c05Obs) String() string { return fmt.Sprintf("%s#%d@%d", o.a, o.n, o.t) }

func c05Want(raw [][]any) []c05Obs {
	res := make([]c05Obs, 0, len(raw))
	for _, x := range raw {
		res = append(res, c05Obs{a: x[0].(string), n: int(x[1].(float64)), t: int64(x[2].(float64))})
	}
	return res
}

func c05Eq(a, b []c05Obs) bool {
	if len(a) != len(b) {
		return false
	}
	for i := range a {
		if a[i] != b[i] {
			return false
		}
	}
	return true
}

// read drains series s through querier q and maps the samples back to model (appender, index, time).
// With seek >= 0 the iterator is first positioned with Seek(model time seek) and then drained with Next.
func (w *c05Worker) read(q storage.Querier, s string, seek int64) ([]c05Obs, error) {
	ms := []*labels.Matcher{
		labels.MustNewMatcher(labels.MatchEqual, "__name__", "c05"),
		labels.MustNewMatcher(labels.MatchEqual, "s", s),
		labels.MustNewMatcher(labels.MatchEqual, "b", strconv.Itoa(w.nbeh)),
		labels.MustNewMatcher(labels.MatchEqual, "w", strconv.Itoa(w.id)),
	}
	ss := q.Select(context.Background(), true, nil, ms...)
	var res []c05Obs
	nser := 0
	for ss.Next() {
		nser++
		it := ss.At().Iterator(nil)
		first := seek >= 0
		for {
			if first {
				first = false
				if it.Seek(w.base+seek*w.step) == chunkenc.ValNone {
					break
				}
			} else if it.Next() == chunkenc.ValNone {
				break
			}
			t, v := it.At()
			iv := int(v)
			if (t-w.base)%w.step != 0 {
				return nil, fmt.Errorf("unexpected timestamp %d", t)
			}
			res = append(res, c05Obs{a: "a" + strconv.Itoa(iv/100), n: iv % 100, t: (t - w.base) / w.step})
		}
		if err := it.Err(); err != nil {
			return nil, err
		}
	}
	if err := ss.Err(); err != nil {
		return nil, err
	}
	if nser > 1 {
		return nil, fmt.Errorf("select returned %d series for one label set", nser)
	}
	return res, nil
}

func c05From(q []c05Obs, t int64) []c05Obs {
	var res []c05Obs
	for _, x := range q {
		if x.t >= t {
			res = append(res, x)
		}
	}
	return res
}

func c05Dirty(got, ref []c05Obs) bool {
	refSet := map[c05Obs]bool{}
	for _, x := range ref {
		refSet[x] = true
	}
	for _, x := range got {
		if !refSet[x] {
			return true
		}
	}
	return false
}

// checkViews compares what every open querier returns with the spec's prediction. Strict reference is
// ref (the property); deviations that coincide with the transcription's prediction and carry the
// spec's known-finding flag get the known-finding signatures.
func (w *c05Worker) checkViews(views []c05View, qs map[int]storage.Querier, maxT int64, where string) (fails []*c05Fail) {
	for ri, v := range views {
		r := ri + 1
		if v.St != "open" {
			continue
		}
		q := qs[r]
		if q == nil {
			return []*c05Fail{{"infra", "", where + ": model reader open but no querier"}}
		}
		for s := range v.Ref {
			got, err := w.read(q, s, -1)
			if err != nil {
				return []*c05Fail{{"infra", "", where + ": read: " + err.Error()}}
			}
			ref, impl := c05Want(v.Ref[s]), c05Want(v.Impl[s])
			switch {
			case c05Eq(got, ref):
				if !c05Eq(impl, ref) {
					fails = append(fails, &c05Fail{"drift", "", fmt.Sprintf("%s: reader %d series %s returns the property's reference %v although the transcription predicts %v", where, r, s, ref, impl)})
				}
			case c05Eq(got, impl) && v.H2[s]:
				fails = append(fails, &c05Fail{"violation", "h2-hidden-behind-open", fmt.Sprintf("%s: reader %d series %s returns %v but samples of appenders that had finished committing before the querier was created are %v (hidden behind a sample of a still-open appender)", where, r, s, got, ref)})
			default:
				sig := "missing-committed"
				if c05Dirty(got, ref) {
					sig = "dirty-read"
				}
				return append(fails, &c05Fail{"violation", sig, fmt.Sprintf("%s: reader %d series %s returns %v; property demands %v (transcription predicts %v)", where, r, s, got, ref, impl)})
			}
			// the same querier read through Seek(t)+Next must return the samples at or after t of the reference
			dev := map[int64][]c05Obs{}
			for _, d := range v.SeekDev[s] {
				raw := d[1].([]any)
				var smps [][]any
				for _, x := range raw {
					smps = append(smps, x.([]any))
				}
				dev[int64(d[0].(float64))] = c05Want(smps)
			}
			for st := int64(1); st <= maxT+1; st++ {
				gs, err := w.read(q, s, st)
				if err != nil {
					return []*c05Fail{{"infra", "", where + ": seek read: " + err.Error()}}
				}
				refT, implT := c05From(ref, st), c05From(impl, st)
				d, isDev := dev[st]
				if isDev {
					implT = d
				}
				switch {
				case c05Eq(gs, refT):
					if !c05Eq(implT, refT) && !v.H2[s] {
						fails = append(fails, &c05Fail{"drift", "", fmt.Sprintf("%s: reader %d series %s Seek(%d) returns the reference %v although the transcription predicts %v", where, r, s, st, refT, implT)})
					}
				case isDev && c05Eq(gs, implT):
					fails = append(fails, &c05Fail{"violation", "seek-bypasses-isolation", fmt.Sprintf("%s: reader %d series %s: Seek(%d)+Next returns %v; property demands %v (Next alone returns %v): stopIterator.Seek walks past stopAfter", where, r, s, st, gs, refT, got)})
				case v.H2[s] && c05Eq(gs, c05From(impl, st)):
					// same deficiency as the Next read above (already reported as h2-hidden-behind-open)
				default:
					sig := "seek-missing-committed"
					if c05Dirty(gs, ref) {
						sig = "seek-dirty-read"
					}
					return append(fails, &c05Fail{"violation", sig, fmt.Sprintf("%s: reader %d series %s: Seek(%d)+Next returns %v; property demands %v (transcription predicts %v)", where, r, s, st, gs, refT, implT)})
				}
			}
		}
	}
	return fails
}

// checkShape compares implementation-shaped state (ring contents, chunk partition) - drift only.
func (w *c05Worker) checkShape(shape map[string]c05Shape, idOff uint64, where string) *c05Fail {
	for s, sh := range shape {
		ls := w.lset(s)
		ms := w.db.head.series.getByHash(ls.Hash(), ls)
		var ring []int64
		var chunks []int
		mm, rcap, rfirst := 0, 0, 0
		if ms != nil {
			ms.Lock()
			if ms.txs != nil {
				rcap, rfirst = len(ms.txs.txIDs), int(ms.txs.txIDFirst)
				it := ms.txs.iterator()
				for i := uint32(0); i < ms.txs.txIDCount; i++ {
					ring = append(ring, int64(it.At()-idOff))
					it.Next()
				}
			}
			for _, c := range ms.mmappedChunks {
				chunks = append(chunks, int(c.numSamples))
			}
			mm = len(ms.mmappedChunks)
			if ms.headChunks != nil {
				hc := collectHeadChunks(ms.headChunks, nil)
				for _, c := range hc {
					chunks = append(chunks, c.chunk.NumSamples())
				}
			}
			ms.Unlock()
		}
		if fmt.Sprint(ring) != fmt.Sprint(sh.Ring) && !(len(ring) == 0 && len(sh.Ring) == 0) {
			return &c05Fail{"drift", "", fmt.Sprintf("%s: series %s ring %v, model %v", where, s, ring, sh.Ring)}
		}
		if fmt.Sprint(chunks) != fmt.Sprint(sh.Chunks) && !(len(chunks) == 0 && len(sh.Chunks) == 0) {
			return &c05Fail{"drift", "", fmt.Sprintf("%s: series %s chunk sizes %v, model %v", where, s, chunks, sh.Chunks)}
		}
		if rcap != sh.Cap || (len(ring) > 0 && rfirst != sh.First) {
			return &c05Fail{"drift", "", fmt.Sprintf("%s: series %s physical ring cap=%d first=%d, model cap=%d first=%d", where, s, rcap, rfirst, sh.Cap, sh.First)}
		}
		if mm != sh.MM {
			return &c05Fail{"drift", "", fmt.Sprintf("%s: series %s m-mapped chunks %d, model %d", where, s, mm, sh.MM)}
		}
	}
	return nil
}

// replay runs one behaviour; it returns the failures found (at most one violation, any number of drifts).
func (w *c05Worker) replay(b c05Beh) (fails []*c05Fail) {
	w.nbeh++
	apps := map[string]*c05App{}
	qs := map[int]storage.Querier{}
	idOff := w.db.head.iso.lastAppendID()
	defer func() {
		for _, a := range apps {
			a.finish()
		}
		for _, q := range qs {
			q.Close()
		}
	}()
	known := map[string]bool{"h2-hidden-behind-open": true, "seek-bypasses-isolation": true}
	// fail records f and reports whether the behaviour must be abandoned
	fail := func(f *c05Fail) bool {
		if f == nil {
			return false
		}
		fails = append(fails, f)
		return f.kind == "infra" || (f.kind == "violation" && !known[f.sig])
	}
	failAll := func(fs []*c05Fail) bool {
		stop := false
		for _, f := range fs {
			if fail(f) {
				stop = true
			}
		}
		return stop
	}
	maxT := int64(0) // largest model time used by the behaviour so far
	for i, st := range b.Steps {
		for _, x := range st.Tx {
			maxT = max(maxT, x.T)
		}
		where := fmt.Sprintf("step %d (%s %s%d)", i+1, st.A, st.App, st.R)
		switch st.A {
		case "Begin":
			a := c05StartApp(w.db)
			apps[st.App] = a
			c := c05Cmd{op: "begin"}
			for n, x := range st.Tx {
				c.lset = append(c.lset, w.lset(x.S))
				c.ts = append(c.ts, w.base+x.T*w.step)
				c.vs = append(c.vs, c05Val(c05AppIdx(st.App), n+1))
			}
			a.cmd <- c
			ev, err := a.wait()
			if err != nil {
				fail(&c05Fail{"infra", "", where + ": " + err.Error()})
				return fails
			}
			a.state = "open"
			if fmt.Sprint(ev.acc) != fmt.Sprint(st.Acc) {
				// which samples Append admits is C02's business; without agreement the schedule cannot be followed
				fail(&c05Fail{"drift", "", fmt.Sprintf("%s: Append accepted %v, model %v", where, ev.acc, st.Acc)})
				return fails
			}
		case "CommitSample", "Close":
			a := apps[st.App]
			if a == nil {
				fail(&c05Fail{"infra", "", where + ": unknown appender"})
				return fails
			}
			if a.state == "open" {
				a.cmd <- c05Cmd{op: "commit"}
			} else {
				a.gate.resume <- struct{}{}
			}
			ev, err := a.wait()
			if err != nil {
				fail(&c05Fail{"infra", "", where + ": " + err.Error()})
				return fails
			}
			want := "parked"
			a.state = "commit"
			if st.A == "Close" {
				want = "returned"
			}
			if ev.kind == "returned" {
				a.state = "done"
			}
			if ev.kind != want {
				fail(&c05Fail{"drift", "", fmt.Sprintf("%s: appender %s, model expects %s (commit loop shape differs)", where, ev.kind, want)})
				return fails
			}
			if ev.err != nil {
				fail(&c05Fail{"infra", "", where + ": Commit: " + ev.err.Error()})
				return fails
			}
		case "Rollback":
			a := apps[st.App]
			a.cmd <- c05Cmd{op: "rollback"}
			ev, err := a.wait()
			if err != nil || ev.kind != "returned" || ev.err != nil {
				fail(&c05Fail{"infra", "", fmt.Sprintf("%s: rollback: %v %v %v", where, err, ev.kind, ev.err)})
				return fails
			}
			a.state = "done"
		case "Mmap":
			w.db.head.mmapHeadChunks()
		case "OpenRead":
			q, err := w.db.Querier(math.MinInt64, math.MaxInt64)
			if err != nil {
				fail(&c05Fail{"infra", "", where + ": " + err.Error()})
				return fails
			}
			qs[st.R] = q
		case "CloseRead":
			if q := qs[st.R]; q != nil {
				q.Close()
				delete(qs, st.R)
			}
		default:
			fail(&c05Fail{"infra", "", "unknown action " + st.A})
			return fails
		}
		if st.Views != nil {
			if failAll(w.checkViews(st.Views, qs, maxT, "after "+where)) {
				return fails
			}
			if fail(w.checkShape(st.Shape, idOff, "after "+where)) {
				return fails
			}
		}
	}
	if failAll(w.checkViews(b.Views, qs, maxT, "at the end")) {
		return fails
	}
	fail(w.checkShape(b.Shape, idOff, "at the end"))
	return fails
}

func TestVerifC05Replay(t *testing.T) {
	behs, err := verifh.ReadNDJSON[c05Beh](verifh.In())
	if err != nil {
		verifh.Infra(err.Error())
		t.Fatal(err)
	}
	verifhook.Set(c05Handler)
	defer verifhook.Set(nil)
	scratch := os.Getenv("VERIF_SCRATCH")
	if scratch == "" {
		scratch = t.TempDir()
	}
	nw := 8
	if len(behs) < nw {
		nw = 1
	}
	var mu sync.Mutex
	var wg sync.WaitGroup
	steps, h2seen, seekseen, infra := 0, 0, 0, ""
	reported := map[string]bool{}
	for wi := 0; wi < nw; wi++ {
		wg.Add(1)
		go func(wi int) {
			defer wg.Done()
			dir := filepath.Join(scratch, fmt.Sprintf("c05-db-%d", wi))
			os.RemoveAll(dir)
			w, err := c05Open(dir, wi)
			if err != nil {
				mu.Lock()
				infra = "open db: " + err.Error()
				mu.Unlock()
				return
			}
			defer func() {
				w.db.Close()
				os.RemoveAll(dir)
			}()
			for bi := wi; bi < len(behs); bi += nw {
				fails := w.replay(behs[bi])
				mu.Lock()
				steps += len(behs[bi].Steps)
				for _, f := range fails {
					switch f.kind {
					case "infra":
						infra = fmt.Sprintf("behaviour %d: %s", bi, f.msg)
					case "drift":
						verifh.Drift(fmt.Sprintf("behaviour %d: %s", bi, f.msg))
					case "violation":
						if f.sig == "h2-hidden-behind-open" {
							h2seen++
						}
						if f.sig == "seek-bypasses-isolation" {
							seekseen++
						}
						// verifh keeps at most 50 violation records: report each known-finding signature once
						// (reproductions are counted in the stats) so that a new kind of violation is never crowded out
						if (f.sig == "h2-hidden-behind-open" || f.sig == "seek-bypasses-isolation") && reported[f.sig] {
							continue
						}
						reported[f.sig] = true
						verifh.Violation(f.sig, fmt.Sprintf("behaviour %d: %s", bi, f.msg), map[string]any{"behaviour": behs[bi], "seed": verifh.Seed(), "worker": wi})
					}
				}
				stop := infra != ""
				mu.Unlock()
				if stop {
					return
				}
			}
		}(wi)
	}
	wg.Wait()
	if infra != "" {
		verifh.Infra(infra)
		t.Fatal(infra)
	}
	verifh.Stat(map[string]any{"steps_replayed": steps, "behaviours_replayed": len(behs), "h2_reproductions": h2seen, "seek_bypass_reproductions": seekseen})
	verifh.Done(len(behs))
	if verifh.Violations() > 0 {
		t.Fail()
	}
}
