package tsdb

// C06 conformance harness (gated replay). A behaviour emitted by
// specs/truncation/Truncation.tla is an interleaving of the steps of one
// maintenance thread (head compaction + memory truncation, OOO compaction,
// block compaction + parent deletion) with the steps of query threads
// (DB.Querier internals, Select+drain, Close). Every step is the code segment
// between two verifhook sites; the sites act as scheduler gates, so the real
// goroutines are forced through exactly the TLC-chosen interleaving. After the
// scheduled prefix all gates are opened and everything runs to completion.
//
// Strict observables (what the property fixes; `exp` is carried in the
// behaviour): every query returns each committed sample of its range exactly
// once and without error; Compact returns (parents deleted) only when no open
// querier snapshotted a parent; maintenance finishes once the queriers close.
// A thread reaching a site before the model allows it (e.g. truncation not
// waiting for an overlapping reader) is reported as drift; the maintenance
// call is then completed first and the still-open queriers are drained after
// it, so that the consequence shows up in a strict observable.

import (
	"context"
	"fmt"
	"os"
	"path/filepath"
	"runtime"
	"sort"
	"strconv"
	"strings"
	"sync"
	"sync/atomic"
	"testing"
	"time"

	"github.com/prometheus/prometheus/internal/verifh"
	"github.com/prometheus/prometheus/model/labels"
	"github.com/prometheus/prometheus/storage"
	"github.com/prometheus/prometheus/tsdb/chunkenc"
	"github.com/prometheus/prometheus/util/verifhook"
)

type c06Step struct {
	T     string   `json:"t"` // "c" | "q"
	A     string   `json:"a"`
	I     int      `json:"i"`
	Range string   `json:"range"`
	Flag  bool     `json:"flag"`
	Need  bool     `json:"need"` // q_openhead: the head querier is opened at all
	Exp   []string `json:"exp"`
	Snap  []string `json:"snap"`
	W     bool     `json:"w"` // after this step the maintenance thread is blocked waiting for readers (model)
}

type c06Beh struct {
	Steps []c06Step `json:"steps"`
}

type c06Fail struct{ kind, sig, msg string }

// ------------------------------------------------------------ gated threads

type c06Ev struct {
	kind string // "parked" | "returned"
	site string
	err  error
	q    storage.Querier
}

type c06Thread struct {
	name   string
	ev     chan c06Ev
	resume chan struct{}
	mu     sync.Mutex
	free   bool
	parked bool // scheduler's view: parked at a gate, not yet released
	active bool // a call is running on the thread
}

var c06Threads sync.Map // goroutine id -> *c06Thread

var c06ParkSites = map[string]bool{
	"db.compact_head.written": true, "db.reload.pre_swap": true, "db.reload.swapped": true,
	"head.trunc.time_stored": true, "head.trunc.flag_set": true, "head.trunc.waited": true,
	"head.trunc.min_stored": true, "head.gc.done": true,
	"db.compact_ooo.snapshotted": true, "db.compact_ooo.reloaded": true, "db.compact_ooo.ref_published": true,
	"head.trunc_ooo.waited": true, "head.trunc_ooo.ref_stored": true,
	"db.querier.snapshotted": true, "db.querier.head_opened": true, "head.collide.flag_seen": true,
	"db.querier.checked": true, "db.querier.head_done": true, "db.querier.blocks_opened": true,
}

func c06Goid() uint64 {
	var buf [64]byte
	n := runtime.Stack(buf[:], false)
	f := strings.Fields(string(buf[:n]))
	if len(f) < 2 {
		return 0
	}
	id, _ := strconv.ParseUint(f[1], 10, 64)
	return id
}

func c06Handler(site string, _ ...int64) {
	if !c06ParkSites[site] {
		return
	}
	t, ok := c06Threads.Load(c06Goid())
	if !ok {
		return
	}
	th := t.(*c06Thread)
	th.mu.Lock()
	free := th.free
	th.mu.Unlock()
	if free {
		return
	}
	th.ev <- c06Ev{kind: "parked", site: site}
	<-th.resume
}

func c06NewThread(name string) *c06Thread {
	return &c06Thread{name: name, ev: make(chan c06Ev, 4), resume: make(chan struct{}, 1)}
}

// run executes f on a new goroutine registered with the thread's gate.
func (th *c06Thread) run(f func() c06Ev) {
	th.active = true
	go func() {
		id := c06Goid()
		c06Threads.Store(id, th)
		ev := f()
		c06Threads.Delete(id)
		ev.kind = "returned"
		th.ev <- ev
	}()
}

func (th *c06Thread) note(e c06Ev) {
	if e.kind == "parked" {
		th.parked = true
	} else {
		th.parked = false
		th.active = false
	}
}

func (th *c06Thread) wait(d time.Duration) (c06Ev, bool) {
	select {
	case e := <-th.ev:
		th.note(e)
		return e, true
	case <-time.After(d):
		return c06Ev{}, false
	}
}

func (th *c06Thread) poll() (c06Ev, bool) {
	select {
	case e := <-th.ev:
		th.note(e)
		return e, true
	default:
		return c06Ev{}, false
	}
}

func (th *c06Thread) release() {
	if th.parked {
		th.parked = false
		th.resume <- struct{}{}
	}
}

func (th *c06Thread) setFree() {
	th.mu.Lock()
	th.free = true
	th.mu.Unlock()
}

// ------------------------------------------------------------ one replay

type c06Query struct {
	th      *c06Thread
	rng     string
	lo, hi  int64
	exp     []string
	snap    []string
	q       storage.Querier
	qerr    error
	drained bool
	closed  bool
}

type c06Run struct {
	db     *DB
	base   int64
	comp   *c06Thread
	call   string // maintenance call in progress ("" = none)
	relB   bool   // block phase: thread released after the swap
	inWait bool   // released into a reader wait while the model had it blocked, and blocked ever since
	qs     map[int]*c06Query
	fails  []*c06Fail
	probes int
}

type c06CStep struct {
	start, wait string
	resume      bool
	blocking    string // the thread now enters a wait that the model guards
}

var c06CSteps = map[string]c06CStep{
	"c_write":     {start: "head", wait: "db.compact_head.written"},
	"c_prelock":   {resume: true, wait: "db.reload.pre_swap"},
	"c_lockreq":   {resume: true},
	"c_swap":      {wait: "db.reload.swapped"},
	"c_time":      {resume: true, wait: "head.trunc.time_stored"},
	"c_flag":      {resume: true, wait: "head.trunc.flag_set"},
	"c_waitstart": {blocking: "head.trunc.waited"},
	"c_waited":    {resume: true, wait: "head.trunc.waited"},
	"c_min":       {resume: true, wait: "head.trunc.min_stored"},
	"c_gc":        {resume: true, wait: "head.gc.done"},
	"c_ret":       {resume: true, wait: "return"},
	"o_snap":      {start: "ooo", wait: "db.compact_ooo.snapshotted"},
	"o_write":     {resume: true, wait: "db.reload.pre_swap"},
	"o_lockreq":   {resume: true},
	"o_swap":      {wait: "db.reload.swapped"},
	"o_reloaded":  {resume: true, wait: "db.compact_ooo.reloaded"},
	"o_pubreq":    {resume: true},
	"o_published": {wait: "db.compact_ooo.ref_published"},
	"o_waitstart": {blocking: "head.trunc_ooo.waited"},
	"o_waited":    {resume: true, wait: "head.trunc_ooo.waited"},
	"o_store":     {resume: true, wait: "head.trunc_ooo.ref_stored"},
	"o_gc":        {resume: true, wait: "head.gc.done"},
	"o_ret":       {resume: true, wait: "return"},
	"b_write":     {start: "blocks", wait: "db.reload.pre_swap"},
	"b_lockreq":   {resume: true},
	"b_swap":      {wait: "db.reload.swapped"},
	"b_close":     {resume: true},
	"b_remove":    {resume: true},
	"b_ret":       {resume: true, wait: "return"},
}

const c06Timeout = 90 * time.Second

func (r *c06Run) fail(kind, sig, msg string) {
	r.fails = append(r.fails, &c06Fail{kind, sig, msg})
}

func (r *c06Run) startCall(which string) {
	db, base := r.db, r.base
	r.call = which
	r.comp.run(func() c06Ev {
		var err error
		switch which {
		case "head":
			err = db.CompactHead(NewRangeHead(db.head, db.head.MinTime(), base+999))
		case "ooo":
			err = db.CompactOOOHead(context.Background())
		case "blocks":
			err = db.Compact(context.Background())
		}
		return c06Ev{err: err}
	})
}

// returned handles the end of a maintenance call.
func (r *c06Run) returned(e c06Ev, where string) {
	which := r.call
	r.call = ""
	r.inWait = false
	if e.err != nil {
		r.fail("violation", "maintenance-error", fmt.Sprintf("%s: %s compaction failed: %v", where, which, e.err))
	}
	if which == "blocks" {
		// both parents are deleted now: no open querier may have snapshotted one of them
		for i, q := range r.qs {
			if q.closed || q.th.active && q.q == nil {
				continue
			}
			for _, b := range q.snap {
				if b == "b1" || b == "b2" {
					r.fail("violation", "use-after-release", fmt.Sprintf("%s: block compaction returned (parents deleted) while querier %d (range %s), which snapshotted parent %s, is still open", where, i, q.rng, b))
				}
			}
		}
	}
}

// premature: the maintenance thread reached a site although the model says it must still be blocked.
func (r *c06Run) premature(e c06Ev, where string) {
	r.fail("drift", "", fmt.Sprintf("%s: maintenance thread reached %s:%s while the model still requires it to wait for open readers", where, e.kind, e.site))
	if e.kind == "returned" {
		r.returned(e, where)
	}
}

func (r *c06Run) compStep(st c06Step, where string) bool {
	cs, ok := c06CSteps[st.A]
	if !ok {
		r.fail("infra", "", "unknown compaction step "+st.A)
		return false
	}
	if cs.start != "" {
		r.startCall(cs.start)
	} else if r.call == "" {
		return true // the call has already returned (block phase: deletions are internal steps)
	}
	if cs.resume {
		if st.A == "b_close" || st.A == "b_remove" || st.A == "b_ret" {
			if !r.relB {
				r.relB = true
				r.comp.release()
			}
		} else {
			r.comp.release()
		}
	}
	if cs.blocking != "" {
		// Enter the real wait loop only when the model has the thread blocked (an overlapping reader is
		// registered): then any arrival at the next site before the model unblocks it is premature.
		// Otherwise the thread stays parked and is released by the c_waited / o_waited step itself.
		if st.W {
			r.comp.release()
			r.inWait = true
			time.Sleep(3 * time.Millisecond) // give a thread that does not block the time to show it
		}
		return true
	}
	if cs.wait == "" {
		return true
	}
	r.inWait = false
	e, ok := r.comp.wait(c06Timeout)
	if !ok {
		if cs.wait == "return" || strings.HasSuffix(cs.wait, "waited") {
			r.fail("violation", "maintenance-stuck", fmt.Sprintf("%s: maintenance did not get past %q within %v although no overlapping querier is open", where, cs.wait, c06Timeout))
		} else {
			r.fail("infra", "", fmt.Sprintf("%s: maintenance thread did not reach %q", where, cs.wait))
		}
		return false
	}
	if e.kind == "returned" {
		r.returned(e, where)
		if cs.wait != "return" {
			r.fail("drift", "", fmt.Sprintf("%s: maintenance call returned, model expects site %q", where, cs.wait))
			return false
		}
		return true
	}
	if e.site != cs.wait {
		r.fail("drift", "", fmt.Sprintf("%s: maintenance thread at %q, model expects %q", where, e.site, cs.wait))
		return false
	}
	return true
}

// rangeOf concretises a range name "<lo>_<hi>" of the spec's abstract time axis (T = 3 is the truncation time
// base+1000): lo 0 = below the OOO sample, 1 = below the old head minimum but above the OOO sample, 2 = T-1,
// 3 = T; hi 2 = T-1, 3 = T, 4 = T+1.
func (r *c06Run) rangeOf(name string) (int64, int64) {
	los := map[byte]int64{'0': 0, '1': 500, '2': 999, '3': 1000}
	his := map[byte]int64{'2': 999, '3': 1000, '4': 1001}
	if len(name) != 3 {
		return r.base, r.base + 1001
	}
	return r.base + los[name[0]], r.base + his[name[2]]
}

func (r *c06Run) queryStep(st c06Step, where string) bool {
	if st.A == "q_snap" {
		q := &c06Query{th: c06NewThread(fmt.Sprintf("q%d", st.I)), rng: st.Range, exp: st.Exp, snap: st.Snap}
		q.lo, q.hi = r.rangeOf(st.Range)
		r.qs[st.I] = q
		db := r.db
		q.th.run(func() c06Ev {
			qq, err := db.Querier(q.lo, q.hi)
			return c06Ev{q: qq, err: err}
		})
		return r.qWait(q, "db.querier.snapshotted", where)
	}
	q := r.qs[st.I]
	if q == nil {
		r.fail("infra", "", where+": unknown query")
		return false
	}
	switch st.A {
	case "q_openhead":
		q.th.release()
		if !st.Need {
			return r.qWait(q, "db.querier.head_done", where) // range entirely below the head and no OOO overlap
		}
		return r.qWait(q, "db.querier.head_opened", where)
	case "q_checkflag":
		q.th.release()
		if st.Flag {
			return r.qWait(q, "head.collide.flag_seen", where)
		}
		return r.qWait(q, "db.querier.checked", where)
	case "q_checktime":
		q.th.release()
		return r.qWait(q, "db.querier.checked", where)
	case "q_resolve":
		q.th.release()
		return r.qWait(q, "db.querier.head_done", where)
	case "q_openblocks":
		q.th.release()
		return r.qWait(q, "db.querier.blocks_opened", where)
	case "q_return":
		q.th.release()
		return r.qWait(q, "return", where)
	case "q_iter":
		r.drain(st.I, q, where)
		return true
	case "q_close":
		r.closeQ(q)
		return true
	}
	r.fail("infra", "", "unknown query step "+st.A)
	return false
}

func (r *c06Run) qWait(q *c06Query, site, where string) bool {
	e, ok := q.th.wait(c06Timeout)
	if !ok {
		r.fail("infra", "", fmt.Sprintf("%s: query thread did not reach %q", where, site))
		return false
	}
	if e.kind == "returned" {
		q.q, q.qerr = e.q, e.err
		if site != "return" {
			r.fail("drift", "", fmt.Sprintf("%s: DB.Querier returned, model expects site %q", where, site))
			return false
		}
		return true
	}
	if e.site != site {
		r.fail("drift", "", fmt.Sprintf("%s: query thread at %q, model expects %q", where, e.site, site))
		return false
	}
	return true
}

// O out of order; L (old head minimum), M (T-1) are compacted into the block [600, 1000); B sits exactly on the
// truncation time T = 1000 and A on T+1: they stay in the head
var c06Times = map[string]int64{"O": 300, "L": 600, "M": 999, "B": 1000, "A": 1001}

// drain selects everything in the querier's range and compares with exp.
func (r *c06Run) drain(i int, q *c06Query, where string) {
	if q.drained {
		return
	}
	q.drained = true
	if q.qerr != nil || q.q == nil {
		r.fail("violation", "query-error", fmt.Sprintf("%s: DB.Querier(range %s) failed: %v", where, q.rng, q.qerr))
		return
	}
	ss := q.q.Select(context.Background(), true, nil, labels.MustNewMatcher(labels.MatchEqual, "__name__", "c06"))
	got := map[string]int{}
	for ss.Next() {
		s := ss.At()
		k := s.Labels().Get("k")
		it := s.Iterator(nil)
		for it.Next() != chunkenc.ValNone {
			t, _ := it.At()
			if t != r.base+c06Times[k] {
				r.fail("violation", "wrong-sample", fmt.Sprintf("%s: query %d series %s returned unexpected timestamp %d", where, i, k, t))
			}
			got[k]++
		}
		if err := it.Err(); err != nil {
			r.fail("violation", "query-error", fmt.Sprintf("%s: query %d (range %s) iterator error: %v", where, i, q.rng, err))
			return
		}
	}
	if err := ss.Err(); err != nil {
		r.fail("violation", "query-error", fmt.Sprintf("%s: query %d (range %s) select error: %v", where, i, q.rng, err))
		return
	}
	var miss, dup []string
	for _, k := range q.exp {
		switch {
		case got[k] == 0:
			miss = append(miss, k)
		case got[k] > 1:
			dup = append(dup, k)
		}
		delete(got, k)
	}
	var extra []string
	for k := range got {
		extra = append(extra, k)
	}
	sort.Strings(extra)
	if len(miss) > 0 {
		r.fail("violation", "missing:"+strings.Join(miss, ","), fmt.Sprintf("%s: query %d (range %s) does not return committed sample(s) %v (expected %v)", where, i, q.rng, miss, q.exp))
	}
	if len(dup) > 0 {
		r.fail("violation", "duplicate:"+strings.Join(dup, ","), fmt.Sprintf("%s: query %d (range %s) returns sample(s) %v more than once", where, i, q.rng, dup))
	}
	if len(extra) > 0 {
		r.fail("violation", "extra:"+strings.Join(extra, ","), fmt.Sprintf("%s: query %d (range %s) returns sample(s) %v outside its range", where, i, q.rng, extra))
	}
}

func (r *c06Run) closeQ(q *c06Query) {
	if q.closed {
		return
	}
	q.closed = true
	if q.q != nil {
		q.q.Close()
	}
}

// probe runs a fresh full-range query to completion: at any point of the maintenance protocol it must
// return every committed sample exactly once.
func (r *c06Run) probe(where string) {
	q := &c06Query{th: c06NewThread("probe"), rng: "0_4", exp: []string{"A", "B", "L", "M", "O"}}
	q.lo, q.hi = r.rangeOf("0_4")
	q.q, q.qerr = r.db.Querier(q.lo, q.hi) // this goroutine is not registered: no gate parks it
	r.drain(-1, q, "probe "+where)
	r.closeQ(q)
	r.probes++
}

// finishQueries opens the query gates, lets every started query return, drains and closes it.
func (r *c06Run) finishQueries() bool {
	for _, q := range r.qs {
		q.th.setFree()
		q.th.release()
	}
	for i, q := range r.qs {
		for q.th.active {
			e, ok := q.th.wait(c06Timeout)
			if !ok {
				r.fail("infra", "", fmt.Sprintf("completion: query %d did not return", i))
				return false
			}
			if e.kind == "returned" {
				q.q, q.qerr = e.q, e.err
			} else {
				q.th.release()
			}
		}
	}
	for i, q := range r.qs {
		r.drain(i, q, "completion")
	}
	// a block compaction that returned while these queriers were open is noticed before they are closed
	if r.call != "" {
		if e, ok := r.comp.poll(); ok {
			if e.kind == "returned" {
				r.returned(e, "completion")
			}
		}
	}
	for _, q := range r.qs {
		r.closeQ(q)
	}
	return true
}

// finish completes the run after the scheduled prefix (or after the schedule could not be followed):
// the maintenance call is stepped from site to site with the started queriers still open, a fresh probe
// query is run at every site; when the call blocks on the open queriers (or returns) they are drained -
// after the maintenance has progressed as far as it can - and closed; then the call is stepped to its end.
func (r *c06Run) finish() {
	queriesDone := false
	for n := 0; r.call != "" && n < 64; n++ {
		if r.comp.parked {
			r.probe("with maintenance at a gate")
			r.comp.release()
		}
		d := 800 * time.Millisecond // longer than the 500ms reader-wait poll of the code
		if queriesDone {
			d = c06Timeout
		}
		e, ok := r.comp.wait(d)
		switch {
		case !ok && !queriesDone:
			queriesDone = true
			if !r.finishQueries() {
				return
			}
		case !ok:
			r.fail("violation", "maintenance-stuck", fmt.Sprintf("completion: %s compaction did not finish within %v after all queriers were closed", r.call, c06Timeout))
			return
		case e.kind == "returned":
			r.returned(e, "completion")
		}
	}
	if !queriesDone && !r.finishQueries() {
		return
	}
	r.probe("at the end")
}

var c06Prof [4]int64 // ns: setup, scheduled steps, completion, close

func c06Replay(dir string, b c06Beh, base int64) (fails []*c06Fail) {
	t0 := time.Now()
	lap := func(i int) {
		n := time.Now()
		atomic.AddInt64(&c06Prof[i], int64(n.Sub(t0)))
		t0 = n
	}
	opts := DefaultOptions()
	opts.MinBlockDuration = 1000
	opts.MaxBlockDuration = 1000000
	opts.OutOfOrderTimeWindow = 100000
	opts.BlockReloadInterval = 24 * time.Hour
	opts.RetentionDuration = 0
	db, err := Open(dir, nil, nil, opts, nil)
	if err != nil {
		return []*c06Fail{{"infra", "", "open: " + err.Error()}}
	}
	db.DisableCompactions()
	defer func() { db.Close(); lap(3) }()
	// committed history: L and H in order, then O out of order, one series each
	for _, k := range []string{"L", "M", "B", "A", "O"} {
		app := db.Appender(context.Background())
		if _, err := app.Append(0, labels.FromStrings("__name__", "c06", "k", k), base+c06Times[k], 1); err != nil {
			return []*c06Fail{{"infra", "", "append " + k + ": " + err.Error()}}
		}
		if err := app.Commit(); err != nil {
			return []*c06Fail{{"infra", "", "commit: " + err.Error()}}
		}
	}
	r := &c06Run{db: db, base: base, comp: c06NewThread("compaction"), qs: map[int]*c06Query{}}
	defer func() { fails = r.fails }()
	lap(0)
	ok := true
	for n, st := range b.Steps {
		where := fmt.Sprintf("step %d (%s%d %s)", n+1, st.T, st.I, st.A)
		// a maintenance thread that has been blocked (in the model) ever since it entered its wait must not have moved
		if r.inWait {
			if e, got := r.comp.poll(); got {
				r.premature(e, where)
				ok = false
				break
			}
		}
		// block phase after the swap: Compact may return as soon as the parents are deleted
		if r.call == "blocks" && r.relB {
			if e, got := r.comp.poll(); got && e.kind == "returned" {
				r.returned(e, where)
			}
		}
		if st.T == "c" {
			ok = r.compStep(st, where)
		} else {
			ok = r.queryStep(st, where)
		}
		if !ok {
			break
		}
		if !st.W {
			r.inWait = false
		}
	}
	lap(1)
	r.finish()
	lap(2)
	return r.fails
}

func TestVerifC06Replay(t *testing.T) {
	behs, err := verifh.ReadNDJSON[c06Beh](verifh.In())
	if err != nil {
		verifh.Infra(err.Error())
		t.Fatal(err)
	}
	verifhook.Set(c06Handler)
	defer verifhook.Set(nil)
	scratch := os.Getenv("VERIF_SCRATCH")
	if scratch == "" {
		scratch = t.TempDir()
	}
	bases := []int64{0, 5000, 1000000, 86400000}
	nw := 16
	var mu sync.Mutex
	var wg sync.WaitGroup
	steps, infra := 0, ""
	for wi := 0; wi < nw; wi++ {
		wg.Add(1)
		go func(wi int) {
			defer wg.Done()
			for bi := wi; bi < len(behs); bi += nw {
				dir := filepath.Join(scratch, fmt.Sprintf("c06-db-%d-%d", wi, bi))
				base := bases[(int(verifh.Seed())+bi)%len(bases)]
				fails := c06Replay(dir, behs[bi], base)
				os.RemoveAll(dir)
				mu.Lock()
				steps += len(behs[bi].Steps)
				for _, f := range fails {
					switch f.kind {
					case "infra":
						infra = fmt.Sprintf("behaviour %d: %s", bi, f.msg)
					case "drift":
						verifh.Drift(fmt.Sprintf("behaviour %d: %s", bi, f.msg))
					case "violation":
						verifh.Violation(f.sig, fmt.Sprintf("behaviour %d: %s", bi, f.msg), map[string]any{"behaviour": behs[bi], "base": base})
					}
				}
				stop := infra != ""
				mu.Unlock()
				if stop {
					return
				}
			}
		}(wi)
	}
	wg.Wait()
	if infra != "" {
		verifh.Infra(infra)
		t.Fatal(infra)
	}
	verifh.Stat(map[string]any{"steps_replayed": steps, "behaviours_replayed": len(behs),
		"prof_ms_setup_steps_completion_close": fmt.Sprint(c06Prof[0]/1e6, c06Prof[1]/1e6, c06Prof[2]/1e6, c06Prof[3]/1e6)})
	verifh.Done(len(behs))
	if verifh.Violations() > 0 {
		t.Fail()
	}
}
