package tsdb_test

// C16 (and C18, see c18_shard_test.go) conformance harness: replays behaviours emitted by
// specs/postings/Postings.tla into a real tsdb.DB (head, blocks produced by DB.CompactHead,
// and both) and compares what DB.Querier(...).Select / LabelNames / LabelValues return with
// the REFERENCE predictions carried by every query step:
//
//	must[i] ⊆ Select(range i) ⊆ may        (every matching series with a sample in range, no non-matching series)
//	nmust[i] ⊆ LabelNames(range i) ⊆ nmay   vmust[n][i] ⊆ LabelValues(n, range i) ⊆ vmay[n]
//	results sorted (Select: when requested) and duplicate-free
//	limit N: min(N, |unlimited|) entries, all taken from the unlimited answer
//
// The harness only concretises (abstract values x y z f -> strings, time points -> int64,
// regex templates -> regex strings), drives the DB and compares sets.

import (
	"context"
	jsonStd "encoding/json"
	"fmt"
	"math"
	"math/rand"
	"os"
	"regexp"
	"runtime"
	"sort"
	"strings"
	"sync"
	"testing"

	"github.com/prometheus/prometheus/internal/verifh"
	"github.com/prometheus/prometheus/model/labels"
	"github.com/prometheus/prometheus/storage"
	"github.com/prometheus/prometheus/tsdb"
)

type c16Series struct {
	ID  string            `json:"id"`
	L   map[string]string `json:"l"`
	Pts []int64           `json:"pts"`
}

type c16M struct {
	T string `json:"t"`
	N string `json:"n"`
	V string `json:"v"`
}

type c16Step struct {
	A      string                `json:"a"`
	Phase  int                   `json:"phase"`
	Series []c16Series           `json:"series"`
	Ranges [][]int64             `json:"ranges"`
	Limits []int                 `json:"limits"`
	ID     string                `json:"id"`
	L      map[string]string     `json:"l"`
	T      int64                 `json:"t"`
	C      int                   `json:"c"`
	Ms     []c16M                `json:"ms"`
	May    []string              `json:"may"`
	Must   [][]string            `json:"must"`
	Nmay   []string              `json:"nmay"`
	Nmust  [][]string            `json:"nmust"`
	Vmay   map[string][]string   `json:"vmay"`
	Vmust  map[string][][]string `json:"vmust"`
	// C18
	N      uint64            `json:"n"`
	Shards map[string]uint64 `json:"shards"`
}

type c16Re struct {
	Re  string   `json:"re"`
	Den []string `json:"den"`
	Set []string `json:"set"`
}

type c16Group struct {
	Kind    string    `json:"kind"` // "re" | "group"
	Table   []c16Re   `json:"table"`
	Steps   []c16Step `json:"steps"`
	Queries []c16Step `json:"queries"`
}

// ---------------------------------------------------------------- concretisation

type c16Conc struct {
	seed    int64
	names   map[string]string // model name -> concrete label name
	vals    map[string]string // x y z m -> concrete value
	fillers []string          // the values standing for the abstract value "f"
	w, t0   int64             // container width and time origin
	o1, o2  int64             // offsets of the odd / even point inside a container
}

const c16W = 1000

func c16MakeConc(seed int64) *c16Conc {
	r := rand.New(rand.NewSource(seed))
	c := &c16Conc{seed: seed, w: c16W}
	namePools := [][]string{{"a", "b", "c"}, {"env", "job", "zone"}, {"A", "B_", "b"}, {"a1", "a2", "a3"}}
	np := namePools[int(seed)%len(namePools)]
	c.names = map[string]string{"a": np[0], "b": np[1], "c": np[2], "__name__": "__name__", "": ""}
	type vp struct {
		x, y, z string
		f       []string // filler prefixes, spread over the sort order
	}
	// fillers sort below, between and above x y z but never start with, end with or contain them
	valPools := []vp{
		{"k", "p", "t", []string{"f", "m", "r", "w"}},
		{"prod", "qa", "stage", []string{"k", "pz", "r", "zz"}},
		{"é1", "ñ2", "ü3", []string{"ß", "a", "ö"}},
		{"10", "2", "30", []string{"0", "15", "4"}},
	}
	p := valPools[int(seed/2)%len(valPools)]
	c.vals = map[string]string{"x": p.x, "y": p.y, "z": p.z, "m": "m", "": ""}
	k := []int{40, 35, 70}[int(seed)%3]
	if os.Getenv("VERIF_C16_FILLERS") != "" {
		fmt.Sscan(os.Getenv("VERIF_C16_FILLERS"), &k)
	}
	for i := 0; i < k; i++ {
		pre := p.f[i%len(p.f)]
		c.fillers = append(c.fillers, fmt.Sprintf("%s_%c%c_", pre, 'A'+i/26, 'A'+i%26))
	}
	c.t0 = []int64{0, 5000, 1 << 40, 7}[r.Intn(4)]
	c.o1 = []int64{0, 1, 137}[r.Intn(3)]
	c.o2 = []int64{c16W - 1, c16W - 2, 600}[r.Intn(3)]
	return c
}

func (c *c16Conc) time(p int64) int64 {
	cont := (p - 1) / 2
	if p%2 == 1 {
		return c.t0 + cont*c.w + c.o1
	}
	return c.t0 + cont*c.w + c.o2
}

func (c *c16Conc) contRange(cont int) (int64, int64) {
	return c.t0 + int64(cont-1)*c.w, c.t0 + int64(cont)*c.w - 1
}

// queryRange concretises the closed point range [lo,hi]; variant widens the bounds up to (but
// excluding) the neighbouring points, or to the int64 extremes at the ends of the time axis.
func (c *c16Conc) queryRange(lo, hi int64, variant int) (int64, int64) {
	mint, maxt := c.time(lo), c.time(hi)
	if variant&1 == 1 {
		if lo > 1 {
			mint = c.time(lo-1) + 1
		} else {
			mint = math.MinInt64
		}
	}
	if variant&2 == 2 {
		if hi < 6 {
			maxt = c.time(hi+1) - 1
		} else {
			maxt = math.MaxInt64
		}
	}
	return mint, maxt
}

func (c *c16Conc) hasFiller(l map[string]string) bool {
	for _, v := range l {
		if v == "f" {
			return true
		}
	}
	return false
}

// labelsOf returns the concrete label sets of an abstract series (one, or one per filler value).
func (c *c16Conc) labelsOf(l map[string]string) []labels.Labels {
	n := 1
	if c.hasFiller(l) {
		n = len(c.fillers)
	}
	res := make([]labels.Labels, 0, n)
	for i := 0; i < n; i++ {
		b := labels.NewBuilder(labels.EmptyLabels())
		b.Set("__name__", "m")
		for mn, mv := range l {
			switch mv {
			case "":
			case "f":
				b.Set(c.names[mn], c.fillers[i])
			default:
				b.Set(c.names[mn], c.vals[mv])
			}
		}
		res = append(res, b.Labels())
	}
	return res
}

func (c *c16Conc) values(abs []string) map[string]bool {
	res := map[string]bool{}
	for _, v := range abs {
		if v == "f" {
			for _, f := range c.fillers {
				res[f] = true
			}
		} else {
			res[c.vals[v]] = true
		}
	}
	return res
}

func (c *c16Conc) nameSet(abs []string) map[string]bool {
	res := map[string]bool{}
	for _, n := range abs {
		res[c.names[n]] = true
	}
	return res
}

func (c *c16Conc) regex(tmpl string) string {
	s := tmpl
	for _, k := range []string{"x", "y", "z"} {
		s = strings.ReplaceAll(s, "<"+k+">", regexp.QuoteMeta(c.vals[k]))
	}
	return s
}

func (c *c16Conc) matcher(m c16M) (*labels.Matcher, error) {
	name := c.names[m.N]
	switch m.T {
	case "=":
		return labels.NewMatcher(labels.MatchEqual, name, c.vals[m.V])
	case "!=":
		return labels.NewMatcher(labels.MatchNotEqual, name, c.vals[m.V])
	case "=~":
		return labels.NewMatcher(labels.MatchRegexp, name, c.regex(m.V))
	case "!~":
		return labels.NewMatcher(labels.MatchNotRegexp, name, c.regex(m.V))
	}
	return nil, fmt.Errorf("unknown matcher type %q", m.T)
}

func (c *c16Conc) matchers(ms []c16M) ([]*labels.Matcher, error) {
	res := make([]*labels.Matcher, 0, len(ms))
	for _, m := range ms {
		x, err := c.matcher(m)
		if err != nil {
			return nil, err
		}
		res = append(res, x)
	}
	return res, nil
}

// checkReTable cross-checks the denotations of the regex symbols against the standard regexp
// package on the concrete universe (a disagreement is a model/harness problem, never a verdict)
// and the SetMatches column against FastRegexMatcher (drift only: it selects the code path).
func (c *c16Conc) checkReTable(tab []c16Re) error {
	universe := map[string]string{"": "", "x": c.vals["x"], "y": c.vals["y"], "z": c.vals["z"], "m": "m"}
	for _, row := range tab {
		den := map[string]bool{}
		for _, d := range row.Den {
			den[d] = true
		}
		re, err := regexp.Compile("^(?s:" + c.regex(row.Re) + ")$")
		if err != nil {
			return fmt.Errorf("regex symbol %q does not compile: %v", row.Re, err)
		}
		for abs, conc := range universe {
			if re.MatchString(conc) != den[abs] {
				return fmt.Errorf("regex symbol %q (concrete %q): regexp says %v on %q (abstract %q), the model says %v", row.Re, c.regex(row.Re), re.MatchString(conc), conc, abs, den[abs])
			}
		}
		for _, f := range c.fillers {
			if re.MatchString(f) != den["f"] {
				return fmt.Errorf("regex symbol %q (concrete %q): regexp says %v on filler %q, the model says %v", row.Re, c.regex(row.Re), re.MatchString(f), f, den["f"])
			}
		}
		m, err := labels.NewMatcher(labels.MatchRegexp, "a", c.regex(row.Re))
		if err != nil {
			return err
		}
		got := map[string]bool{}
		for _, s := range m.SetMatches() {
			got[s] = true
		}
		want := c.values(row.Set)
		if len(row.Set) == 0 {
			want = map[string]bool{}
		}
		if !c16SameSet(got, want) {
			verifh.Drift(fmt.Sprintf("SetMatches(%q) = %v, the model assumes %v (code path only)", c.regex(row.Re), m.SetMatches(), row.Set))
		}
	}
	return nil
}

func c16SameSet(a, b map[string]bool) bool {
	if len(a) != len(b) {
		return false
	}
	for k := range a {
		if !b[k] {
			return false
		}
	}
	return true
}

// ---------------------------------------------------------------- the DB under test

type c16World struct {
	conc     *c16Conc
	db       *tsdb.DB
	dir      string
	opts     *tsdb.Options
	phase    int                // container that is the head
	points   map[string][]int64 // id -> time points appended so far
	reopenMu sync.Mutex
	series map[string]map[string]string // id -> abstract label map
	keyID  map[string]string            // concrete labels string -> id
	ranges [][]int64
	limits []int
	rnd    *rand.Rand
}

func c16Open(conc *c16Conc, sharding bool) (*c16World, error) {
	dir, err := os.MkdirTemp(os.Getenv("VERIF_SCRATCH"), "c16db")
	if err != nil {
		return nil, err
	}
	opts := tsdb.DefaultOptions()
	// the head accepts samples down to maxTime - MinBlockDuration/2: keep the whole container appendable
	opts.MinBlockDuration = 10 * c16W
	opts.MaxBlockDuration = 10 * c16W
	opts.WALSegmentSize = -1 // no WAL: the property is about the index and the queriers
	if sharding {
		opts.WALSegmentSize = 0 // C18 reopens the DB: the head has to come back from the WAL
	}
	opts.EnableSharding = sharding
	db, err := tsdb.Open(dir, nil, nil, opts, nil)
	if err != nil {
		os.RemoveAll(dir)
		return nil, err
	}
	db.DisableCompactions()
	return &c16World{conc: conc, db: db, dir: dir, opts: opts, phase: 1, points: map[string][]int64{},
		series: map[string]map[string]string{}, keyID: map[string]string{},
		rnd: rand.New(rand.NewSource(conc.seed))}, nil
}

func (w *c16World) reopen() error {
	if err := w.db.Close(); err != nil {
		return err
	}
	db, err := tsdb.Open(w.dir, nil, nil, w.opts, nil)
	if err != nil {
		return err
	}
	db.DisableCompactions()
	w.db = db
	return nil
}

func (w *c16World) close() {
	w.db.Close()
	os.RemoveAll(w.dir)
}

func (w *c16World) register(id string, l map[string]string) {
	if _, ok := w.series[id]; ok {
		return
	}
	w.series[id] = l
	for _, ls := range w.conc.labelsOf(l) {
		w.keyID[ls.String()] = id
	}
}

type c16Sample struct {
	id string
	t  int64
}

// appendAll commits the samples (one appender, series in a seeded order, per-series time order kept).
func (w *c16World) appendAll(samples []c16Sample) error {
	if len(samples) == 0 {
		return nil
	}
	sort.SliceStable(samples, func(i, j int) bool { return samples[i].t < samples[j].t })
	// shuffle among equal timestamps
	for i := 0; i < len(samples); {
		j := i
		for j < len(samples) && samples[j].t == samples[i].t {
			j++
		}
		w.rnd.Shuffle(j-i, func(a, b int) { samples[i+a], samples[i+b] = samples[i+b], samples[i+a] })
		i = j
	}
	for _, s := range samples {
		w.points[s.id] = append(w.points[s.id], s.t)
	}
	app := w.db.Appender(context.Background())
	for _, s := range samples {
		for _, ls := range w.conc.labelsOf(w.series[s.id]) {
			if _, err := app.Append(0, ls, w.conc.time(s.t), float64(s.t)); err != nil {
				app.Rollback()
				return fmt.Errorf("append %s@%d: %w", ls, s.t, err)
			}
		}
	}
	return app.Commit()
}

func (w *c16World) cut(cont int) error {
	w.phase = cont + 1
	lo, hi := w.conc.contRange(cont)
	if w.db.Head().NumSeries() == 0 {
		return nil
	}
	return w.db.CompactHead(tsdb.NewRangeHead(w.db.Head(), lo, hi))
}

func (w *c16World) init(st c16Step) error {
	w.ranges, w.limits = st.Ranges, st.Limits
	for _, s := range st.Series {
		w.register(s.ID, s.L)
	}
	for cont := 1; cont <= st.Phase; cont++ {
		var smp []c16Sample
		for _, s := range st.Series {
			for _, p := range s.Pts {
				if int((p-1)/2)+1 == cont {
					smp = append(smp, c16Sample{s.ID, p})
				}
			}
		}
		if err := w.appendAll(smp); err != nil {
			return err
		}
		if cont < st.Phase {
			if err := w.cut(cont); err != nil {
				return err
			}
		}
	}
	return nil
}

// ---------------------------------------------------------------- checks

type c16Fail struct {
	sig, msg string
}

func (w *c16World) expandIDs(ids []string) map[string]bool {
	res := map[string]bool{}
	for _, id := range ids {
		for _, ls := range w.conc.labelsOf(w.series[id]) {
			res[ls.String()] = true
		}
	}
	return res
}

func c16Sorted(ss []string) bool {
	for i := 1; i < len(ss); i++ {
		if ss[i-1] >= ss[i] {
			return false
		}
	}
	return true
}

func c16Trunc(m map[string]bool) string {
	var ks []string
	for k := range m {
		ks = append(ks, k)
	}
	sort.Strings(ks)
	if len(ks) > 12 {
		return fmt.Sprintf("%v… (%d)", ks[:12], len(ks))
	}
	return fmt.Sprint(ks)
}

func c16List(got []string, must, may map[string]bool, what string) *c16Fail {
	if !c16Sorted(got) {
		return &c16Fail{what + "-unsorted", fmt.Sprintf("%s result not sorted / not duplicate-free: %v", what, got)}
	}
	gs := map[string]bool{}
	for _, g := range got {
		gs[g] = true
		if !may[g] {
			return &c16Fail{what + "-extra", fmt.Sprintf("%s returned %q which no stored matching series has (allowed: %s)", what, g, c16Trunc(may))}
		}
	}
	for m := range must {
		if !gs[m] {
			return &c16Fail{what + "-missing", fmt.Sprintf("%s misses %q of a matching series with data in range (got %v)", what, m, got)}
		}
	}
	return nil
}

func c16Limit(lim, unl []string, n int, what string) *c16Fail {
	want := len(unl)
	if n > 0 && n < want {
		want = n
	}
	if len(lim) != want {
		return &c16Fail{what + "-limit-count", fmt.Sprintf("%s with limit %d returned %d entries %v, unlimited answer has %d: expected %d", what, n, len(lim), lim, len(unl), want)}
	}
	us := map[string]bool{}
	for _, u := range unl {
		us[u] = true
	}
	for _, l := range lim {
		if !us[l] {
			return &c16Fail{what + "-limit-subset", fmt.Sprintf("%s with limit %d returned %q which is not in the unlimited answer %v", what, n, l, unl)}
		}
	}
	if !c16Sorted(lim) {
		return &c16Fail{what + "-limit-unsorted", fmt.Sprintf("%s with limit %d not sorted / duplicate-free: %v", what, n, lim)}
	}
	return nil
}

type c16Stats struct {
	mu                                sync.Mutex
	queries, calls, selDrift, nonTriv int
}

// query runs one query step on every range. qi varies the concretisation choices deterministically.
func (w *c16World) query(q c16Step, qi int, st *c16Stats) *c16Fail {
	ctx := context.Background()
	calls := 0
	drift := 0
	defer func() {
		st.mu.Lock()
		st.queries++
		st.calls += calls
		st.selDrift += drift
		if len(q.May) > 0 && len(q.May) < len(w.series) {
			st.nonTriv++
		}
		st.mu.Unlock()
	}()
	mayKeys := w.expandIDs(q.May)
	nmay := w.conc.nameSet(q.Nmay)
	for ri, r := range w.ranges {
		variant := (qi + ri + int(w.conc.seed)) % 4
		mint, maxt := w.conc.queryRange(r[0], r[1], variant)
		qr, err := w.db.Querier(mint, maxt)
		if err != nil {
			return &c16Fail{"infra", "Querier: " + err.Error()}
		}
		fail := func() *c16Fail {
			// ---- Select
			{
				ms, err := w.conc.matchers(q.Ms)
				if err != nil {
					return &c16Fail{"infra", err.Error()}
				}
				sorted := (qi+ri)%2 == 0
				var hints *storage.SelectHints
				if (qi+ri)%3 == 0 {
					hints = &storage.SelectHints{Start: mint, End: maxt}
				}
				ss := qr.Select(ctx, sorted, hints, ms...)
				calls++
				got := map[string]bool{}
				var prev labels.Labels
				first := true
				for ss.Next() {
					ls := ss.At().Labels()
					k := ls.String()
					if _, ok := w.keyID[k]; !ok {
						return &c16Fail{"select-unknown", fmt.Sprintf("Select returned a series that was never stored: %s", k)}
					}
					if got[k] {
						return &c16Fail{"select-dup", fmt.Sprintf("Select returned %s twice", k)}
					}
					if !mayKeys[k] {
						return &c16Fail{"select-extra", fmt.Sprintf("Select returned %s which does not satisfy the matchers", k)}
					}
					if sorted && !first && labels.Compare(prev, ls) >= 0 {
						return &c16Fail{"select-unsorted", fmt.Sprintf("sorted Select returned %s after %s", k, prev.String())}
					}
					got[k] = true
					prev, first = ls.Copy(), false
				}
				if err := ss.Err(); err != nil {
					return &c16Fail{"select-error", "Select failed: " + err.Error()}
				}
				must := w.expandIDs(q.Must[ri])
				for k := range must {
					if !got[k] {
						return &c16Fail{"select-missing", fmt.Sprintf("Select misses %s which matches and has a sample in range", k)}
					}
				}
				if len(got) != len(must) {
					drift++
				}
			}
			// ---- LabelNames
			ms, _ := w.conc.matchers(q.Ms)
			names, _, err := qr.LabelNames(ctx, nil, ms...)
			calls++
			if err != nil {
				return &c16Fail{"names-error", "LabelNames failed: " + err.Error()}
			}
			if f := c16List(names, w.conc.nameSet(q.Nmust[ri]), nmay, "names"); f != nil {
				return f
			}
			doLimits := ri == qi%len(w.ranges)
			if doLimits {
				for _, n := range w.limits {
					if n == 0 {
						continue
					}
					ms, _ := w.conc.matchers(q.Ms)
					lim, _, err := qr.LabelNames(ctx, &storage.LabelHints{Limit: n}, ms...)
					calls++
					if err != nil {
						return &c16Fail{"names-error", "LabelNames failed: " + err.Error()}
					}
					if f := c16Limit(lim, names, n, "names"); f != nil {
						return f
					}
				}
			}
			// ---- LabelValues
			for mn, vmay := range q.Vmay {
				ms, _ := w.conc.matchers(q.Ms)
				vals, _, err := qr.LabelValues(ctx, w.conc.names[mn], nil, ms...)
				calls++
				if err != nil {
					return &c16Fail{"values-error", "LabelValues failed: " + err.Error()}
				}
				if f := c16List(vals, w.conc.values(q.Vmust[mn][ri]), w.conc.values(vmay), "values"); f != nil {
					f.msg = "label " + w.conc.names[mn] + ": " + f.msg
					return f
				}
				if doLimits {
					for _, n := range w.limits {
						if n == 0 {
							continue
						}
						ms, _ := w.conc.matchers(q.Ms)
						lim, _, err := qr.LabelValues(ctx, w.conc.names[mn], &storage.LabelHints{Limit: n}, ms...)
						calls++
						if err != nil {
							return &c16Fail{"values-error", "LabelValues failed: " + err.Error()}
						}
						if f := c16Limit(lim, vals, n, "values"); f != nil {
							f.msg = "label " + w.conc.names[mn] + ": " + f.msg
							return f
						}
					}
				}
			}
			// a label name nothing carries
			ms, _ = w.conc.matchers(q.Ms)
			if vals, _, err := qr.LabelValues(ctx, "verif_absent", nil, ms...); err != nil || len(vals) != 0 {
				return &c16Fail{"values-extra", fmt.Sprintf("LabelValues of a name no series carries = %v, %v", vals, err)}
			}
			calls++
			return nil
		}()
		qr.Close()
		if fail != nil {
			fail.msg = fmt.Sprintf("range points [%d,%d] = [%d,%d]: %s", r[0], r[1], mint, maxt, fail.msg)
			if fail.sig != "infra" {
				fail.sig += c16KnownShape(q.Ms)
			}
			return fail
		}
	}
	return nil
}

// c16KnownShape gives the two matcher-list shapes of known_findings.json (KF-C16-1, KF-C16-2; the
// predicates KF_C16_1 / KF_C16_2 of Postings.tla) their own signature suffix.
func c16KnownShape(ms []c16M) string {
	if len(ms) == 0 {
		return "/nomatchers"
	}
	if len(ms) == 1 && ms[0].N == "" && ms[0].V == "" && (ms[0].T == "!=" || ms[0].T == "!~") {
		return "/emptyname-not"
	}
	return ""
}

var c16KnownOnce sync.Map // signature with a known shape -> reported once per run

func c16MsString(c *c16Conc, ms []c16M) string {
	var sb strings.Builder
	sb.WriteString("{")
	for i, m := range ms {
		if i > 0 {
			sb.WriteString(",")
		}
		x, err := c.matcher(m)
		if err != nil {
			sb.WriteString("?")
			continue
		}
		sb.WriteString(x.String())
	}
	sb.WriteString("}")
	return sb.String()
}

// c16RunGroup replays one behaviour group on a fresh DB. Returns the number of query steps run.
func c16RunGroup(g c16Group, gi int, seed int64, st *c16Stats, par int, sharding bool) (fatal error) {
	conc := c16MakeConc(seed)
	w, err := c16Open(conc, sharding)
	if err != nil {
		return err
	}
	defer w.close()
	report := func(f *c16Fail, q c16Step, stepNo int) {
		if c16KnownShape(q.Ms) != "" {
			if _, dup := c16KnownOnce.LoadOrStore(f.sig, true); dup {
				return
			}
		}
		verifh.Violation(f.sig, fmt.Sprintf("group %d step %d %s: %s", gi, stepNo, c16MsString(conc, q.Ms), f.msg),
			map[string]any{"steps": g.Steps, "query": q, "seed": seed, "names": conc.names, "vals": conc.vals, "nfillers": len(conc.fillers)})
	}
	qi := gi
	for i, s := range g.Steps {
		switch s.A {
		case "Init":
			if err := w.init(s); err != nil {
				return fmt.Errorf("group %d init: %w", gi, err)
			}
		case "Append":
			w.register(s.ID, s.L)
			if err := w.appendAll([]c16Sample{{s.ID, s.T}}); err != nil {
				return fmt.Errorf("group %d step %d: %w", gi, i, err)
			}
		case "Cut":
			if err := w.cut(s.C); err != nil {
				return fmt.Errorf("group %d step %d cut: %w", gi, i, err)
			}
		case "Q":
			qi++
			if f := w.query(s, qi, st); f != nil {
				if f.sig == "infra" {
					return fmt.Errorf("group %d step %d: %s", gi, i, f.msg)
				}
				report(f, s, i)
				if c16KnownShape(s.Ms) == "" {
					return nil
				}
			}
		case "Shard":
			if f := w.shardQuery(s, qi, st); f != nil {
				if f.sig == "infra" {
					return fmt.Errorf("group %d step %d: %s", gi, i, f.msg)
				}
				report(f, s, i)
				return nil
			}
		default:
			return fmt.Errorf("unknown step %q", s.A)
		}
	}
	// queries of the final state, in parallel (queriers are safe for concurrent use)
	var wg sync.WaitGroup
	var mu sync.Mutex
	var firstErr error
	reported := 0
	ch := make(chan int, len(g.Queries))
	for i := range g.Queries {
		ch <- i
	}
	close(ch)
	for p := 0; p < par; p++ {
		wg.Add(1)
		go func() {
			defer wg.Done()
			for i := range ch {
				q := g.Queries[i]
				var f *c16Fail
				if q.A == "Shard" {
					f = w.shardQuery(q, gi+i, st)
				} else {
					f = w.query(q, gi+i, st)
				}
				if f == nil {
					continue
				}
				mu.Lock()
				if f.sig == "infra" {
					if firstErr == nil {
						firstErr = fmt.Errorf("group %d query %d: %s", gi, i, f.msg)
					}
				} else if c16KnownShape(q.Ms) != "" {
					report(f, q, len(g.Steps)+i)
				} else if reported < 3 {
					reported++
					report(f, q, len(g.Steps)+i)
				}
				mu.Unlock()
			}
		}()
	}
	wg.Wait()
	return firstErr
}

func c16Run(t *testing.T, sharding bool) {
	groups, err := verifh.ReadNDJSON[c16Group](verifh.In())
	if err != nil {
		verifh.Infra(err.Error())
		t.Fatal(err)
	}
	seed := verifh.Seed()
	st := &c16Stats{}
	n := 0
	nconc := 1
	if !verifh.Quick() {
		nconc = 2
	}
	// regex table cross-check for every concretisation in use
	for _, g := range groups {
		if g.Kind != "re" {
			continue
		}
		for k := 0; k < nconc+3; k++ {
			if err := c16MakeConc(seed + int64(k)).checkReTable(g.Table); err != nil {
				verifh.Infra(err.Error())
				t.Fatal(err)
			}
		}
	}
	par := runtime.GOMAXPROCS(0)
	if par > 12 {
		par = 12
	}
	qpar := par
	if sharding {
		qpar = 1 // a Shard step may reopen the DB: no concurrent queries on it
	}
	// big groups one after the other with parallel queries, small groups in parallel
	var small []int
	for gi, g := range groups {
		if g.Kind != "group" {
			continue
		}
		n++
		if len(g.Queries) < 200 {
			small = append(small, gi)
			continue
		}
		for k := 0; k < nconc; k++ {
			if err := c16RunGroup(g, gi, seed+int64((gi+k)%4), st, qpar, sharding); err != nil {
				verifh.Infra(err.Error())
				t.Fatal(err)
			}
		}
	}
	var wg sync.WaitGroup
	var mu sync.Mutex
	var firstErr error
	ch := make(chan int, len(small))
	for _, gi := range small {
		ch <- gi
	}
	close(ch)
	for p := 0; p < par; p++ {
		wg.Add(1)
		go func() {
			defer wg.Done()
			for gi := range ch {
				if err := c16RunGroup(groups[gi], gi, seed+int64(gi%4), st, 1, sharding); err != nil {
					mu.Lock()
					if firstErr == nil {
						firstErr = err
					}
					mu.Unlock()
				}
			}
		}()
	}
	wg.Wait()
	if firstErr != nil {
		verifh.Infra(firstErr.Error())
		t.Fatal(firstErr)
	}
	verifh.Stat(map[string]any{"groups_replayed": n, "query_steps": st.queries, "querier_calls": st.calls,
		"select_more_than_must": st.selDrift, "queries_with_partial_answer": st.nonTriv})
	verifh.Done(st.queries)
	if verifh.Violations() > 0 {
		t.Fail()
	}
}

func TestVerifC16Replay(t *testing.T) { c16Run(t, false) }

// ---------------------------------------------------------------- C18: sharded Select

// c18Trace collects the events validated against specs/postings/Trace_Shard.tla:
// the shard every series was observed in, and labels.StableHash of its label set in this build.
type c18Trace struct {
	mu     sync.Mutex
	tr     *verifh.Tracer
	lsets  map[string]labels.Labels
	hashed map[string]bool
}

var c18 *c18Trace

func (c *c18Trace) shard(ls labels.Labels, n, i uint64, src string) {
	c.mu.Lock()
	defer c.mu.Unlock()
	k := ls.String()
	if !c.hashed[k] {
		c.hashed[k] = true
		c.lsets[k] = ls.Copy()
		h := labels.StableHash(ls)
		c.tr.Event("hash", map[string]any{"ls": k, "tag": labels.ImplementationName, "p2": h >> 44, "p1": (h >> 22) & (1<<22 - 1), "p0": h & (1<<22 - 1)})
	}
	c.tr.Event("shard", map[string]any{"ls": k, "n": n, "i": i, "src": src})
}

// srcOf says where the samples of an abstract series live (head, block or both) given the head container.
func (w *c16World) srcOf(id string, phase int) string {
	head, block := false, false
	for _, p := range w.points[id] {
		if int((p-1)/2)+1 == phase {
			head = true
		} else {
			block = true
		}
	}
	switch {
	case head && block:
		return "both"
	case head:
		return "head"
	}
	return "block"
}

// shardQuery (C18): Select with SelectHints.ShardIndex/ShardCount for every shard of the count n.
// Strict: every shard answer is part of the unsharded answer, the shards are pairwise disjoint
// and their union is the unsharded answer (which is bounded like any Select). The shard each
// series falls into is recorded for Trace_Shard.tla (one hash function for all of them).
func (w *c16World) shardQuery(q c16Step, qi int, st *c16Stats) *c16Fail {
	ctx := context.Background()
	mint, maxt := w.conc.queryRange(1, 6, qi%4)
	run := func(src string) *c16Fail {
		qr, err := w.db.Querier(mint, maxt)
		if err != nil {
			return &c16Fail{"infra", "Querier: " + err.Error()}
		}
		defer qr.Close()
		sel := func(hints *storage.SelectHints) (map[string]labels.Labels, *c16Fail) {
			ms, err := w.conc.matchers(q.Ms)
			if err != nil {
				return nil, &c16Fail{"infra", err.Error()}
			}
			ss := qr.Select(ctx, qi%2 == 0, hints, ms...)
			res := map[string]labels.Labels{}
			for ss.Next() {
				ls := ss.At().Labels()
				if _, dup := res[ls.String()]; dup {
					return nil, &c16Fail{"shard-dup", "Select returned " + ls.String() + " twice"}
				}
				res[ls.String()] = ls.Copy()
			}
			if err := ss.Err(); err != nil {
				return nil, &c16Fail{"shard-error", "Select failed: " + err.Error()}
			}
			return res, nil
		}
		all, f := sel(&storage.SelectHints{Start: mint, End: maxt})
		if f != nil {
			return f
		}
		may, must := w.expandIDs(q.May), w.expandIDs(q.Must[0])
		for k := range all {
			if !may[k] {
				return &c16Fail{"select-extra", "unsharded Select returned " + k + " which does not satisfy the matchers"}
			}
		}
		for k := range must {
			if _, ok := all[k]; !ok {
				return &c16Fail{"select-missing", "unsharded Select misses " + k}
			}
		}
		seen := map[string]uint64{}
		for i := uint64(0); i < q.N; i++ {
			part, f := sel(&storage.SelectHints{Start: mint, End: maxt, ShardIndex: i, ShardCount: q.N})
			if f != nil {
				return f
			}
			st.mu.Lock()
			st.calls++
			st.mu.Unlock()
			for k, ls := range part {
				if _, ok := all[k]; !ok {
					return &c16Fail{"shard-extra", fmt.Sprintf("shard %d of %d returned %s which the unsharded Select does not return", i, q.N, k)}
				}
				if j, dup := seen[k]; dup {
					return &c16Fail{"shard-overlap", fmt.Sprintf("%s is in shard %d and in shard %d of %d", k, j, i, q.N)}
				}
				seen[k] = i
				s := src
				if s == "" {
					s = w.srcOf(w.keyID[k], w.phase)
				}
				c18.shard(ls, q.N, i, s)
			}
		}
		for k := range all {
			if _, ok := seen[k]; !ok {
				return &c16Fail{"shard-missing", fmt.Sprintf("%s is returned by the unsharded Select but by none of the %d shards", k, q.N)}
			}
		}
		return nil
	}
	if f := run(""); f != nil {
		return f
	}
	st.mu.Lock()
	st.queries++
	st.mu.Unlock()
	// across a restart: reopen the DB (the head is rebuilt from the WAL) for some of the queries
	if qi%7 == 0 && q.N > 1 {
		w.reopenMu.Lock()
		defer w.reopenMu.Unlock()
		if err := w.reopen(); err != nil {
			return &c16Fail{"infra", "reopen: " + err.Error()}
		}
		if f := run("reopen"); f != nil {
			f.msg = "after reopening the DB: " + f.msg
			return f
		}
	}
	return nil
}

func TestVerifC18Replay(t *testing.T) {
	tr, err := verifh.NewTracer(os.Getenv("VERIF_C18_TRACE"))
	if err != nil {
		verifh.Infra(err.Error())
		t.Fatal(err)
	}
	c18 = &c18Trace{tr: tr, lsets: map[string]labels.Labels{}, hashed: map[string]bool{}}
	c16Run(t, true)
	tr.Close()
	// the label sets seen, for the StableHash runs under the other build tags
	f, err := os.Create(os.Getenv("VERIF_C18_LSETS"))
	if err != nil {
		verifh.Infra(err.Error())
		t.Fatal(err)
	}
	defer f.Close()
	keys := make([]string, 0, len(c18.lsets))
	for k := range c18.lsets {
		keys = append(keys, k)
	}
	sort.Strings(keys)
	for _, k := range keys {
		var pairs []string
		c18.lsets[k].Range(func(l labels.Label) { pairs = append(pairs, l.Name, l.Value) })
		b, _ := jsonMarshal(map[string]any{"ls": k, "pairs": pairs})
		f.Write(append(b, '\n'))
	}
}

func jsonMarshal(v any) ([]byte, error) { return jsonStd.Marshal(v) }
