package tsdb_test

// C21 conformance harness: replays behaviours emitted by specs/exemplar/Ring.tla
// against the real tsdb.CircularExemplarStorage and compares, after every step,
// the strict observables the property fixes: AddExemplar / ValidateExemplar
// error class, the retained exemplars in acceptance order (IterateExemplars)
// and the per-series Select results (order and range filtering).

import (
	"context"
	"errors"
	"fmt"
	"math/rand"
	"os"
	"strings"
	"testing"

	"github.com/prometheus/prometheus/internal/verifh"
	"github.com/prometheus/prometheus/model/exemplar"
	"github.com/prometheus/prometheus/model/labels"
	"github.com/prometheus/prometheus/storage"
	"github.com/prometheus/prometheus/tsdb"
)

type c21Ex struct {
	S  string `json:"s"`
	Ts int64  `json:"ts"`
	V  int64  `json:"v"`
	L  string `json:"l"`
	H  bool   `json:"h"`
}

type c21Step struct {
	A        string             `json:"a"`
	Cap      int64              `json:"cap"`
	Win      int64              `json:"win"`
	E        c21Ex              `json:"e"`
	Val      string             `json:"val"`
	Ret      string             `json:"ret"`
	N        int64              `json:"n"`
	W        int64              `json:"w"`
	Migrated int                `json:"migrated"`
	Ring     []c21Ex            `json:"ring"`
	Lists    map[string][]c21Ex `json:"lists"`
}

type c21Conc struct {
	series map[string]labels.Labels
	la, lb labels.Labels // la hashes below lb
	long   labels.Labels
	tsBase int64
	tsMul  int64
	vals   map[int64]float64
}

func c21MakeConc(seed int64) c21Conc {
	r := rand.New(rand.NewSource(seed))
	c := c21Conc{series: map[string]labels.Labels{}}
	for _, s := range []string{"s1", "s2", "s3"} {
		c.series[s] = labels.FromStrings("__name__", "m_"+s, "k", fmt.Sprint(r.Intn(1000)))
	}
	a := labels.FromStrings("trace_id", fmt.Sprintf("a%d", r.Intn(1<<20)))
	b := labels.FromStrings("trace_id", fmt.Sprintf("b%d", r.Intn(1<<20)), "span", "x")
	if a.Hash() > b.Hash() {
		a, b = b, a
	}
	c.la, c.lb = a, b
	c.long = labels.FromStrings("trace_id", strings.Repeat("x", exemplar.ExemplarMaxLabelSetLength-len("trace_id")+1))
	// Time concretisation: order and adjacency preserved; base varies by seed and may be negative.
	bases := []int64{0, 1000, -50, 1 << 40, -(1 << 40)}
	c.tsBase = bases[int(seed)%len(bases)]
	c.tsMul = 1
	vs := [][]float64{{1, 2, 3}, {-1.5, 0, 2.25}, {0.1, 0.2, 0.3}}
	pick := vs[int(seed)%len(vs)]
	c.vals = map[int64]float64{1: pick[0], 2: pick[1], 3: pick[2]}
	return c
}

func (c c21Conc) ex(e c21Ex) exemplar.Exemplar {
	var l labels.Labels
	switch e.L {
	case "la":
		l = c.la
	case "lb":
		l = c.lb
	default:
		l = c.long
	}
	return exemplar.Exemplar{Labels: l, Value: c.vals[e.V], Ts: c.tsBase + e.Ts*c.tsMul, HasTs: e.H}
}

func c21ErrClass(err error) string {
	switch {
	case err == nil:
		return "ok"
	case errors.Is(err, storage.ErrExemplarsDisabled):
		return "disabled"
	case errors.Is(err, storage.ErrExemplarLabelLength):
		return "labellen"
	case errors.Is(err, storage.ErrOutOfOrderExemplar):
		return "ooo"
	case errors.Is(err, storage.ErrDuplicateExemplar):
		return "dup"
	}
	return "other:" + err.Error()
}

func c21Same(a exemplar.Exemplar, b exemplar.Exemplar) bool {
	return labels.Equal(a.Labels, b.Labels) && a.Ts == b.Ts && a.Value == b.Value && a.HasTs == b.HasTs
}

func c21Fmt(es []exemplar.Exemplar) string {
	var sb strings.Builder
	for _, e := range es {
		fmt.Fprintf(&sb, "(%s ts=%d v=%g h=%v)", e.Labels.String(), e.Ts, e.Value, e.HasTs)
	}
	return sb.String()
}

// c21Replay runs one behaviour; returns "" or a description of the first strict mismatch.
func c21Replay(b []c21Step, conc c21Conc) (step int, sig, msg string) {
	if len(b) == 0 || b[0].A != "Init" {
		return 0, "infra", "behaviour does not start with Init"
	}
	st, err := tsdb.NewCircularExemplarStorage(b[0].Cap, tsdb.NewExemplarMetrics(nil), b[0].Win)
	if err != nil {
		return 0, "infra", err.Error()
	}
	ces := st.(*tsdb.CircularExemplarStorage)
	for i := 1; i < len(b); i++ {
		s := b[i]
		switch s.A {
		case "Add":
			e := conc.ex(s.E)
			lset := conc.series[s.E.S]
			if got := c21ErrClass(ces.ValidateExemplar(lset, e)); got != s.Val {
				return i, "validate:" + s.Val + "->" + got, fmt.Sprintf("ValidateExemplar(%v) = %s, reference says %s", s.E, got, s.Val)
			}
			if got := c21ErrClass(ces.AddExemplar(lset, e)); got != s.Ret {
				return i, "add:" + s.Ret + "->" + got, fmt.Sprintf("AddExemplar(%v) = %s, reference says %s", s.E, got, s.Ret)
			}
		case "Resize":
			got := ces.Resize(s.N)
			if got != s.Migrated {
				verifh.Drift(fmt.Sprintf("Resize(%d) returned %d migrated, model %d", s.N, got, s.Migrated))
			}
		case "SetWin":
			ces.SetOutOfOrderTimeWindow(s.W)
		default:
			return i, "infra", "unknown action " + s.A
		}
		// retained exemplars in acceptance order
		var gotRing []exemplar.Exemplar
		var gotSeries []labels.Labels
		ces.IterateExemplars(func(l labels.Labels, e exemplar.Exemplar) error {
			gotRing = append(gotRing, e)
			gotSeries = append(gotSeries, l)
			return nil
		})
		var wantRing []exemplar.Exemplar
		for _, e := range s.Ring {
			wantRing = append(wantRing, conc.ex(e))
		}
		bad := len(gotRing) != len(wantRing)
		for j := 0; !bad && j < len(gotRing); j++ {
			if !c21Same(gotRing[j], wantRing[j]) || !labels.Equal(gotSeries[j], conc.series[s.Ring[j].S]) {
				bad = true
			}
		}
		if bad {
			return i, "retained", fmt.Sprintf("after %s: retained (acceptance order) = %s, reference = %s", s.A, c21Fmt(gotRing), c21Fmt(wantRing))
		}
		// Select over the full range and over every sub-range of the model time domain
		maxTs := int64(5)
		for lo := int64(0); lo <= maxTs; lo++ {
			for hi := lo; hi <= maxTs; hi++ {
				if lo != 0 || hi != maxTs {
					if (lo+hi+int64(i))%3 != 0 { // thin out sub-ranges, deterministic
						continue
					}
				}
				for name, lset := range conc.series {
					m := labels.MustNewMatcher(labels.MatchEqual, "__name__", lset.Get("__name__"))
					res, err := ces.Select(conc.tsBase+lo*conc.tsMul, conc.tsBase+hi*conc.tsMul, []*labels.Matcher{m})
					if err != nil {
						return i, "select-err", err.Error()
					}
					var want []exemplar.Exemplar
					for _, e := range s.Lists[name] {
						if e.Ts >= lo && e.Ts <= hi {
							want = append(want, conc.ex(e))
						}
					}
					var got []exemplar.Exemplar
					if len(res) > 1 {
						return i, "select-dupseries", fmt.Sprintf("Select returned %d results for one series", len(res))
					}
					if len(res) == 1 {
						got = res[0].Exemplars
						if !labels.Equal(res[0].SeriesLabels, lset) {
							return i, "select-labels", "Select returned wrong series labels"
						}
					}
					bad := len(got) != len(want)
					for j := 0; !bad && j < len(got); j++ {
						bad = !c21Same(got[j], want[j])
					}
					if bad {
						return i, "select", fmt.Sprintf("after %s: Select(%s,[%d,%d]) = %s, reference = %s", s.A, name, lo, hi, c21Fmt(got), c21Fmt(want))
					}
				}
			}
		}
		// all-series select must be sorted by series labels
		res, _ := ces.Select(conc.tsBase, conc.tsBase+maxTs*conc.tsMul, []*labels.Matcher{labels.MustNewMatcher(labels.MatchRegexp, "__name__", ".+")})
		for j := 1; j < len(res); j++ {
			if labels.Compare(res[j-1].SeriesLabels, res[j].SeriesLabels) >= 0 {
				return i, "select-order", "Select results not sorted by series labels"
			}
		}
	}
	return -1, "", ""
}

func TestVerifC21Replay(t *testing.T) {
	behs, err := verifh.ReadNDJSON[[]c21Step](verifh.In())
	if err != nil {
		verifh.Infra(err.Error())
		t.Fatal(err)
	}
	nconc := 2
	if !verifh.Quick() {
		nconc = 5
	}
	steps := 0
	for bi, b := range behs {
		for k := 0; k < nconc; k++ {
			conc := c21MakeConc(verifh.Seed() + int64(k))
			if i, sig, msg := c21Replay(b, conc); i >= 0 {
				if sig == "infra" {
					verifh.Infra(msg)
					t.Fatal(msg)
				}
				verifh.Violation(sig, fmt.Sprintf("behaviour %d step %d: %s", bi, i, msg), map[string]any{"behaviour": b, "step": i, "seed": verifh.Seed() + int64(k)})
				break
			}
		}
		steps += len(b) - 1
		if false {
			verifh.Sample(b)
		}
	}
	verifh.Stat(map[string]any{"steps_replayed": steps, "behaviours_replayed": len(behs)})
	verifh.Done(len(behs))
	if verifh.Violations() > 0 {
		t.Fail()
	}
	_ = os.Stdout
	_ = context.Background
}
