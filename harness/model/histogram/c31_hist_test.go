package histogram_test

// C31 conformance harness: replays behaviours emitted by specs/hist/Hist.tla
// (two-register machine over abstract histograms with integer counts) against
// the real model/histogram.FloatHistogram / Histogram methods.
//
// The spec is the oracle: every step carries the predicted registers after the
// step, the predicted DetectReset answers in both directions, and (PickB/Check
// steps) "what-if" predictions for Add/Sub/KahanAdd/ReduceResolution that are
// checked on copies. The harness only concretises (schema shift, index shift,
// real zero thresholds and custom bounds, count scale, span layout, counter
// reset hint, integer twin) and compares through the real bucket iterators.

import (
	"encoding/json"
	"errors"
	"fmt"
	"math"
	"math/rand"
	"runtime"
	"sort"
	"strings"
	"sync"
	"testing"

	"github.com/prometheus/prometheus/internal/verifh"
	"github.com/prometheus/prometheus/model/histogram"
)

const c31ZT0 = -1000

type c31J struct {
	Ty  string     `json:"ty"`
	K   string     `json:"k"`
	S   int32      `json:"s"`
	Zt  int64      `json:"zt"`
	Zc  int64      `json:"zc"`
	Cnt int64      `json:"cnt"`
	Sum int64      `json:"sum"`
	Cv  []int      `json:"cv"`
	P   [][2]int64 `json:"p"`
	N   [][2]int64 `json:"n"`
}

type c31Step struct {
	Op    string `json:"op"`
	Ld    string `json:"ld"`
	Smin  int32  `json:"smin"`
	Smax  int32  `json:"smax"`
	Cbinf int    `json:"cbinf"`

	R  *c31J `json:"R"`
	RA *c31J `json:"A"`
	RB *c31J `json:"B"`

	RAB string `json:"rAB"`
	RBA string `json:"rBA"`
	IAB string `json:"iAB"`
	IBA string `json:"iBA"`

	WAdd  json.RawMessage   `json:"wAdd"`
	WSub  json.RawMessage   `json:"wSub"`
	WAddI json.RawMessage   `json:"wAddI"`
	WSubI json.RawMessage   `json:"wSubI"`
	WKf   bool              `json:"wKf"`
	WRed  []json.RawMessage `json:"wRed"`

	Err  bool            `json:"err"`
	Kf   bool            `json:"kf"`
	Impl json.RawMessage `json:"impl"`
	T    int32           `json:"t"`
	M    int             `json:"m"`
}

func c31Opt(raw json.RawMessage) *c31J {
	if len(raw) == 0 || raw[0] != '{' {
		return nil
	}
	var j c31J
	if err := json.Unmarshal(raw, &j); err != nil {
		panic(err)
	}
	return &j
}

// ---------------------------------------------------------------- concretisation

type c31Conc struct {
	smin, smax int32 // model schema frame
	cbinf      int
	shift      int32 // real schema = model schema + shift
	off        int32 // index offset at the coarsest schema of the frame
	scale      int64 // count scale (exact in float64 and uint64)
	bounds     []float64
	style      int
	rnd        *rand.Rand
	bcache     map[[2]int32]float64
}

func c31NewConc(seed int64, init c31Step) *c31Conc {
	r := rand.New(rand.NewSource(seed))
	c := &c31Conc{smin: init.Smin, smax: init.Smax, cbinf: init.Cbinf, rnd: r, bcache: map[[2]int32]float64{}}
	// real schemas must stay within -4..8
	lo, hi := -4-int(c.smin), 8-int(c.smax)
	c.shift = int32(lo + r.Intn(hi-lo+1))
	offs := []int32{0, 0, 3, -7, 40, -50, 1, -1}
	c.off = offs[r.Intn(len(offs))]
	scales := []int64{1, 1, 3, 1024, 1000000007}
	c.scale = scales[r.Intn(len(scales))]
	bs := [][]float64{
		{1, 2, 5, 10, 25, 50},
		{-2.5, 0, 0.1, 7, 8, 1e9},
		{-100, -10, -1, -0.5, -0.25, -0.125},
		{0.005, 0.01, 0.025, 0.05, 0.1, 0.25},
	}
	c.bounds = bs[r.Intn(len(bs))]
	return c
}

func (c *c31Conc) schema(s int32) int32 {
	if s == histogram.CustomBucketsSchema {
		return s
	}
	return s + c.shift
}

// idx maps a model bucket index of model schema s to the real index.
func (c *c31Conc) idx(i int64, s int32) int32 {
	return int32(i) + c.off*(1<<uint(s-c.smin))
}

// bound returns the real upper bound of real bucket idx in real schema, taken from the real iterator.
func (c *c31Conc) bound(idx, schema int32) float64 {
	k := [2]int32{idx, schema}
	if v, ok := c.bcache[k]; ok {
		return v
	}
	h := &histogram.FloatHistogram{Schema: schema, PositiveSpans: []histogram.Span{{Offset: idx, Length: 1}}, PositiveBuckets: []float64{1}}
	it := h.PositiveBucketIterator()
	if !it.Next() {
		panic("no bucket")
	}
	v := it.At().Upper
	c.bcache[k] = v
	return v
}

// thr maps a model threshold (units of 2^-(smax+1) octaves, ZT0 = 0) to the real value.
func (c *c31Conc) thr(t int64) float64 {
	if t == c31ZT0 {
		return 0
	}
	fine := c.schema(c.smax)
	if t%2 == 0 {
		return c.bound(c.idx(t/2, c.smax), fine)
	}
	lo := c.bound(c.idx((t-1)/2, c.smax), fine)
	hi := c.bound(c.idx((t+1)/2, c.smax), fine)
	return math.Sqrt(lo) * math.Sqrt(hi) // strictly between: lo < hi are adjacent bounds
}

func (c *c31Conc) customValues(cv []int) []float64 {
	ids := append([]int(nil), cv...)
	sort.Ints(ids)
	out := make([]float64, 0, len(ids))
	for _, id := range ids {
		out = append(out, c.bounds[id-1])
	}
	return out
}

// cbPos maps a custom bucket key (bound id, cbinf = overflow) to its position for the bound set cv.
func (c *c31Conc) cbPos(key int64, cv []int) int32 {
	ids := append([]int(nil), cv...)
	sort.Ints(ids)
	if int(key) == c.cbinf {
		return int32(len(ids))
	}
	for p, id := range ids {
		if int64(id) == key {
			return int32(p)
		}
	}
	panic(fmt.Sprintf("custom bucket key %d not in %v", key, cv))
}

type c31Bucket struct {
	idx int32
	cnt int64
}

// layout turns populated buckets into (spans, per-position counts) in one of several styles.
func (c *c31Conc) layout(m map[int32]int64, custom bool, maxPos int32) ([]histogram.Span, []int64) {
	// styles: 0 minimal spans, 1 explicit empty buckets, 2 adjacent spans with offset 0,
	// 3 (rare) zero-length spans
	c.style = c.rnd.Intn(3)
	if c.rnd.Intn(10) == 0 {
		c.style = 3
	}
	var bs []c31Bucket
	for i, v := range m {
		bs = append(bs, c31Bucket{i, v})
	}
	sort.Slice(bs, func(a, b int) bool { return bs[a].idx < bs[b].idx })
	if len(bs) == 0 {
		if c.style == 3 && !custom {
			return []histogram.Span{{Offset: 2, Length: 0}}, nil
		}
		return nil, nil
	}
	// positions to materialise
	var pos []c31Bucket
	switch c.style {
	case 1: // explicit empty buckets in small gaps, and around the ends
		first, last := bs[0].idx, bs[len(bs)-1].idx
		if !custom || first > 0 {
			pos = append(pos, c31Bucket{first - 1, 0})
		}
		for k, b := range bs {
			if k > 0 {
				if gap := b.idx - bs[k-1].idx - 1; gap > 0 && gap <= 2 {
					for g := int32(1); g <= gap; g++ {
						pos = append(pos, c31Bucket{bs[k-1].idx + g, 0})
					}
				}
			}
			pos = append(pos, b)
		}
		if !custom || last < maxPos {
			pos = append(pos, c31Bucket{last + 1, 0})
		}
	default:
		pos = bs
	}
	var spans []histogram.Span
	var counts []int64
	next := int32(0) // index following the previous span (absolute for the first span)
	for k, b := range pos {
		contiguous := k > 0 && b.idx == pos[k-1].idx+1
		switch {
		case contiguous && c.style != 2:
			spans[len(spans)-1].Length++
		case contiguous: // style 2: adjacent spans with offset 0
			spans = append(spans, histogram.Span{Offset: 0, Length: 1})
		default:
			offv := b.idx - next
			if c.style == 3 && k > 0 && offv >= 2 {
				// split the gap with a zero-length span
				spans = append(spans, histogram.Span{Offset: 1, Length: 0})
				offv--
			}
			spans = append(spans, histogram.Span{Offset: offv, Length: 1})
		}
		next = b.idx + 1
		counts = append(counts, b.cnt)
	}
	return spans, counts
}

func (c *c31Conc) sides(j *c31J) (p, n map[int32]int64) {
	p, n = map[int32]int64{}, map[int32]int64{}
	for _, e := range j.P {
		if j.K == "cb" {
			p[c.cbPos(e[0], j.Cv)] = e[1]
		} else {
			p[c.idx(e[0], j.S)] = e[1]
		}
	}
	for _, e := range j.N {
		n[c.idx(e[0], j.S)] = e[1]
	}
	return p, n
}

func (c *c31Conc) hint() histogram.CounterResetHint {
	if c.rnd.Intn(3) == 0 {
		return histogram.GaugeType
	}
	return histogram.UnknownCounterReset
}

func (c *c31Conc) buildFloat(j *c31J) *histogram.FloatHistogram {
	h := &histogram.FloatHistogram{CounterResetHint: c.hint(), Count: float64(j.Cnt * c.scale), Sum: float64(j.Sum) * 0.5}
	p, n := c.sides(j)
	fl := func(v []int64) []float64 {
		if v == nil {
			return nil
		}
		o := make([]float64, len(v))
		for i, x := range v {
			o[i] = float64(x * c.scale)
		}
		return o
	}
	if j.K == "cb" {
		h.Schema = histogram.CustomBucketsSchema
		h.CustomValues = c.customValues(j.Cv)
		sp, cs := c.layout(p, true, int32(len(j.Cv)))
		h.PositiveSpans, h.PositiveBuckets = sp, fl(cs)
		return h
	}
	h.Schema = c.schema(j.S)
	h.ZeroThreshold = c.thr(j.Zt)
	h.ZeroCount = float64(j.Zc * c.scale)
	sp, cs := c.layout(p, false, 0)
	h.PositiveSpans, h.PositiveBuckets = sp, fl(cs)
	sp, cs = c.layout(n, false, 0)
	h.NegativeSpans, h.NegativeBuckets = sp, fl(cs)
	return h
}

func c31NonNeg(j *c31J) bool {
	if j.Zc < 0 || j.Cnt < 0 {
		return false
	}
	for _, e := range j.P {
		if e[1] < 0 {
			return false
		}
	}
	for _, e := range j.N {
		if e[1] < 0 {
			return false
		}
	}
	return true
}

func (c *c31Conc) buildInt(j *c31J) *histogram.Histogram {
	h := &histogram.Histogram{CounterResetHint: c.hint(), Count: uint64(j.Cnt * c.scale), Sum: float64(j.Sum) * 0.5}
	p, n := c.sides(j)
	delta := func(v []int64) []int64 {
		if v == nil {
			return nil
		}
		o := make([]int64, len(v))
		var prev int64
		for i, x := range v {
			o[i] = x*c.scale - prev
			prev = x * c.scale
		}
		return o
	}
	if j.K == "cb" {
		h.Schema = histogram.CustomBucketsSchema
		h.CustomValues = c.customValues(j.Cv)
		sp, cs := c.layout(p, true, int32(len(j.Cv)))
		h.PositiveSpans, h.PositiveBuckets = sp, delta(cs)
		return h
	}
	h.Schema = c.schema(j.S)
	h.ZeroThreshold = c.thr(j.Zt)
	h.ZeroCount = uint64(j.Zc * c.scale)
	sp, cs := c.layout(p, false, 0)
	h.PositiveSpans, h.PositiveBuckets = sp, delta(cs)
	sp, cs = c.layout(n, false, 0)
	h.NegativeSpans, h.NegativeBuckets = sp, delta(cs)
	return h
}

// ---------------------------------------------------------------- comparison

func c31CollectF(it histogram.BucketIterator[float64]) (map[int32]float64, string) {
	m := map[int32]float64{}
	for it.Next() {
		b := it.At()
		if _, dup := m[b.Index]; dup && b.Count != 0 {
			return nil, fmt.Sprintf("bucket index %d returned twice", b.Index)
		}
		if b.Count != 0 {
			m[b.Index] += b.Count
		}
	}
	return m, ""
}

func c31CollectI(it histogram.BucketIterator[uint64]) (map[int32]float64, string) {
	m := map[int32]float64{}
	for it.Next() {
		b := it.At()
		if _, dup := m[b.Index]; dup && b.Count != 0 {
			return nil, fmt.Sprintf("bucket index %d returned twice", b.Index)
		}
		if b.Count != 0 {
			m[b.Index] += float64(b.Count)
		}
	}
	return m, ""
}

func c31CmpSide(name string, got map[int32]float64, want map[int32]int64, scale int64) string {
	for i, w := range want {
		if got[i] != float64(w*scale) {
			return fmt.Sprintf("%s bucket %d = %v, reference %v", name, i, got[i], float64(w*scale))
		}
	}
	for i, g := range got {
		if _, ok := want[i]; !ok && g != 0 {
			return fmt.Sprintf("%s bucket %d = %v, reference has none", name, i, g)
		}
	}
	return ""
}

func c31EqF(a, b []float64) bool {
	if len(a) != len(b) {
		return false
	}
	for i := range a {
		if a[i] != b[i] {
			return false
		}
	}
	return true
}

// cmpFloat returns "" when the real float histogram has exactly the predicted bucket semantics.
func (c *c31Conc) cmpFloat(h *histogram.FloatHistogram, j *c31J) string {
	if h.Schema != c.schema(j.S) {
		return fmt.Sprintf("schema = %d, reference %d", h.Schema, c.schema(j.S))
	}
	if h.Count != float64(j.Cnt*c.scale) {
		return fmt.Sprintf("count = %v, reference %v", h.Count, float64(j.Cnt*c.scale))
	}
	if h.Sum != float64(j.Sum)*0.5 {
		return fmt.Sprintf("sum = %v, reference %v", h.Sum, float64(j.Sum)*0.5)
	}
	if j.K == "cb" {
		if !c31EqF(h.CustomValues, c.customValues(j.Cv)) {
			return fmt.Sprintf("custom bounds = %v, reference %v", h.CustomValues, c.customValues(j.Cv))
		}
		if h.ZeroCount != 0 || h.ZeroThreshold != 0 || len(h.NegativeBuckets) != 0 {
			return "custom bucket histogram with zero bucket or negative buckets"
		}
	} else {
		if h.ZeroThreshold != c.thr(j.Zt) {
			return fmt.Sprintf("zero threshold = %v, reference %v", h.ZeroThreshold, c.thr(j.Zt))
		}
		if h.ZeroCount != float64(j.Zc*c.scale) {
			return fmt.Sprintf("zero count = %v, reference %v", h.ZeroCount, float64(j.Zc*c.scale))
		}
	}
	wp, wn := c.sides(j)
	gp, e := c31CollectF(h.PositiveBucketIterator())
	if e != "" {
		return e
	}
	if d := c31CmpSide("positive", gp, wp, c.scale); d != "" {
		return d
	}
	gn, e := c31CollectF(h.NegativeBucketIterator())
	if e != "" {
		return e
	}
	return c31CmpSide("negative", gn, wn, c.scale)
}

func (c *c31Conc) cmpInt(h *histogram.Histogram, j *c31J) string {
	if h.Schema != c.schema(j.S) {
		return fmt.Sprintf("schema = %d, reference %d", h.Schema, c.schema(j.S))
	}
	if h.Count != uint64(j.Cnt*c.scale) {
		return fmt.Sprintf("count = %v, reference %v", h.Count, j.Cnt*c.scale)
	}
	if h.Sum != float64(j.Sum)*0.5 {
		return fmt.Sprintf("sum = %v, reference %v", h.Sum, float64(j.Sum)*0.5)
	}
	if j.K == "cb" {
		if !c31EqF(h.CustomValues, c.customValues(j.Cv)) {
			return fmt.Sprintf("custom bounds = %v, reference %v", h.CustomValues, c.customValues(j.Cv))
		}
	} else {
		if h.ZeroThreshold != c.thr(j.Zt) {
			return fmt.Sprintf("zero threshold = %v, reference %v", h.ZeroThreshold, c.thr(j.Zt))
		}
		if h.ZeroCount != uint64(j.Zc*c.scale) {
			return fmt.Sprintf("zero count = %v, reference %v", h.ZeroCount, j.Zc*c.scale)
		}
	}
	wp, wn := c.sides(j)
	gp, e := c31CollectI(h.PositiveBucketIterator())
	if e != "" {
		return e
	}
	if d := c31CmpSide("positive", gp, wp, c.scale); d != "" {
		return d
	}
	gn, e := c31CollectI(h.NegativeBucketIterator())
	if e != "" {
		return e
	}
	return c31CmpSide("negative", gn, wn, c.scale)
}

// ---------------------------------------------------------------- replay

type c31Reg struct {
	f *histogram.FloatHistogram
	i *histogram.Histogram
}

func (r c31Reg) float() *histogram.FloatHistogram {
	if r.f != nil {
		return r.f
	}
	return r.i.ToFloat(nil)
}

func (r c31Reg) String() string {
	if r.f != nil {
		return fmt.Sprintf("float{schema:%d zt:%g zc:%g count:%g pspans:%v pb:%v nspans:%v nb:%v cv:%v}", r.f.Schema, r.f.ZeroThreshold, r.f.ZeroCount, r.f.Count, r.f.PositiveSpans, r.f.PositiveBuckets, r.f.NegativeSpans, r.f.NegativeBuckets, r.f.CustomValues)
	}
	return fmt.Sprintf("int{schema:%d zt:%g zc:%d count:%d pspans:%v pb:%v nspans:%v nb:%v cv:%v}", r.i.Schema, r.i.ZeroThreshold, r.i.ZeroCount, r.i.Count, r.i.PositiveSpans, r.i.PositiveBuckets, r.i.NegativeSpans, r.i.NegativeBuckets, r.i.CustomValues)
}

func (c *c31Conc) build(j *c31J) c31Reg {
	if j.Ty == "int" {
		return c31Reg{i: c.buildInt(j)}
	}
	return c31Reg{f: c.buildFloat(j)}
}

func (c *c31Conc) cmp(r c31Reg, j *c31J) string {
	if (j.Ty == "int") != (r.i != nil) {
		return "representation (integer/float) differs from the reference"
	}
	if r.i != nil {
		return c.cmpInt(r.i, j)
	}
	return c.cmpFloat(r.f, j)
}

type c31Fail struct {
	sig, msg string
	step     int
}

type c31Run struct {
	c    *c31Conc
	A, B c31Reg
	fail []c31Fail
	i    int
	stat map[string]int
}

func (r *c31Run) violation(sig, format string, a ...any) {
	r.fail = append(r.fail, c31Fail{sig: sig, msg: fmt.Sprintf(format, a...), step: r.i})
}

// fatal: a violation after which the real registers no longer follow the model.
func (r *c31Run) hard() bool {
	for _, f := range r.fail {
		if !strings.HasPrefix(f.sig, "KF") {
			return true
		}
	}
	return false
}

// arith checks one of Add/Sub/KahanAdd on the given receiver (which is modified) against want;
// returns the receiver value to compare in the KahanAdd case.
func (r *c31Run) arith(op string, recv, other *histogram.FloatHistogram, want, impl *c31J, kf, wantErr bool, what string) {
	saved := other.Copy()
	var err error
	var val, comp *histogram.FloatHistogram
	before := c31Reg{f: recv.Copy()}
	if p := func() (p any) {
		defer func() { p = recover() }()
		switch op {
		case "Add":
			val, _, _, err = recv.Add(other)
		case "Sub":
			val, _, _, err = recv.Sub(other)
		case "KAdd":
			comp, _, _, err = recv.KahanAdd(other, nil)
		}
		return nil
	}(); p != nil {
		buf := make([]byte, 2048)
		buf = buf[:runtime.Stack(buf, false)]
		r.violation("panic", "%s: panic: %v; receiver %s other %s\n%s", what, p, before, c31Reg{f: other}, buf)
		return
	}
	switch op {
	case "KAdd":
		if err == nil {
			// value = receiver + compensation (same layout)
			val = recv.Copy()
			if len(comp.PositiveBuckets) != len(val.PositiveBuckets) || len(comp.NegativeBuckets) != len(val.NegativeBuckets) {
				r.violation("kadd-layout", "%s: compensation histogram has a different layout than the sum", what)
				return
			}
			nonzero := comp.ZeroCount != 0 || comp.Count != 0 || comp.Sum != 0
			for k := range comp.PositiveBuckets {
				val.PositiveBuckets[k] += comp.PositiveBuckets[k]
				nonzero = nonzero || comp.PositiveBuckets[k] != 0
			}
			for k := range comp.NegativeBuckets {
				val.NegativeBuckets[k] += comp.NegativeBuckets[k]
				nonzero = nonzero || comp.NegativeBuckets[k] != 0
			}
			val.ZeroCount += comp.ZeroCount
			val.Count += comp.Count
			val.Sum += comp.Sum
			if nonzero {
				verifh.Drift(what + ": non-zero Kahan compensation on exactly representable integer counts")
			}
		}
	}
	r.stat[op]++
	if wantErr {
		if !errors.Is(err, histogram.ErrHistogramsIncompatibleSchema) {
			r.violation("arith-err", "%s: mixing exponential and custom buckets returned %v, reference says ErrHistogramsIncompatibleSchema", what, err)
		}
		return
	}
	if err != nil {
		r.violation("arith-err", "%s: unexpected error %v", what, err)
		return
	}
	if !other.Equals(saved) || other.CounterResetHint != saved.CounterResetHint {
		r.violation("other-mutated", "%s: the other operand was modified", what)
	}
	if d := r.c.cmpFloat(val, want); d != "" {
		if kf && impl != nil && r.c.cmpFloat(val, impl) == "" {
			r.violation("KF1:zero-straddle-double-count", "%s: %s (buckets of the finer operand below the common zero threshold are counted in the zero bucket and again in the merged bucket); result %s", what, d, c31Reg{f: val})
			return
		}
		r.violation(strings.ToLower(op), "%s: %s; result %s", what, d, c31Reg{f: val})
	}
}

func (r *c31Run) reset(cur, prev c31Reg, want, impl, what string) {
	if want == "na" || want == "" {
		return
	}
	c, p := cur.float(), prev.float()
	for _, hint := range []histogram.CounterResetHint{histogram.UnknownCounterReset, histogram.GaugeType} {
		cc := c.Copy()
		cc.CounterResetHint = hint
		pc := p.Copy()
		got := "no"
		if cc.DetectReset(p) {
			got = "reset"
		}
		r.stat["DetectReset"]++
		if !p.Equals(pc) {
			r.violation("prev-mutated", "%s: DetectReset modified the previous histogram", what)
		}
		if got != want {
			if impl != "" && got == impl {
				r.violation("KF2:zero-straddle-false-reset", "%s: DetectReset = %s, reference %s (previous buckets below the current zero threshold are compared again inside the merged bucket); cur %s prev %s", what, got, want, cur, prev)
				return
			}
			r.violation("reset:"+want+"->"+got, "%s: DetectReset = %s, reference %s; cur %s prev %s", what, got, want, cur, prev)
			return
		}
	}
}

func (r *c31Run) copyA() *histogram.FloatHistogram { return r.A.f.Copy() }

// identities checks the representation independent predictions on copies of a register:
// Compact never changes a bucket total, ToFloat preserves every count.
func (r *c31Run) identities(reg c31Reg, j *c31J, name string) {
	for _, m := range []int{0, 1, 2, 3} {
		r.stat["Compact"]++
		if reg.f != nil {
			h := reg.f.Copy().Compact(m)
			if d := r.c.cmpFloat(h, j); d != "" {
				r.violation("compact", "%s.Compact(%d): %s; before %s after %s", name, m, d, reg, c31Reg{f: h})
				return
			}
			if err := h.Validate(); err != nil && c31NonNeg(j) {
				r.violation("compact-invalid", "%s.Compact(%d) produced an invalid histogram: %v", name, m, err)
				return
			}
		} else {
			h := reg.i.Copy().Compact(m)
			if d := r.c.cmpInt(h, j); d != "" {
				r.violation("compact-int", "%s.Compact(%d): %s; before %s after %s", name, m, d, reg, c31Reg{i: h})
				return
			}
		}
	}
	if reg.i != nil {
		r.stat["ToFloat"]++
		saved := reg.i.Copy()
		jf := *j
		jf.Ty = "float"
		for _, reuse := range []*histogram.FloatHistogram{nil, r.c.buildFloat(j), {PositiveSpans: make([]histogram.Span, 9), NegativeBuckets: make([]float64, 7), CustomValues: []float64{1}}} {
			fh := reg.i.ToFloat(reuse)
			if d := r.c.cmpFloat(fh, &jf); d != "" {
				r.violation("tofloat", "%s.ToFloat: %s; int %s float %s", name, d, reg, c31Reg{f: fh})
				return
			}
		}
		if !reg.i.Equals(saved) {
			r.violation("tofloat-mutated", "%s.ToFloat modified the integer histogram", name)
		}
	}
}

func (r *c31Run) reduceWhatIf(reg c31Reg, t int32, want *c31J, name string) {
	rt := r.c.schema(t)
	r.stat["Reduce"]++
	if reg.f != nil {
		h := reg.f.Copy()
		if err := h.ReduceResolution(rt); err != nil {
			r.violation("reduce-err", "%s.ReduceResolution(%d): %v", name, rt, err)
			return
		}
		if d := r.c.cmpFloat(h, want); d != "" {
			r.violation("reduce", "%s.ReduceResolution(%d): %s; before %s after %s", name, rt, d, reg, c31Reg{f: h})
			return
		}
		saved := reg.f.Copy()
		h2 := reg.f.CopyToSchema(rt)
		if d := r.c.cmpFloat(h2, want); d != "" {
			r.violation("copytoschema", "%s.CopyToSchema(%d): %s; before %s after %s", name, rt, d, reg, c31Reg{f: h2})
		}
		if !reg.f.Equals(saved) {
			r.violation("copytoschema-mutated", "%s.CopyToSchema(%d) modified its receiver", name, rt)
		}
		return
	}
	h := reg.i.Copy()
	if err := h.ReduceResolution(rt); err != nil {
		r.violation("reduce-err", "%s.ReduceResolution(%d): %v", name, rt, err)
		return
	}
	wi := *want
	wi.Ty = "int"
	if d := r.c.cmpInt(h, &wi); d != "" {
		r.violation("reduce-int", "%s.ReduceResolution(%d): %s; before %s after %s", name, rt, d, reg, c31Reg{i: h})
	}
}

// twin: the same abstract histogram in the other representation (integer <-> float), used for the
// representation independent predictions only.
func (r *c31Run) twin(j *c31J) (c31Reg, *c31J, bool) {
	if !c31NonNeg(j) {
		return c31Reg{}, nil, false
	}
	t := *j
	if j.Ty == "int" {
		t.Ty = "float"
	} else {
		t.Ty = "int"
	}
	return r.c.build(&t), &t, true
}

func (r *c31Run) step(s c31Step) {
	c := r.c
	switch {
	case s.Op == "Init":
		return
	case s.Ld != "":
		// construction: (re)build the named registers from the carried state
		if s.R != nil {
			if s.Ld == "A" {
				r.A = c.build(s.R)
			} else {
				r.B = c.build(s.R)
			}
			reg, j := r.A, s.R
			if s.Ld == "B" {
				reg = r.B
			}
			if d := c.cmp(reg, j); d != "" {
				r.violation("infra", "harness construction does not read back: %s (%s)", d, reg)
			}
			return
		}
		r.A, r.B = c.build(s.RA), c.build(s.RB)
		if r.A.f != nil && c31NonNeg(s.RA) {
			if err := r.A.f.Validate(); err != nil {
				r.violation("infra", "constructed input is invalid: %v (%s)", err, r.A)
			}
		}
	default:
		switch s.Op {
		case "Add", "Sub", "KAdd":
			before := r.A.f.Copy()
			r.arith(s.Op, r.A.f, r.B.f, s.RA, c31Opt(s.Impl), s.Kf, s.Err, "A."+s.Op+"(B)")
			if s.Op == "KAdd" && !s.Err && !r.hard() {
				// the receiver alone carries the sum when the compensation is zero (integers)
			}
			if s.Err {
				if !r.A.f.Equals(before) {
					r.violation("arith-err-mutated", "A.%s(B) returned an error but modified the receiver", s.Op)
				}
			}
			for _, f := range r.fail {
				if (strings.HasPrefix(f.sig, "KF1") || strings.HasPrefix(f.sig, "KF3")) && f.step == r.i {
					// known divergence: resynchronise the receiver with the reference
					r.A = c.build(s.RA)
				}
			}
		case "Reduce":
			rt := c.schema(s.T)
			var err error
			if r.A.f != nil {
				err = r.A.f.ReduceResolution(rt)
			} else {
				err = r.A.i.ReduceResolution(rt)
			}
			r.stat["Reduce"]++
			if s.Err != (err != nil) {
				r.violation("reduce-err", "A.ReduceResolution(%d) error = %v, reference expects error: %v", rt, err, s.Err)
			}
		case "Compact":
			if r.A.f != nil {
				r.A.f.Compact(s.M)
			} else {
				r.A.i.Compact(s.M)
			}
			r.stat["Compact"]++
		case "ToFloat":
			r.A = c31Reg{f: r.A.i.ToFloat(nil)}
			r.stat["ToFloat"]++
		case "Swap":
			r.A, r.B = r.B, r.A
		case "PickB", "Check":
		default:
			r.violation("infra", "unknown action %s", s.Op)
			return
		}
	}
	if r.hard() {
		return
	}
	// the registers after the step
	if d := c.cmp(r.A, s.RA); d != "" {
		r.violation("state:"+strings.ToLower(s.Op), "after %s: register A: %s; real %s", s.Op, d, r.A)
		return
	}
	if d := c.cmp(r.B, s.RB); d != "" {
		r.violation("state-other:"+strings.ToLower(s.Op), "after %s: register B (not an operand that may change): %s; real %s", s.Op, d, r.B)
		return
	}
	// DetectReset both ways
	r.reset(r.A, r.B, s.RAB, s.IAB, "A.DetectReset(B) after "+s.Op)
	r.reset(r.B, r.A, s.RBA, s.IBA, "B.DetectReset(A) after "+s.Op)
	if s.Op != "PickB" && s.Op != "Check" {
		return
	}
	// what-if predictions on copies
	if w := c31Opt(s.WAdd); w != nil {
		for _, op := range []string{"Add", "KAdd"} {
			r.arith(op, r.copyA(), r.B.f, w, c31Opt(s.WAddI), s.WKf, false, "copy(A)."+op+"(B)")
		}
		// chained Kahan summation with a carried compensation histogram: (A + B) + B - B = A + B
		a := r.copyA()
		if comp, _, _, err := a.KahanAdd(r.B.f, nil); err == nil && !s.WKf {
			if _, _, _, err2 := a.KahanAdd(r.B.f, comp); err2 != nil {
				r.violation("kadd-chain", "second KahanAdd failed: %v", err2)
			}
		}
	}
	if w := c31Opt(s.WSub); w != nil {
		r.arith("Sub", r.copyA(), r.B.f, w, c31Opt(s.WSubI), s.WKf, false, "copy(A).Sub(B)")
	}
	for _, raw := range s.WRed {
		var pair []json.RawMessage
		if err := json.Unmarshal(raw, &pair); err != nil || len(pair) != 2 {
			r.violation("infra", "bad wRed entry")
			return
		}
		var t int32
		json.Unmarshal(pair[0], &t)
		w := c31Opt(pair[1])
		r.reduceWhatIf(r.A, t, w, "copy(A)")
		if tw, _, ok := r.twin(s.RA); ok {
			r.reduceWhatIf(tw, t, w, "twin(A)")
		}
	}
	r.identities(r.A, s.RA, "copy(A)")
	r.identities(r.B, s.RB, "copy(B)")
	if tw, tj, ok := r.twin(s.RA); ok {
		r.identities(tw, tj, "twin(A)")
	}
}

func c31Replay(b []c31Step, seed int64) (fails []c31Fail, stat map[string]int) {
	r := &c31Run{stat: map[string]int{}}
	defer func() {
		if p := recover(); p != nil {
			buf := make([]byte, 4096)
			buf = buf[:runtime.Stack(buf, false)]
			r.violation("panic", "panic: %v\n%s", p, buf)
			fails, stat = r.fail, r.stat
		}
	}()
	if len(b) == 0 || b[0].Op != "Init" {
		return []c31Fail{{sig: "infra", msg: "behaviour does not start with Init"}}, nil
	}
	r.c = c31NewConc(seed, b[0])
	for i, s := range b {
		r.i = i
		r.step(s)
		if r.hard() {
			break
		}
	}
	return r.fail, r.stat
}

func TestVerifC31Replay(t *testing.T) {
	behs, err := verifh.ReadNDJSON[[]c31Step](verifh.In())
	if err != nil {
		verifh.Infra(err.Error())
		t.Fatal(err)
	}
	nconc := 2
	if !verifh.Quick() {
		nconc = 4
	}
	var mu sync.Mutex
	total := map[string]int{}
	steps := 0
	kf := map[string]int{}
	var wg sync.WaitGroup
	sem := make(chan struct{}, runtime.GOMAXPROCS(0))
	for bi := range behs {
		wg.Add(1)
		sem <- struct{}{}
		go func(bi int) {
			defer wg.Done()
			defer func() { <-sem }()
			b := behs[bi]
			for k := 0; k < nconc; k++ {
				seed := verifh.Seed()*1000003 + int64(bi)*7 + int64(k)
				fails, stat := c31Replay(b, seed)
				mu.Lock()
				for n, v := range stat {
					total[n] += v
				}
				steps += len(b) - 1
				stop := false
				for _, f := range fails {
					if f.sig == "infra" {
						verifh.Infra(f.msg)
						stop = true
						continue
					}
					if strings.HasPrefix(f.sig, "KF") {
						kf[f.sig]++
						if kf[f.sig] > 3 {
							continue
						}
					} else {
						stop = true
					}
					verifh.Violation(f.sig, fmt.Sprintf("behaviour %d step %d: %s", bi, f.step, f.msg), map[string]any{"behaviour": b, "step": f.step, "seed": seed})
				}
				mu.Unlock()
				if stop {
					break
				}
			}
		}(bi)
	}
	wg.Wait()
	st := map[string]any{"steps_replayed": steps, "behaviours_replayed": len(behs)}
	for n, v := range total {
		st["calls_"+n] = v
	}
	for n, v := range kf {
		st["known_"+n] = v
	}
	verifh.Stat(st)
	verifh.Done(len(behs))
	if verifh.Violations() > 0 {
		t.Fail()
	}
}
