package labels_test

// C39 conformance harness: replays behaviours of specs/labels/Labels.tla (constructor, Builder,
// ScratchBuilder, Copy and symbol-table rebuild operations on a few Labels variables) against the
// labels implementation selected by the build tags, and compares after every step the content of
// every variable (Range) and at the end every observer (Len, IsEmpty, Get, Has, Map, String,
// Equal, Compare, Hash/Bytes equivalence, WithoutEmpty, HasDuplicateLabelNames, Copy) with the
// values the specification predicts. The same file runs under -tags verif (stringlabels),
// verif,slicelabels and verif,dedupelabels.

import (
	"bytes"
	"crypto/sha1"
	jsonStd "encoding/json"
	"encoding/hex"
	"fmt"
	"os"
	"sort"
	"strconv"
	"strings"
	"testing"

	"github.com/prometheus/prometheus/internal/verifh"
	"github.com/prometheus/prometheus/model/labels"
)

type c39Pair struct {
	N string `json:"n"`
	V string `json:"v"`
}

type c39Args struct {
	In   []c39Pair `json:"in"`
	To   int       `json:"to"`
	From int       `json:"from"`
	Slot int       `json:"slot"`
	N    string    `json:"n"`
	V    string    `json:"v"`
	Ns   []string  `json:"ns"`
	Ret  any       `json:"ret"`
}

type c39Step struct {
	A     string      `json:"a"`
	Args  c39ArgsOrNo `json:"args"`
	Slots [][]c39Pair `json:"slots"`
}

// args is a record, or the empty tuple [] for operations without arguments
type c39ArgsOrNo struct{ c39Args }

func (a *c39ArgsOrNo) UnmarshalJSON(b []byte) error {
	if len(b) > 0 && b[0] == '[' {
		return nil
	}
	return jsonUnmarshal(b, &a.c39Args)
}

type c39Obs struct {
	Wf      []bool              `json:"wf"`
	Get     []map[string]string `json:"get"`
	Has     [][]string          `json:"has"`
	Cmp     [][]int             `json:"cmp"`
	NoEmpty [][]c39Pair         `json:"noempty"`
	Dup     []bool              `json:"dup"`
}

type c39Beh struct {
	H   []c39Step `json:"h"`
	Obs c39Obs    `json:"obs"`
}

// ---- concretisation

type c39Conc struct {
	names  map[string]string
	vals   map[string]string
	fill   int // symbols pre-loaded into the symbol tables (only matters for dedupelabels)
	tables [2]*labels.SymbolTable
	next   int
}

var c39Concs = map[int]*c39Conc{}

func c39MakeConc(k int) *c39Conc {
	k %= 144
	if c, ok := c39Concs[k]; ok {
		return c
	}
	namePools := [][3]string{
		{"a", "b", "c"},
		{"__name__", "job", "zone"},
		{"n", "n" + strings.Repeat("m", 300), "o"},
		{"A", "_", "é"},
	}
	np := namePools[k%len(namePools)]
	pads := []int{254, 255, 256, 1100, 3, 70000}
	pad := pads[(k/2)%len(pads)]
	type vp struct{ x, y, p string }
	vps := []vp{{"x", "y", "z"}, {"1", "2", "9"}, {"é", "ñ", "ü"}, {strings.Repeat("q", 253), strings.Repeat("q", 253) + "r", "z"}}
	v := vps[(k/3)%len(vps)]
	c := &c39Conc{
		names: map[string]string{"a": np[0], "b": np[1], "c": np[2]},
		vals: map[string]string{"": "", "x": v.x, "y": v.y,
			"Lx": strings.Repeat(v.p, pad) + v.x, "Ly": strings.Repeat(v.p, pad) + v.y},
		fill: []int{0, 0, 1023, 130, 1025, 33000}[k%6],
	}
	c39Concs[k] = c
	return c
}

func (c *c39Conc) pairs(ps []c39Pair) []labels.Label {
	res := make([]labels.Label, 0, len(ps))
	for _, p := range ps {
		res = append(res, labels.Label{Name: c.names[p.N], Value: c.vals[p.V]})
	}
	return res
}

// newTable hands out one of two long-lived symbol tables in turn (a symbol table is shared by all
// label sets of a Head; Rebuild moves a label set to the other one).
func (c *c39Conc) newTable() *labels.SymbolTable {
	c.next = 1 - c.next
	if c.tables[c.next] != nil {
		return c.tables[c.next]
	}
	st := labels.NewSymbolTable()
	c.tables[c.next] = st
	if c.fill > 0 && labels.ImplementationName == "dedupelabels" {
		sb := labels.NewScratchBuilderWithSymbolTable(st, 0)
		for i := 0; i < c.fill; i++ {
			sb.Add("fill_"+strconv.Itoa(i), "")
			if i%100 == 99 {
				sb.Labels()
				sb.Reset()
			}
		}
		sb.Labels()
	}
	return st
}

func c39List(ls labels.Labels) []labels.Label {
	var res []labels.Label
	ls.Range(func(l labels.Label) { res = append(res, labels.Label{Name: strings.Clone(l.Name), Value: strings.Clone(l.Value)}) })
	return res
}

func c39Short(s string) string {
	if len(s) > 24 {
		return fmt.Sprintf("%s…(%d)", s[:12], len(s))
	}
	return s
}

func c39Fmt(ls []labels.Label) string {
	var sb strings.Builder
	sb.WriteString("[")
	for i, l := range ls {
		if i > 0 {
			sb.WriteString(" ")
		}
		sb.WriteString(c39Short(l.Name) + "=" + strconv.Quote(c39Short(l.Value)))
	}
	sb.WriteString("]")
	return sb.String()
}

func c39SameList(a, b []labels.Label) bool {
	if len(a) != len(b) {
		return false
	}
	for i := range a {
		if a[i] != b[i] {
			return false
		}
	}
	return true
}

type c39Fail struct {
	sig, msg string
	drift    bool
}

func sign(x int) int {
	switch {
	case x < 0:
		return -1
	case x > 0:
		return 1
	}
	return 0
}

// c39Replay runs one behaviour; digest collects the observations that are compared across the
// three implementations only (lists that are not maps).
func c39Replay(b c39Beh, conc *c39Conc, digest *strings.Builder) *c39Fail {
	if len(b.H) == 0 || b.H[0].A != "Init" {
		return &c39Fail{sig: "infra", msg: "behaviour does not start with Init"}
	}
	nslots := len(b.H[0].Slots)
	slots := make([]labels.Labels, nslots)
	for i := range slots {
		slots[i] = labels.EmptyLabels()
	}
	ow := nslots - 1
	tab := conc.newTable()
	bld := labels.NewBuilderWithSymbolTable(tab)
	bld.Reset(labels.EmptyLabels())
	sb := labels.NewScratchBuilderWithSymbolTable(tab, 2)
	for si := 1; si < len(b.H); si++ {
		s := b.H[si]
		a := s.Args
		switch s.A {
		case "FromStrings":
			var ss []string
			for _, p := range conc.pairs(a.In) {
				ss = append(ss, p.Name, p.Value)
			}
			slots[a.To-1] = labels.FromStrings(ss...)
		case "FromMap":
			m := map[string]string{}
			for _, p := range conc.pairs(a.In) {
				m[p.Name] = p.Value
			}
			slots[a.To-1] = labels.FromMap(m)
		case "New":
			slots[a.To-1] = labels.New(conc.pairs(a.In)...)
		case "Copy":
			slots[a.To-1] = slots[a.From-1].Copy()
		case "Rebuild":
			st := conc.newTable()
			rb := labels.NewScratchBuilderWithSymbolTable(st, 0)
			slots[a.Slot-1].Range(func(l labels.Label) { rb.Add(l.Name, l.Value) })
			slots[a.Slot-1] = rb.Labels()
		case "BReset":
			bld.Reset(slots[a.From-1])
		case "BSet":
			bld.Set(conc.names[a.N], conc.vals[a.V])
		case "BDel":
			bld.Del(conc.names[a.N])
		case "BKeep":
			var ns []string
			for _, n := range a.Ns {
				ns = append(ns, conc.names[n])
			}
			bld.Keep(ns...)
		case "BGet":
			want, _ := a.Ret.(string)
			if got := bld.Get(conc.names[a.N]); got != conc.vals[want] {
				return &c39Fail{sig: "builder-get", msg: fmt.Sprintf("step %d: Builder.Get(%s) = %q, reference says %q", si, conc.names[a.N], c39Short(got), c39Short(conc.vals[want]))}
			}
		case "BRange":
			var got []labels.Label
			bld.Range(func(l labels.Label) { got = append(got, l) })
			var wantP []c39Pair
			if err := reJSON(a.Ret, &wantP); err != nil {
				return &c39Fail{sig: "infra", msg: err.Error()}
			}
			want := conc.pairs(wantP)
			if !c39SameList(got, want) {
				gs, ws := append([]labels.Label{}, got...), append([]labels.Label{}, want...)
				sort.Slice(gs, func(i, j int) bool { return gs[i].Name < gs[j].Name })
				sort.Slice(ws, func(i, j int) bool { return ws[i].Name < ws[j].Name })
				if !c39SameList(gs, ws) {
					return &c39Fail{sig: "builder-range", msg: fmt.Sprintf("step %d: Builder.Range yields %s, reference says %s", si, c39Fmt(got), c39Fmt(want))}
				}
				verifh.Drift(fmt.Sprintf("Builder.Range order %s, model %s", c39Fmt(got), c39Fmt(want)))
			}
		case "BLabels":
			slots[a.To-1] = bld.Labels()
		case "SReset":
			sb.Reset()
		case "SAdd":
			sb.Add(conc.names[a.N], conc.vals[a.V])
		case "SSort":
			sb.Sort()
		case "SAssign":
			sb.Assign(slots[a.From-1])
		case "SLabels":
			slots[a.To-1] = sb.Labels()
		case "SOverwrite":
			sb.Overwrite(&slots[ow])
		default:
			return &c39Fail{sig: "infra", msg: "unknown operation " + s.A}
		}
		// every variable holds what the reference says (iteration order included)
		for i := range slots {
			got, want := c39List(slots[i]), conc.pairs(s.Slots[i])
			if !c39SameList(got, want) {
				return &c39Fail{sig: "content:" + s.A, msg: fmt.Sprintf("step %d (%s): variable %d holds %s, reference says %s", si, s.A, i+1, c39Fmt(got), c39Fmt(want))}
			}
		}
	}
	// observers on the final state
	final := b.H[len(b.H)-1].Slots
	o := b.Obs
	for i := range slots {
		ls := slots[i]
		want := conc.pairs(final[i])
		strict := o.Wf[i]
		fail := func(what, msg string) *c39Fail {
			if !strict {
				return nil
			}
			return &c39Fail{sig: "observer:" + what, msg: fmt.Sprintf("variable %d = %s: %s", i+1, c39Fmt(want), msg)}
		}
		var f *c39Fail
		check := func(x *c39Fail) {
			if f == nil && x != nil {
				f = x
			}
		}
		var dg strings.Builder
		if ls.Len() != len(want) {
			return &c39Fail{sig: "observer:len", msg: fmt.Sprintf("variable %d = %s: Len() = %d", i+1, c39Fmt(want), ls.Len())}
		}
		if ls.IsEmpty() != (len(want) == 0) {
			return &c39Fail{sig: "observer:isempty", msg: fmt.Sprintf("variable %d = %s: IsEmpty() = %v", i+1, c39Fmt(want), ls.IsEmpty())}
		}
		hasSet := map[string]bool{}
		for _, n := range o.Has[i] {
			hasSet[n] = true
		}
		for mn, cn := range conc.names {
			got := ls.Get(cn)
			fmt.Fprintf(&dg, "get %s=%q has=%v;", mn, c39Short(got), ls.Has(cn))
			if got != conc.vals[o.Get[i][mn]] {
				check(fail("get", fmt.Sprintf("Get(%s) = %q, reference says %q", c39Short(cn), c39Short(got), c39Short(conc.vals[o.Get[i][mn]]))))
			}
			if ls.Has(cn) != hasSet[mn] {
				check(fail("has", fmt.Sprintf("Has(%s) = %v, reference says %v", c39Short(cn), ls.Has(cn), hasSet[mn])))
			}
		}
		for _, absent := range []string{"", "zzz_absent", "\x00", "a0", conc.names["a"] + "0", "~"} {
			if ls.Get(absent) != "" || ls.Has(absent) {
				check(fail("get-absent", fmt.Sprintf("Get(%q) = %q, Has = %v for a name that is not in the set", absent, ls.Get(absent), ls.Has(absent))))
			}
		}
		if strict {
			m := ls.Map()
			if len(m) != len(want) {
				check(fail("map", fmt.Sprintf("Map() has %d entries", len(m))))
			}
			for _, l := range want {
				if v, ok := m[l.Name]; !ok || v != l.Value {
					check(fail("map", fmt.Sprintf("Map()[%s] = %q, %v", c39Short(l.Name), c39Short(v), ok)))
				}
			}
			// String(): {name="value", ...} in name order, values quoted, non-legacy names quoted
			var sbuf strings.Builder
			sbuf.WriteString("{")
			for k, l := range want {
				if k > 0 {
					sbuf.WriteString(", ")
				}
				if c39LegacyName(l.Name) {
					sbuf.WriteString(l.Name)
				} else {
					sbuf.WriteString(strconv.Quote(l.Name))
				}
				sbuf.WriteString("=" + strconv.Quote(l.Value))
			}
			sbuf.WriteString("}")
			if ls.String() != sbuf.String() {
				check(fail("string", fmt.Sprintf("String() = %s", c39Short(ls.String()))))
			}
		}
		if got, wantNE := c39List(ls.WithoutEmpty()), conc.pairs(o.NoEmpty[i]); !c39SameList(got, wantNE) {
			check(&c39Fail{sig: "observer:withoutempty", msg: fmt.Sprintf("variable %d = %s: WithoutEmpty() = %s", i+1, c39Fmt(want), c39Fmt(got))})
		}
		sorted := sort.SliceIsSorted(want, func(x, y int) bool { return want[x].Name < want[y].Name })
		if _, dup := ls.HasDuplicateLabelNames(); dup != o.Dup[i] && sorted {
			check(&c39Fail{sig: "observer:hasdup", msg: fmt.Sprintf("variable %d = %s: HasDuplicateLabelNames() = %v", i+1, c39Fmt(want), dup)})
		}
		cp := ls.Copy()
		if !labels.Equal(cp, ls) || !c39SameList(c39List(cp), want) {
			check(&c39Fail{sig: "observer:copy", msg: fmt.Sprintf("variable %d = %s: Copy() differs: %s", i+1, c39Fmt(want), c39Fmt(c39List(cp)))})
		}
		for j := range slots {
			other := slots[j]
			eq := o.Cmp[i][j] == 0
			bothWf := o.Wf[i] && o.Wf[j]
			if labels.Equal(ls, other) != eq {
				check(&c39Fail{sig: "observer:equal", msg: fmt.Sprintf("Equal(%s, %s) = %v", c39Fmt(want), c39Fmt(conc.pairs(final[j])), !eq)})
			}
			cmp := sign(labels.Compare(ls, other))
			fmt.Fprintf(&dg, "cmp%d=%d;", j, cmp)
			if bothWf && cmp != o.Cmp[i][j] {
				check(&c39Fail{sig: "observer:compare", msg: fmt.Sprintf("Compare(%s, %s) = %d, reference says %d", c39Fmt(want), c39Fmt(conc.pairs(final[j])), cmp, o.Cmp[i][j])})
			}
			if (ls.Hash() == other.Hash()) != eq {
				check(&c39Fail{sig: "observer:hash", msg: fmt.Sprintf("Hash equality of %s and %s is %v", c39Fmt(want), c39Fmt(conc.pairs(final[j])), !eq)})
			}
			if bytes.Equal(ls.Bytes(nil), other.Bytes(nil)) != eq {
				check(&c39Fail{sig: "observer:bytes", msg: fmt.Sprintf("Bytes equality of %s and %s is %v", c39Fmt(want), c39Fmt(conc.pairs(final[j])), !eq)})
			}
		}
		if f != nil {
			return f
		}
		if !strict {
			digest.WriteString(dg.String())
		}
	}
	return nil
}

func c39LegacyName(s string) bool {
	if s == "" {
		return false
	}
	for i, c := range s {
		if c == '_' || (c >= 'a' && c <= 'z') || (c >= 'A' && c <= 'Z') || (i > 0 && c >= '0' && c <= '9') {
			continue
		}
		return false
	}
	return true
}

func TestVerifC39Replay(t *testing.T) {
	behs, err := verifh.ReadNDJSON[c39Beh](verifh.In())
	if err != nil {
		verifh.Infra(err.Error())
		t.Fatal(err)
	}
	var dfile *os.File
	if p := os.Getenv("VERIF_C39_DIGEST"); p != "" {
		if dfile, err = os.Create(p); err != nil {
			verifh.Infra(err.Error())
			t.Fatal(err)
		}
		defer dfile.Close()
	}
	steps, nonwf := 0, 0
	nconc := 2
	if !verifh.Quick() {
		nconc = 6
	}
	for bi, b := range behs {
		var dg strings.Builder
		for k := 0; k < nconc; k++ {
			ci := bi + k*7 + int(verifh.Seed())
			f := c39Replay(b, c39MakeConc(ci), &dg)
			if f == nil {
				continue
			}
			if f.sig == "infra" {
				verifh.Infra(fmt.Sprintf("behaviour %d: %s", bi, f.msg))
				t.Fatal(f.msg)
			}
			if f.drift {
				verifh.Drift(f.msg)
				continue
			}
			verifh.Violation(labels.ImplementationName+":"+f.sig, fmt.Sprintf("[%s] behaviour %d (concretisation %d): %s", labels.ImplementationName, bi, ci, f.msg),
				map[string]any{"behaviour": b, "conc": ci, "impl": labels.ImplementationName})
			break
		}
		steps += len(b.H) - 1
		if dg.Len() > 0 {
			nonwf++
		}
		if dfile != nil {
			sum := sha1.Sum([]byte(dg.String()))
			fmt.Fprintf(dfile, "%d %s\n", bi, hex.EncodeToString(sum[:6]))
		}
	}
	verifh.Stat(map[string]any{"impl_" + labels.ImplementationName + "_steps": steps, "behaviours_with_non_map_lists": nonwf})
	verifh.Done(len(behs))
	if verifh.Violations() > 0 {
		t.Fail()
	}
}

func jsonUnmarshal(b []byte, v any) error { return jsonStd.Unmarshal(b, v) }

// reJSON converts a decoded JSON value into a typed one.
func reJSON(in any, out any) error {
	b, err := jsonStd.Marshal(in)
	if err != nil {
		return err
	}
	return jsonStd.Unmarshal(b, out)
}
