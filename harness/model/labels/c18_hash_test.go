package labels_test

// C18 (second leg): labels.StableHash of every label set seen by the sharded queries, computed
// under the build tags of this run. The events are validated together with the shard events of
// the tsdb run against specs/postings/Trace_Shard.tla: one hash function for all build variants.

import (
	"os"
	"strings"
	"testing"

	"github.com/prometheus/prometheus/internal/verifh"
	"github.com/prometheus/prometheus/model/labels"
)

type c18Lset struct {
	Ls    string   `json:"ls"`
	Pairs []string `json:"pairs"`
}

func TestVerifC18Hash(t *testing.T) {
	lsets, err := verifh.ReadNDJSON[c18Lset](verifh.In())
	if err != nil {
		verifh.Infra(err.Error())
		t.Fatal(err)
	}
	tr, err := verifh.NewTracer(os.Getenv("VERIF_C18_TRACE"))
	if err != nil {
		verifh.Infra(err.Error())
		t.Fatal(err)
	}
	for _, l := range lsets {
		// three ways to build the same label set must hash alike
		a := labels.FromStrings(l.Pairs...)
		sb := labels.NewScratchBuilder(len(l.Pairs) / 2)
		for i := len(l.Pairs) - 2; i >= 0; i -= 2 {
			sb.Add(l.Pairs[i], l.Pairs[i+1])
		}
		sb.Sort()
		b := sb.Labels()
		lb := labels.NewBuilder(labels.EmptyLabels())
		for i := 0; i < len(l.Pairs); i += 2 {
			lb.Set(l.Pairs[i], l.Pairs[i+1])
		}
		c := lb.Labels()
		for _, ls := range []labels.Labels{a, b, c} {
			h := labels.StableHash(ls)
			tr.Event("hash", map[string]any{"ls": l.Ls, "tag": labels.ImplementationName, "p2": h >> 44, "p1": (h >> 22) & (1<<22 - 1), "p0": h & (1<<22 - 1)})
		}
		// a long variant of the label set (over 1 KiB: the hash functions switch to the streaming API);
		// it has no shard events, only the agreement between the build variants is validated
		long := append(append([]string{}, l.Pairs...), "zz_long", strings.Repeat("v", 1000+len(l.Ls)%100))
		hl := labels.StableHash(labels.FromStrings(long...))
		tr.Event("hash", map[string]any{"ls": l.Ls + "+long", "tag": labels.ImplementationName, "p2": hl >> 44, "p1": (hl >> 22) & (1<<22 - 1), "p0": hl & (1<<22 - 1)})
		if a.String() != l.Ls {
			verifh.Infra("label set round trip differs: " + a.String() + " vs " + l.Ls)
			t.Fatal("round trip")
		}
	}
	tr.Close()
	verifh.Stat(map[string]any{"label_sets_hashed_" + labels.ImplementationName: len(lsets)})
	verifh.Done(len(lsets))
}
