package promql_test

// C27 conformance harness. Cases come from specs/promql_eval/RangeQuery.tla.
//   k = "range":  the expression is run as a real range query and as real instant queries at
//                 every step; the two answers must be equal (the property, strict). The
//                 prediction of the reference evaluator is the second oracle.
//   k = "offset": `q offset d` at t and q at t-d are run as real instant queries and must be
//                 equal (strict); both are also compared with the predictions.
// Needs c28_evalcommon_test.go.

import (
	"encoding/json"
	"fmt"
	"sort"
	"sync"
	"sync/atomic"
	"testing"

	"github.com/prometheus/prometheus/internal/verifh"
)

type c27Case struct {
	K     string               `json:"k"`
	Store pqStore              `json:"store"`
	Q     pqExpr               `json:"q"`
	Qo    *pqExpr              `json:"qo"`
	Qs    int64                `json:"qs"`
	Qe    int64                `json:"qe"`
	Step  int64                `json:"step"`
	T     int64                `json:"t"`
	D     int64                `json:"d"`
	Lb    int64                `json:"lb"`
	Ds    int64                `json:"ds"`
	Out   map[string][]pqPoint `json:"out"`
	Outo  map[string][]pqPoint `json:"outo"`
	Kf    string               `json:"kf"`
	ImplR json.RawMessage      `json:"implr"`
	ImplI json.RawMessage      `json:"impli"`
	// CorruptLb is set only by the binding self-test (VERIF_CORRUPT): the instant queries of this
	// case are run with a lookback that differs from the range query's.
	CorruptLb int64 `json:"corrupt_lb"`
}

func c27Decode(raw json.RawMessage) map[string][]pqPoint {
	var m map[string][]pqPoint
	if json.Unmarshal(raw, &m) != nil {
		return nil
	}
	return m
}

// c27Diff compares two observed results point by point (times, float bits NaN-aware, histograms).
func c27Diff(a, b map[string][]pqGot, shift int64) (string, string) {
	names := map[string]bool{}
	for n := range a {
		names[n] = true
	}
	for n := range b {
		names[n] = true
	}
	var ns []string
	for n := range names {
		ns = append(ns, n)
	}
	sort.Strings(ns)
	for _, n := range ns {
		x, y := a[n], b[n]
		if len(x) != len(y) {
			return "points", fmt.Sprintf("series %s: %s vs %s", n, pqFmtGots(x), pqFmtGots(y))
		}
		for i := range x {
			same := x[i].T == y[i].T+shift
			if (x[i].H == nil) != (y[i].H == nil) {
				same = false
			} else if x[i].H != nil {
				same = same && x[i].H.Equals(y[i].H)
			} else {
				fx, fy := x[i].F, y[i].F
				same = same && (fx == fy || (fx != fx && fy != fy && pqIsStale(fx) == pqIsStale(fy)))
			}
			if !same {
				return "value", fmt.Sprintf("series %s point %d: %s vs %s", n, i, pqFmtGots(x), pqFmtGots(y))
			}
		}
	}
	return "", ""
}

func TestVerifC27RangeQuery(t *testing.T) {
	cases, err := verifh.ReadNDJSON[c27Case](verifh.In())
	if err != nil {
		verifh.Infra(err.Error())
		t.Fatal(err)
	}
	concs := pqConcs(verifh.Seed())
	nconc := 2
	if !verifh.Quick() {
		nconc = len(concs)
	}
	dbs := make([]*pqDB, nconc)
	ids := make([][]string, nconc)
	for k := range dbs {
		dbs[k] = pqNewDB(t, concs[k])
		ids[k] = make([]string, len(cases))
		for i := range cases {
			id, err := dbs[k].load(cases[i].Store)
			if err != nil {
				verifh.Infra("loading store: " + err.Error())
				t.Fatal(err)
			}
			ids[k][i] = id
		}
	}
	var rangeQ, instQ, offsetPairs, nonEmpty, refDrift, kfCases, kfSeen int64
	var sampled int32
	var mu sync.Mutex
	kfReported := map[string]int{}
	pqParallel(len(cases), 12, func(i int) {
		cs := &cases[i]
		shape := pqShape(&cs.Q)
		for k, db := range dbs {
			if verifh.Quick() && k > 0 && (i+int(verifh.Seed()))%3 != 0 {
				continue
			}
			c := db.conc
			text := pqText(c, ids[k][i], &cs.Q)
			viol := func(sig, msg string) {
				verifh.Violation(sig, fmt.Sprintf("case %d conc %+v: %s: %s", i, c, text, msg),
					map[string]any{"case": cs, "query": text, "conc": c})
			}
			switch cs.K {
			case "range":
				mat, err := pqRange(t, db, text, cs.Qs, cs.Qe, cs.Step, cs.Lb, cs.Ds)
				atomic.AddInt64(&rangeQ, 1)
				if err != nil {
					viol(shape+"|range-error", fmt.Sprintf("range query [%d,%d] step %d failed: %v", c.time(cs.Qs), c.time(cs.Qe), c.dur(cs.Step), err))
					continue
				}
				gotR, _, err := pqFromMatrix(mat)
				if err != nil {
					viol(shape+"|range-shape", err.Error())
					continue
				}
				// instant queries at every step, regrouped per series
				gotI := map[string][]pqGot{}
				failed := false
				for ts := cs.Qs; ts <= cs.Qe; ts += cs.Step {
					val, err := pqInstant(t, db, text, ts, cs.Lb-cs.CorruptLb, cs.Ds)
					atomic.AddInt64(&instQ, 1)
					if err != nil {
						viol(shape+"|instant-error", fmt.Sprintf("instant query at %d failed: %v", c.time(ts), err))
						failed = true
						break
					}
					g, _, err := pqFromValue(val)
					if err != nil {
						viol(shape+"|instant-shape", err.Error())
						failed = true
						break
					}
					for n, ps := range g {
						gotI[n] = append(gotI[n], ps...)
					}
				}
				if failed {
					continue
				}
				if cs.Kf != "" {
					atomic.AddInt64(&kfCases, 1)
				}
				// strict: the property
				if kind, msg := c27Diff(gotR, gotI, 0); kind != "" {
					sig := shape + "|range-vs-instant-" + kind
					if cs.Kf != "" {
						ir, ii := c27Decode(cs.ImplR), c27Decode(cs.ImplI)
						k1, _ := pqCompare(c, ir, gotR)
						k2, _ := pqCompare(c, ii, gotI)
						if ir != nil && ii != nil && k1 == "" && k2 == "" {
							// exactly what the transcription of the code as it is predicts
							sig = "known-" + cs.Kf + "|range-vs-instant"
							atomic.AddInt64(&kfSeen, 1)
							mu.Lock()
							kfReported[cs.Kf]++
							n := kfReported[cs.Kf]
							mu.Unlock()
							if n > 4 {
								continue
							}
						}
					}
					viol(sig, fmt.Sprintf("range query [%d,%d] step %d (lookback %d) differs from the instant queries at its steps: range / instants: %s",
						c.time(cs.Qs), c.time(cs.Qe), c.dur(cs.Step), c.dur(cs.Lb), msg))
					continue
				}
				// second oracle: both equal, compare with the reference prediction
				if kind, _ := pqCompare(c, cs.Out, gotR); kind != "" && cs.Kf == "" {
					atomic.AddInt64(&refDrift, 1)
				}
				for _, ps := range cs.Out {
					if len(ps) > 0 {
						atomic.AddInt64(&nonEmpty, 1)
						break
					}
				}
			case "offset":
				texto := pqText(c, ids[k][i], cs.Qo)
				v1, err1 := pqInstant(t, db, texto, cs.T, cs.Lb, cs.Ds)
				v0, err0 := pqInstant(t, db, text, cs.T-cs.D, cs.Lb, cs.Ds)
				atomic.AddInt64(&offsetPairs, 1)
				if err0 != nil || err1 != nil {
					viol(shape+"|offset-error", fmt.Sprintf("instant queries failed: %v / %v", err1, err0))
					continue
				}
				g1, _, e1 := pqFromValue(v1)
				g0, _, e0 := pqFromValue(v0)
				if e0 != nil || e1 != nil {
					viol(shape+"|offset-shape", fmt.Sprintf("%v / %v", e1, e0))
					continue
				}
				if kind, msg := c27Diff(g1, g0, c.dur(cs.D)); kind != "" {
					viol(shape+"|offset-law-"+kind, fmt.Sprintf("`%s` at %d differs from `%s` at %d: %s", texto, c.time(cs.T), text, c.time(cs.T-cs.D), msg))
					continue
				}
				if kind, _ := pqCompare(c, cs.Outo, g1); kind != "" {
					atomic.AddInt64(&refDrift, 1)
				}
			default:
				verifh.Infra("unknown case kind " + cs.K)
			}
		}
		if atomic.AddInt32(&sampled, 1) <= 2 {
			verifh.Sample(map[string]any{"kind": cs.K, "query": pqText(dbs[0].conc, ids[0][i], &cs.Q), "qs": cs.Qs, "qe": cs.Qe, "step": cs.Step, "predicted": cs.Out})
		}
	})
	if refDrift > 0 {
		verifh.Drift(fmt.Sprintf("%d evaluations: range and instant results agree with each other but not with the reference evaluator (C28 territory)", refDrift))
	}
	verifh.Stat(map[string]any{"range_queries": rangeQ, "instant_queries": instQ, "offset_pairs": offsetPairs,
		"nonempty_results": nonEmpty, "known_deviation_evaluations": kfCases, "known_deviation_observed": kfSeen})
	verifh.Done(len(cases))
	if verifh.Violations() > 0 {
		t.Fail()
	}
}
