package promql_test

// C28 conformance harness: every case emitted by specs/promql_eval/Selectors.tla
// (store, expression, evaluation time, lookback, value predicted by the reference
// evaluator) is concretised, run as an instant query on a real promql.Engine over a
// real TSDB, and the answer is compared with the prediction: series set, point
// timestamps, float values bitwise (NaN/StaleNaN aware), histogram identity.

import (
	"encoding/json"
	"fmt"
	"os"
	"strconv"
	"sync"
	"sync/atomic"
	"testing"

	"github.com/prometheus/prometheus/internal/verifh"
)

type c28Case struct {
	Store pqStore              `json:"store"`
	Q     pqExpr               `json:"q"`
	T     int64                `json:"t"`
	Lb    int64                `json:"lb"`
	Ds    int64                `json:"ds"`
	Ty    string               `json:"ty"`
	Keep  bool                 `json:"keep"`
	Out   map[string][]pqPoint `json:"out"`
	// Kf names the known deviations of the code (KF-C28-1 "kf1", KF-C28-2 "kf2") that change this
	// case's value according to the transcription of the engine in PromqlEngine.tla; Impl is then the
	// value the code as it is should compute (a JSON object, or [] when Kf is empty).
	Kf   string          `json:"kf"`
	Impl json.RawMessage `json:"impl"`
}

func (c *c28Case) impl() map[string][]pqPoint {
	var m map[string][]pqPoint
	if c.Kf == "" || json.Unmarshal(c.Impl, &m) != nil {
		return nil
	}
	return m
}

func TestVerifC28Selectors(t *testing.T) {
	cases, err := verifh.ReadNDJSON[c28Case](verifh.In())
	if err != nil {
		verifh.Infra(err.Error())
		t.Fatal(err)
	}
	concs := pqConcs(verifh.Seed())
	nconc := 2
	if !verifh.Quick() {
		nconc = len(concs)
	}
	if v, err := strconv.Atoi(os.Getenv("VERIF_NCONC")); err == nil && v > 0 && v <= len(concs) {
		nconc = v
	}
	dbs := make([]*pqDB, nconc)
	for i := range dbs {
		dbs[i] = pqNewDB(t, concs[i])
	}
	// load every distinct store into every DB first (appends are serial per DB)
	ids := make([][]string, nconc)
	for k, db := range dbs {
		ids[k] = make([]string, len(cases))
		for i := range cases {
			id, err := db.load(cases[i].Store)
			if err != nil {
				verifh.Infra("loading store: " + err.Error())
				t.Fatal(err)
			}
			ids[k][i] = id
		}
	}
	var evals, nonEmpty, nameDrift, kfCases, kfSeen, implDrift int64
	var sampled int32
	var mu sync.Mutex
	kinds := map[string]int{}
	kfReported := map[string]int{}
	pqParallel(len(cases), 12, func(i int) {
		cs := &cases[i]
		shape := pqShape(&cs.Q)
		for k, db := range dbs {
			// quick tier: every case on the first concretisation, every third also on the second
			if verifh.Quick() && k > 0 && (i+int(verifh.Seed()))%3 != 0 {
				continue
			}
			text := pqText(db.conc, ids[k][i], &cs.Q)
			val, err := pqInstant(t, db, text, cs.T, cs.Lb, cs.Ds)
			atomic.AddInt64(&evals, 1)
			var got map[string][]pqGot
			report := func(kind, msg string) {
				sig := shape + "|" + kind
				// a known deviation is recognised only when the engine returns exactly what the
				// transcription of the code as it is predicts for this case
				if im := cs.impl(); im != nil && got != nil {
					if k, _ := pqCompare(db.conc, im, got); k == "" {
						sig = "known-" + cs.Kf + "|" + kind
						// report each known deviation a few times only: verifh keeps 50 violation records
						atomic.AddInt64(&kfSeen, 1)
						mu.Lock()
						kfReported[cs.Kf]++
						n := kfReported[cs.Kf]
						mu.Unlock()
						if n > 4 {
							return
						}
					}
				}
				verifh.Violation(sig, fmt.Sprintf("case %d conc %+v: %s at t=%d lookback=%dms: %s", i, db.conc, text,
					db.conc.time(cs.T), db.conc.dur(cs.Lb), msg),
					map[string]any{"case": cs, "query": text, "conc": db.conc, "eval_ms": db.conc.time(cs.T)})
			}
			if err != nil {
				report("error", "engine error: "+err.Error())
				continue
			}
			var named map[string]bool
			got, named, err = pqFromValue(val)
			if err != nil {
				report("shape", err.Error())
				continue
			}
			if cs.Ty == "vector" {
				bad := false
				for _, ps := range got {
					if len(ps) != 1 || ps[0].T != db.conc.time(cs.T) {
						bad = true
					}
				}
				if bad {
					report("vector-time", "instant vector sample not stamped with the evaluation time")
					continue
				}
			}
			if cs.Kf != "" {
				atomic.AddInt64(&kfCases, 1)
			}
			if kind, msg := pqCompare(db.conc, cs.Out, got); kind != "" {
				report(kind, msg)
				continue
			}
			if cs.Kf != "" {
				// the engine is right although the transcription of the code says it should not be
				atomic.AddInt64(&implDrift, 1)
			}
			for _, kept := range named {
				if kept != cs.Keep {
					atomic.AddInt64(&nameDrift, 1)
				}
			}
			ne := false
			for _, ps := range cs.Out {
				if len(ps) > 0 {
					ne = true
				}
			}
			if ne {
				atomic.AddInt64(&nonEmpty, 1)
			}
		}
		mu.Lock()
		kinds[shape]++
		mu.Unlock()
		if atomic.AddInt32(&sampled, 1) <= 2 {
			verifh.Sample(map[string]any{"query": pqText(dbs[0].conc, ids[0][i], &cs.Q), "t": cs.T, "lookback": cs.Lb, "predicted": cs.Out})
		}
	})
	if nameDrift > 0 {
		verifh.Drift(fmt.Sprintf("%d results kept/dropped the metric name differently from the model (not part of C28)", nameDrift))
	}
	if implDrift > 0 {
		verifh.Drift(fmt.Sprintf("%d evaluations labelled with a known deviation by PromqlEngine.tla were answered correctly by the engine", implDrift))
	}
	verifh.Stat(map[string]any{"known_deviation_evaluations": kfCases, "known_deviation_observed": kfSeen, "engine_evaluations": evals, "nonempty_results": nonEmpty, "expression_shapes": len(kinds)})
	verifh.Done(len(cases))
	if verifh.Violations() > 0 {
		t.Fail()
	}
}
