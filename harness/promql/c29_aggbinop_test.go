package promql_test

// C29 conformance harness: replays the cases emitted by specs/promql_agg/AggBinop.tla.
// Every case carries two input vectors, an aggregation / binary-operator expression and the
// result the TLA+ reference predicts.  All vectors are loaded into ONE real TSDB (each distinct
// vector pair gets its own 10 ms time slot: right vector at slot+0, left vector at slot+5 ms,
// lookback 2 ms), the expression is printed as PromQL text and evaluated as an instant query
// on real promql.Engines (immediate and delayed __name__ removal).  The harness only
// concretises (label values, metric names, time slots, number text) and compares.

import (
	"context"
	"fmt"
	"math"
	"math/rand"
	"os"
	"sort"
	"strconv"
	"strings"
	"sync"
	"testing"
	"time"

	"github.com/prometheus/prometheus/internal/verifh"
	"github.com/prometheus/prometheus/model/labels"
	"github.com/prometheus/prometheus/promql"
	"github.com/prometheus/prometheus/promql/parser"
	"github.com/prometheus/prometheus/util/teststorage"
)

type c29Val struct {
	T string `json:"t"`
	N int64  `json:"n"`
	D int64  `json:"d"`
}

type c29Sample struct {
	M map[string]string `json:"m"`
	V c29Val            `json:"v"`
}

type c29Expr struct {
	K    string   `json:"k"`
	Op   string   `json:"op"`
	Par  c29Val   `json:"par"`
	Lab  string   `json:"lab"`
	By   bool     `json:"by"`
	Grp  []string `json:"grp"`
	Bool bool     `json:"bool"`
	On   bool     `json:"on"`
	Ml   []string `json:"ml"`
	Card string   `json:"card"`
	Inc  []string `json:"inc"`
	Fl   c29Val   `json:"fl"`
	Fr   c29Val   `json:"fr"`
	Sc   c29Val   `json:"sc"`
	Swap bool     `json:"swap"`
}

type c29KG struct {
	Must []c29Sample `json:"must"`
	May  []c29Sample `json:"may"`
	N    int         `json:"n"`
}

type c29Out struct {
	Err string      `json:"err"`
	V   []c29Sample `json:"v"`
	Kg  []c29KG     `json:"kg"`
	Sq  bool        `json:"sq"`
	Ord string      `json:"ord"`
}

type c29Case struct {
	L      []c29Sample `json:"l"`
	R      []c29Sample `json:"r"`
	Q      c29Expr     `json:"q"`
	Out    c29Out      `json:"out"`
	Strict bool        `json:"strict"`
	Kf     string      `json:"kf"`
	Impl   struct {
		Err string      `json:"err"`
		V   []c29Sample `json:"v"`
	} `json:"impl"`

	// concretisation of the finite values: v -> v * scale (0 means 1). avg is homogeneous, so
	// inputs and predicted outputs are scaled alike; a scale near 2^1023/max drives the running sum of the
	// real code beyond MaxFloat64 (its incremental-mean branch) while the mean stays finite.
	scale float64
}

func (cs *c29Case) sc() float64 {
	if cs.scale == 0 {
		return 1
	}
	return cs.scale
}

// c29Conc is the concretisation map (seeded): symbolic label values / metric names -> real strings.
type c29Conc struct {
	lv   map[string]string
	base int64
}

func c29MakeConc(seed int64) c29Conc {
	r := rand.New(rand.NewSource(seed))
	c := c29Conc{lv: map[string]string{}}
	// label values: order among them varies with the seed (changes storage / iteration order)
	pool := [][]string{{"x", "y", "z"}, {"zz", "k", "a b"}, {"1", "0", "-"}, {"é", "Y", "_"}}
	p := pool[int(seed)%len(pool)]
	perm := r.Perm(3)
	for i, s := range []string{"x", "y", "z"} {
		c.lv[s] = p[perm[i]]
	}
	names := [][]string{{"m", "n"}, {"zeta_total", "alpha"}, {"up", "up:sum"}}
	nm := names[int(seed)%len(names)]
	if r.Intn(2) == 0 {
		nm[0], nm[1] = nm[1], nm[0]
	}
	c.lv["m"], c.lv["n"] = nm[0], nm[1]
	bases := []int64{100000, 0 + 10, 1700000000000, -500000}
	c.base = bases[int(seed)%len(bases)]
	return c
}

// real labels of a symbolic label set; values outside the alphabet (count_values text) pass through
func (c c29Conc) lset(m map[string]string) labels.Labels {
	b := labels.NewScratchBuilder(len(m))
	for k, v := range m {
		if v == "" {
			continue
		}
		if k == "v" {
			b.Add(k, v)
			continue
		}
		if r, ok := c.lv[v]; ok {
			v = r
		}
		b.Add(k, v)
	}
	b.Sort()
	return b.Labels()
}

func c29Float(v c29Val) float64 {
	switch v.T {
	case "f":
		return float64(v.N) / float64(v.D)
	case "NaN":
		return math.NaN()
	case "+Inf":
		return math.Inf(1)
	case "-Inf":
		return math.Inf(-1)
	}
	panic("c29: no float for " + v.T)
}

func c29Num(v c29Val) string {
	switch v.T {
	case "NaN":
		return "NaN"
	case "+Inf":
		return "Inf"
	case "-Inf":
		return "-Inf"
	}
	if v.D == 1 {
		return strconv.FormatInt(v.N, 10)
	}
	return strconv.FormatFloat(float64(v.N)/float64(v.D), 'f', -1, 64)
}

const (
	c29SelL = `{__name__=~".+"}`
	c29SelR = `{__name__=~".+"} offset 5ms`
)

func c29List(l []string) string {
	s := append([]string(nil), l...)
	sort.Strings(s)
	return "(" + strings.Join(s, ", ") + ")"
}

// c29Query prints the expression record as PromQL text.
func c29Query(e c29Expr, variant int) string {
	switch e.K {
	case "agg":
		grp := ""
		switch {
		case e.By && len(e.Grp) == 0 && variant%2 == 0:
			grp = ""
		case e.By:
			grp = " by " + c29List(e.Grp)
		default:
			grp = " without " + c29List(e.Grp)
		}
		par := ""
		switch e.Op {
		case "topk", "bottomk", "limitk", "quantile":
			par = c29Num(e.Par) + ", "
		case "count_values":
			par = strconv.Quote(e.Lab) + ", "
		}
		if variant%3 == 1 { // grouping clause after the expression
			return fmt.Sprintf("%s(%s%s)%s", e.Op, par, c29SelL, grp)
		}
		return fmt.Sprintf("%s%s (%s%s)", e.Op, grp, par, c29SelL)
	case "vv":
		var sb strings.Builder
		sb.WriteString(c29SelL + " " + e.Op)
		if e.Bool {
			sb.WriteString(" bool")
		}
		fills := e.Fl.T != "none" || e.Fr.T != "none"
		switch {
		case e.On:
			sb.WriteString(" on " + c29List(e.Ml))
		case len(e.Ml) > 0 || e.Card == "N:1" || e.Card == "1:N" || variant%2 == 1:
			sb.WriteString(" ignoring " + c29List(e.Ml))
		}
		switch e.Card {
		case "N:1":
			sb.WriteString(" group_left " + c29List(e.Inc))
		case "1:N":
			sb.WriteString(" group_right " + c29List(e.Inc))
		}
		if fills {
			if e.Fl.T != "none" && e.Fr.T != "none" && e.Fl == e.Fr && variant%2 == 0 {
				sb.WriteString(" fill (" + c29Num(e.Fl) + ")")
			} else {
				if e.Fl.T != "none" {
					sb.WriteString(" fill_left (" + c29Num(e.Fl) + ")")
				}
				if e.Fr.T != "none" {
					sb.WriteString(" fill_right (" + c29Num(e.Fr) + ")")
				}
			}
		}
		sb.WriteString(" " + c29SelR)
		return sb.String()
	case "vs":
		b := ""
		if e.Bool {
			b = " bool"
		}
		if e.Swap {
			return fmt.Sprintf("(%s) %s%s %s", c29Num(e.Sc), e.Op, b, c29SelL)
		}
		return fmt.Sprintf("%s %s%s (%s)", c29SelL, e.Op, b, c29Num(e.Sc))
	}
	panic("c29: unknown expression kind " + e.K)
}

func c29ErrClass(err error) string {
	if err == nil {
		return "none"
	}
	s := err.Error()
	switch {
	case strings.Contains(s, "many-to-many matching not allowed"):
		return "many-to-many"
	case strings.Contains(s, "many-to-one matching must be explicit"):
		return "multi-match"
	case strings.Contains(s, "grouping labels must ensure unique matches"):
		return "group-unique"
	case strings.Contains(s, "vector cannot contain metrics with the same labelset"):
		return "dup-labelset"
	case strings.Contains(s, "unexpected error"):
		return "internal"
	}
	return "other"
}

func c29ValEq(want c29Val, got float64, sq bool, scale float64) bool {
	if want.T == "unk" {
		return true
	}
	w := c29Float(want)
	if want.T == "f" {
		w *= scale
	}
	if sq {
		if math.IsNaN(w) {
			return math.IsNaN(got)
		}
		if got < 0 {
			return false
		}
		got *= got
	}
	switch {
	case math.IsNaN(w):
		return math.IsNaN(got)
	case math.IsInf(w, 0):
		return got == w
	case math.IsNaN(got) || math.IsInf(got, 0):
		return false
	}
	d := math.Abs(w - got)
	return d <= 1e-12*scale || d <= 1e-9*math.Abs(w)
}

type c29Vec map[string]float64 // labels.String() -> value

func (c c29Conc) vec(ss []c29Sample) (map[string]c29Val, []string) {
	m := map[string]c29Val{}
	var keys []string
	for _, s := range ss {
		k := c.lset(s.M).String()
		m[k] = s.V
		keys = append(keys, k)
	}
	return m, keys
}

// c29CompareVec: "" if got equals the predicted vector, else category and message.
func (c c29Conc) compareVec(want []c29Sample, sq bool, scale float64, got promql.Vector) (string, string) {
	wm, _ := c.vec(want)
	seen := map[string]bool{}
	for _, s := range got {
		k := s.Metric.String()
		if seen[k] {
			return "dup", "result contains label set " + k + " twice"
		}
		seen[k] = true
		w, ok := wm[k]
		if !ok {
			return "extra", fmt.Sprintf("unexpected element %s => %v", k, s.F)
		}
		if s.H != nil {
			return "hist", "unexpected histogram element " + k
		}
		if !c29ValEq(w, s.F, sq, scale) {
			return "value", fmt.Sprintf("element %s: value %v, reference %s/%d (%s)%s", k, s.F, strconv.FormatInt(w.N, 10), w.D, w.T, map[bool]string{true: " [compared squared]", false: ""}[sq])
		}
	}
	for k := range wm {
		if !seen[k] {
			return "missing", "missing element " + k
		}
	}
	return "", ""
}

// better: a ranks strictly before b (NaN farthest from the top/bottom)
func c29Better(ord string, a, b float64) bool {
	if math.IsNaN(a) {
		return false
	}
	if math.IsNaN(b) {
		return true
	}
	if ord == "desc" {
		return a > b
	}
	return a < b
}

// compareKG checks a topk/bottomk/limitk result against the predicted buckets.
func (c c29Conc) compareKG(out c29Out, got promql.Vector) (string, string) {
	type info struct {
		g    int
		must bool
		v    c29Val
	}
	idx := map[string]info{}
	for gi, g := range out.Kg {
		for _, s := range g.Must {
			idx[c.lset(s.M).String()] = info{gi, true, s.V}
		}
		for _, s := range g.May {
			idx[c.lset(s.M).String()] = info{gi, false, s.V}
		}
	}
	cnt := make([]int, len(out.Kg))
	closed := make([]bool, len(out.Kg))
	seen := map[string]bool{}
	prevG := -1
	var prevV float64
	for _, s := range got {
		k := s.Metric.String()
		in, ok := idx[k]
		if !ok {
			return "extra", "element " + k + " may not be selected"
		}
		if seen[k] {
			return "dup", "element " + k + " returned twice"
		}
		seen[k] = true
		if !c29ValEq(in.v, s.F, false, 1) {
			return "value", fmt.Sprintf("element %s has value %v, input value was %s", k, s.F, c29Num(in.v))
		}
		if in.g != prevG {
			if closed[in.g] {
				return "consecutive", "bucket of " + k + " is not returned consecutively"
			}
			if prevG >= 0 {
				closed[prevG] = true
			}
		} else if out.Ord != "" && c29Better(out.Ord, s.F, prevV) {
			return "order", fmt.Sprintf("element %s (%v) is returned after a worse element (%v)", k, s.F, prevV)
		}
		prevG, prevV = in.g, s.F
		cnt[in.g]++
	}
	for gi, g := range out.Kg {
		if cnt[gi] != g.N {
			return "count", fmt.Sprintf("bucket %d: %d elements returned, reference %d", gi, cnt[gi], g.N)
		}
		for _, s := range g.Must {
			if k := c.lset(s.M).String(); !seen[k] {
				return "missing", "element " + k + " must be selected"
			}
		}
	}
	return "", ""
}

func c29VecString(v promql.Vector) string {
	var sb strings.Builder
	for _, s := range v {
		fmt.Fprintf(&sb, "%s=>%v; ", s.Metric.String(), s.F)
	}
	return sb.String()
}

type c29Verdict struct {
	kind string // "", "violation", "drift", "infra"
	sig  string
	msg  string
}

// judge compares one real result with the prediction carried by the case.
func (c c29Conc) judge(cs *c29Case, qs string, res *promql.Result) c29Verdict {
	gotErr := c29ErrClass(res.Err)
	what := cs.Q.K + ":" + cs.Q.Op
	if gotErr == "internal" || gotErr == "other" {
		return c29Verdict{"violation", what + ":err:" + gotErr, fmt.Sprintf("query %q failed with %v", qs, res.Err)}
	}
	var vec promql.Vector
	if res.Err == nil {
		v, ok := res.Value.(promql.Vector)
		if !ok {
			return c29Verdict{"infra", "", fmt.Sprintf("query %q returned %T", qs, res.Value)}
		}
		vec = v
	}
	cat, msg := "", ""
	switch {
	case cs.Out.Err != "none" && gotErr == "none":
		cat, msg = "err:"+cs.Out.Err+"->none", fmt.Sprintf("expected error %q, got result %s", cs.Out.Err, c29VecString(vec))
	case cs.Out.Err == "none" && gotErr != "none":
		cat, msg = "err:none->"+gotErr, fmt.Sprintf("expected a result, got error %v", res.Err)
	case cs.Out.Err != "none":
		if cs.Out.Err != gotErr {
			return c29Verdict{"drift", "", fmt.Sprintf("query %q: error class %s, model %s", qs, gotErr, cs.Out.Err)}
		}
		return c29Verdict{}
	case len(cs.Out.Kg) > 0 || cs.Out.Ord != "" || cs.Q.Op == "limitk":
		cat, msg = c.compareKG(cs.Out, vec)
	default:
		cat, msg = c.compareVec(cs.Out.V, cs.Out.Sq, cs.sc(), vec)
	}
	if cat == "" {
		return c29Verdict{}
	}
	full := fmt.Sprintf("query %q: %s (got: %s)", qs, msg, c29VecString(vec))
	if strings.HasPrefix(cat, "err:") && !cs.Strict {
		return c29Verdict{"drift", "", full + " [documentation silent: unmatched duplicate match group]"}
	}
	if cs.Kf != "" {
		// a named deviation: does the real result equal the transcription of the code?
		same := false
		if cs.Impl.Err != "none" {
			same = gotErr == cs.Impl.Err
		} else if gotErr == "none" {
			c2, _ := c.compareVec(cs.Impl.V, cs.Out.Sq, cs.sc(), vec)
			same = c2 == ""
		}
		if same {
			return c29Verdict{"violation", cs.Kf + ":" + what, full}
		}
	}
	return c29Verdict{"violation", what + ":" + cat, full}
}

func TestVerifC29(t *testing.T) {
	cases, err := verifh.ReadNDJSON[c29Case](verifh.In())
	if err != nil {
		verifh.Infra(err.Error())
		t.Fatal(err)
	}
	for i, n := 0, len(cases); i < n; i++ {
		if cases[i].Q.K == "agg" && cases[i].Q.Op == "avg" && len(cases[i].L) > 1 {
			mx := 0.0
			for _, x := range cases[i].L {
				if x.V.T == "f" {
					mx = math.Max(mx, math.Abs(c29Float(x.V)))
				}
			}
			if mx == 0 {
				continue
			}
			_, e := math.Frexp(mx)
			c2 := cases[i]
			c2.scale = math.Ldexp(1, 1024-e) // the largest value becomes >= 2^1023: any two of them overflow the sum
			cases = append(cases, c2)
		}
	}
	seed := verifh.Seed()
	conc := c29MakeConc(seed)
	rnd := rand.New(rand.NewSource(seed))

	// ---- slots: one per distinct (L, R) pair, in seeded order
	slotOf := map[string]int{}
	var slotCases []int // representative case per slot
	keyOf := func(cs *c29Case) string {
		var sb strings.Builder
		if cs.scale != 0 {
			sb.WriteString("scaled|")
		}
		for _, side := range [][]c29Sample{cs.L, nil, cs.R} {
			if side == nil {
				sb.WriteString("|")
				continue
			}
			ks := make([]string, 0, len(side))
			for _, s := range side {
				ks = append(ks, conc.lset(s.M).String()+"="+s.V.T+strconv.FormatInt(s.V.N, 10)+"/"+strconv.FormatInt(s.V.D, 10))
			}
			sort.Strings(ks)
			sb.WriteString(strings.Join(ks, ";"))
		}
		return sb.String()
	}
	caseSlot := make([]int, len(cases))
	for i := range cases {
		k := keyOf(&cases[i])
		s, ok := slotOf[k]
		if !ok {
			s = len(slotCases)
			slotOf[k] = s
			slotCases = append(slotCases, i)
		}
		caseSlot[i] = s
	}
	perm := rnd.Perm(len(slotCases)) // slot -> position on the time axis
	slotTime := func(s int) int64 { return conc.base + int64(perm[s])*10 }

	// ---- load everything into one TSDB, in time order
	dir := os.Getenv("VERIF_SCRATCH")
	if dir != "" {
		os.Setenv("TMPDIR", dir)
	}
	st := teststorage.New(t)
	type pt struct {
		ls labels.Labels
		t  int64
		v  float64
	}
	var pts []pt
	for s, ci := range slotCases {
		cs := &cases[ci]
		for _, x := range cs.R {
			pts = append(pts, pt{conc.lset(x.M), slotTime(s), c29Float(x.V)})
		}
		for _, x := range cs.L {
			v := c29Float(x.V)
			if x.V.T == "f" {
				v *= cs.sc()
			}
			pts = append(pts, pt{conc.lset(x.M), slotTime(s) + 5, v})
		}
	}
	sort.SliceStable(pts, func(i, j int) bool { return pts[i].t < pts[j].t })
	app := st.Appender(context.Background())
	for i, p := range pts {
		if _, err := app.Append(0, p.ls, p.t, p.v); err != nil {
			verifh.Infra(fmt.Sprintf("append %s@%d: %v", p.ls, p.t, err))
			t.Fatal(err)
		}
		if i%20000 == 19999 {
			if err := app.Commit(); err != nil {
				verifh.Infra(err.Error())
				t.Fatal(err)
			}
			app = st.Appender(context.Background())
		}
	}
	if err := app.Commit(); err != nil {
		verifh.Infra(err.Error())
		t.Fatal(err)
	}

	mkEngine := func(delayed bool) *promql.Engine {
		return promql.NewEngine(promql.EngineOpts{
			MaxSamples: 1000000, Timeout: 100 * time.Second, LookbackDelta: 2 * time.Millisecond,
			EnableAtModifier: true, EnableNegativeOffset: true, EnableDelayedNameRemoval: delayed,
			Parser: parser.NewParser(parser.Options{EnableExperimentalFunctions: true, EnableBinopFillModifiers: true}),
		})
	}
	engines := []*promql.Engine{mkEngine(false), mkEngine(true)}
	defer engines[0].Close()
	defer engines[1].Close()

	var (
		mu       sync.Mutex
		nviol    int
		ndrift   int
		nevals   int
		perKind  = map[string]int{}
		kfSeen   = map[string]int{}
		sigSeen  = map[string]int{}
		errCases int
		sampled  int
	)
	report := func(v c29Verdict, cs *c29Case, qs string, eng int) {
		mu.Lock()
		defer mu.Unlock()
		switch v.kind {
		case "violation":
			nviol++
			if strings.HasPrefix(v.sig, "KF-") {
				kfSeen[strings.SplitN(v.sig, ":", 2)[0]]++
			}
			sigSeen[v.sig]++
			if sigSeen[v.sig] > 3 { // verifh keeps the first 50 records only: leave room for every signature
				return
			}
			verifh.Violation(v.sig, fmt.Sprintf("[engine delayedNameRemoval=%v] %s", eng == 1, v.msg), map[string]any{"case": cs, "query": qs, "seed": seed})
		case "drift":
			ndrift++
			if ndrift <= 20 {
				verifh.Drift(v.msg)
			}
		case "infra":
			verifh.Infra(v.msg)
		}
	}

	work := make(chan int, 256)
	var wg sync.WaitGroup
	for w := 0; w < 8; w++ {
		wg.Add(1)
		go func() {
			defer wg.Done()
			for i := range work {
				cs := &cases[i]
				qs := c29Query(cs.Q, i+int(seed))
				ts := time.UnixMilli(slotTime(caseSlot[i]) + 5)
				for ei, ng := range engines {
					// the delayed-name-removal engine evaluates every 3rd case (same predictions)
					if ei == 1 && (i+int(seed))%3 != 0 {
						continue
					}
					qry, err := ng.NewInstantQuery(context.Background(), st, nil, qs, ts)
					if err != nil {
						report(c29Verdict{"infra", "", fmt.Sprintf("query %q does not parse: %v", qs, err)}, cs, qs, ei)
						continue
					}
					res := qry.Exec(context.Background())
					v := conc.judge(cs, qs, res)
					qry.Close()
					mu.Lock()
					nevals++
					mu.Unlock()
					if v.kind != "" {
						report(v, cs, qs, ei)
					}
				}
				mu.Lock()
				perKind[cs.Q.K+":"+cs.Q.Op]++
				if cs.Out.Err != "none" {
					errCases++
				}
				if sampled < 3 && i%(len(cases)/3+1) == 0 {
					sampled++
					verifh.Sample(map[string]any{"query": qs, "case": cs})
				}
				mu.Unlock()
			}
		}()
	}
	for i := range cases {
		work <- i
	}
	close(work)
	wg.Wait()

	stat := map[string]any{"c29_cases": len(cases), "c29_slots": len(slotCases), "c29_evaluations": nevals,
		"c29_error_cases": errCases, "c29_samples_loaded": len(pts)}
	for k, n := range kfSeen {
		stat["c29_seen_"+k] = n
	}
	ops := make([]string, 0, len(perKind))
	for k, n := range perKind {
		ops = append(ops, fmt.Sprintf("%s=%d", k, n))
	}
	sort.Strings(ops)
	stat["c29_per_operator"] = strings.Join(ops, " ")
	verifh.Stat(stat)
	verifh.Done(len(cases))
	if nviol > 0 {
		t.Fail()
	}
}
