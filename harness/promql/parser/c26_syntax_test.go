package parser

// C26 conformance harness. Cases come from specs/promql_syntax/Syntax.tla (token text, predicted
// verdict, predicted AST, single-token mutations) and TokenSeqs.tla (short token sequences).
// For every case the real parser must
//   - accept the text iff the spec predicts so, and produce exactly the predicted AST;
//   - print (String) to a text that parses to an equal AST and prints identically;
//   - pretty-print (Prettify, at several line widths) to a text that parses to an equal AST;
//   - on every mutated / arbitrary token sequence either parse (then the same round trips must
//     hold) or fail with ParseErrors - never ErrUnexpected, never a panic.
// In-package (package parser) only to be able to lower maxCharactersPerLine for Prettify.

import (
	"errors"
	"fmt"
	"math"
	"reflect"
	"sort"
	"strconv"
	"strings"
	"testing"
	"time"

	"github.com/prometheus/prometheus/internal/verifh"
	"github.com/prometheus/prometheus/model/labels"
)

type c26Case struct {
	Toks []string       `json:"toks"`
	Ok   bool           `json:"ok"`
	Ast  map[string]any `json:"ast"`
	Ty   string         `json:"ty"`
	Muts [][]any        `json:"muts"`
	Seq  bool           `json:"seq"` // TokenSeqs.tla case: only totality
	Kf   string         `json:"kf"`  // known deviation labelled by the spec ("infpow")
}

// c26Node is the comparable form of an AST (positions dropped, nil == empty).
type c26Node struct {
	K                string
	V                string // number, canonical
	Dur              bool
	S                string
	Name             string
	LM               []string
	Off, R, St       int64 // nanoseconds
	OffExpr, RExpr   string
	StExpr           string
	At               string
	Ext              string
	Bypass           bool
	VS, E, Param     *c26Node
	L, Rt            *c26Node
	F                string
	Args             []*c26Node
	Op               string
	Without, Bool    bool
	Grp              []string
	VM               *c26VM
}

type c26VM struct {
	On           bool
	Lbls, Incl   []string
	Card         string
	FL, FR       string
}

func c26Float(f float64) string {
	switch {
	case math.IsNaN(f):
		return "NaN"
	case math.IsInf(f, 1):
		return "+Inf"
	case math.IsInf(f, -1):
		return "-Inf"
	}
	if f == 0 && math.Signbit(f) {
		return "-0"
	}
	return strconv.FormatFloat(f, 'g', -1, 64)
}

func c26At(ts *int64, soe ItemType) string {
	switch {
	case ts != nil:
		return "abs:" + strconv.FormatInt(*ts, 10)
	case soe == START:
		return "start"
	case soe == END:
		return "end"
	}
	return "none"
}

func c26Strs(s []string) []string {
	if len(s) == 0 {
		return nil
	}
	return append([]string(nil), s...)
}

func c26DurExpr(d *DurationExpr) string {
	if d == nil {
		return ""
	}
	return d.String()
}

// c26Norm converts a real AST.
func c26Norm(e Node) *c26Node {
	switch n := e.(type) {
	case nil:
		return nil
	case *NumberLiteral:
		return &c26Node{K: "num", V: c26Float(n.Val), Dur: n.Duration}
	case *StringLiteral:
		return &c26Node{K: "str", S: n.Val}
	case *VectorSelector:
		r := &c26Node{K: "vs", Name: n.Name, Off: int64(n.OriginalOffset), OffExpr: c26DurExpr(n.OriginalOffsetExpr),
			At: c26At(n.Timestamp, n.StartOrEnd), Bypass: n.BypassEmptyMatcherCheck}
		switch {
		case n.Anchored && n.Smoothed:
			r.Ext = "both"
		case n.Anchored:
			r.Ext = "anchored"
		case n.Smoothed:
			r.Ext = "smoothed"
		}
		for _, m := range n.LabelMatchers {
			if m == nil {
				r.LM = append(r.LM, "<nil>")
				continue
			}
			if m.Name == labels.MetricName && m.Type == labels.MatchEqual && m.Value == n.Name && n.Name != "" {
				continue
			}
			r.LM = append(r.LM, m.Name+"\x00"+m.Type.String()+"\x00"+m.Value)
		}
		sort.Strings(r.LM)
		return r
	case *MatrixSelector:
		return &c26Node{K: "ms", VS: c26Norm(n.VectorSelector), R: int64(n.Range), RExpr: c26DurExpr(n.RangeExpr)}
	case *SubqueryExpr:
		return &c26Node{K: "sq", E: c26Norm(n.Expr), R: int64(n.Range), RExpr: c26DurExpr(n.RangeExpr), St: int64(n.Step),
			StExpr: c26DurExpr(n.StepExpr), Off: int64(n.OriginalOffset), OffExpr: c26DurExpr(n.OriginalOffsetExpr), At: c26At(n.Timestamp, n.StartOrEnd)}
	case *Call:
		r := &c26Node{K: "call"}
		if n.Func != nil {
			r.F = n.Func.Name
		}
		for _, a := range n.Args {
			r.Args = append(r.Args, c26Norm(a))
		}
		return r
	case *AggregateExpr:
		r := &c26Node{K: "agg", Op: n.Op.String(), E: c26Norm(n.Expr), Without: n.Without, Grp: c26Strs(n.Grouping)}
		if n.Param != nil {
			r.Param = c26Norm(n.Param)
		}
		return r
	case *BinaryExpr:
		r := &c26Node{K: "bin", Op: n.Op.String(), L: c26Norm(n.LHS), Rt: c26Norm(n.RHS), Bool: n.ReturnBool}
		if vm := n.VectorMatching; vm != nil {
			r.VM = &c26VM{On: vm.On, Lbls: c26Strs(vm.MatchingLabels), Incl: c26Strs(vm.Include), Card: vm.Card.String()}
			if vm.FillValues.LHS != nil {
				r.VM.FL = c26Float(*vm.FillValues.LHS)
			}
			if vm.FillValues.RHS != nil {
				r.VM.FR = c26Float(*vm.FillValues.RHS)
			}
		}
		return r
	case *UnaryExpr:
		return &c26Node{K: "un", Op: n.Op.String(), E: c26Norm(n.Expr)}
	case *ParenExpr:
		return &c26Node{K: "paren", E: c26Norm(n.Expr)}
	case *StepInvariantExpr:
		return &c26Node{K: "si", E: c26Norm(n.Expr)}
	case *DurationExpr:
		return &c26Node{K: "durexpr", S: n.String()}
	}
	return &c26Node{K: fmt.Sprintf("unknown:%T", e)}
}

// concretisation of symbolic strings / names
type c26Conc struct {
	strs  map[string]string
	names map[string]string
	style int // quoting style of string literals
	sep   string
	// totality: comments are not everywhere equivalent to whitespace for the lexer (not inside [ ],
	// not between fill / fill_left / fill_right and their parenthesis), so texts with comments are only
	// checked for totality and round trip, not against the predicted verdict
	totality bool
}

func c26Concs(seed int64) []c26Conc {
	base := map[string]string{"empty": "", "x": "x", "re": "y.*", "restar": ".*", "esc": "a\"b\\c\n\t'd", "utf8": "é ☃ 日本"}
	alt := map[string]string{"empty": "", "x": "some value", "re": "(a|b)+", "restar": "z*", "esc": "`tick` \\n", "utf8": "\U0001F600"}
	n1 := map[string]string{"u.l": "u.l", "u.m": "u.m"}
	n2 := map[string]string{"u.l": "label with space", "u.m": "métrique-1"}
	n3 := map[string]string{"u.l": "1l", "u.m": "on"}
	all := []c26Conc{
		{strs: base, names: n1, style: 0, sep: " "},
		{strs: alt, names: n2, style: 1, sep: "  "},
		{strs: base, names: n3, style: 2, sep: "\n"},
	}
	k := int(seed) % len(all)
	if k < 0 {
		k += len(all)
	}
	all = append(all[k:], all[:k]...)
	// always last
	return append(all, c26Conc{strs: alt, names: n1, style: 0, sep: " # c\n", totality: true})
}

func (c c26Conc) quote(v string) string {
	switch c.style {
	case 1: // single quotes
		r := strings.NewReplacer("\\", "\\\\", "'", "\\'", "\n", "\\n", "\t", "\\t")
		return "'" + r.Replace(v) + "'"
	case 2: // raw string when possible
		if !strings.ContainsAny(v, "`") {
			return "`" + v + "`"
		}
	}
	return strconv.Quote(v)
}

func (c c26Conc) tok(t string) string {
	switch {
	case strings.HasPrefix(t, "$S:"):
		return c.quote(c.strs[t[3:]])
	case strings.HasPrefix(t, "$U:"):
		return strconv.Quote(c.names[t[3:]])
	}
	return t
}

func (c c26Conc) text(toks []string) string {
	// the lexer accepts "# comment" between tokens everywhere except inside [ ... ] (lexDurationExpr
	// rejects '#': "unexpected character in duration expression"), so comments are not put there
	var b strings.Builder
	inBrackets := 0
	for i, t := range toks {
		if i > 0 {
			if inBrackets > 0 && strings.Contains(c.sep, "#") {
				b.WriteString(" ")
			} else {
				b.WriteString(c.sep)
			}
		}
		switch t {
		case "[":
			inBrackets++
		case "]":
			if inBrackets > 0 {
				inBrackets--
			}
		}
		b.WriteString(c.tok(t))
	}
	return b.String()
}

func (c c26Conc) name(id string) string {
	if v, ok := c.names[id]; ok {
		return v
	}
	return id
}

func c26Num(v any) float64 {
	a := v.([]any)
	n, d := a[0].(float64), a[1].(float64)
	if d == 0 {
		switch n {
		case 0:
			return math.NaN()
		case 1:
			return math.Inf(1)
		default:
			return math.Inf(-1)
		}
	}
	return n / d
}

func c26StrList(c c26Conc, v any) []string {
	a, _ := v.([]any)
	var r []string
	for _, x := range a {
		r = append(r, c.name(x.(string)))
	}
	return r
}

func c26AtModel(v any) string {
	a := v.([]any)
	switch a[0].(string) {
	case "abs":
		return "abs:" + strconv.FormatInt(int64(a[1].(float64)), 10)
	case "none":
		return "none"
	}
	return a[0].(string)
}

func c26Ms(v any) int64 { return int64(v.(float64)) * int64(time.Millisecond) }

var c26MatchOps = map[string]string{"=": "=", "!=": "!=", "=~": "=~", "!~": "!~"}

var c26Cards = map[string]string{"1:1": CardOneToOne.String(), "n:1": CardManyToOne.String(), "1:n": CardOneToMany.String(), "n:n": CardManyToMany.String()}

// c26FromModel converts the AST predicted by the spec.
func c26FromModel(c c26Conc, m map[string]any) *c26Node {
	switch m["k"].(string) {
	case "none":
		return nil
	case "num":
		return &c26Node{K: "num", V: c26Float(c26Num(m["v"])), Dur: m["dur"].(bool)}
	case "str":
		return &c26Node{K: "str", S: c.strs[m["s"].(string)]}
	case "vs":
		r := &c26Node{K: "vs", Name: c.name(m["name"].(string)), Off: c26Ms(m["off"]), At: c26AtModel(m["at"]), Ext: m["ext"].(string)}
		for _, x := range m["lm"].([]any) {
			a := x.([]any)
			val := a[2].(string)
			if strings.HasPrefix(val, "$U:") {
				val = c.name(val[3:])
			} else {
				val = c.strs[val]
			}
			r.LM = append(r.LM, c.name(a[0].(string))+"\x00"+c26MatchOps[a[1].(string)]+"\x00"+val)
		}
		sort.Strings(r.LM)
		return r
	case "ms":
		return &c26Node{K: "ms", VS: c26FromModel(c, m["vs"].(map[string]any)), R: c26Ms(m["r"])}
	case "sq":
		return &c26Node{K: "sq", E: c26FromModel(c, m["e"].(map[string]any)), R: c26Ms(m["r"]), St: c26Ms(m["st"]), Off: c26Ms(m["off"]), At: c26AtModel(m["at"])}
	case "call":
		r := &c26Node{K: "call", F: m["f"].(string)}
		if a, ok := m["args"].([]any); ok {
			for _, x := range a {
				r.Args = append(r.Args, c26FromModel(c, x.(map[string]any)))
			}
		}
		return r
	case "agg":
		return &c26Node{K: "agg", Op: m["op"].(string), Param: c26FromModel(c, m["param"].(map[string]any)), E: c26FromModel(c, m["e"].(map[string]any)),
			Without: m["without"].(bool), Grp: c26StrList(c, m["grp"])}
	case "bin":
		r := &c26Node{K: "bin", Op: m["op"].(string), L: c26FromModel(c, m["l"].(map[string]any)), Rt: c26FromModel(c, m["r"].(map[string]any)), Bool: m["bool"].(bool)}
		vm := m["vm"].(map[string]any)
		if _, none := vm["k"]; !none {
			r.VM = &c26VM{On: vm["on"].(bool), Lbls: c26StrList(c, vm["lbls"]), Incl: c26StrList(c, vm["incl"]), Card: c26Cards[vm["card"].(string)]}
			if fl := vm["fl"].([]any); fl[0].(bool) {
				r.VM.FL = c26Float(c26Num(fl[1]))
			}
			if fr := vm["fr"].([]any); fr[0].(bool) {
				r.VM.FR = c26Float(c26Num(fr[1]))
			}
		}
		return r
	case "un":
		return &c26Node{K: "un", Op: m["op"].(string), E: c26FromModel(c, m["e"].(map[string]any))}
	case "paren":
		return &c26Node{K: "paren", E: c26FromModel(c, m["e"].(map[string]any))}
	}
	return &c26Node{K: "unknown-model-node"}
}

func c26Dump(n *c26Node) string {
	if n == nil {
		return "nil"
	}
	var b strings.Builder
	var rec func(n *c26Node)
	rec = func(n *c26Node) {
		if n == nil {
			b.WriteString("_")
			return
		}
		b.WriteString(n.K + "{")
		v := reflect.ValueOf(*n)
		for i := 0; i < v.NumField(); i++ {
			f := v.Field(i)
			name := v.Type().Field(i).Name
			if name == "K" || f.IsZero() {
				continue
			}
			switch x := f.Interface().(type) {
			case *c26Node:
				b.WriteString(name + ":")
				rec(x)
				b.WriteString(" ")
			case []*c26Node:
				b.WriteString(name + ":[")
				for _, y := range x {
					rec(y)
					b.WriteString(",")
				}
				b.WriteString("] ")
			case *c26VM:
				fmt.Fprintf(&b, "VM:%+v ", *x)
			default:
				fmt.Fprintf(&b, "%s:%q ", name, fmt.Sprint(x))
			}
		}
		b.WriteString("}")
	}
	rec(n)
	return b.String()
}

var c26Parser = NewParser(Options{EnableExperimentalFunctions: true, ExperimentalDurationExpr: true, EnableExtendedRangeSelectors: true, EnableBinopFillModifiers: true})

// c26Parse parses, converting a panic into (nil, nil, panic value).
func c26Parse(text string) (e Expr, err error, pan any) {
	defer func() {
		if r := recover(); r != nil {
			pan = r
		}
	}()
	e, err = c26Parser.ParseExpr(text)
	return e, err, nil
}

// c26RoundTrip checks print -> parse -> equal & prints identically, and Prettify -> parse -> equal.
// Returns "" or (sig-kind, message).
func c26RoundTrip(e Expr, widths []int) (string, string) {
	n1 := c26Norm(e)
	s1 := e.String()
	e2, err, pan := c26Parse(s1)
	if pan != nil {
		return "print-panic", fmt.Sprintf("String() = %q: parser panicked: %v", s1, pan)
	}
	if err != nil {
		return "print-reject", fmt.Sprintf("String() = %q is rejected: %v", s1, err)
	}
	if n2 := c26Norm(e2); !reflect.DeepEqual(n1, n2) {
		return "print-ast", fmt.Sprintf("String() = %q parses to a different AST: %s vs %s", s1, c26Dump(n2), c26Dump(n1))
	}
	if s2 := e2.String(); s2 != s1 {
		return "print-unstable", fmt.Sprintf("String() = %q, after re-parse %q", s1, s2)
	}
	old := maxCharactersPerLine
	defer func() { maxCharactersPerLine = old }()
	for _, w := range widths {
		maxCharactersPerLine = w
		p := Prettify(e)
		e3, err, pan := c26Parse(p)
		if pan != nil {
			return "pretty-panic", fmt.Sprintf("Prettify(width %d) = %q: parser panicked: %v", w, p, pan)
		}
		if err != nil {
			return "pretty-reject", fmt.Sprintf("Prettify(width %d) = %q is rejected: %v", w, p, err)
		}
		if n3 := c26Norm(e3); !reflect.DeepEqual(n1, n3) {
			return "pretty-ast", fmt.Sprintf("Prettify(width %d) = %q parses to a different AST: %s vs %s", w, p, c26Dump(n3), c26Dump(n1))
		}
	}
	return "", ""
}

func c26ApplyMut(toks []string, m []any) []string {
	kind := m[0].(string)
	i := int(m[1].(float64)) - 1
	out := append([]string(nil), toks...)
	switch kind {
	case "del":
		return append(out[:i], out[i+1:]...)
	case "dup":
		return append(out[:i+1], append([]string{toks[i]}, out[i+1:]...)...)
	case "swap":
		out[i], out[i+1] = out[i+1], out[i]
	}
	return out
}

// c26InfPow mirrors InfPowLHS of Syntax.tla (KF-C26-1): a +Inf literal as left operand of ^.
func c26InfPow(n *c26Node) bool {
	if n == nil {
		return false
	}
	if n.K == "bin" && n.Op == "^" && n.L != nil && n.L.K == "num" && n.L.V == "+Inf" {
		return true
	}
	for _, c := range []*c26Node{n.VS, n.E, n.Param, n.L, n.Rt} {
		if c26InfPow(c) {
			return true
		}
	}
	for _, a := range n.Args {
		if c26InfPow(a) {
			return true
		}
	}
	return false
}

// c26OffNaN recognises KF-C26-2: an offset of math.MinInt64 nanoseconds (what `offset NaN` becomes).
func c26OffNaN(n *c26Node) bool {
	if n == nil {
		return false
	}
	if n.Off == math.MinInt64 {
		return true
	}
	for _, c := range []*c26Node{n.VS, n.E, n.Param, n.L, n.Rt} {
		if c26OffNaN(c) {
			return true
		}
	}
	for _, a := range n.Args {
		if c26OffNaN(a) {
			return true
		}
	}
	return false
}

// c26Shape is a coarse class of the text for violation signatures.
func c26Shape(n *c26Node) string {
	if n == nil {
		return "rejected"
	}
	switch n.K {
	case "bin":
		return "bin(" + n.Op + ")"
	case "agg":
		return "agg(" + n.Op + ")"
	case "call":
		return "call(" + n.F + ")"
	}
	return n.K
}

func TestVerifC26Syntax(t *testing.T) {
	cases, err := verifh.ReadNDJSON[c26Case](verifh.In())
	if err != nil {
		verifh.Infra(err.Error())
		t.Fatal(err)
	}
	concs := c26Concs(verifh.Seed())
	nconc := 2
	if !verifh.Quick() {
		nconc = len(concs) - 1
	}
	comments := concs[len(concs)-1]
	widths := []int{100, 30, 8, 1}
	var parsed, rejected, mutTotal, mutParsed, mutRejected, seqs, kfSeen int
	kfBy := map[string]int{}
	kfMore := func(label string) bool { kfSeen++; kfBy[label]++; return kfBy[label] <= 4 }
	viol := func(sig, msg string, cs *c26Case, text string) {
		verifh.Violation(sig, msg, map[string]any{"toks": cs.Toks, "text": text, "predicted_ok": cs.Ok, "predicted_ast": cs.Ast})
	}
	// totality + round trip of whatever is accepted
	any1 := func(cs *c26Case, text, what string) (Expr, bool) {
		e, err, pan := c26Parse(text)
		if pan != nil {
			viol(what+"|panic", fmt.Sprintf("%s %q: parser panicked: %v", what, text, pan), cs, text)
			return nil, false
		}
		if err != nil {
			var pe ParseErrors
			if errors.Is(err, ErrUnexpected) || !errors.As(err, &pe) {
				viol(what+"|internal-error", fmt.Sprintf("%s %q: internal error instead of a syntax/type error: %v", what, text, err), cs, text)
			}
			return nil, false
		}
		return e, true
	}
	for ci := range cases {
		cs := &cases[ci]
		if !cs.Seq && (ci+int(verifh.Seed()))%2 == 0 {
			text := comments.text(cs.Toks)
			if e, ok := any1(cs, text, "commented"); ok {
				if kind, msg := c26RoundTrip(e, widths[:2]); kind != "" && !((c26InfPow(c26Norm(e)) || c26OffNaN(c26Norm(e))) && strings.HasPrefix(kind, "print-")) {
					viol("commented|"+kind, fmt.Sprintf("%q: %s", text, msg), cs, text)
				}
			}
		}
		for k := 0; k < nconc; k++ {
			c := concs[k]
			if cs.Seq {
				text := c.text(cs.Toks)
				seqs++
				if e, ok := any1(cs, text, "sequence"); ok {
					if kind, msg := c26RoundTrip(e, widths); kind != "" {
						sig := "sequence|" + kind
						if c26InfPow(c26Norm(e)) && (kind == "print-ast" || kind == "print-unstable") {
							if !kfMore("infpow") {
								continue
							}
							sig = "known-infpow|" + kind
						} else if c26OffNaN(c26Norm(e)) && strings.HasPrefix(kind, "print-") {
							if !kfMore("offnan") {
								continue
							}
							sig = "known-offnan|" + kind
						}
						viol(sig, fmt.Sprintf("accepted token sequence %q: %s", text, msg), cs, text)
					}
				}
				if k == 0 {
					break // strings are not part of the short sequences: one concretisation is enough
				}
				continue
			}
			text := c.text(cs.Toks)
			e, ok := any1(cs, text, "text")
			want := (*c26Node)(nil)
			if cs.Ok {
				want = c26FromModel(c, cs.Ast)
			}
			shape := c26Shape(want)
			switch {
			case ok && !cs.Ok && cs.Kf == "offnan" && c26OffNaN(c26Norm(e)):
				if kfMore("offnan") {
					viol("known-offnan|accepted", fmt.Sprintf("%q is accepted (offset NaN becomes %s)", text, e.String()), cs, text)
				}
			case ok && !cs.Ok:
				viol(shape+"|accepted", fmt.Sprintf("%q is accepted (as %s) but the spec says it must be rejected", text, c26Dump(c26Norm(e))), cs, text)
			case !ok && cs.Ok:
				_, err, _ := c26Parse(text)
				viol(shape+"|rejected", fmt.Sprintf("%q is rejected (%v) but the spec says it parses to %s", text, err, c26Dump(want)), cs, text)
			case ok:
				parsed++
				got := c26Norm(e)
				if !reflect.DeepEqual(got, want) {
					viol(shape+"|ast", fmt.Sprintf("%q parses to %s, the spec says %s", text, c26Dump(got), c26Dump(want)), cs, text)
					break
				}
				if ty := string(e.Type()); ty != cs.Ty {
					viol(shape+"|type", fmt.Sprintf("%q has type %s, the spec says %s", text, ty, cs.Ty), cs, text)
				}
				if kind, msg := c26RoundTrip(e, widths); kind != "" {
					sig := shape + "|" + kind
					if cs.Kf != "" && c26InfPow(got) && (kind == "print-ast" || kind == "print-unstable") {
						if !kfMore(cs.Kf) {
							break
						}
						sig = "known-" + cs.Kf + "|" + kind
					}
					viol(sig, fmt.Sprintf("%q: %s", text, msg), cs, text)
				}
			default:
				rejected++
			}
			// single-token mutations (quick tier: first concretisation, every third text)
			if verifh.Quick() && (k > 0 || (ci+int(verifh.Seed()))%3 != 0) {
				continue
			}
			for _, m := range cs.Muts {
				mt := c.text(c26ApplyMut(cs.Toks, m))
				mutTotal++
				if me, ok := any1(cs, mt, "mutation"); ok {
					mutParsed++
					if kind, msg := c26RoundTrip(me, widths[:2]); kind != "" {
						sig := "mutation|" + kind
						if c26InfPow(c26Norm(me)) && (kind == "print-ast" || kind == "print-unstable") {
							if !kfMore("infpow") {
								continue
							}
							sig = "known-infpow|" + kind
						} else if c26OffNaN(c26Norm(me)) && strings.HasPrefix(kind, "print-") {
							if !kfMore("offnan") {
								continue
							}
							sig = "known-offnan|" + kind
						}
						viol(sig, fmt.Sprintf("mutation %v of %q = %q is accepted but: %s", m, text, mt, msg), cs, mt)
					}
				} else {
					mutRejected++
				}
			}
		}
	}
	verifh.Stat(map[string]any{"known_deviation_observed": kfSeen, "texts_parsed": parsed, "texts_rejected_as_predicted": rejected, "mutations": mutTotal,
		"mutations_accepted": mutParsed, "mutations_rejected": mutRejected, "short_sequences": seqs})
	if len(cases) > 0 {
		verifh.Sample(map[string]any{"text": concs[0].text(cases[0].Toks), "ok": cases[0].Ok})
		verifh.Sample(map[string]any{"text": concs[0].text(cases[len(cases)/2].Toks), "ok": cases[len(cases)/2].Ok})
	}
	verifh.Done(len(cases))
	if verifh.Violations() > 0 {
		t.Fail()
	}
}
