package promql_test

// C32 conformance harness: replays records emitted by specs/hist/HistQ.tla.
// Every "Query" record is an abstract native histogram (integer counts) with,
// decided by the spec in exact arithmetic: the bucket(s) holding the rank
// k/qden * count for every k, and an ascending list of query bounds. The
// harness builds the real histogram, stores all of them as series of a test
// storage, evaluates histogram_quantile / histogram_fraction /
// histogram_count / _sum / _avg through the real PromQL engine (one instant
// query per function and argument, over all series) and directly through
// promql.HistogramQuantile / HistogramFraction, and checks the relations the
// property fixes. "Classic" records are classic bucket sets (cumulative counts,
// possibly non-monotonic) for promql.BucketQuantile and the engine.

import (
	"context"
	"encoding/json"
	"fmt"
	"math"
	"math/rand"
	"sort"
	"strconv"
	"testing"
	"time"

	"github.com/prometheus/prometheus/internal/verifh"
	"github.com/prometheus/prometheus/model/histogram"
	"github.com/prometheus/prometheus/model/labels"
	"github.com/prometheus/prometheus/promql"
	"github.com/prometheus/prometheus/promql/parser/posrange"
	"github.com/prometheus/prometheus/promql/promqltest"
	"github.com/prometheus/prometheus/util/teststorage"
)

type hqJ struct {
	Ty  string     `json:"ty"`
	K   string     `json:"k"`
	S   int32      `json:"s"`
	Zt  int64      `json:"zt"`
	Zc  int64      `json:"zc"`
	Cnt int64      `json:"cnt"`
	Sum int64      `json:"sum"`
	Cv  []int      `json:"cv"`
	P   [][2]int64 `json:"p"`
	N   [][2]int64 `json:"n"`
}

type hqStep struct {
	Op     string             `json:"op"`
	Smin   int32              `json:"smin"`
	Smax   int32              `json:"smax"`
	Cbinf  int                `json:"cbinf"`
	H      *hqJ               `json:"H"`
	Cnt    int64              `json:"cnt"`
	Sum    int64              `json:"sum"`
	Ranks  map[string][][]any `json:"ranks"`
	Qden   int                `json:"qden"`
	Bounds [][]any            `json:"bounds"`
	// buckets present in the spans with a count of 0, one entry per layout of the same histogram
	Layouts []struct {
		P []int64 `json:"p"`
		N []int64 `json:"n"`
	} `json:"layouts"`
	Counts [][2]int64         `json:"counts"`
}

const hqZT0 = -1000

// concretisation: real schema = model schema + shift; thresholds/bounds from the real bucket bounds
type hqConc struct {
	smin, smax int32
	cbinf      int
	shift      int32
	scale      int64
	cb         []float64
	bc         map[[2]int32]float64
}

func (c *hqConc) schema(s int32) int32 { return s + c.shift }

func (c *hqConc) bound(idx, schema int32) float64 {
	k := [2]int32{idx, schema}
	if v, ok := c.bc[k]; ok {
		return v
	}
	h := &histogram.FloatHistogram{Schema: schema, PositiveSpans: []histogram.Span{{Offset: idx, Length: 1}}, PositiveBuckets: []float64{1}}
	it := h.PositiveBucketIterator()
	it.Next()
	v := it.At().Upper
	c.bc[k] = v
	return v
}

// units -> real value (units of 2^-(smax+1) octaves of the model's finest schema)
func (c *hqConc) units(u int64) float64 {
	fine := c.schema(c.smax)
	if u%2 == 0 {
		return c.bound(int32(u/2), fine)
	}
	lo, hi := c.bound(int32((u-1)/2), fine), c.bound(int32((u+1)/2), fine)
	return math.Sqrt(lo) * math.Sqrt(hi)
}

func (c *hqConc) thr(t int64) float64 {
	if t == hqZT0 {
		return 0
	}
	return c.units(t)
}

func hqSpans(m map[int32]int64) ([]histogram.Span, []float64, []int32) {
	var idx []int32
	for i := range m {
		idx = append(idx, i)
	}
	sort.Slice(idx, func(a, b int) bool { return idx[a] < idx[b] })
	var spans []histogram.Span
	var bs []float64
	var next int32
	for k, i := range idx {
		if k > 0 && i == next {
			spans[len(spans)-1].Length++
		} else {
			spans = append(spans, histogram.Span{Offset: i - next, Length: 1})
		}
		next = i + 1
		bs = append(bs, float64(m[i]))
	}
	return spans, bs, idx
}

func (c *hqConc) cbPos(key int64, cv []int) int32 {
	ids := append([]int(nil), cv...)
	sort.Ints(ids)
	if int(key) == c.cbinf {
		return int32(len(ids))
	}
	for p, id := range ids {
		if int64(id) == key {
			return int32(p)
		}
	}
	panic("bad custom bucket key")
}

func (c *hqConc) build(j *hqJ, padP, padN []int64) *histogram.FloatHistogram {
	h := &histogram.FloatHistogram{Count: float64(j.Cnt * c.scale), Sum: float64(j.Sum) * 0.5}
	p, n := map[int32]int64{}, map[int32]int64{}
	// explicitly empty buckets of this layout
	for _, i := range padP {
		if j.K == "cb" {
			p[c.cbPos(i, j.Cv)] = 0
		} else {
			p[int32(i)] = 0
		}
	}
	for _, i := range padN {
		n[int32(i)] = 0
	}
	for _, e := range j.P {
		if j.K == "cb" {
			p[c.cbPos(e[0], j.Cv)] = e[1] * c.scale
		} else {
			p[int32(e[0])] = e[1] * c.scale
		}
	}
	for _, e := range j.N {
		n[int32(e[0])] = e[1] * c.scale
	}
	if j.K == "cb" {
		h.Schema = histogram.CustomBucketsSchema
		ids := append([]int(nil), j.Cv...)
		sort.Ints(ids)
		for _, id := range ids {
			h.CustomValues = append(h.CustomValues, c.cb[id-1])
		}
		h.PositiveSpans, h.PositiveBuckets, _ = hqSpans(p)
		return h
	}
	h.Schema = c.schema(j.S)
	h.ZeroThreshold = c.thr(j.Zt)
	h.ZeroCount = float64(j.Zc * c.scale)
	h.PositiveSpans, h.PositiveBuckets, _ = hqSpans(p)
	h.NegativeSpans, h.NegativeBuckets, _ = hqSpans(n)
	return h
}

// real bounds of the bucket named by the spec (["p", i] / ["n", i] / ["z", 0])
func (c *hqConc) bucketBounds(j *hqJ, h *histogram.FloatHistogram, b []any) (lo, hi float64) {
	side := b[0].(string)
	i := int32(b[1].(float64))
	switch side {
	case "z":
		return -h.ZeroThreshold, h.ZeroThreshold
	case "p":
		if j.K == "cb" {
			i = c.cbPos(int64(i), j.Cv)
		}
		for it := h.PositiveBucketIterator(); it.Next(); {
			if bk := it.At(); bk.Index == i {
				return bk.Lower, bk.Upper
			}
		}
	default:
		for it := h.NegativeBucketIterator(); it.Next(); {
			if bk := it.At(); bk.Index == i {
				return bk.Lower, bk.Upper
			}
		}
	}
	panic(fmt.Sprintf("bucket %v not found", b))
}

// query bound symbol -> real value
func (c *hqConc) point(j *hqJ, h *histogram.FloatHistogram, b []any) float64 {
	switch b[0].(string) {
	case "ninf":
		return math.Inf(-1)
	case "pinf":
		return math.Inf(1)
	case "cb":
		return h.CustomValues[int(b[1].(float64))-1]
	case "cbmid":
		if len(h.CustomValues) == 0 {
			return 1
		}
		return h.CustomValues[len(h.CustomValues)-1] + 1
	default: // ["pt", sign, units]
		sg, u := b[1].(float64), int64(b[2].(float64))
		if sg == 0 {
			return 0
		}
		return sg * c.units(u)
	}
}

func hqLeq(a, b float64) bool {
	if math.IsNaN(a) || math.IsNaN(b) {
		return false // NaN satisfies no relation: it is a failure wherever a relation is demanded
	}
	if a <= b {
		return true
	}
	return a-b <= 1e-9*math.Max(math.Abs(a), math.Abs(b)) // interpolation rounds in floating point
}

type hqCase struct {
	rec  hqStep
	h    *histogram.FloatHistogram
	name string
}

func TestVerifC32Replay(t *testing.T) {
	behs, err := verifh.ReadNDJSON[[]hqStep](verifh.In())
	if err != nil {
		verifh.Infra(err.Error())
		t.Fatal(err)
	}
	rnd := rand.New(rand.NewSource(verifh.Seed()))
	stor := teststorage.New(t)
	ctx := context.Background()
	app := stor.Appender(ctx)
	ts := int64(60000)
	var cases []*hqCase
	var classics [][][2]int64
	qden := 8
	cbTables := [][]float64{{1, 2, 5}, {-2.5, 0, 7}, {-100, -10, -1}, {0.005, 0.01, 0.025}}
	scales := []int64{1, 3, 1024, 1000003}
	for bi, b := range behs {
		if len(b) < 2 {
			continue
		}
		init, rec := b[0], b[len(b)-1]
		switch rec.Op {
		case "Query":
			c := &hqConc{smin: init.Smin, smax: init.Smax, cbinf: init.Cbinf, bc: map[[2]int32]float64{}}
			lo, hi := -4-int(c.smin), 8-int(c.smax)
			c.shift = int32(lo + rnd.Intn(hi-lo+1))
			c.scale = scales[rnd.Intn(len(scales))]
			c.cb = cbTables[rnd.Intn(len(cbTables))]
			layouts := rec.Layouts
			if len(layouts) == 0 {
				layouts = append(layouts, struct {
					P []int64 `json:"p"`
					N []int64 `json:"n"`
				}{})
			}
			qden = rec.Qden
			for li, lay := range layouts {
				if li > 0 && len(lay.P)+len(lay.N) == 0 {
					continue // same as layout 0
				}
				h := c.build(rec.H, lay.P, lay.N)
				if err := h.Validate(); err != nil {
					verifh.Infra(fmt.Sprintf("constructed histogram invalid: %v", err))
					t.Fatal(err)
				}
				name := "h" + strconv.Itoa(bi) + "_" + strconv.Itoa(li)
				if _, err := app.AppendHistogram(0, labels.FromStrings("__name__", "nh", "id", name), ts, nil, h); err != nil {
					verifh.Infra(err.Error())
					t.Fatal(err)
				}
				hc := &hqCase{rec: rec, h: h, name: name}
				hc.rec.Smin, hc.rec.Smax = init.Smin, init.Smax
				cases = append(cases, hc)
				caseConc[name] = c
			}
		case "Classic":
			classics = append(classics, rec.Counts)
			qden = rec.Qden
		}
	}
	// classic bucket series: le labels from a bound table
	clBounds := []float64{0.5, 1, 2.5}
	if verifh.Seed()%2 == 0 {
		clBounds = []float64{-1, 0, 10}
	}
	for ci, cs := range classics {
		for _, e := range cs {
			le := "+Inf"
			if e[0] != 0 {
				le = strconv.FormatFloat(clBounds[e[0]-1], 'g', -1, 64)
			}
			if _, err := app.Append(0, labels.FromStrings("__name__", "cl_bucket", "id", "c"+strconv.Itoa(ci), "le", le), ts, float64(e[1])); err != nil {
				verifh.Infra(err.Error())
				t.Fatal(err)
			}
		}
	}
	if err := app.Commit(); err != nil {
		verifh.Infra(err.Error())
		t.Fatal(err)
	}
	eng := promqltest.NewTestEngine(t, false, 0, 500000000)
	query := func(qs string) map[string]float64 {
		q, err := eng.NewInstantQuery(ctx, stor, nil, qs, time.UnixMilli(ts))
		if err != nil {
			verifh.Infra(fmt.Sprintf("query %s: %v", qs, err))
			t.Fatal(err)
		}
		defer q.Close()
		res := q.Exec(ctx)
		if res.Err != nil {
			verifh.Infra(fmt.Sprintf("query %s failed: %v", qs, res.Err))
			t.Fatal(res.Err)
			return nil
		}
		vec, err := res.Vector()
		if err != nil {
			verifh.Infra(err.Error())
			t.Fatal(err)
		}
		out := map[string]float64{}
		for _, s := range vec {
			out[s.Metric.Get("id")] = s.F
		}
		return out
	}
	nviol := 0
	perSig := map[string]int{}
	viol := func(sig, msg string, c any) {
		perSig[sig]++
		if perSig[sig] > 2 {
			return
		}
		nviol++
		if nviol <= 16 {
			verifh.Violation(sig, msg, c)
		}
	}
	evals := 0
	// ---- count / sum / avg
	cnt, sum, avg := query("histogram_count(nh)"), query("histogram_sum(nh)"), query("histogram_avg(nh)")
	for _, hc := range cases {
		evals += 3
		wantCnt := float64(hc.rec.Cnt * caseConc[hc.name].scale)
		wantSum := float64(hc.rec.Sum) * 0.5
		if got, ok := cnt[hc.name]; !ok || got != wantCnt {
			viol("count", fmt.Sprintf("histogram_count = %v (present %v), reference %v: %+v", got, ok, wantCnt, hc.rec.H), hc.rec)
		}
		if got, ok := sum[hc.name]; !ok || got != wantSum {
			viol("sum", fmt.Sprintf("histogram_sum = %v (present %v), reference %v: %+v", got, ok, wantSum, hc.rec.H), hc.rec)
		}
		want := wantSum / wantCnt
		if got, ok := avg[hc.name]; !ok || !(got == want || (math.IsNaN(got) && math.IsNaN(want))) {
			viol("avg", fmt.Sprintf("histogram_avg = %v (present %v), sum/count = %v: %+v", got, ok, want, hc.rec.H), hc.rec)
		}
	}
	// ---- quantiles: engine and direct call; within the rank bucket; monotone in q
	prev := map[string]float64{}
	for k := 0; k <= qden; k++ {
		q := float64(k) / float64(qden)
		eq := query(fmt.Sprintf("histogram_quantile(%v, nh)", q))
		for _, hc := range cases {
			evals++
			c := caseConc[hc.name]
			direct, _ := promql.HistogramQuantile(q, hc.h, "nh", posrange.PositionRange{})
			got, ok := eq[hc.name]
			if !ok || !(got == direct || (math.IsNaN(got) && math.IsNaN(direct))) {
				viol("quantile-engine", fmt.Sprintf("histogram_quantile(%v) through the engine = %v (present %v), HistogramQuantile = %v: %+v", q, got, ok, direct, hc.rec.H), hc.rec)
				continue
			}
			rb := hc.rec.Ranks[strconv.Itoa(k)]
			if len(rb) == 0 {
				if !math.IsNaN(got) {
					viol("quantile-empty", fmt.Sprintf("histogram_quantile(%v) of an empty histogram = %v, want NaN", q, got), hc.rec)
				}
				continue
			}
			if math.IsNaN(got) {
				viol("quantile-nan", fmt.Sprintf("histogram_quantile(%v) = NaN for a histogram with observations (NaN is only documented for q=NaN or an empty histogram): %+v (real %v, spans %v %v / %v %v)", q, hc.rec.H, hc.h, hc.h.PositiveSpans, hc.h.PositiveBuckets, hc.h.NegativeSpans, hc.h.NegativeBuckets), hc.rec)
				prev[hc.name] = got
				continue
			}
			inside := false
			var desc string
			for _, b := range rb {
				lo, hi := c.bucketBounds(hc.rec.H, hc.h, b)
				desc += fmt.Sprintf(" %v=[%g,%g]", b, lo, hi)
				if hqLeq(lo, got) && hqLeq(got, hi) {
					inside = true
				}
			}
			kf := ""
			if !inside {
				viol("quantile-outside-rank-bucket"+kf, fmt.Sprintf("histogram_quantile(%v) = %v is outside the bucket holding rank %d/%d*count:%s; histogram %+v (real %v)", q, got, k, qden, desc, hc.rec.H, hc.h), hc.rec)
			}
			if p, ok := prev[hc.name]; ok && !hqLeq(p, got) {
				viol("quantile-not-monotone"+kf, fmt.Sprintf("histogram_quantile decreases from %v (q=%v) to %v (q=%v): %+v (real %v)", p, float64(k-1)/float64(qden), got, q, hc.rec.H, hc.h), hc.rec)
			}
			prev[hc.name] = got
		}
	}
	// ---- fractions: [0,1], monotone under inclusion, 1 over everything
	for _, hc := range cases {
		c := caseConc[hc.name]
		pts := make([]float64, len(hc.rec.Bounds))
		for i, b := range hc.rec.Bounds {
			pts[i] = c.point(hc.rec.H, hc.h, b)
		}
		for i := 1; i < len(pts); i++ {
			if !(pts[i-1] < pts[i]) {
				verifh.Infra(fmt.Sprintf("query bounds not ascending after concretisation: %v", pts))
				t.Fatal("bounds")
			}
		}
		n := len(pts)
		fr := make([][]float64, n)
		for i := range fr {
			fr[i] = make([]float64, n)
			for j := i + 1; j < n; j++ {
				fr[i][j], _ = promql.HistogramFraction(pts[i], pts[j], hc.h, "nh", posrange.PositionRange{})
				evals++
			}
		}
		if hc.h.Count == 0 {
			if !math.IsNaN(fr[0][n-1]) {
				viol("fraction-empty", fmt.Sprintf("histogram_fraction of an empty histogram = %v, want NaN", fr[0][n-1]), hc.rec)
			}
			continue
		}
		if fr[0][n-1] != 1 {
			viol("fraction-all-not-1", fmt.Sprintf("histogram_fraction(-Inf,+Inf) = %v for the non-empty histogram %+v (real %v)", fr[0][n-1], hc.rec.H, hc.h), hc.rec)
		}
	outer:
		for i := 0; i < n; i++ {
			for j := i + 1; j < n; j++ {
				f := fr[i][j]
				if math.IsNaN(f) || !hqLeq(0, f) || !hqLeq(f, 1) {
					viol("fraction-range", fmt.Sprintf("histogram_fraction(%g,%g) = %v not in [0,1]: %+v (real %v)", pts[i], pts[j], f, hc.rec.H, hc.h), hc.rec)
					break outer
				}
				// every interval containing [i,j] by one step
				if i > 0 && !hqLeq(f, fr[i-1][j]) {
					viol("fraction-not-monotone", fmt.Sprintf("histogram_fraction(%g,%g) = %v > histogram_fraction(%g,%g) = %v although the interval grew: %+v (real %v)", pts[i], pts[j], f, pts[i-1], pts[j], fr[i-1][j], hc.rec.H, hc.h), hc.rec)
					break outer
				}
				if j+1 < n && !hqLeq(f, fr[i][j+1]) {
					viol("fraction-not-monotone", fmt.Sprintf("histogram_fraction(%g,%g) = %v > histogram_fraction(%g,%g) = %v although the interval grew: %+v (real %v)", pts[i], pts[j], f, pts[i], pts[j+1], fr[i][j+1], hc.rec.H, hc.h), hc.rec)
					break outer
				}
			}
		}
	}
	// a few fractions through the engine as well
	if len(cases) > 0 {
		ef := query("histogram_fraction(-Inf, +Inf, nh)")
		for _, hc := range cases {
			if hc.h.Count > 0 {
				if got, ok := ef[hc.name]; !ok || got != 1 {
					viol("fraction-all-not-1", fmt.Sprintf("histogram_fraction(-Inf,+Inf) through the engine = %v (present %v): %+v", got, ok, hc.rec.H), hc.rec)
				}
			}
		}
	}
	// ---- classic buckets: monotone in q (finite counts), engine agrees with BucketQuantile
	prevC := map[int]float64{}
	for k := 0; k <= qden; k++ {
		q := float64(k) / float64(qden)
		var eq map[string]float64
		if len(classics) > 0 {
			eq = query(fmt.Sprintf("histogram_quantile(%v, cl_bucket)", q))
		}
		for ci, cs := range classics {
			evals++
			var bs promql.Buckets
			for _, e := range cs {
				ub := math.Inf(1)
				if e[0] != 0 {
					ub = clBounds[e[0]-1]
				}
				bs = append(bs, promql.Bucket{UpperBound: ub, Count: float64(e[1])})
			}
			got, _, _, _, _, _ := promql.BucketQuantile(q, bs)
			if e, ok := eq["c"+strconv.Itoa(ci)]; ok && !(e == got || (math.IsNaN(e) && math.IsNaN(got))) {
				viol("classic-engine", fmt.Sprintf("classic histogram_quantile(%v) through the engine = %v, BucketQuantile = %v: %v", q, e, got, cs), cs)
			}
			if p, ok := prevC[ci]; ok && !math.IsNaN(p) && !math.IsNaN(got) && !hqLeq(p, got) {
				viol("classic-not-monotone", fmt.Sprintf("classic histogram_quantile decreases from %v (q=%v) to %v (q=%v) for cumulative counts (bound id, count; 0 = +Inf) %v", p, float64(k-1)/float64(qden), got, q, cs), cs)
			}
			prevC[ci] = got
		}
	}
	b, _ := json.Marshal(map[string]int{"n": len(cases)})
	_ = b
	verifh.Stat(map[string]any{"evaluations": evals, "histograms": len(cases), "classic_sets": len(classics)})
	verifh.Done(len(cases) + len(classics))
	if verifh.Violations() > 0 {
		t.Fail()
	}
}

var caseConc = map[string]*hqConc{}
