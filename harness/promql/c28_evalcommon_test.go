package promql_test

// Shared concretisation layer of the PromQL evaluation checks (C28, C27, C34):
// decodes the stores / expressions / predicted values emitted by
// specs/promql_eval/*.tla, loads the stores into a real TSDB, prints the
// expressions as PromQL text under an affine time map, runs them on a real
// promql.Engine and converts the engine's answers back to model terms.
// Nothing here decides what the right answer is: expected values always come
// from the TLA+ reference evaluator (PromqlEval.tla).

import (
	"context"
	"encoding/json"
	"fmt"
	"math"
	"sort"
	"strconv"
	"strings"
	"sync"
	"testing"
	"time"

	"github.com/prometheus/prometheus/model/histogram"
	"github.com/prometheus/prometheus/model/labels"
	"github.com/prometheus/prometheus/model/value"
	"github.com/prometheus/prometheus/promql"
	"github.com/prometheus/prometheus/promql/parser"
	"github.com/prometheus/prometheus/util/teststorage"
)

// pqVal is <<num, den>>: den > 0 rational; den = 0: 0 NaN, 1 +Inf, -1 -Inf, 2 StaleNaN;
// den = 1000: a time in seconds whose numerator is a *model* time (goes through the time map).
type pqVal [2]int64

type pqPoint struct {
	T int64 `json:"t"`
	H bool  `json:"h"`
	V pqVal `json:"v"`
}

type pqExpr struct {
	K   string   `json:"k"`
	Sel []string `json:"sel"`
	Off int64    `json:"off"`
	At  []any    `json:"at"`
	Vs  *pqExpr  `json:"vs"`
	R   int64    `json:"r"`
	E   *pqExpr  `json:"e"`
	St  int64    `json:"st"`
	F   string   `json:"f"`
	Arg *pqExpr  `json:"arg"`
	// aggregations (C34)
	Op    string `json:"op"`
	Param pqVal  `json:"param"`
}

type pqStore map[string][]pqPoint

// pqConc is one concretisation: model time tau -> Base + K*tau (ms), durations d -> K*d.
type pqConc struct {
	K, Base   int64
	IntHist   bool // store histograms as integer histograms
	Delayed   bool // EnableDelayedNameRemoval
	Parens    bool // print redundant parentheses
	AtFirst   bool // print "@ t offset d" instead of "offset d @ t"
}

// pqConcs returns the concretisations used for a seed. All bases are multiples of
// K*60 so that multiples of any model subquery step in {1,2,3,4,5,6} stay multiples.
func pqConcs(seed int64) []pqConc {
	all := []pqConc{
		{K: 1, Base: 0},
		{K: 1, Base: -6000, IntHist: true, Delayed: true, Parens: true},
		{K: 1000, Base: 1700000040000, AtFirst: true},
		{K: 7, Base: -7 * 60 * 1000, Delayed: true, AtFirst: true},
		{K: 60000, Base: 60000 * 60 * 400000, IntHist: true, Parens: true},
		{K: 1, Base: 120, IntHist: true},
	}
	// rotate by seed: the first entry is always used, further ones in the thorough tier
	n := int(seed) % len(all)
	if n < 0 {
		n += len(all)
	}
	return append(all[n:], all[:n]...)
}

func (c pqConc) time(tau int64) int64 { return c.Base + c.K*tau }
func (c pqConc) dur(d int64) int64    { return c.K * d }

func (c pqConc) float(v pqVal) float64 {
	switch {
	case v[1] == 0 && v[0] == 0:
		return math.NaN()
	case v[1] == 0 && v[0] == 1:
		return math.Inf(1)
	case v[1] == 0 && v[0] == -1:
		return math.Inf(-1)
	case v[1] == 0 && v[0] == 2:
		return math.Float64frombits(value.StaleNaN)
	case v[1] == 1000:
		return float64(c.time(v[0])) / 1000
	}
	return float64(v[0]) / float64(v[1])
}

func (c pqConc) hist(v pqVal) (*histogram.Histogram, *histogram.FloatHistogram) {
	if v[1] == 0 { // stale marker
		if c.IntHist {
			return &histogram.Histogram{Sum: math.Float64frombits(value.StaleNaN)}, nil
		}
		return nil, &histogram.FloatHistogram{Sum: math.Float64frombits(value.StaleNaN)}
	}
	n := v[0]
	if c.IntHist {
		return &histogram.Histogram{Schema: 0, Count: uint64(n), Sum: float64(n) * 1.5,
			PositiveSpans: []histogram.Span{{Offset: 0, Length: 1}}, PositiveBuckets: []int64{n}}, nil
	}
	return nil, &histogram.FloatHistogram{Schema: 0, Count: float64(n), Sum: float64(n) * 1.5,
		PositiveSpans: []histogram.Span{{Offset: 0, Length: 1}}, PositiveBuckets: []float64{float64(n)}}
}

// pqHistID recovers the model histogram number from a float histogram returned by the engine.
func pqHistID(h *histogram.FloatHistogram) (int64, bool) {
	if h == nil {
		return 0, false
	}
	n := int64(h.Count)
	if float64(n) != h.Count || h.Sum != float64(n)*1.5 || len(h.PositiveBuckets) != 1 || h.PositiveBuckets[0] != h.Count {
		return n, false
	}
	return n, true
}

func pqDurText(ms int64) string { return strconv.FormatInt(ms, 10) + "ms" }

func pqAtText(c pqConc, at []any) string {
	if len(at) != 2 {
		return ""
	}
	switch at[0].(string) {
	case "abs":
		ms := c.time(int64(at[1].(float64)))
		return " @ " + strconv.FormatFloat(float64(ms)/1000, 'f', 3, 64)
	case "start":
		return " @ start()"
	case "end":
		return " @ end()"
	}
	return ""
}

func pqMods(c pqConc, off int64, at []any) string {
	o := ""
	if off != 0 {
		o = " offset " + pqDurText(c.dur(off))
	}
	a := pqAtText(c, at)
	if c.AtFirst {
		return a + o
	}
	return o + a
}

func pqHasMods(e *pqExpr) bool {
	return e.Off != 0 || (len(e.At) == 2 && e.At[0].(string) != "none")
}

func pqSelText(storeID string, sel []string) string {
	s := append([]string(nil), sel...)
	sort.Strings(s)
	switch {
	case len(s) == 1:
		return fmt.Sprintf(`m{c=%q,s=%q}`, storeID, s[0])
	case len(s) == 2 && s[0] == "a" && s[1] == "b":
		return fmt.Sprintf(`m{c=%q}`, storeID)
	}
	return fmt.Sprintf(`m{c=%q,s=~%q}`, storeID, strings.Join(s, "|"))
}

// pqText prints the model expression as PromQL for the store with label c=storeID.
func pqText(c pqConc, storeID string, e *pqExpr) string {
	switch e.K {
	case "vs":
		return pqSelText(storeID, e.Sel) + pqMods(c, e.Off, e.At)
	case "ms":
		return pqSelText(storeID, e.Vs.Sel) + "[" + pqDurText(c.dur(e.R)) + "]" + pqMods(c, e.Vs.Off, e.Vs.At)
	case "sq":
		in := pqText(c, storeID, e.E)
		if (e.E.K == "vs" && pqHasMods(e.E)) || c.Parens {
			in = "(" + in + ")"
		}
		st := ""
		if e.St != 0 {
			st = pqDurText(c.dur(e.St))
		}
		return in + "[" + pqDurText(c.dur(e.R)) + ":" + st + "]" + pqMods(c, e.Off, e.At)
	case "call":
		in := pqText(c, storeID, e.Arg)
		if c.Parens && e.Arg.K != "ms" && e.Arg.K != "sq" {
			in = "(" + in + ")"
		}
		return e.F + "(" + in + ")"
	}
	panic("pqText: unknown node kind " + e.K)
}

// pqShape is a short structural signature of an expression (used in violation sigs).
func pqShape(e *pqExpr) string {
	mods := func(off int64, at []any) string {
		s := ""
		if off > 0 {
			s += "+o"
		} else if off < 0 {
			s += "-o"
		}
		if len(at) == 2 && at[0].(string) != "none" {
			s += "@" + at[0].(string)
		}
		return s
	}
	switch e.K {
	case "vs":
		return "vs" + mods(e.Off, e.At)
	case "ms":
		return "ms" + mods(e.Vs.Off, e.Vs.At)
	case "sq":
		return "sq" + mods(e.Off, e.At) + "(" + pqShape(e.E) + ")"
	case "call":
		return e.F + "(" + pqShape(e.Arg) + ")"
	}
	return e.K
}

// ---------------------------------------------------------------------------------------------
// storage

type pqDB struct {
	conc   pqConc
	st     *teststorage.TestStorage
	mu     sync.Mutex
	ids    map[string]string // canonical store JSON -> value of label c
	engMu  sync.Mutex
	engine map[int64]*promql.Engine // by default subquery step (ms)
}

func pqNewDB(t testing.TB, c pqConc) *pqDB {
	return &pqDB{conc: c, st: teststorage.New(t), ids: map[string]string{}, engine: map[int64]*promql.Engine{}}
}

func pqStoreKey(s pqStore) string {
	b, _ := json.Marshal(s) // map keys are sorted by encoding/json
	return string(b)
}

// load appends the store (once) and returns its c label.
func (db *pqDB) load(s pqStore) (string, error) {
	key := pqStoreKey(s)
	db.mu.Lock()
	defer db.mu.Unlock()
	if id, ok := db.ids[key]; ok {
		return id, nil
	}
	id := strconv.Itoa(len(db.ids))
	app := db.st.Appender(context.Background())
	names := make([]string, 0, len(s))
	for n := range s {
		names = append(names, n)
	}
	sort.Strings(names)
	for _, n := range names {
		l := labels.FromStrings("__name__", "m", "c", id, "s", n)
		for _, p := range s[n] {
			var err error
			if p.H {
				ih, fh := db.conc.hist(p.V)
				_, err = app.AppendHistogram(0, l, db.conc.time(p.T), ih, fh)
			} else {
				_, err = app.Append(0, l, db.conc.time(p.T), db.conc.float(p.V))
			}
			if err != nil {
				_ = app.Rollback()
				return "", fmt.Errorf("append %s %+v: %w", n, p, err)
			}
		}
	}
	if err := app.Commit(); err != nil {
		return "", err
	}
	db.ids[key] = id
	return id, nil
}

func (db *pqDB) eng(t testing.TB, defStepMs int64) *promql.Engine {
	db.engMu.Lock()
	defer db.engMu.Unlock()
	if e, ok := db.engine[defStepMs]; ok {
		return e
	}
	e := promql.NewEngine(promql.EngineOpts{
		MaxSamples:               10000000,
		Timeout:                  100 * time.Second,
		NoStepSubqueryIntervalFn: func(int64) int64 { return defStepMs },
		EnableAtModifier:         true,
		EnableNegativeOffset:     true,
		LookbackDelta:            5 * time.Minute,
		EnableDelayedNameRemoval: db.conc.Delayed,
		Parser: parser.NewParser(parser.Options{
			EnableExperimentalFunctions: true,
		}),
	})
	t.Cleanup(func() { _ = e.Close() })
	db.engine[defStepMs] = e
	return e
}

// ---------------------------------------------------------------------------------------------
// results in model terms

// pqGot is one observed point: concrete time, and either a float or a histogram.
type pqGot struct {
	T int64
	F float64
	H *histogram.FloatHistogram
}

func pqSeriesName(l labels.Labels) string { return l.Get("s") }

// pqFromMatrix merges Floats and Histograms of each series by time.
func pqFromMatrix(m promql.Matrix) (map[string][]pqGot, map[string]bool, error) {
	out := map[string][]pqGot{}
	named := map[string]bool{}
	for _, s := range m {
		n := pqSeriesName(s.Metric)
		if _, dup := out[n]; dup {
			return nil, nil, fmt.Errorf("series %q returned twice", n)
		}
		var pts []pqGot
		for _, f := range s.Floats {
			pts = append(pts, pqGot{T: f.T, F: f.F})
		}
		for _, h := range s.Histograms {
			pts = append(pts, pqGot{T: h.T, H: h.H})
		}
		sort.SliceStable(pts, func(i, j int) bool { return pts[i].T < pts[j].T })
		out[n] = pts
		named[n] = s.Metric.Get("__name__") != "" && !s.DropName
	}
	return out, named, nil
}

func pqFromVector(v promql.Vector) (map[string][]pqGot, map[string]bool, error) {
	out := map[string][]pqGot{}
	named := map[string]bool{}
	for _, s := range v {
		n := pqSeriesName(s.Metric)
		if _, dup := out[n]; dup {
			return nil, nil, fmt.Errorf("series %q returned twice", n)
		}
		out[n] = []pqGot{{T: s.T, F: s.F, H: s.H}}
		named[n] = s.Metric.Get("__name__") != "" && !s.DropName
	}
	return out, named, nil
}

func pqFromValue(v parser.Value) (map[string][]pqGot, map[string]bool, error) {
	switch x := v.(type) {
	case promql.Vector:
		return pqFromVector(x)
	case promql.Matrix:
		return pqFromMatrix(x)
	}
	return nil, nil, fmt.Errorf("unexpected result type %T", v)
}

func pqFmtGot(p pqGot) string {
	if p.H != nil {
		return fmt.Sprintf("hist(count=%g,sum=%g)@%d", p.H.Count, p.H.Sum, p.T)
	}
	if value.IsStaleNaN(p.F) {
		return fmt.Sprintf("StaleNaN@%d", p.T)
	}
	return fmt.Sprintf("%g@%d", p.F, p.T)
}

func pqFmtGots(ps []pqGot) string {
	s := make([]string, len(ps))
	for i, p := range ps {
		s[i] = pqFmtGot(p)
	}
	return "[" + strings.Join(s, " ") + "]"
}

// pqPointEq compares one observed point with one predicted point (floats bitwise, NaN-aware).
func pqPointEq(c pqConc, want pqPoint, got pqGot) (bool, string) {
	if got.T != c.time(want.T) {
		return false, "time"
	}
	if want.H {
		id, ok := pqHistID(got.H)
		if got.H == nil {
			return false, "float-for-histogram"
		}
		if !ok || id != want.V[0] {
			return false, "histogram"
		}
		return true, ""
	}
	if got.H != nil {
		return false, "histogram-for-float"
	}
	w := c.float(want.V)
	if math.IsNaN(w) {
		if !math.IsNaN(got.F) || value.IsStaleNaN(got.F) != value.IsStaleNaN(w) {
			return false, "value"
		}
		return true, ""
	}
	if math.Float64bits(w) != math.Float64bits(got.F) {
		return false, "value"
	}
	return true, ""
}

// pqCompare compares a whole result with the prediction; returns "" or (kind, message).
func pqCompare(c pqConc, want map[string][]pqPoint, got map[string][]pqGot) (string, string) {
	names := map[string]bool{}
	for n := range want {
		names[n] = true
	}
	for n := range got {
		names[n] = true
	}
	var ns []string
	for n := range names {
		ns = append(ns, n)
	}
	sort.Strings(ns)
	for _, n := range ns {
		w, g := want[n], got[n]
		if len(w) == 0 && len(g) > 0 {
			return "extra-series", fmt.Sprintf("series %s: engine returned %s, reference says absent", n, pqFmtGots(g))
		}
		if len(w) > 0 && len(g) == 0 {
			return "missing-series", fmt.Sprintf("series %s: engine returned nothing, reference says %s", n, pqFmtWant(c, w))
		}
		if len(w) != len(g) {
			return "points", fmt.Sprintf("series %s: engine returned %s, reference says %s", n, pqFmtGots(g), pqFmtWant(c, w))
		}
		for i := range w {
			if ok, kind := pqPointEq(c, w[i], g[i]); !ok {
				return kind, fmt.Sprintf("series %s point %d: engine returned %s, reference says %s", n, i, pqFmtGots(g), pqFmtWant(c, w))
			}
		}
	}
	return "", ""
}

func pqFmtWant(c pqConc, ps []pqPoint) string {
	s := make([]string, len(ps))
	for i, p := range ps {
		switch {
		case p.H:
			s[i] = fmt.Sprintf("hist#%d@%d", p.V[0], c.time(p.T))
		default:
			s[i] = fmt.Sprintf("%g@%d", c.float(p.V), c.time(p.T))
		}
	}
	return "[" + strings.Join(s, " ") + "]"
}

// pqInstant runs one instant query.
func pqInstant(t testing.TB, db *pqDB, q string, tau, lb, ds int64) (parser.Value, error) {
	c := db.conc
	qry, err := db.eng(t, c.dur(ds)).NewInstantQuery(context.Background(), db.st,
		promql.NewPrometheusQueryOpts(false, time.Duration(c.dur(lb))*time.Millisecond), q, time.UnixMilli(c.time(tau)))
	if err != nil {
		return nil, fmt.Errorf("parse: %w", err)
	}
	defer qry.Close()
	res := qry.Exec(context.Background())
	if res.Err != nil {
		return nil, res.Err
	}
	// the result may alias pooled memory released by Close: convert before returning
	switch x := res.Value.(type) {
	case promql.Vector:
		return append(promql.Vector(nil), x...), nil
	case promql.Matrix:
		cp := make(promql.Matrix, len(x))
		for i, s := range x {
			cp[i] = promql.Series{Metric: s.Metric, DropName: s.DropName,
				Floats: append([]promql.FPoint(nil), s.Floats...), Histograms: append([]promql.HPoint(nil), s.Histograms...)}
		}
		return cp, nil
	}
	return res.Value, nil
}

// pqRange runs one range query.
func pqRange(t testing.TB, db *pqDB, q string, qs, qe, step, lb, ds int64) (promql.Matrix, error) {
	c := db.conc
	qry, err := db.eng(t, c.dur(ds)).NewRangeQuery(context.Background(), db.st,
		promql.NewPrometheusQueryOpts(false, time.Duration(c.dur(lb))*time.Millisecond), q,
		time.UnixMilli(c.time(qs)), time.UnixMilli(c.time(qe)), time.Duration(c.dur(step))*time.Millisecond)
	if err != nil {
		return nil, fmt.Errorf("parse: %w", err)
	}
	defer qry.Close()
	res := qry.Exec(context.Background())
	if res.Err != nil {
		return nil, res.Err
	}
	x, ok := res.Value.(promql.Matrix)
	if !ok {
		return nil, fmt.Errorf("range query returned %T", res.Value)
	}
	cp := make(promql.Matrix, len(x))
	for i, s := range x {
		cp[i] = promql.Series{Metric: s.Metric, DropName: s.DropName,
			Floats: append([]promql.FPoint(nil), s.Floats...), Histograms: append([]promql.HPoint(nil), s.Histograms...)}
	}
	return cp, nil
}

// pqParallel runs f(i) for i in [0,n) on w goroutines.
func pqParallel(n, w int, f func(i int)) {
	var wg sync.WaitGroup
	ch := make(chan int, 256)
	for k := 0; k < w; k++ {
		wg.Add(1)
		go func() {
			defer wg.Done()
			for i := range ch {
				f(i)
			}
		}()
	}
	for i := 0; i < n; i++ {
		ch <- i
	}
	close(ch)
	wg.Wait()
}

func pqIsStale(f float64) bool { return value.IsStaleNaN(f) }
