package promql

// C34 conformance harness (in-package: it replaces the package variable `ratiosampler` to put
// sampling offsets exactly on / next to the selection boundary, which real label hashes reach with
// probability ~2^-53). Cases come from specs/promql_eval/LimitRatio.tla: an input vector given by
// the sampling offsets of its series on the exact grid 0..40 (40 = 1.0), and for every ratio r on
// the grid the offsets selected by limit_ratio(r, v) and by limit_ratio(r - 1, v).
//
// Observation points: (A) the exported HashRatioSampler.AddRatioSampleWithOffset, (B) real
// limit_ratio queries on a real engine over a real TSDB - as a range query over NSteps steps, as
// instant queries at every step, inside a subquery and grouped - over series that are present
// throughout, start late, are stale at the first step, have a gap, or exist only at the last step.
// Series whose model offset is a cell interior get real label sets whose real hash falls into that
// cell. Strict checks on the real answers, at EVERY step: the two selections are disjoint, their
// union is the input vector at that step, raising r never deselects, the selection of a series at
// a step of the range query / subquery equals its selection in an instant query at that step
// (labels only); and each selection equals the model's prediction.

import (
	"context"
	"fmt"
	"math"
	"sort"
	"strconv"
	"testing"
	"time"

	"github.com/prometheus/prometheus/internal/verifh"
	"github.com/prometheus/prometheus/model/labels"
	"github.com/prometheus/prometheus/model/value"
	"github.com/prometheus/prometheus/promql/parser"
	"github.com/prometheus/prometheus/util/teststorage"
)

type c34Case struct {
	Vec    []int     `json:"vec"`  // sampling offsets of the series (grid 0..40)
	Pat    []string  `json:"pat"`  // presence pattern of each series
	Pres   [][]int   `json:"pres"` // steps (1..NSteps) at which each series has a sample
	NSteps int       `json:"nsteps"`
	Ratios []int     `json:"ratios"`
	Pos    [][][]int `json:"pos"` // [ratio][step-1] -> offsets selected by limit_ratio(r, v)
	Neg    [][][]int `json:"neg"` // [ratio][step-1] -> offsets selected by limit_ratio(r-1, v)
}

// anyStep reports whether u is selected at some step.
func c34Any(sel [][]int, u int) bool {
	for _, s := range sel {
		if c34In(s, u) {
			return true
		}
	}
	return false
}

const c34Scale = 40

func c34Ratio(r int) float64 { return float64(r/4) / 10 }

// c34Offset concretises a grid offset; cell interiors (u%4 == 2) are handled by c34CellLabels.
func c34Offset(u int) float64 {
	switch u % 4 {
	case 0:
		return float64(u/4) / 10
	case 1:
		return math.Nextafter(float64(u/4)/10, math.Inf(1))
	case 3:
		return math.Nextafter(float64((u+1)/4)/10, math.Inf(-1))
	}
	return float64(u/4)/10 + 0.05
}

type c34Sampler struct {
	real  *HashRatioSampler
	table map[string]float64 // value of label "s" -> offset
}

func (s *c34Sampler) SampleOffset(m *labels.Labels) float64 {
	if o, ok := s.table[m.Get("s")]; ok {
		return o
	}
	return s.real.SampleOffset(m)
}

func (s *c34Sampler) AddRatioSample(r float64, sample *Sample) bool {
	return s.real.AddRatioSampleWithOffset(r, s.SampleOffset(&sample.Metric))
}

func (s *c34Sampler) AddRatioSampleWithOffset(r, o float64) bool {
	return s.real.AddRatioSampleWithOffset(r, o)
}

func c34In(xs []int, x int) bool {
	for _, y := range xs {
		if y == x {
			return true
		}
	}
	return false
}

func c34Set(xs []int) string {
	s := append([]int(nil), xs...)
	sort.Ints(s)
	return fmt.Sprint(s)
}

// c34Sig classifies a disagreement for (ratio r, offset u) where the complement call answered neg.
// The known rounding deviation (KF-C34-1) is recognised only when the boundary 1 + (r - 1) computed in
// float64 differs from r and the complement's answer is exactly "offset >= that boundary"; offset 1.0
// (KF-C34-2) only when the ratio is 1.
func c34Sig(r, u int, neg bool, what string) string {
	rf, of := c34Ratio(r), c34Offset(u)
	b := 1.0 + (rf - 1)
	switch {
	case u == c34Scale && r == c34Scale:
		return "offset-one|" + what
	case u >= r-1 && u <= r+1 && b != rf && neg == (of >= b):
		return fmt.Sprintf("rounding-complement|r=%d/40 %s", r, what)
	}
	return fmt.Sprintf("selection|r=%d/40 u=%d %s", r, u, what)
}

func c34AllCells(vec []int) bool {
	for _, u := range vec {
		if u%4 != 2 {
			return false
		}
	}
	return true
}

func TestVerifC34LimitRatio(t *testing.T) {
	cases, err := verifh.ReadNDJSON[c34Case](verifh.In())
	if err != nil {
		verifh.Infra(err.Error())
		t.Fatal(err)
	}
	real := NewHashRatioSampler()
	reported := map[string]int{}
	viol := func(sig, msg string, c any) {
		reported[sig]++
		if reported[sig] > 2 {
			return
		}
		verifh.Violation(sig, msg, c)
	}

	// ---- (A) exported API: every (ratio, offset) pair that occurs ------------------------------------
	type pair struct{ r, u int }
	seen := map[pair]bool{}
	apiCalls := 0
	for _, cs := range cases {
		for ri, r := range cs.Ratios {
			for _, u := range cs.Vec {
				if seen[pair{r, u}] {
					continue
				}
				seen[pair{r, u}] = true
				rf, of := c34Ratio(r), c34Offset(u)
				gotPos := real.AddRatioSampleWithOffset(rf, of)
				gotNeg := real.AddRatioSampleWithOffset(rf-1, of)
				apiCalls += 2
				wantPos, wantNeg := c34Any(cs.Pos[ri], u), c34Any(cs.Neg[ri], u)
				info := map[string]any{"ratio": rf, "complement": rf - 1, "offset": of, "grid_ratio": r, "grid_offset": u}
				if gotPos != wantPos {
					viol(c34Sig(r, u, gotNeg, "api-positive"), fmt.Sprintf("AddRatioSampleWithOffset(%v, %v) = %v, model says %v", rf, of, gotPos, wantPos), info)
				}
				if gotNeg != wantNeg {
					viol(c34Sig(r, u, gotNeg, "api-complement"), fmt.Sprintf("AddRatioSampleWithOffset(%v, %v) = %v, model says %v", rf-1, of, gotNeg, wantNeg), info)
				}
				// the property itself on the real answers
				if gotPos && gotNeg {
					viol(c34Sig(r, u, gotNeg, "api-overlap"), fmt.Sprintf("offset %v is selected by ratio %v and by its complement %v", of, rf, rf-1), info)
				}
				if !gotPos && !gotNeg {
					viol(c34Sig(r, u, gotNeg, "api-gap"), fmt.Sprintf("offset %v is selected neither by ratio %v nor by its complement %v", of, rf, rf-1), info)
				}
			}
		}
	}

	// ---- (B) real queries -------------------------------------------------------------------------------
	st := teststorage.New(t)
	samp := &c34Sampler{real: real, table: map[string]float64{}}
	old := ratiosampler
	ratiosampler = samp
	defer func() { ratiosampler = old }()
	ng := NewEngine(EngineOpts{MaxSamples: 1000000, Timeout: 100 * time.Second, EnableAtModifier: true, EnableNegativeOffset: true,
		LookbackDelta: 5 * time.Minute, Parser: parser.NewParser(parser.Options{EnableExperimentalFunctions: true})})
	defer ng.Close()
	const stepMs = int64(10000)
	opts := NewPrometheusQueryOpts(false, 5*time.Second) // lookback shorter than the step: a missing sample is a gap
	stale := math.Float64frombits(value.StaleNaN)

	maxQ := 40
	if !verifh.Quick() {
		maxQ = 300
	}
	queries, vectors, lateVectors := 0, 0, 0
	for ci, cs := range cases {
		if len(cs.Vec) < 2 {
			continue
		}
		patterned := false
		for _, p := range cs.Pat {
			if p != "all" {
				patterned = true
			}
		}
		// all vectors made of cell interiors (real hashes, real sampler), every vector with a series that is not
		// present throughout, and a spread of the others
		allCells := c34AllCells(cs.Vec)
		if !allCells && !patterned && (vectors >= maxQ || (ci+int(verifh.Seed()))%(len(cases)/maxQ+1) != 0) {
			continue
		}
		if patterned && verifh.Quick() && (ci+int(verifh.Seed()))%2 != 0 {
			continue // quick tier: every second patterned vector
		}
		if allCells {
			ratiosampler = old // the unmodified HashRatioSampler.AddRatioSample path
		} else {
			ratiosampler = samp
		}
		vectors++
		if patterned {
			lateVectors++
		}
		n := cs.NSteps
		cid := strconv.Itoa(ci)
		app := st.Appender(context.Background())
		names := map[int]string{}
		for i, u := range cs.Vec {
			g := []string{"x", "y"}[i%2]
			var name string
			if u%4 == 2 {
				// search a real label set whose real hash offset is inside the cell
				lo, hi := float64(u/4)/10+0.01, float64(u/4)/10+0.09
				for k := 0; ; k++ {
					name = fmt.Sprintf("cell%d-%d", u, k)
					l := labels.FromStrings("__name__", "m", "c", cid, "g", g, "s", name)
					if o := real.SampleOffset(&l); o > lo && o < hi {
						break
					}
					if k > 100000 {
						verifh.Infra("cannot find a label set in the offset cell")
						t.Fatal("cell search")
					}
				}
			} else {
				name = fmt.Sprintf("u%d-c%s", u, cid)
				samp.table[name] = c34Offset(u)
			}
			names[u] = name
			l := labels.FromStrings("__name__", "m", "c", cid, "g", g, "s", name)
			for step := 1; step <= n; step++ {
				ts := int64(step-1) * stepMs
				switch {
				case c34In(cs.Pres[i], step):
					_, err = app.Append(0, l, ts, float64(100*step+i))
				case cs.Pat[i] == "stale1" || (cs.Pat[i] == "gap" && step > 1):
					_, err = app.Append(0, l, ts, stale) // an explicit staleness marker
				default:
					continue // no sample at all
				}
				if err != nil {
					t.Fatal(err)
				}
			}
		}
		if err := app.Commit(); err != nil {
			t.Fatal(err)
		}
		back := map[string]int{}
		for u, nm := range names {
			back[nm] = u
		}
		end := time.UnixMilli(int64(n-1) * stepMs)
		// run returns the offsets of the series in the result, per step (index step-1)
		run := func(q string, mode string, at int) ([][]int, error) {
			queries++
			var qry Query
			var err error
			switch mode {
			case "range":
				qry, err = ng.NewRangeQuery(context.Background(), st, opts, q, time.UnixMilli(0), end, time.Duration(stepMs)*time.Millisecond)
			case "instant":
				qry, err = ng.NewInstantQuery(context.Background(), st, opts, q, time.UnixMilli(int64(at-1)*stepMs))
			case "subquery": // evaluated once, at the end; the subquery covers every step
				qry, err = ng.NewInstantQuery(context.Background(), st, opts, fmt.Sprintf("(%s)[%dms:%dms]", q, int64(n-1)*stepMs+stepMs/2, stepMs), end)
			}
			if err != nil {
				return nil, err
			}
			defer qry.Close()
			res := qry.Exec(context.Background())
			if res.Err != nil {
				return nil, res.Err
			}
			steps := make([][]int, n)
			switch v := res.Value.(type) {
			case Vector:
				for _, s := range v {
					steps[at-1] = append(steps[at-1], back[s.Metric.Get("s")])
				}
			case Matrix:
				for _, s := range v {
					for _, p := range s.Floats {
						steps[int(p.T/stepMs)] = append(steps[int(p.T/stepMs)], back[s.Metric.Get("s")])
					}
				}
			default:
				return nil, fmt.Errorf("unexpected result type %T", res.Value)
			}
			for k := range steps {
				sort.Ints(steps[k])
			}
			return steps, nil
		}
		sel := fmt.Sprintf(`m{c=%q}`, cid)
		input, err := run(sel, "range", 0)
		if err != nil {
			verifh.Infra("input query failed: " + err.Error())
			t.Fatal(err)
		}
		for k := 0; k < n; k++ {
			var want []int
			for i, u := range cs.Vec {
				if c34In(cs.Pres[i], k+1) {
					want = append(want, u)
				}
			}
			if c34Set(want) != c34Set(input[k]) {
				verifh.Infra(fmt.Sprintf("harness: input vector at step %d is %v, the model says %v (patterns %v)", k+1, input[k], want, cs.Pat))
				t.Fatal("input vector")
			}
		}
		prevPos := make([][]int, n)
		for ri, r := range cs.Ratios {
			rf := c34Ratio(r)
			lr := func(x float64, by string) string {
				return fmt.Sprintf(`limit_ratio%s(%s, %s)`, by, strconv.FormatFloat(x, 'g', -1, 64), sel)
			}
			info := map[string]any{"vector_offsets": cs.Vec, "patterns": cs.Pat, "ratio": rf, "complement": rf - 1, "query": lr(rf, ""), "complement_query": lr(rf-1, "")}
			// the reference observation: instant queries at every step
			instPos, instNeg := make([][]int, n), make([][]int, n)
			bad := false
			for k := 1; k <= n; k++ {
				p, e1 := run(lr(rf, ""), "instant", k)
				ng2, e2 := run(lr(rf-1, ""), "instant", k)
				if e1 != nil || e2 != nil {
					viol("query-error", fmt.Sprintf("%s / %s at step %d: %v / %v", lr(rf, ""), lr(rf-1, ""), k, e1, e2), info)
					bad = true
					break
				}
				instPos[k-1], instNeg[k-1] = p[k-1], ng2[k-1]
			}
			if bad {
				continue
			}
			forms := []struct {
				name, mode, by string
			}{{"instant", "", ""}, {"range", "range", ""}, {"subquery", "subquery", ""}, {"grouped-range", "range", " by (g) "}}
			for _, f := range forms {
				pos, neg := instPos, instNeg
				if f.mode != "" {
					var e1, e2 error
					pos, e1 = run(lr(rf, f.by), f.mode, 0)
					neg, e2 = run(lr(rf-1, f.by), f.mode, 0)
					if e1 != nil || e2 != nil {
						viol("query-error", fmt.Sprintf("%s %s / %s: %v / %v", f.name, lr(rf, f.by), lr(rf-1, f.by), e1, e2), info)
						continue
					}
				}
				for k := 0; k < n; k++ {
					at := fmt.Sprintf("%s step %d", f.name, k+1)
					// labels only: a step of a range query / subquery selects what the instant query at that step selects
					if c34Set(pos[k]) != c34Set(instPos[k]) {
						viol("step-vs-instant|"+f.name, fmt.Sprintf("%s: %s selects %v, the instant query at that step selects %v (patterns %v)", at, lr(rf, f.by), pos[k], instPos[k], cs.Pat), info)
					}
					if c34Set(neg[k]) != c34Set(instNeg[k]) {
						viol("step-vs-instant|"+f.name, fmt.Sprintf("%s: %s selects %v, the instant query at that step selects %v (patterns %v)", at, lr(rf-1, f.by), neg[k], instNeg[k], cs.Pat), info)
					}
					for _, u := range input[k] {
						p, ng3 := c34In(pos[k], u), c34In(neg[k], u)
						wp, wn := c34In(cs.Pos[ri][k], u), c34In(cs.Neg[ri][k], u)
						if p != wp {
							viol(c34Sig(r, u, ng3, f.name+"-positive"), fmt.Sprintf("%s: %s selects %v, model says %v (offset %v)", at, lr(rf, f.by), pos[k], cs.Pos[ri][k], c34Offset(u)), info)
						}
						if ng3 != wn {
							viol(c34Sig(r, u, ng3, f.name+"-complement"), fmt.Sprintf("%s: %s selects %v, model says %v (offset %v)", at, lr(rf-1, f.by), neg[k], cs.Neg[ri][k], c34Offset(u)), info)
						}
						if p && ng3 {
							viol(c34Sig(r, u, ng3, f.name+"-overlap"), fmt.Sprintf("%s: series with offset %v is returned by %s and by %s", at, c34Offset(u), lr(rf, f.by), lr(rf-1, f.by)), info)
						}
						if !p && !ng3 {
							viol(c34Sig(r, u, ng3, f.name+"-gap"), fmt.Sprintf("%s: series with offset %v is returned neither by %s nor by %s", at, c34Offset(u), lr(rf, f.by), lr(rf-1, f.by)), info)
						}
					}
					for _, u := range append(append([]int(nil), pos[k]...), neg[k]...) {
						if !c34In(input[k], u) {
							viol("not-in-input|"+f.name, fmt.Sprintf("%s: a series that is not in the input vector at that step is returned (offset %v)", at, c34Offset(u)), info)
						}
					}
					if f.name == "range" {
						for _, u := range prevPos[k] {
							if c34In(input[k], u) && !c34In(pos[k], u) {
								viol("monotone", fmt.Sprintf("%s: raising the ratio to %v deselects the series with offset %v", at, rf, c34Offset(u)), info)
							}
						}
						prevPos[k] = pos[k]
					}
				}
			}
		}
	}
	verifh.Stat(map[string]any{"api_calls": apiCalls, "ratio_offset_pairs": len(seen), "vectors_queried": vectors,
		"vectors_with_late_or_stale_series": lateVectors, "queries": queries})
	if len(cases) > 0 {
		verifh.Sample(cases[len(cases)/2])
	}
	verifh.Done(len(cases))
	if verifh.Violations() > 0 {
		t.Fail()
	}
}
