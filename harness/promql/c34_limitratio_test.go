package promql

// C34 conformance harness (in-package: it replaces the package variable `ratiosampler` to put
// sampling offsets exactly on / next to the selection boundary, which real label hashes reach with
// probability ~2^-53). Cases come from specs/promql_eval/LimitRatio.tla: an input vector given by
// the sampling offsets of its series on the exact grid 0..40 (40 = 1.0), and for every ratio r on
// the grid the offsets selected by limit_ratio(r, v) and by limit_ratio(r - 1, v).
//
// Observation points: (A) the exported HashRatioSampler.AddRatioSampleWithOffset, (B) real
// limit_ratio queries (instant, range, grouped) on a real engine over a real TSDB; series whose
// model offset is a cell interior get real label sets whose real hash falls into that cell.
// Strict checks, on the real answers: the two selections are disjoint, their union is the input,
// raising r never deselects, the selection is the same at every step (labels only); and each
// selection equals the model's prediction.

import (
	"context"
	"fmt"
	"math"
	"sort"
	"strconv"
	"testing"
	"time"

	"github.com/prometheus/prometheus/internal/verifh"
	"github.com/prometheus/prometheus/model/labels"
	"github.com/prometheus/prometheus/promql/parser"
	"github.com/prometheus/prometheus/util/teststorage"
)

type c34Case struct {
	Vec    []int   `json:"vec"`
	Ratios []int   `json:"ratios"`
	Pos    [][]int `json:"pos"`
	Neg    [][]int `json:"neg"`
}

const c34Scale = 40

func c34Ratio(r int) float64 { return float64(r/4) / 10 }

// c34Offset concretises a grid offset; cell interiors (u%4 == 2) are handled by c34CellLabels.
func c34Offset(u int) float64 {
	switch u % 4 {
	case 0:
		return float64(u/4) / 10
	case 1:
		return math.Nextafter(float64(u/4)/10, math.Inf(1))
	case 3:
		return math.Nextafter(float64((u+1)/4)/10, math.Inf(-1))
	}
	return float64(u/4)/10 + 0.05
}

type c34Sampler struct {
	real  *HashRatioSampler
	table map[string]float64 // value of label "s" -> offset
}

func (s *c34Sampler) SampleOffset(m *labels.Labels) float64 {
	if o, ok := s.table[m.Get("s")]; ok {
		return o
	}
	return s.real.SampleOffset(m)
}

func (s *c34Sampler) AddRatioSample(r float64, sample *Sample) bool {
	return s.real.AddRatioSampleWithOffset(r, s.SampleOffset(&sample.Metric))
}

func (s *c34Sampler) AddRatioSampleWithOffset(r, o float64) bool {
	return s.real.AddRatioSampleWithOffset(r, o)
}

func c34In(xs []int, x int) bool {
	for _, y := range xs {
		if y == x {
			return true
		}
	}
	return false
}

func c34Set(xs []int) string {
	s := append([]int(nil), xs...)
	sort.Ints(s)
	return fmt.Sprint(s)
}

// c34Sig classifies a disagreement for (ratio r, offset u) where the complement call answered neg.
// The known rounding deviation (KF-C34-1) is recognised only when the boundary 1 + (r - 1) computed in
// float64 differs from r and the complement's answer is exactly "offset >= that boundary"; offset 1.0
// (KF-C34-2) only when the ratio is 1.
func c34Sig(r, u int, neg bool, what string) string {
	rf, of := c34Ratio(r), c34Offset(u)
	b := 1.0 + (rf - 1)
	switch {
	case u == c34Scale && r == c34Scale:
		return "offset-one|" + what
	case u >= r-1 && u <= r+1 && b != rf && neg == (of >= b):
		return fmt.Sprintf("rounding-complement|r=%d/40 %s", r, what)
	}
	return fmt.Sprintf("selection|r=%d/40 u=%d %s", r, u, what)
}

func c34AllCells(vec []int) bool {
	for _, u := range vec {
		if u%4 != 2 {
			return false
		}
	}
	return true
}

func TestVerifC34LimitRatio(t *testing.T) {
	cases, err := verifh.ReadNDJSON[c34Case](verifh.In())
	if err != nil {
		verifh.Infra(err.Error())
		t.Fatal(err)
	}
	real := NewHashRatioSampler()
	reported := map[string]int{}
	viol := func(sig, msg string, c any) {
		reported[sig]++
		if reported[sig] > 2 {
			return
		}
		verifh.Violation(sig, msg, c)
	}

	// ---- (A) exported API: every (ratio, offset) pair that occurs ------------------------------------
	type pair struct{ r, u int }
	seen := map[pair]bool{}
	apiCalls := 0
	for _, cs := range cases {
		for ri, r := range cs.Ratios {
			for _, u := range cs.Vec {
				if seen[pair{r, u}] {
					continue
				}
				seen[pair{r, u}] = true
				rf, of := c34Ratio(r), c34Offset(u)
				gotPos := real.AddRatioSampleWithOffset(rf, of)
				gotNeg := real.AddRatioSampleWithOffset(rf-1, of)
				apiCalls += 2
				wantPos, wantNeg := c34In(cs.Pos[ri], u), c34In(cs.Neg[ri], u)
				info := map[string]any{"ratio": rf, "complement": rf - 1, "offset": of, "grid_ratio": r, "grid_offset": u}
				if gotPos != wantPos {
					viol(c34Sig(r, u, gotNeg, "api-positive"), fmt.Sprintf("AddRatioSampleWithOffset(%v, %v) = %v, model says %v", rf, of, gotPos, wantPos), info)
				}
				if gotNeg != wantNeg {
					viol(c34Sig(r, u, gotNeg, "api-complement"), fmt.Sprintf("AddRatioSampleWithOffset(%v, %v) = %v, model says %v", rf-1, of, gotNeg, wantNeg), info)
				}
				// the property itself on the real answers
				if gotPos && gotNeg {
					viol(c34Sig(r, u, gotNeg, "api-overlap"), fmt.Sprintf("offset %v is selected by ratio %v and by its complement %v", of, rf, rf-1), info)
				}
				if !gotPos && !gotNeg {
					viol(c34Sig(r, u, gotNeg, "api-gap"), fmt.Sprintf("offset %v is selected neither by ratio %v nor by its complement %v", of, rf, rf-1), info)
				}
			}
		}
	}

	// ---- (B) real queries -------------------------------------------------------------------------------
	st := teststorage.New(t)
	samp := &c34Sampler{real: real, table: map[string]float64{}}
	old := ratiosampler
	ratiosampler = samp
	defer func() { ratiosampler = old }()
	ng := NewEngine(EngineOpts{MaxSamples: 1000000, Timeout: 100 * time.Second, EnableAtModifier: true, EnableNegativeOffset: true,
		LookbackDelta: 5 * time.Minute, Parser: parser.NewParser(parser.Options{EnableExperimentalFunctions: true})})
	defer ng.Close()

	maxQ := 60
	if !verifh.Quick() {
		maxQ = 400
	}
	queries, vectors := 0, 0
	for ci, cs := range cases {
		if len(cs.Vec) < 2 || (vectors >= maxQ && !c34AllCells(cs.Vec)) {
			continue
		}
		// all vectors made of cell interiors (real hashes, real sampler), and a spread of the others
		allCells := c34AllCells(cs.Vec)
		if !allCells && (ci+int(verifh.Seed()))%(len(cases)/maxQ+1) != 0 {
			continue
		}
		if allCells {
			ratiosampler = old // the unmodified HashRatioSampler.AddRatioSample path
		} else {
			ratiosampler = samp
		}
		vectors++
		cid := strconv.Itoa(ci)
		app := st.Appender(context.Background())
		names := map[int]string{}
		for i, u := range cs.Vec {
			g := []string{"x", "y"}[i%2]
			var name string
			if u%4 == 2 {
				// search a real label set whose real hash offset is inside the cell
				lo, hi := float64(u/4)/10+0.01, float64(u/4)/10+0.09
				for n := 0; ; n++ {
					name = fmt.Sprintf("cell%d-%d", u, n)
					l := labels.FromStrings("__name__", "m", "c", cid, "g", g, "s", name)
					if o := real.SampleOffset(&l); o > lo && o < hi {
						break
					}
					if n > 100000 {
						verifh.Infra("cannot find a label set in the offset cell")
						t.Fatal("cell search")
					}
				}
			} else {
				name = fmt.Sprintf("u%d-c%s", u, cid)
				samp.table[name] = c34Offset(u)
			}
			names[u] = name
			l := labels.FromStrings("__name__", "m", "c", cid, "g", g, "s", name)
			for step := 0; step < 3; step++ {
				if _, err := app.Append(0, l, int64(step)*10000, float64(100*step+i)); err != nil {
					t.Fatal(err)
				}
			}
		}
		if err := app.Commit(); err != nil {
			t.Fatal(err)
		}
		back := map[string]int{}
		for u, n := range names {
			back[n] = u
		}
		// run one query form, return the selected offsets per step
		run := func(q string, rng bool) ([][]int, error) {
			queries++
			var res *Result
			if rng {
				qry, err := ng.NewRangeQuery(context.Background(), st, nil, q, time.UnixMilli(0), time.UnixMilli(20000), 10*time.Second)
				if err != nil {
					return nil, err
				}
				defer qry.Close()
				res = qry.Exec(context.Background())
			} else {
				qry, err := ng.NewInstantQuery(context.Background(), st, nil, q, time.UnixMilli(20000))
				if err != nil {
					return nil, err
				}
				defer qry.Close()
				res = qry.Exec(context.Background())
			}
			if res.Err != nil {
				return nil, res.Err
			}
			switch v := res.Value.(type) {
			case Vector:
				var sel []int
				for _, s := range v {
					sel = append(sel, back[s.Metric.Get("s")])
				}
				sort.Ints(sel)
				return [][]int{sel}, nil
			case Matrix:
				steps := make([][]int, 3)
				for _, s := range v {
					for _, p := range s.Floats {
						k := int(p.T / 10000)
						steps[k] = append(steps[k], back[s.Metric.Get("s")])
					}
				}
				for k := range steps {
					sort.Ints(steps[k])
				}
				return steps, nil
			}
			return nil, fmt.Errorf("unexpected result type %T", res.Value)
		}
		var prevPos []int
		for ri, r := range cs.Ratios {
			rf := c34Ratio(r)
			forms := []struct {
				q   func(float64) string
				rng bool
			}{
				{func(x float64) string {
					return fmt.Sprintf(`limit_ratio(%s, m{c=%q})`, strconv.FormatFloat(x, 'g', -1, 64), cid)
				}, false},
				{func(x float64) string {
					return fmt.Sprintf(`limit_ratio(%s, m{c=%q})`, strconv.FormatFloat(x, 'g', -1, 64), cid)
				}, true},
				{func(x float64) string {
					return fmt.Sprintf(`limit_ratio by (g) (%s, m{c=%q})`, strconv.FormatFloat(x, 'g', -1, 64), cid)
				}, false},
			}
			for fi, f := range forms {
				info := map[string]any{"vector_offsets": cs.Vec, "ratio": rf, "complement": rf - 1, "query": f.q(rf), "complement_query": f.q(rf - 1), "range": f.rng}
				pos, err1 := run(f.q(rf), f.rng)
				neg, err2 := run(f.q(rf-1), f.rng)
				if err1 != nil || err2 != nil {
					viol("query-error", fmt.Sprintf("%s / %s: %v / %v", f.q(rf), f.q(rf-1), err1, err2), info)
					continue
				}
				for k := range pos {
					if c34Set(pos[k]) != c34Set(pos[0]) || c34Set(neg[k]) != c34Set(neg[0]) {
						viol("labels-only", fmt.Sprintf("%s selects %v at one step and %v at another", f.q(rf), pos[0], pos[k]), info)
					}
				}
				for _, u := range cs.Vec {
					p, n := c34In(pos[0], u), c34In(neg[0], u)
					wp, wn := c34In(cs.Pos[ri], u), c34In(cs.Neg[ri], u)
					form := "query" + strconv.Itoa(fi)
					if p != wp {
						viol(c34Sig(r, u, n, form+"-positive"), fmt.Sprintf("%s selects %v, model says %v (offset %v)", f.q(rf), pos[0], cs.Pos[ri], c34Offset(u)), info)
					}
					if n != wn {
						viol(c34Sig(r, u, n, form+"-complement"), fmt.Sprintf("%s selects %v, model says %v (offset %v)", f.q(rf-1), neg[0], cs.Neg[ri], c34Offset(u)), info)
					}
					if p && n {
						viol(c34Sig(r, u, n, form+"-overlap"), fmt.Sprintf("series with offset %v is returned by %s and by %s", c34Offset(u), f.q(rf), f.q(rf-1)), info)
					}
					if !p && !n {
						viol(c34Sig(r, u, n, form+"-gap"), fmt.Sprintf("series with offset %v is returned neither by %s nor by %s", c34Offset(u), f.q(rf), f.q(rf-1)), info)
					}
				}
				if fi == 0 {
					for _, u := range prevPos {
						if !c34In(pos[0], u) {
							viol("monotone", fmt.Sprintf("raising the ratio to %v deselects the series with offset %v", rf, c34Offset(u)), info)
						}
					}
					prevPos = pos[0]
				}
			}
		}
	}
	verifh.Stat(map[string]any{"api_calls": apiCalls, "ratio_offset_pairs": len(seen), "vectors_queried": vectors, "queries": queries})
	if len(cases) > 0 {
		verifh.Sample(cases[len(cases)/2])
	}
	verifh.Done(len(cases))
	if verifh.Violations() > 0 {
		t.Fail()
	}
}
