package promql_test

// C30 conformance harness: replays the cases emitted by specs/promql_rate/RateFns.tla.
// Every case = one float series (timestamps in ms, values, start timestamps), one of
// rate/increase/delta/irate/idelta/resets/changes with range, offset and evaluation time, the
// engine option UseStartTimestamps, and the output predicted by the TLA+ reference (exact
// rational, rates per millisecond).  Each distinct series becomes one series m{id="<n>"} of a
// real TSDB with start-timestamp storage (AppenderV2); the query is evaluated as an instant
// query on a real promql.Engine.  The harness only concretises (time base and time scale, unit
// conversion ms -> s) and compares; for rate it additionally checks the relational law
// increase = rate * range on the two real answers.

import (
	"context"
	"encoding/json"
	"fmt"
	"math"
	"sort"
	"strconv"
	"strings"
	"sync"
	"testing"
	"time"

	"github.com/prometheus/prometheus/internal/verifh"
	"github.com/prometheus/prometheus/model/labels"
	"github.com/prometheus/prometheus/promql"
	"github.com/prometheus/prometheus/promql/parser"
	"github.com/prometheus/prometheus/storage"
	"github.com/prometheus/prometheus/tsdb"
	"github.com/prometheus/prometheus/tsdb/chunkenc"
	"github.com/prometheus/prometheus/util/teststorage"
)

type c30Val struct {
	T string `json:"t"`
	N int64  `json:"n"`
	D int64  `json:"d"`
}

func (v c30Val) f() float64 {
	if v.T == "NaN" {
		return math.NaN()
	}
	return float64(v.N) / float64(v.D)
}

type c30Sample struct {
	T  int64  `json:"t"`
	V  c30Val `json:"v"`
	St int64  `json:"st"`
}

type c30Case struct {
	S []c30Sample `json:"s"`
	Q struct {
		Fn    string `json:"fn"`
		E     int64  `json:"e"`
		Rg    int64  `json:"rg"`
		Off   int64  `json:"off"`
		Usest bool   `json:"usest"`
		St    int64  `json:"st"` // range query: step width (0 = instant query)
		Ns    int64  `json:"ns"` // range query: number of steps
	} `json:"q"`
	Out  c30Out   `json:"out"`  // prediction at the first evaluation time
	Outs []c30Out `json:"outs"` // prediction at every step
	N    int  `json:"n"`
	Stin bool `json:"stin"`
}

type c30Out struct {
	Present bool   `json:"present"`
	V       c30Val `json:"v"`
}

func c30Close(want, got float64) bool {
	switch {
	case math.IsNaN(want):
		return math.IsNaN(got)
	case math.IsNaN(got) || math.IsInf(got, 0):
		return false
	}
	d := math.Abs(want - got)
	return d <= 1e-12 || d <= 1e-9*math.Abs(want)
}

func TestVerifC30(t *testing.T) {
	cases, err := verifh.ReadNDJSON[c30Case](verifh.In())
	if err != nil {
		verifh.Infra(err.Error())
		t.Fatal(err)
	}
	seed := verifh.Seed()
	// time concretisation: t -> base + k*t (ms); ranges and offsets scale with k
	ks := []int64{60000, 1, 1000, 7} // seed 1 -> scale 1: the +-1 ms boundaries of the model stay +-1 ms
	bases := []int64{0, 1700000000000, -3000007, 123456}
	k, base := ks[int(seed)%len(ks)], bases[int(seed/2)%len(bases)]
	tm := func(x int64) int64 { return base + k*x }

	// ---- one series per distinct sample sequence
	idOf := map[string]int{}
	var reps []int
	caseID := make([]int, len(cases))
	for i := range cases {
		b, _ := json.Marshal(cases[i].S)
		id, ok := idOf[string(b)]
		if !ok {
			id = len(reps)
			idOf[string(b)] = id
			reps = append(reps, i)
		}
		caseID[i] = id
	}
	st := teststorage.New(t, func(o *tsdb.Options) {
		o.EnableSTStorage = true
		o.FloatChunkEncoding = chunkenc.EncXOR2
	})
	app := st.AppenderV2(context.Background())
	nsamples := 0
	for id, ci := range reps {
		ls := labels.FromStrings("__name__", "m", "id", strconv.Itoa(id))
		for _, s := range cases[ci].S {
			var sts int64
			if s.St != 0 {
				sts = tm(s.St)
				if sts == 0 {
					verifh.Infra("concretised start timestamp collides with 0 (unknown)")
					t.Fatal("st collision")
				}
			}
			if _, err := app.Append(0, ls, sts, tm(s.T), s.V.f(), nil, nil, storage.AppendV2Options{}); err != nil {
				verifh.Infra(fmt.Sprintf("append %s t=%d st=%d: %v", ls, tm(s.T), sts, err))
				t.Fatal(err)
			}
			nsamples++
			if nsamples%20000 == 0 {
				if err := app.Commit(); err != nil {
					verifh.Infra(err.Error())
					t.Fatal(err)
				}
				app = st.AppenderV2(context.Background())
			}
		}
	}
	if err := app.Commit(); err != nil {
		verifh.Infra(err.Error())
		t.Fatal(err)
	}

	mk := func(useST bool) *promql.Engine {
		return promql.NewEngine(promql.EngineOpts{
			MaxSamples: 1000000, Timeout: 100 * time.Second, LookbackDelta: 5 * time.Minute,
			EnableAtModifier: true, EnableNegativeOffset: true, UseStartTimestamps: useST,
			Parser: parser.NewParser(parser.Options{EnableExperimentalFunctions: true}),
		})
	}
	engST, engNoST := mk(true), mk(false)
	defer engST.Close()
	defer engNoST.Close()

	var (
		mu      sync.Mutex
		nviol   int
		nevals  int
		sigSeen = map[string]int{}
		perFn   = map[string]int{}
		present int
		stIn    int
		sampled int

		rangeSteps int
	)
	violation := func(sig, msg string, cs *c30Case, qs string) {
		mu.Lock()
		defer mu.Unlock()
		nviol++
		sigSeen[sig]++
		if sigSeen[sig] > 3 {
			return
		}
		verifh.Violation(sig, msg, map[string]any{"case": cs, "query": qs, "seed": seed, "time_scale": k, "time_base": base})
	}
	eval := func(ng *promql.Engine, qs string, at int64) (promql.Vector, error) {
		qry, err := ng.NewInstantQuery(context.Background(), st, nil, qs, time.UnixMilli(at))
		if err != nil {
			return nil, fmt.Errorf("parse: %w", err)
		}
		defer qry.Close()
		res := qry.Exec(context.Background())
		mu.Lock()
		nevals++
		mu.Unlock()
		if res.Err != nil {
			return nil, res.Err
		}
		v, ok := res.Value.(promql.Vector)
		if !ok {
			return nil, fmt.Errorf("result type %T", res.Value)
		}
		return append(promql.Vector(nil), v...), nil
	}
	query := func(cs *c30Case, fn string, id int) string {
		off := ""
		if cs.Q.Off != 0 {
			off = fmt.Sprintf(" offset %dms", k*cs.Q.Off)
		}
		return fmt.Sprintf(`%s(m{id="%d"}[%dms]%s)`, fn, id, k*cs.Q.Rg, off)
	}

	// a range query: every step is compared with the prediction of the spec for that evaluation time
	evalRange := func(ng *promql.Engine, qs string, cs *c30Case) (map[int64]float64, error) {
		start, end := tm(cs.Q.E), tm(cs.Q.E+(cs.Q.Ns-1)*cs.Q.St)
		qry, err := ng.NewRangeQuery(context.Background(), st, nil, qs, time.UnixMilli(start), time.UnixMilli(end), time.Duration(k*cs.Q.St)*time.Millisecond)
		if err != nil {
			return nil, fmt.Errorf("parse: %w", err)
		}
		defer qry.Close()
		res := qry.Exec(context.Background())
		mu.Lock()
		nevals++
		mu.Unlock()
		if res.Err != nil {
			return nil, res.Err
		}
		mat, ok := res.Value.(promql.Matrix)
		if !ok {
			return nil, fmt.Errorf("result type %T", res.Value)
		}
		if len(mat) > 1 {
			return nil, fmt.Errorf("%d series in the result of a one-series query", len(mat))
		}
		pts := map[int64]float64{}
		for _, sr := range mat {
			if len(sr.Histograms) > 0 {
				return nil, fmt.Errorf("histogram points in the result")
			}
			for _, p := range sr.Floats {
				pts[p.T] = p.F
			}
		}
		return pts, nil
	}
	checkRange := func(ng *promql.Engine, cs *c30Case, id int) {
		qs := query(cs, cs.Q.Fn, id)
		desc := fmt.Sprintf("range query %q from %d step %dms x%d", qs, tm(cs.Q.E), k*cs.Q.St, cs.Q.Ns)
		pts, err := evalRange(ng, qs, cs)
		if err != nil {
			if strings.HasPrefix(err.Error(), "parse:") {
				verifh.Infra(fmt.Sprintf("%s: %v", desc, err))
			} else {
				violation(cs.Q.Fn+":range:error", fmt.Sprintf("%s failed: %v", desc, err), cs, qs)
			}
			return
		}
		if int64(len(cs.Outs)) != cs.Q.Ns {
			verifh.Infra("case carries the wrong number of step predictions")
			return
		}
		npresent := 0
		for j, o := range cs.Outs {
			at := tm(cs.Q.E + int64(j)*cs.Q.St)
			got, ok := pts[at]
			want := o.V.f()
			if cs.Q.Fn == "rate" || cs.Q.Fn == "irate" {
				want = want * 1000 / float64(k)
			}
			switch {
			case !o.Present && ok:
				violation(cs.Q.Fn+":range:unexpected-output", fmt.Sprintf("%s: step %d (t=%d): reference has no output sample, got %v", desc, j, at, got), cs, qs)
				return
			case o.Present && !ok:
				violation(cs.Q.Fn+":range:missing-output", fmt.Sprintf("%s: step %d (t=%d): reference %v, no sample returned", desc, j, at, want), cs, qs)
				return
			case o.Present && !c30Close(want, got):
				violation(cs.Q.Fn+":range:value", fmt.Sprintf("%s: step %d (t=%d): got %v, reference %v (= %d/%d%s)", desc, j, at, got, want, o.V.N, o.V.D, o.V.T), cs, qs)
				return
			}
			if o.Present {
				npresent++
			}
		}
		if len(pts) != npresent {
			violation(cs.Q.Fn+":range:extra-steps", fmt.Sprintf("%s: %d samples returned, reference has %d", desc, len(pts), npresent), cs, qs)
		}
	}

	work := make(chan int, 256)
	var wg sync.WaitGroup
	for w := 0; w < 8; w++ {
		wg.Add(1)
		go func() {
			defer wg.Done()
			for i := range work {
				cs := &cases[i]
				ng := engNoST
				if cs.Q.Usest {
					ng = engST
				}
				if cs.Q.St > 0 {
					checkRange(ng, cs, caseID[i])
					mu.Lock()
					perFn[cs.Q.Fn+"[range]"]++
					rangeSteps += int(cs.Q.Ns)
					mu.Unlock()
					continue
				}
				qs := query(cs, cs.Q.Fn, caseID[i])
				vec, err := eval(ng, qs, tm(cs.Q.E))
				if err != nil {
					if strings.HasPrefix(err.Error(), "parse:") {
						verifh.Infra(fmt.Sprintf("query %q: %v", qs, err))
					} else {
						violation(cs.Q.Fn+":error", fmt.Sprintf("query %q at %d failed: %v", qs, tm(cs.Q.E), err), cs, qs)
					}
					continue
				}
				want := cs.Out.V.f()
				if cs.Q.Fn == "rate" || cs.Q.Fn == "irate" {
					want = want * 1000 / float64(k) // per ms of model time -> per second of real time
				}
				switch {
				case !cs.Out.Present && len(vec) != 0:
					violation(cs.Q.Fn+":unexpected-output", fmt.Sprintf("query %q at %d: reference has no output sample, got %v", qs, tm(cs.Q.E), vec[0].F), cs, qs)
				case cs.Out.Present && len(vec) != 1:
					violation(cs.Q.Fn+":missing-output", fmt.Sprintf("query %q at %d: reference %v, got %d samples", qs, tm(cs.Q.E), want, len(vec)), cs, qs)
				case cs.Out.Present && vec[0].H != nil:
					violation(cs.Q.Fn+":histogram", fmt.Sprintf("query %q: histogram result", qs), cs, qs)
				case cs.Out.Present && !c30Close(want, vec[0].F):
					violation(cs.Q.Fn+":value", fmt.Sprintf("query %q at %d: got %v, reference %v (= %d/%d%s; %d samples in window)", qs, tm(cs.Q.E), vec[0].F, want, cs.Out.V.N, cs.Out.V.D, cs.Out.V.T, cs.N), cs, qs)
				case cs.Out.Present && vec[0].Metric.Get("__name__") != "":
					violation(cs.Q.Fn+":name-kept", fmt.Sprintf("query %q: metric name not dropped: %s", qs, vec[0].Metric), cs, qs)
				}
				// relational laws of the property statement, on the real answers
				if cs.Q.Fn == "rate" && err == nil {
					q2 := query(cs, "increase", caseID[i])
					v2, err2 := eval(ng, q2, tm(cs.Q.E))
					switch {
					case err2 != nil:
						violation("increase:error", fmt.Sprintf("query %q failed: %v", q2, err2), cs, q2)
					case len(v2) != len(vec):
						violation("law:increase-rate-presence", fmt.Sprintf("%q gives %d samples but %q gives %d", qs, len(vec), q2, len(v2)), cs, q2)
					case len(vec) == 1 && !c30Close(vec[0].F*float64(k*cs.Q.Rg)/1000, v2[0].F):
						violation("law:increase-is-rate-times-range", fmt.Sprintf("%q = %v, %q = %v, range %v s", qs, vec[0].F, q2, v2[0].F, float64(k*cs.Q.Rg)/1000), cs, q2)
					}
					nonneg := true
					for _, s := range cs.S {
						if s.V.T != "f" || s.V.N < 0 {
							nonneg = false
						}
					}
					if nonneg && len(vec) == 1 && vec[0].F < 0 {
						violation("law:negative-rate", fmt.Sprintf("%q = %v on non-negative samples", qs, vec[0].F), cs, qs)
					}
				}
				mu.Lock()
				perFn[cs.Q.Fn]++
				if cs.Out.Present {
					present++
				}
				if cs.Stin {
					stIn++
				}
				if sampled < 3 && i%(len(cases)/3+1) == 0 {
					sampled++
					verifh.Sample(map[string]any{"query": qs, "at": tm(cs.Q.E), "case": cs})
				}
				mu.Unlock()
			}
		}()
	}
	for i := range cases {
		work <- i
	}
	close(work)
	wg.Wait()

	fns := make([]string, 0, len(perFn))
	for f, n := range perFn {
		fns = append(fns, fmt.Sprintf("%s=%d", f, n))
	}
	sort.Strings(fns)
	verifh.Stat(map[string]any{"c30_cases": len(cases), "c30_series": len(reps), "c30_samples_loaded": nsamples, "c30_evaluations": nevals,
		"c30_with_output": present, "c30_start_timestamp_inside_window": stIn, "c30_per_function": strings.Join(fns, " "),
		"c30_time_scale": k, "c30_time_base": base, "c30_range_query_steps": rangeSteps})
	verifh.Done(len(cases))
	if nviol > 0 {
		t.Fail()
	}
}
