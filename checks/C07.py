"""C07 — compaction preserves the union of its inputs: Compaction.tla (blocks with explicit chunk partition,
encodings and tombstones; Compact / WriteRange produce the de-duplicated union) checked by TLC; generated
behaviours replayed into real blocks and the real LeveledCompactor."""

META = {
    "text": "Compaction.tla models persistent blocks as series -> chunks -> samples (each sample carrying the set of candidate "
            "values a de-duplicating merge may keep) with tombstone intervals; blocks are written sample by sample, then "
            "compacted (output = union of the inputs inside the hull minus deleted intervals) or a sub-range of one block is "
            "re-written (LeveledCompactor.Write, the way a head range is persisted). TLC checks on the design that a query over "
            "everything on disk is unchanged by any sequence of compactions/re-writes (ContentPreserved), that each compaction "
            "output is exactly the union of its inputs, and that no empty block is written. Behaviours (a few per coverage class "
            "of every Compact/WriteRange transition of the exhaustive configurations + seeded walks with 2 series, 3 encodings, "
            "up to 4 input blocks, staged compactions) are replayed: input blocks are real blocks with exactly the model's chunk "
            "layout and tombstones (Block.Delete), the real Compact/Write runs, the output block is queried and its index, "
            "chunks, time range and BlockMeta.Stats are compared with the prediction and with each other.",
    "note": "Bounded: 1 series x 3 time points exhaustively (1 block with tombstones and range re-writes; 2 blocks float/histogram), 1 series x "
            "4 time points x 2 full-range blocks of <=3 samples (twin chunk headers with different points/values), "
            "2 series x 6 time points x float/histogram/float-histogram by simulation. Values identify (type, source block, "
            "timestamp); which duplicate a merge keeps is left open as in the statement. Head ranges are represented by "
            "Write over a block reader (RangeHead/OOO heads are covered by C01). The concatenating merger is not applied: its "
            "output order is documented as unsorted.",
    "technique": "TLA+ reference model (Compaction.tla) checked by TLC; TLC-generated behaviours replayed into "
                 "tsdb.LeveledCompactor.Compact/Write on real blocks",
    "design_ref": "DESIGN.md §5 C07",
    "level": "model_checking",
}

import json
import os
import random


def run(ctx):
    import vlib
    q = ctx.quick
    rnd = random.Random(ctx.seed)
    behs = []
    cfgs = [("MC_quick.cfg", 2 if q else 4), ("MC_two.cfg", 6 if q else 20),
            # two inputs whose chunks have the same bounds, encoding and sample count ("twin" headers) but
            # different interior timestamps / different values: the merger may only skip byte-identical chunks
            ("MC_twin.cfg", 4 if q else 20)]
    if not q:
        cfgs.append(("MC_twinh.cfg", 20))
    for cfg, per_class in cfgs:
        mc = ctx.tlc("compaction", "Compaction", cfg, workers=4, timeout=900)
        ctx.account(mc)
        by = {}
        for r in mc.emitted:
            by.setdefault(json.dumps(r["cl"]), []).append(r["h"])
        n = 0
        for k in sorted(by):
            v = by[k]
            rnd.shuffle(v)
            behs += v[:per_class]
            n += len(v[:per_class])
        ctx.log("%s: %d generated / %d distinct, %d compaction transitions in %d classes, %d behaviours kept (%.0fs)"
                % (cfg, mc.generated, mc.distinct, len(mc.emitted), len(by), n, mc.wall))
    if not q:
        big = ctx.tlc("compaction", "Compaction", "MC_big.cfg", workers=8, timeout=3000)
        ctx.account(big)
        ctx.log("MC_big: %d generated / %d distinct (%.0fs)" % (big.generated, big.distinct, big.wall))
    d = 40
    sim = ctx.tlc("compaction", "Compaction", "SIM.cfg", simulate=(2 if q else 10), depth=d + 3, workers=4,
                  constants={"MaxOps": d}, timeout=(150 if q else 900))
    ctx.account(sim)
    walks = [r["h"] for r in sim.emitted]
    ctx.log("SIM: %d walks" % len(walks))
    behs += walks
    if not behs:
        raise vlib.Infra("no behaviours emitted")
    ctx.samples = [behs[len(behs) // 3], behs[-1]]
    if os.environ.get("VERIF_C07_CORRUPT"):
        # binding self-test (notes/C07.md): drop one predicted sample -> the check must exit 1
        import copy
        for k, b in enumerate(behs):
            st = [i for i, s in enumerate(b) if s["a"] in ("Compact", "WriteRange") and s["want"]["nsamples"] >= 2]
            if st:
                behs[k] = copy.deepcopy(b)
                w = behs[k][st[0]]["want"]
                s = next(x for x in sorted(w["series"]) if w["series"][x])
                w["series"][s] = w["series"][s][1:]
                ctx.log("CORRUPTED behaviour %d step %d: first predicted sample of series %s dropped" % (k, st[0], s))
                break
    inp = ctx.write_ndjson("behaviours.ndjson", behs)
    gr = ctx.go_test("tsdb", ["c07_compaction_test.go"], "^TestVerifC07Compaction$", env={"VERIF_IN": inp}, timeout="60m")
    ctx.absorb(gr, label="C07 replay")
    ctx.assumptions += [
        "bounded model (see specs/compaction/*.cfg); larger alphabets only by seeded simulation",
        "which of several samples with the same series and timestamp survives a merge is not fixed (any input value is accepted)",
        "input blocks are written through LeveledCompactor.Write from in-memory index/chunk readers so that the chunk partition is the model's",
    ]
    return ctx.finish(rule="a few behaviours per coverage class of every Compact/WriteRange transition of the exhaustive configurations "
                           "(seeded choice) + seeded walks; every output block compared", exhaustive=False)
