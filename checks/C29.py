"""C29 — aggregations and binary operators: AggBinop.tla (reference + implementation-shaped
transcription, checked against each other by TLC) generates cases with predicted results that are
replayed as instant queries on a real TSDB-backed promql.Engine."""
import concurrent.futures
import os

META = {
    "text": "AggBinop.tla holds (1) a declarative reference of the documented semantics of every aggregation operator (sum, avg, min, "
            "max, count, group, stddev, stdvar, quantile, topk, bottomk, limitk, count_values; by/without) and of vector/vector, "
            "vector/scalar and set operators (on/ignoring, group_left/group_right with included labels, bool, fill modifiers, "
            "matching errors, duplicate output label sets) in exact rational arithmetic extended with IEEE NaN/+Inf/-Inf, and (2) a "
            "step-by-step transcription of the engine's loops. TLC checks exhaustively on bounded vectors that (2) equals (1) and "
            "that algebraic laws hold, and emits every explored case with its predicted groups, labels, values or error class; the "
            "harness loads the vectors into one real TSDB, evaluates the printed expression on real engines (immediate and delayed "
            "name removal) and compares labels exactly, counts exactly, values to 1e-9 relative.",
    "note": "Bounded: vectors of <=3 (exhaustive) / <=4 (simulation) float samples over metric name + 3 labels with absent labels; "
            "small integer values plus NaN/+Inf/-Inf. Tie-breaking of topk/bottomk/limitk is left open (must/may sets). atan2 and "
            "non-exact ^ results are compared for labels/presence only. Histogram samples, limit_ratio (C34) and range queries are out "
            "of scope. Error class among the matching errors is drift-only; error vs. result is strict except where the documentation "
            "is silent (duplicate match group with no counterpart). stddev is compared squared against the exact variance.",
    "technique": "TLA+ reference + implementation-shaped state machine checked by TLC (ImplMatchesRef and laws); TLC-generated cases with "
                 "predicted results replayed into promql.Engine over a real TSDB",
    "design_ref": "DESIGN.md §5 C29",
    "level": "model_checking",
}

QUICK = ["MC_quick_agglab.cfg", "MC_quick_aggval.cfg", "MC_quick_vvlab.cfg", "MC_quick_vvval.cfg", "MC_quick_vs.cfg"]
BIG = ["MC_big_agg.cfg", "MC_big_vv.cfg", "MC_big_orders.cfg"]


def run(ctx):
    q = ctx.quick
    behs = []
    cfgs = list(QUICK)
    dbg = os.environ.get("VERIF_C29_CFGS")      # debugging aid: run only the named configurations, no simulation
    if dbg:
        cfgs = dbg.split(",")

    def one(cfg):
        return cfg, ctx.tlc("promql_agg", "AggBinop", cfg, workers=(2 if q else 3), timeout=1500)

    reuse = os.environ.get("VERIF_C29_CASES")    # debugging aid: replay a saved cases file (TLC output does not depend on /repo)
    if reuse and os.path.exists(reuse):
        import json
        behs = [json.loads(l) for l in open(reuse)]
        ctx.states = ctx.transitions = len(behs)
        cfgs, dbg = [], "reuse"
    with concurrent.futures.ThreadPoolExecutor(max_workers=5) as ex:
        for cfg, mc in ex.map(one, cfgs):
            ctx.account(mc)
            behs += mc.emitted
            ctx.log("%s: %d generated / %d distinct, %d cases (%.0fs)" % (cfg, mc.generated, mc.distinct, len(mc.emitted), mc.wall))
    if not q and not dbg:
        for cfg in BIG:
            mc = ctx.tlc("promql_agg", "AggBinop", cfg, workers=6, timeout=3000)
            ctx.account(mc)
            behs += mc.emitted
            ctx.log("%s: %d generated / %d distinct, %d cases (%.0fs)" % (cfg, mc.generated, mc.distinct, len(mc.emitted), mc.wall))
    # seeded random cases over the large alphabet (built sample by sample, expression in two steps)
    if not dbg:
        sim = ctx.tlc("promql_agg", "AggBinop", "SIM.cfg", simulate=(150 if q else 2500), depth=40, workers=4,
                      timeout=(100 if q else 1200))
        ctx.account(sim)
        behs += sim.emitted
        ctx.log("SIM: %d cases" % len(sim.emitted))
    if not behs:
        import vlib
        raise vlib.Infra("no cases emitted")
    ctx.samples = [behs[0], behs[len(behs) // 2], behs[-1]]
    inp = ctx.write_ndjson("cases.ndjson", behs)
    if reuse and not os.path.exists(reuse):
        import shutil
        shutil.copy(inp, reuse)
    gr = ctx.go_test("promql", ["c29_aggbinop_test.go"], "^TestVerifC29$", env={"VERIF_IN": inp}, timeout="40m")
    ctx.absorb(gr, label="C29 replay")
    ctx.assumptions += [
        "float samples only; values are small integers, NaN, +Inf, -Inf; results predicted as exact rationals and compared to 1e-9",
        "vectors of at most 3 samples exhaustively (4 by simulation) over __name__ and labels a, b, c with absent labels",
        "tie-breaking among equal values in topk/bottomk/limitk is not fixed by the documentation: must/may sets",
        "instant queries; immediate name removal for every case, delayed name removal for every third case",
    ]
    return ctx.finish(rule="every case of the exhaustive configurations (label-structure and value-structure profiles per operator "
                           "family) + seeded simulated cases; each evaluated as an instant query and compared with the predicted "
                           "result (labels, values, error class)", exhaustive=False)
