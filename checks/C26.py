"""C26 — PromQL expressions print to text that parses back unchanged; the parser is total.

Syntax.tla is the reference for text -> AST (precedence/associativity, unary sign, number folding, checkAST typing,
modifier rules) and generates token texts with predicted verdict and AST; TokenSeqs.tla enumerates short token
sequences. The real parser must agree with the predictions and round-trip through String() and Prettify()."""
import os

META = {
    "text": "Syntax.tla specifies the surface syntax -> AST relation of promql/parser: node kinds and fields, a fully explicit token text "
            "for every AST, the precedence/associativity table with the place of unary +/- in it (PrecParse of flat infix chains), sign "
            "folding into number literals, checkAST's typing relation (aggregation parameters, function signatures incl. variadics, "
            "binary operands, bool, on/ignoring, group_left/right, fill, set operators) and the parser actions' modifier rules (offset, @, "
            "range, anchored/smoothed only on selectors and only once). A stack machine (one action per grammar production) builds "
            "well-typed and ill-typed expressions over all node kinds (number formats incl. hex/exp/Inf/NaN/duration literals, quoted "
            "strings with escapes, quoted UTF-8 metric and label names, keywords used as names, aggregations in prefix/postfix form, "
            "subqueries, matrix selectors, @ start()/end(), negative offsets). For each text the real parser must accept iff predicted "
            "and produce the predicted AST and type; String() of it must parse to an equal AST and print identically; Prettify() at line "
            "widths 100/30/8/1 must parse to an equal AST. Every single-token deletion/duplication/swap of every text and every token "
            "sequence of length <= 3 over a 30-token alphabet (62 tokens in the thorough tier) must be parsed or rejected with ParseErrors (never ErrUnexpected / panic), "
            "and whatever is accepted must round-trip as well.",
    "note": "Bounded: expressions of <= 4-7 productions per exhaustive config (leaves+modifiers, infix chains of 3 operands over all 18 "
            "operators, all 16 modifier forms on 2-operand chains, calls/aggregations over typed and ill-typed arguments), deeper mixes "
            "(<= 12 productions) by seeded simulation. Duration *expressions* ([5m+1m], step()/range() in durations) are not generated. "
            "Totality covers grammar-adjacent strings only (token mutations / short token sequences), not arbitrary bytes. String contents "
            "and quoted names are symbolic in the spec and concretised by the harness (escapes, non-ASCII, three quoting styles).",
    "technique": "TLA+ reference of the text->AST relation checked by TLC (precedence invariants), TLC-generated texts replayed into "
                 "parser.ParseExpr / Expr.String / parser.Prettify",
    "design_ref": "DESIGN.md §5 C26",
    "level": "model_checking",
}

FILES = ["c26_syntax_test.go"]
W = int(os.environ.get("VERIF_TLC_WORKERS", "8"))


def corrupt(behs):
    """Binding self-test (VERIF_CORRUPT=1): change the operator of one predicted binary node."""
    for b in behs:
        if b.get("ok") and b["ast"].get("k") == "bin" and b["ast"]["op"] == "+":
            b["ast"]["op"] = "-"
            return
    raise RuntimeError("nothing to corrupt")


def run(ctx):
    q = ctx.quick
    behs = []
    cache = os.environ.get("VERIF_C26_CACHE")
    if cache and os.path.exists(cache):
        import json
        with open(cache) as f:
            saved = json.load(f)
        ctx.states, ctx.transitions = saved["states"], saved["transitions"]
        return replay(ctx, saved["behs"])
    for cfg in ["SY_leaf.cfg", "SY_sloppy.cfg", "SY_bin.cfg", "SY_mod.cfg", "SY_wrap.cfg"]:
        mc = ctx.tlc("promql_syntax", "Syntax", cfg, workers=W, timeout=1200)
        ctx.account(mc)
        behs += mc.emitted
        ctx.log("%s: %d generated / %d distinct, %d texts" % (cfg, mc.generated, mc.distinct, len(mc.emitted)))
    ts = ctx.tlc("promql_syntax", "TokenSeqs", "TS_all.cfg" if q else "TS_big.cfg", workers=W, timeout=1800)
    ctx.account(ts)
    behs += ts.emitted
    ctx.log("TokenSeqs: %d sequences" % len(ts.emitted))
    sim = ctx.tlc("promql_syntax", "Syntax", "SY_SIM.cfg", simulate=(60 if q else 1500), depth=16, workers=W,
                  timeout=(90 if q else 900))
    ctx.account(sim)
    behs += sim.emitted
    ctx.log("SY_SIM: %d texts" % len(sim.emitted))
    if cache:
        import json
        with open(cache, "w") as f:
            json.dump({"states": ctx.states, "transitions": ctx.transitions, "behs": behs}, f)
    return replay(ctx, behs)


def replay(ctx, behs):
    if not behs:
        import vlib
        raise vlib.Infra("no cases emitted")
    if os.environ.get("VERIF_CORRUPT"):
        corrupt(behs)
    ctx.samples = [behs[0], behs[len(behs) // 3], behs[-1]]
    inp = ctx.write_ndjson("cases.ndjson", behs)
    gr = ctx.go_test("promql/parser", FILES, "^TestVerifC26Syntax$", env={"VERIF_IN": inp})
    ctx.absorb(gr, label="C26 replay")
    ctx.assumptions += [
        "bounded generator, see META.note; alphabets in specs/promql_syntax/SY_*.cfg, TS_*.cfg",
        "all optional parser features enabled (experimental functions, duration expressions, extended range selectors, fill modifiers)",
        "AST equality ignores source positions and treats nil and empty slices as equal",
    ]
    return ctx.finish(rule="every finished expression of the exhaustive configs + simulated walks + every token sequence of length <= 3; "
                           "each text under 2 (quick) or 4 (thorough) string/quoting/whitespace concretisations, with all its "
                           "single-token mutations", exhaustive=False)
