"""C43 — OTLP conversion: Convert.tla (reference re-bucketing by exact integer index arithmetic + transcription of
convertBucketsLayout, related by TLC) and replay of generated bucket arrays and point cases through PrometheusConverter.FromMetrics."""

META = {
    "text": "Convert.tla states the reference for OTLP exponential buckets (scale s, offset, dense counts with zero runs): with "
            "d = max(0, s-8) source bucket k belongs to target bucket floor(k/2^d)+1 at schema s-d and every target bucket holds the sum "
            "of the source buckets it covers; explicit buckets map index by index to custom buckets. convertBucketsLayout is transcribed "
            "as a state machine (one action per loop iteration) and TLC checks, for every generated array, that the decoded sparse "
            "layout equals the reference, that totals are preserved and the layout is well formed. Every array is replayed through "
            "PrometheusConverter.FromMetrics into a recording AppenderV2: the appended histogram's spans/deltas are decoded "
            "independently and compared bucket by bucket with the reference, together with schema, the other side, zero count, count, "
            "sum and timestamps; a case table (gauge/sum x int/double, NoRecordedValue, temporality, HasSum) fixes values, stale "
            "markers, counter reset hints and ms timestamps.",
    "note": "Bounds: arrays of <=5 buckets with counts {0,1,2} x 9 offsets (-5..3) x scales {-4,8,9,10} exhaustively (quick), <=8 "
            "buckets / scale 12 / offsets -9..7 in MC_big, seeded samples of 12-bucket sparse arrays and offsets -17..16 in SIM. Counts "
            "are scaled by a seeded multiplier (up to 2^33) in the replay. Not covered: classic (non-NHCB) explicit histogram series, "
            "summaries, exemplars, label/attribute translation, target_info. Float fidelity of sums/values is replay-only.",
    "technique": "TLA+ reference + transcription (Convert.tla) checked by TLC; TLC-generated data points replayed through prometheusremotewrite.PrometheusConverter.FromMetrics",
    "design_ref": "DESIGN.md §5 C43",
    "level": "model_checking",
}


def run(ctx):
    import os
    import vlib
    q = ctx.quick
    behs, table = [], []
    for cfg in ["MC_quick.cfg", "MC_explicit.cfg"]:
        mc = ctx.tlc("otlp", "Convert", cfg, workers=4, timeout=1500)
        ctx.account(mc)
        behs += mc.emitted
        table = table or mc.tagged.get("@@PT", [])
        ctx.log("%s: %d generated / %d distinct, %d arrays" % (cfg, mc.generated, mc.distinct, len(mc.emitted)))
    if not q:
        big = ctx.tlc("otlp", "Convert", "MC_big.cfg", timeout=3000)
        ctx.account(big)
        ctx.log("MC_big: %d generated / %d distinct" % (big.generated, big.distinct))
    for k in range(1 if q else 10):
        sim = ctx.tlc("otlp", "Convert", "SIM.cfg", workers=4, timeout=1500, extra_args=["-seed", str(ctx.seed * 100 + k)], constants={"SimPick": 2 if q else 6})
        ctx.account(sim)
        behs += sim.emitted
        ctx.log("SIM[%d]: %d arrays" % (k, len(sim.emitted)))
    if not behs or not table:
        raise vlib.Infra("no behaviours / case table emitted")
    ctx.samples = [behs[0], behs[len(behs) // 2], behs[-1]]
    if os.environ.get("VERIF_CORRUPT"):
        # binding self-test (notes/C43.md): move one predicted bucket of one array without deviation
        for b in behs:
            if b["want"]:
                b["want"][0][0] += 1
                ctx.log("VERIF_CORRUPT: corrupted one array")
                break
    inp = ctx.write_ndjson("arrays.ndjson", behs)
    pkg = "storage/remote/otlptranslator/prometheusremotewrite"
    gr = ctx.go_test(pkg, ["c43_otlp_test.go"], "^TestVerifC43Replay$", env={"VERIF_IN": inp})
    ctx.absorb(gr, label="C43 replay")
    tab = ctx.write_ndjson("points.ndjson", table[:1])
    gr2 = ctx.go_test(pkg, ["c43_otlp_test.go"], "^TestVerifC43Points$", env={"VERIF_IN": tab}, out_name="result2.ndjson")
    ctx.absorb(gr2, label="C43 points")
    ctx.assumptions += [
        "the array under test is placed on the positive or the negative side by seed; the other side carries one fixed bucket",
        "bucket counts of the model ({0,1,2,...}) are multiplied by a seeded factor in {1,3,2^33}",
    ]
    return ctx.finish(rule="every array of the bounded configs + seeded samples of long sparse arrays; the case table of scalar fields", exhaustive=False)
