"""C48 — agent-mode storage logs every accepted sample: AgentDb.tla (TLC) + replay into agent.DB
+ AcceptedKept / RefClosed evaluated by TLC on the real WAL entries (Trace_Agent.tla)."""
import json
import os

META = {
    "text": "AgentDb.tla transcribes the WAL-only storage step by step (appender Append/AppendHistogram/AppendExemplar with "
            "minValidTime(lastTs), Commit = series, samples, histograms, exemplars records then updateTimestamp, Rollback that still "
            "logs the series, DB.truncate = gc + segment-numbered deleted map + 'lower two thirds' checkpoint, restart = loadWAL with "
            "duplicate refs), with an appender that may stay open across a truncation. TLC checks on every reachable state that "
            "every sample accepted by a committed appender at or after the truncation time is still in checkpoint+segments after a "
            "series entry for its ref, that every entry left follows its series entry, and the out-of-order rule (up to one "
            "recorded open finding). TLC-generated histories (one per coverage class of the exhaustive small model and of two "
            "scenario skeletons, plus seeded random walks with a window and histograms) are driven into a real agent.DB; append "
            "verdicts are compared with the prediction, the real WAL is decoded and TLC evaluates AcceptedKept and RefClosed on "
            "the real entries against the samples the real appenders accepted; Querier/ChunkQuerier/ExemplarQuerier must fail.",
    "note": "Bounded: 2-3 label sets, 3-8 time points, window 0 or 2, histories <=4 steps exhaustively, <=9 along skeletons, <=14 by "
            "simulation; float and integer-histogram samples, exemplars; default checkpoint implementation "
            "(CheckpointFromInMemorySeries=false); one open appender at a time, interleaved with truncation sequentially (no real "
            "concurrency); segment cuts forced with WL.NextSegment. The out-of-order rule is stated against the series' in-memory "
            "life (a garbage-collected series that comes back starts afresh).",
    "technique": "TLA+ transcription (AgentDb.tla) model-checked by TLC; TLC-generated histories replayed into agent.DB; the "
                 "property evaluated by TLC on entries decoded from the real WAL (Trace_Agent.tla)",
    "design_ref": "DESIGN.md §5 C48",
}


def agent_part(ctx, cfgs, sim_walks, sim_depth, sig_prefix="", big=False, corrupt=False):
    """AgentDb.tla + agent.DB replay + Trace_Agent.tla; shared with C15 (whose statement covers the agent WAL too).
    Returns the list of behaviours replayed."""
    import vlib
    import random
    behs = []
    for cfg in cfgs:
        r = ctx.tlc("agent", "AgentDb", cfg, workers=4, timeout=1800)
        ctx.account(r)
        behs += r.emitted
        ctx.log("agent %s: %d generated / %d distinct, %d behaviours" % (cfg, r.generated, r.distinct, len(r.emitted)))
    if big:
        bigr = ctx.tlc("agent", "AgentDb", "MC_big.cfg", timeout=3000)
        ctx.account(bigr)
        ctx.log("agent MC_big: %d generated / %d distinct" % (bigr.generated, bigr.distinct))
    walks = []
    if sim_walks:
        sim = ctx.tlc("agent", "AgentDb", "SIM.cfg", simulate=sim_walks, depth=sim_depth + 3, workers=4,
                      constants={"MaxOps": sim_depth}, timeout=(60 if sim_walks <= 20 else 900))
        ctx.account(sim)
        walks = sim.emitted
    rnd = random.Random(ctx.seed)
    best = {}
    for b in behs:
        key = (len(b["hist"]), rnd.random())
        if b["cl"] not in best or key < best[b["cl"]][0]:
            best[b["cl"]] = (key, b)
    behs = [v[1] for v in sorted(best.values(), key=lambda v: v[0])] + walks
    ctx.log("agent: %d coverage classes + %d walks" % (len(best), len(walks)))
    if not behs:
        raise vlib.Infra("no agent behaviours emitted")
    if corrupt:      # binding self-test: corrupt one predicted field -> must exit 1
        for b in behs:
            aps = [s for s in b["hist"] if s["a"] == "Append" and s["res"] == "ok" and not s["fresh"]]
            if aps:
                aps[0]["res"] = "ooo"
                break
    inp = ctx.write_ndjson("agent_behaviours.ndjson", behs)
    trace = ctx.tmp("c48_trace.ndjson")
    gr = ctx.go_test("tsdb/agent", ["c48_agent_test.go"], "^TestVerifC48Agent$", env={"VERIF_IN": inp, "VERIF_TRACE": trace},
                     out_name="agent_result.ndjson")
    if sig_prefix:
        for rec in gr.records:
            if rec.get("kind") == "violation":
                rec["sig"] = sig_prefix + rec.get("sig", "")
    ctx.absorb(gr, label="agent replay")
    if os.path.exists(trace) and os.path.getsize(trace) > 0:
        tv = ctx.tlc("agent", "Trace_Agent", "Trace.cfg", workers=1, files={"trace.ndjson": trace}, timeout=600)
        ctx.account(tv)
        n = 0
        for tag, what in (("@@RC", "entry %s left in checkpoint+segments (T=%s) without a preceding series entry for its ref"),
                          ("@@AK", "accepted and committed sample %s (>= truncation time %s) is not in checkpoint+segments after a series entry for its ref")):
            for rc in tv.tagged.get(tag, []):
                for cl in sorted(rc["classes"]):
                    n += 1
                    pre = "refclosed:" if tag == "@@RC" else ""
                    sig = pre + cl
                    if ":late" in cl:
                        sig = "late:" + sig
                    ctx.add_violation(("agent behaviour %s: " + what + " (class %s)") % (rc["id"], json.dumps(rc["first"]), rc["T"], cl),
                                      sig_prefix + sig, {"behaviour": behs[int(rc["id"])], "entry": rc["first"]})
        ctx.log("agent trace validation: %d real logs, %d findings reported" % (tv.generated - 1, n))
    return behs


def run(ctx):
    q = ctx.quick
    behs = agent_part(ctx, ("MC_quick.cfg", "MC_win.cfg", "MC_open.cfg", "MC_dup.cfg", "MC_churn.cfg"),
                      10 if q else 300, 10 if q else 14, big=not q, corrupt=bool(os.environ.get("VERIF_CORRUPT")))
    ctx.samples = [behs[0], behs[len(behs) // 2]]
    ctx.assumptions += [
        "bounded model (see META.note); predicted WAL entries / refs are drift-only, verdicts come from append results and from "
        "AcceptedKept / RefClosed evaluated on the real entries",
        "the open finding KF-C48-2 is excused only in the class the model tags (appender open across a GC); KF-C48-1/3 are "
        "repaired and modelled as repaired",
    ]
    return ctx.finish(rule="one behaviour per coverage class of the exhaustive runs and skeletons + simulated walks, each driven into a "
                           "real agent.DB", exhaustive=False)
