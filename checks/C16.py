"""C16 — series selection and label queries follow matcher semantics.
Postings.tla (reference semantics + transcription of tsdb.PostingsForMatchers / label queries) checked by TLC;
its behaviours replayed through DB.Querier on head, blocks and both."""
import json
import os

META = {
    "text": "Postings.tla states the reference (a series matches iff every matcher holds with an absent label read as the empty string; "
            "Select must return every matching series with a sample in range and nothing that does not match; LabelNames/LabelValues "
            "are sorted duplicate-free projections between the 'data in range' and 'stored' bounds; limit law) next to a transcription of "
            "tsdb.PostingsForMatchers (labelMustBeSet, intersecting/subtracting matchers, inverse postings, '.*'/'.+' shortcuts, set "
            "matchers), labelValuesWithMatchers/labelNamesWithMatchers and the per-querier truncate-and-merge. TLC proves the "
            "transcription meets the reference for every explored (store, matcher list) and generates the cases: every query of the "
            "full pattern stores (all label maps over 2 names x {absent,x,y,filler class}, placed in head / blocks / both, plus stores "
            "lacking a name or value entirely), one query per coverage class over every store of <=2 series reached by "
            "AppendSample/Cut (DB.CompactHead) histories, and seeded random walks over 3 names with 3-matcher lists. Each case is "
            "replayed into a real tsdb.DB and Select (sorted and unsorted, with and without hints), LabelNames and LabelValues "
            "(unlimited and limited) through DB.Querier are compared with the predicted bounds on 3-6 time ranges.",
    "note": "Bounded: 2 label names (3 in simulation), stored values x, y and a filler class concretised to 35-70 distinct values (so the "
            "block postings offset table is crossed), 16 regex shapes whose denotation over the value universe is tabulated in the "
            "spec and cross-checked against the regexp package at harness start, matcher lists of length <=2 exhaustively "
            "(3 by simulation), 6 time points in 3 containers. Select with an empty matcher list and matchers on the empty label "
            "name are outside the explored domain (see notes/C16.md). Out-of-order data, tombstones and concurrent "
            "appends/compactions during a query are not explored. Trusted: TLC, the Json module, regexp for the cross-check.",
    "technique": "TLA+ reference + transcription (Postings.tla) model-checked by TLC; TLC-generated behaviours replayed into tsdb.DB "
                 "(DB.Querier Select/LabelNames/LabelValues)",
    "design_ref": "DESIGN.md §5 C16",
    "level": "model_checking",
}

QUERY_ACTIONS = ("Q", "Shard")


def group_behaviours(behs):
    """MC behaviours are <non-query prefix> + one query: group them by prefix so that the harness builds
    each store once. Simulated walks (queries interleaved) stay whole."""
    groups = {}
    order = []
    walks = []
    for b in behs:
        if not b:
            continue
        nq = sum(1 for s in b if s.get("a") in QUERY_ACTIONS)
        if nq == 0:
            continue
        if nq == 1 and b[-1].get("a") in QUERY_ACTIONS:
            key = json.dumps(b[:-1], sort_keys=True)
            if key not in groups:
                groups[key] = {"kind": "group", "steps": b[:-1], "queries": []}
                order.append(key)
            groups[key]["queries"].append(b[-1])
        else:
            walks.append({"kind": "group", "steps": b, "queries": []})
    return [groups[k] for k in order] + walks


def corrupt(groups):
    """binding self-test (VERIF_C16_CORRUPT=1): drop one series from a predicted `may` set."""
    for g in groups:
        for q in g["queries"] + [s for s in g["steps"] if s.get("a") == "Q"]:
            if q.get("a") == "Q" and q.get("ms") and q.get("must") and q["must"][0]:
                victim = q["must"][0][0]
                q["may"] = [x for x in q["may"] if x != victim]
                return True
    return False


def generate(ctx):
    """TLC runs: returns (behaviours, regex table). With VERIF_C16_CACHE=<file> the result of the TLC
    stage is stored in / taken from that file (development aid for mutant runs; never set by ./check)."""
    import vlib
    cache = os.environ.get("VERIF_C16_CACHE")
    if cache and os.path.exists(cache):
        with open(cache) as f:
            c = json.load(f)
        ctx.states, ctx.transitions = c["states"], c["transitions"]
        ctx.log("TLC stage taken from cache", cache)
        return c["behs"], c["retab"]
    behs, retab = generate_tlc(ctx)
    if cache:
        with open(cache, "w") as f:
            json.dump({"states": ctx.states, "transitions": ctx.transitions, "behs": behs, "retab": retab}, f)
    return behs, retab


def generate_tlc(ctx):
    import vlib
    q = ctx.quick
    # (M)+(R) every store of <=2 series reached by AppendSample/Cut histories; one behaviour per coverage class
    mc = ctx.tlc("postings", "Postings", "MC_quick.cfg", workers=1, timeout=1500)
    ctx.account(mc)
    behs = list(mc.emitted)
    retab = mc.tagged.get("@@RE", [None])[0]
    ctx.log("MC_quick: %d generated / %d distinct, %d class behaviours (%.0fs)" % (mc.generated, mc.distinct, len(mc.emitted), mc.wall))
    # (M)+(R) full pattern stores x every matcher list of length <=2, every transition emitted
    full = ctx.tlc("postings", "Postings", "MC_full.cfg" if q else "MC_full_big.cfg", workers=8, timeout=3000)
    ctx.account(full)
    behs += full.emitted
    ctx.log("MC_full: %d generated / %d distinct, %d behaviours (%.0fs)" % (full.generated, full.distinct, len(full.emitted), full.wall))
    if not q:
        big = ctx.tlc("postings", "Postings", "MC_big.cfg", timeout=3000)
        ctx.account(big)
        ctx.log("MC_big: %d generated / %d distinct (%.0fs)" % (big.generated, big.distinct, big.wall))
    # (R) seeded walks: 3 names, lists of up to 3 matchers, appends / cuts / queries interleaved
    d = 14 if q else 24
    sim = ctx.tlc("postings", "Postings", "SIM.cfg", simulate=(6 if q else 150), depth=d + 3, workers=8,
                  constants={"MaxOps": d}, timeout=(200 if q else 1500))
    ctx.account(sim)
    behs += sim.emitted
    ctx.log("SIM: %d walks (%.0fs)" % (len(sim.emitted), sim.wall))
    if retab is None:
        raise vlib.Infra("regex table was not emitted")
    return behs, retab


def run(ctx):
    import vlib
    behs, retab = generate(ctx)
    groups = group_behaviours(behs)
    if not groups:
        raise vlib.Infra("no behaviours emitted")
    if os.environ.get("VERIF_C16_CORRUPT"):
        if not corrupt(groups):
            raise vlib.Infra("nothing to corrupt")
        ctx.log("binding self-test: one predicted `may` entry removed")
    nq = sum(len(g["queries"]) + sum(1 for s in g["steps"] if s.get("a") in QUERY_ACTIONS) for g in groups)
    ctx.log("%d groups (stores / walks), %d query steps" % (len(groups), nq))
    ctx.samples = [{"steps": g["steps"][:3], "query": (g["queries"] or g["steps"])[-1]} for g in (groups[0], groups[len(groups) // 2], groups[-1])]
    inp = ctx.write_ndjson("behaviours.ndjson", [{"kind": "re", "table": retab}] + groups)
    gr = ctx.go_test("tsdb", ["c16_postings_test.go"], "^TestVerifC16Replay$", env={"VERIF_IN": inp}, timeout="40m")
    ctx.absorb(gr, label="C16 replay")
    ctx.assumptions += [
        "bounded model: label names a,b (+c in simulation), stored values x,y and a filler class (35-70 concrete values), "
        "matcher values {'',x,y,z}, 16 regex shapes, lists of <=2 matchers exhaustively on the pattern stores (reduced pair "
        "alphabet in the quick tier), <=3 by simulation; 6 time points in 3 containers (2 blocks + head)",
        "regex denotations are tabulated in the spec and cross-checked against package regexp on the concrete universe at harness start",
        "Select with no matchers and matchers on the empty label name are not part of the explored domain",
        "samples are in-order floats; no tombstones, no out-of-order data, no concurrent writers while querying",
    ]
    return ctx.finish(rule="every transition of the pattern-store configuration, one behaviour per coverage class (branch of the "
                           "PostingsForMatchers switch per matcher and index, indexes present, answer none/some/all, ranges with "
                           "partial data) of the small-store lifecycle configuration, plus seeded walks; each query step is run on "
                           "every range of RangeSeq through DB.Querier",
                      exhaustive=False)
