"""C12 — counter-reset hints returned by chunk iterators and queriers are sound: HistChunk.tla (shared with C11)
predicts, for every position of every read, whether a NotCounterReset mark would be sound; the replay checks the
real marks against it."""

import os
import sys
sys.path.insert(0, os.path.dirname(os.path.abspath(__file__)))

META = {
    "text": "HistChunk.tla transcribes the appenders' decision table (appendable/appendableGauge: append, expand, recode, new chunk "
            "with counter reset header, for integer and float chunks), counterResetHint (NotCounterReset only after the first sample "
            "of a counter chunk), the OOO encoder and the chain merge rule (a hint survives only between direct neighbours of one "
            "source). TLC checks on every reachable history HintSound: whatever a full read would return as NotCounterReset has, as "
            "its predecessor in that result, a non-stale histogram of the same schema/threshold/bounds with no larger count, zero "
            "count or bucket. The same histories are replayed into the real chunk appenders and into a real tsdb.DB (head, OOO head, "
            "m-mapped chunks, OOO block, head block, vertically merged block); every NotCounterReset mark returned by chunk "
            "iterators and by DB.Querier over the full range and all suffix ranges is checked against the spec's per-position "
            "soundness flag (any other hint value is accepted).",
    "note": "Bounded as C11 (3+1 bucket indices, counts 0..2, 2 schemas/thresholds/custom bound sets, <=2 edits per step, 3 appends "
            "exhaustively, <=12 and 2 out-of-order samples by simulation). The soundness flag refers to the sample the spec says "
            "precedes it in the same result; reads whose samples differ from the spec (C11's business) are skipped and counted as "
            "drift. PromQL's use of the hint (histogramRate) is not exercised.",
    "technique": "TLA+ model (HistChunk.tla) checked by TLC; TLC-generated histories replayed into tsdb/chunkenc appenders and tsdb.DB",
    "design_ref": "DESIGN.md §5 C12",
    "level": "model_checking",
}


def run(ctx):
    import C11
    return C11.run_common(ctx, "C12", ["c11_histchunk_test.go", "c12_hints_test.go"], "^TestVerifC12Replay$")
