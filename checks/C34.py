"""C34 — complementary limit_ratio selections partition the input.

LimitRatio.tla is the exact model (ratios and sampling offsets on an integer grid, offsets placed exactly on, just
below and just above every ratio); TLC checks partition / monotonicity / prefix exactness and predicts both
selections for every vector; the harness replays them through HashRatioSampler.AddRatioSampleWithOffset and
through real limit_ratio queries with offsets concretised to adjacent floats."""
import os

META = {
    "text": "LimitRatio.tla models aggregationK's limit_ratio branch (one Offer step per input sample, r = 0 empty, clamping) over "
            "the documented rule of HashRatioSampler (r >= 0: offset < r; r < 0: offset >= 1 + r) on an exact grid: ratios 0, 0.1, ... 1 "
            "and, for each, offsets exactly on the ratio, the adjacent float below and above, cell interiors, 0, the largest float "
            "below 1 and 1.0. TLC checks on all vectors of the bound that limit_ratio(r, v) and limit_ratio(r - 1, v) are disjoint with "
            "union v, that raising r never deselects, and that the loop's partial result is the reference on the processed prefix. "
            "The harness evaluates every (ratio, offset) pair through the exported AddRatioSampleWithOffset(r, o) / (r - 1, o) and "
            "runs limit_ratio(r, v), limit_ratio(r - 1, v) as a 3-step range query, as instant queries at every step, inside a subquery and "
            "grouped, on a real engine over a real TSDB, over series that are present throughout, start late, are stale at the first step, "
            "have a gap or exist only at the last step "
            "(boundary offsets injected through the package's sampler variable, cell offsets realised by real label hashes); on the "
            "real answers, at every step, disjointness, union (= the input vector at that step), monotonicity and 'a step of a range "
            "query / subquery selects what the instant query at that step selects' are strict, and each selection must equal the prediction.",
    "note": "The model is exact arithmetic; the rounding of r - 1 and 1 + (r - 1) exists only in the concretised replay, where it is "
            "observed (KF-C34-1: gap at r = 0.3, overlap at r = 0.1 / 0.2; KF-C34-2: offset 1.0). Ratio grid = multiples of 0.1; vectors "
            "of <= 2 series exhaustively (<= 4 checked without replay in the thorough tier, <= 8 by simulation); values play no role.",
    "technique": "TLA+ exact model checked by TLC; predicted selections replayed into HashRatioSampler and real limit_ratio queries",
    "design_ref": "DESIGN.md §5 C34, §7 H7",
    "level": "model_checking",
}

FILES = ["c34_limitratio_test.go"]
W = int(os.environ.get("VERIF_TLC_WORKERS", "8"))


def corrupt(behs):
    """Binding self-test (VERIF_CORRUPT=1): remove one offset from one predicted selection (a cell interior, far from rounding)."""
    for b in behs:
        for k, r in enumerate(b["ratios"]):
            for u in [x for step in b["pos"][k] for x in step]:
                if u % 4 == 2 and abs(u - r) > 3:
                    for step in b["pos"][k]:
                        if u in step:
                            step.remove(u)
                    return
    raise RuntimeError("nothing to corrupt")


def run(ctx):
    q = ctx.quick
    behs = []
    cache = os.environ.get("VERIF_C34_CACHE")
    if cache and os.path.exists(cache):
        import json
        with open(cache) as f:
            saved = json.load(f)
        ctx.states, ctx.transitions = saved["states"], saved["transitions"]
        return replay(ctx, saved["behs"])
    mc = ctx.tlc("promql_eval", "LimitRatio", "LR_quick.cfg", workers=W, timeout=600)
    ctx.account(mc)
    behs += mc.emitted
    ctx.log("LR_quick: %d generated / %d distinct, %d vectors" % (mc.generated, mc.distinct, len(mc.emitted)))
    # series that start late / are stale at the first step / have a gap / exist only at the last step, over 3 steps
    stp = ctx.tlc("promql_eval", "LimitRatio", "LR_steps.cfg", workers=W, timeout=600)
    ctx.account(stp)
    behs += stp.emitted
    ctx.log("LR_steps: %d generated / %d distinct, %d vectors" % (stp.generated, stp.distinct, len(stp.emitted)))
    if not q:
        big = ctx.tlc("promql_eval", "LimitRatio", "LR_big.cfg", workers=W, timeout=1800)
        ctx.account(big)
        ctx.log("LR_big: %d generated / %d distinct" % (big.generated, big.distinct))
    sim = ctx.tlc("promql_eval", "LimitRatio", "LR_SIM.cfg", simulate=(25 if q else 400), depth=30, workers=W, timeout=300)
    ctx.account(sim)
    behs += sim.emitted
    ctx.log("LR_SIM: %d vectors" % len(sim.emitted))
    if cache:
        import json
        with open(cache, "w") as f:
            json.dump({"states": ctx.states, "transitions": ctx.transitions, "behs": behs}, f)
    return replay(ctx, behs)


def replay(ctx, behs):
    if not behs:
        import vlib
        raise vlib.Infra("no cases emitted")
    if os.environ.get("VERIF_CORRUPT"):
        corrupt(behs)
    ctx.samples = [behs[0], behs[len(behs) // 2], behs[-1]]
    inp = ctx.write_ndjson("cases.ndjson", behs)
    gr = ctx.go_test("promql", FILES, "^TestVerifC34LimitRatio$", env={"VERIF_IN": inp})
    ctx.absorb(gr, label="C34 replay")
    ctx.assumptions += [
        "ratio grid 0, 0.1, ..., 1.0; offsets concretised as the ratio itself, math.Nextafter below/above, cell interiors (real label "
        "hashes), 0, Nextafter(1, 0) and 1.0",
        "the complement ratio is computed as float64(r) - 1 and printed with the shortest round-tripping decimal",
        "boundary offsets reach the aggregation through the package-level sampler variable (in-package harness)",
    ]
    return ctx.finish(rule="every vector of <= 2 offsets of the 41-point grid x every ratio of the grid (+ simulated larger vectors): all "
                           "(ratio, offset) pairs through the exported API, a spread of the vectors through real instant / range / grouped "
                           "limit_ratio queries", exhaustive=False)
