"""C15 — WAL truncation keeps everything replay still needs: Checkpoint.tla (TLC) + replay into tsdb.Head
+ RefClosed evaluated by TLC on the real WAL entries (Trace_Checkpoint.tla)."""
import json
import os

META = {
    "text": "Checkpoint.tla transcribes the head's WAL life cycle step by step (appender commit, exemplar/metadata/tombstone "
            "records, series eviction, Head.Truncate = gc + walExpiries + 'lower two thirds' checkpoint with "
            "keepSeriesInWALCheckpointFn, restart = Head.Init replay with duplicate-series refs and expiry updates) together "
            "with the ghost untruncated log. TLC checks on every reachable state that replaying checkpoint+segments "
            "reconstructs the same samples, tombstones, exemplars and latest metadata at or after the truncation time as "
            "replaying the untruncated log, and that every entry left in the log follows a series entry for its ref (both "
            "up to the two recorded open findings). TLC-generated histories (one per coverage class of the exhaustive small "
            "model and of scenario skeletons, plus seeded random walks) are driven into a real tsdb.Head with forced segment "
            "cuts; the real WAL is decoded, a fresh Head replays a copy of checkpoint+segments and another the retained "
            "untruncated log, both are compared with the spec's prediction, and TLC evaluates RefClosed on the decoded "
            "real entries.",
    "note": "Head side in full; the agent WAL is covered by the AgentDb.tla skeletons shared with C48 (churn, duplicate refs, open appender). Bounded: 2-3 label sets, scrape clock <= 7, histories <= 5 steps exhaustively, "
            "<= 10 along scenario skeletons, <= 16 by simulation; float samples only (histogram records share the same "
            "checkpoint filter); one head chunk per series (huge chunk range), no OOO window, no chunk snapshots; segment "
            "cuts are forced with WL.NextSegment instead of by size. The untruncated log is the set of all segment files "
            "retained before each truncation. Trusted: wlog reader/record decoder used to read the real WAL back.",
    "technique": "TLA+ transcription (Checkpoint.tla) model-checked by TLC; TLC-generated histories replayed into tsdb.Head; "
                 "RefClosed evaluated by TLC on entries decoded from the real WAL (Trace_Checkpoint.tla)",
    "design_ref": "DESIGN.md §5 C15",
}


def run(ctx):
    import vlib
    q = ctx.quick
    behs = []
    # (M)+(R) exhaustive small model, one behaviour per coverage class (per worker)
    mc = ctx.tlc("checkpoint", "Checkpoint", "MC_quick.cfg", workers=4, timeout=900)
    ctx.account(mc)
    behs += mc.emitted
    ctx.log("MC_quick: %d generated / %d distinct, %d behaviours" % (mc.generated, mc.distinct, len(mc.emitted)))
    # (M)+(R) scenario skeletons: every parameterisation of a deep scenario shape
    for cfg in ("MC_dup.cfg", "MC_side.cfg", "MC_reuse.cfg", "MC_meta.cfg"):
        r = ctx.tlc("checkpoint", "Checkpoint", cfg, workers=4, timeout=900)
        ctx.account(r)
        behs += r.emitted
        ctx.log("%s: %d generated / %d distinct, %d behaviours" % (cfg, r.generated, r.distinct, len(r.emitted)))
    if not q:
        big = ctx.tlc("checkpoint", "Checkpoint", "MC_big.cfg", timeout=3000)
        ctx.account(big)
        ctx.log("MC_big: %d generated / %d distinct" % (big.generated, big.distinct))
    # (R) seeded random walks over the larger alphabet
    d = 12 if q else 16
    sim = ctx.tlc("checkpoint", "Checkpoint", "SIM.cfg", simulate=(12 if q else 400), depth=d + 3, workers=4,
                  constants={"MaxOps": d}, timeout=(60 if q else 900))
    ctx.account(sim)
    behs += sim.emitted
    ctx.log("SIM: %d walks" % len(sim.emitted))
    if not behs:
        raise vlib.Infra("no behaviours emitted")
    # one behaviour per coverage class (the class registry is per TLC worker and per cfg): keep the
    # shortest witness of every class, seeded tie-break; walks have no class and are all kept
    import random
    rnd = random.Random(ctx.seed)
    best = {}
    walks = []
    for b in behs:
        cl = b.get("cl")
        if cl is None:
            walks.append(b)
            continue
        key = (len(b["hist"]), rnd.random())
        if cl not in best or key < best[cl][0]:
            best[cl] = (key, b)
    behs = [v[1] for v in sorted(best.values(), key=lambda v: v[0])] + walks
    ctx.log("%d coverage classes + %d walks" % (len(best), len(walks)))
    cap = int(os.environ.get("VERIF_C15_CAP", "1200" if q else "50000"))
    if len(behs) > cap:
        rnd.shuffle(behs)
        behs = behs[:cap]
    ctx.samples = [behs[0], behs[len(behs) // 2]]
    if os.environ.get("VERIF_CORRUPT"):      # binding self-test: corrupt one predicted field -> must exit 1
        for b in behs:
            w = b["fin"]["want"]["smp"]
            k = sorted(w)[0]
            if w[k] and not b["fin"]["kf"]:
                w[k][0][1] += 1
                b["fin"]["got"]["smp"][k][0][1] += 1
                break
    inp = ctx.write_ndjson("behaviours.ndjson", behs)
    trace = ctx.tmp("c15_trace.ndjson")
    gr = ctx.go_test("tsdb", ["c15_checkpoint_test.go"], "^TestVerifC15Replay$",
                     env={"VERIF_IN": inp, "VERIF_TRACE": trace})
    ctx.absorb(gr, label="C15 replay")
    # (T) RefClosed on the entries decoded from the real WAL directories
    if os.path.exists(trace) and os.path.getsize(trace) > 0:
        tv = ctx.tlc("checkpoint", "Trace_Checkpoint", "Trace.cfg", workers=1, files={"trace.ndjson": trace}, timeout=600)
        ctx.account(tv)
        n = 0
        for rc in tv.tagged.get("@@RC", []):
            for cl in sorted(rc["classes"]):
                n += 1
                ctx.add_violation("behaviour %s: entry %s left in checkpoint+segments (T=%s) without a preceding series entry "
                                  "for its ref (class %s)" % (rc["id"], json.dumps(rc["first"]), rc["T"], cl),
                                  "refclosed:" + cl, {"behaviour": behs[int(rc["id"])], "orphan": rc["first"]})
        ctx.log("trace validation: %d real logs, %d orphan classes reported" % (tv.generated - 1, n))
    # (M)+(R)+(T) the agent WAL (C15's statement covers server *and* agent storage): AgentDb.tla skeletons that exercise
    # garbage collection, duplicate refs and checkpoints, replayed into agent.DB; RefClosed / AcceptedKept on the real entries
    import C48
    C48.agent_part(ctx, ("MC_churn.cfg", "MC_dup.cfg", "MC_open.cfg"), 0, 0, sig_prefix="agent:")
    ctx.assumptions += [
        "bounded model (see META.note); segment cuts forced with WL.NextSegment",
        "predicted checkpoint/segment entries, refs, unknown-ref counters are drift-only; verdicts come from the replayed "
        "contents and from RefClosed on the real entries",
        "open findings KF-C15-1 and KF-C15-2 are excused only where the model predicts exactly the observed deviation; KF-C15-3/4 are repaired and modelled as repaired",
    ]
    return ctx.finish(rule="one behaviour per coverage class of the exhaustive run and of the scenario skeletons + simulated walks; "
                           "each is driven into a real Head, then two fresh Heads replay checkpoint+segments and the retained "
                           "untruncated log", exhaustive=False)
