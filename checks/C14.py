"""C14 — WAL record encoding round-trips: Records.tla (TLC enumerates and predicts) + replay into record.Encoder/Decoder."""
import os

META = {
    "text": "Records.tla is the reference for the case analysis of the WAL record codecs: base/delta scheme of the V1 records, "
            "previous/first-relative deltas and the noST/sameST/explicitST start-timestamp marker of the V2 records, the split of a "
            "histogram batch into the exponential record and the custom-bucket leftovers, one tombstone entry per interval. TLC "
            "enumerates every batch of <=3 items over the symbolic alphabets for all record types (series, samples V1/V2, "
            "tombstones, exemplars, metadata, m-map markers, int/float histograms V1/V2 incl. custom buckets), checks "
            "Decode(Encode(x)) = x, that the split is an order-preserving partition and that the marker choice is unambiguous, and "
            "prints each case with the predicted decode result, markers and split. Every case is concretised several ways "
            "(refs up to 2^64-1 and descending, timestamps and start timestamps at the int64 extremes, NaN payloads / -0 / "
            "subnormals, empty and large label sets, histogram shapes with extreme spans) and run through the real "
            "record.Encoder and record.Decoder; results are compared bitwise with the prediction.",
    "note": "The specification decides the logical case analysis only (which marker, which delta base, which record gets which "
            "histogram); varint/zig-zag/IEEE byte fidelity is established by the replay of concretised values, not by TLC. "
            "Bounded to batches of <=3 items over 3 refs x 2 (thorough 3) timestamps x 3 start timestamps. Encoder/decoder "
            "append contracts (non-empty destination) are exercised as a side dimension: decoder-side deviations are reported as "
            "model drift, the encoder-side buffer reset is KF-C14-1.",
    "technique": "TLA+ reference of the codec case analysis (Records.tla) enumerated and checked by TLC; every enumerated case "
                 "replayed through record.Encoder / record.Decoder with several concretisations",
    "design_ref": "DESIGN.md §5 C14",
}


def run(ctx):
    import vlib
    q = ctx.quick
    r = ctx.tlc("records", "Records", "MC_quick.cfg" if q else "MC_big.cfg", workers=4, timeout=6000)
    ctx.account(r)
    cases = r.emitted
    ctx.log("Records: %d cases enumerated and checked by TLC" % len(cases))
    if not cases:
        raise vlib.Infra("no cases emitted")
    ctx.samples = [cases[0], cases[len(cases) // 3], cases[-1]]
    if os.environ.get("VERIF_CORRUPT"):      # binding self-test: corrupt one predicted field -> must exit 1
        for c in cases:
            if c["ty"] == "samples_v2" and len(c["pred"]["out"]) >= 2:
                c["pred"]["out"][1]["st"] = 7 if c["pred"]["out"][1]["st"] != 7 else 3
                break
    inp = ctx.write_ndjson("cases.ndjson", cases)
    gr = ctx.go_test("tsdb/record", ["c14_records_test.go"], "^TestVerifC14Records$", env={"VERIF_IN": inp})
    ctx.absorb(gr, label="C14 replay")
    ctx.assumptions += [
        "byte-level fidelity (varint, zig-zag, float bits) is established by replaying concretised values only",
        "batches of <=3 items over small symbolic alphabets; concretisation maps listed in the harness",
    ]
    return ctx.finish(rule="every batch over the symbolic alphabets, for every record type, each replayed with >=3 concretisations "
                           "(12 thorough), plus a non-empty encoder buffer and a non-empty decoder destination", exhaustive=True)
