"""C41 — remote-write receivers: WriteHandler.tla (reference = sequential validity of the request against the head's
admission table; transcription = Append-time checks against the state before the request + Commit-time re-check +
response) checked by TLC; every generated request sent through remote.NewWriteHandler (httptest) to a real TSDB head."""

META = {
    "text": "WriteHandler.tla models a remote-write request (1.0 and 2.0) as a sequence of series entries (valid label sets a/b, invalid "
            "classes: no metric name, duplicate label name, invalid UTF-8, broken/odd symbol refs) with float samples, int/float/invalid "
            "native histograms and exemplars over a head that already holds a sample and an exemplar. The reference applies the head's "
            "admission table (in-order, duplicate-timestamp, out-of-order, too-far-in-future, histogram validation, exemplar order) "
            "sequentially and demands: stored = exactly the valid items, 2.0 written counts = number of valid items, 400 iff anything is "
            "invalid. The transcription follows write()/appendV2(): Append-time checks against the pre-request state, buffering, counting, "
            "Commit-time re-check, Rollback on a 1.0 error. TLC checks transcription against reference modulo three named deviations and "
            "enumerates all requests up to a size bound (plus seeded random larger ones); each is marshalled with the real protobuf/"
            "symbol-table codec (round trip checked field by field), sent through remote.NewWriteHandler via httptest to a real TSDB, and "
            "HTTP status, X-Prometheus-Remote-Write-*-Written headers and the samples/histograms/exemplars found in the head afterwards "
            "are compared with the reference prediction carried in the case.",
    "note": "Bounded: requests of <= 3 items in <= 2 entries over 7 label classes and <= 4 items in one entry (quick), <= 4 items in 2 "
            "entries (thorough), <= 9 items in 3 entries by seeded simulation; 3-4 time points + 'future'; 2 float values; one int, one "
            "float and one invalid histogram; exemplar identity = timestamp. Out-of-order ingestion disabled (default), no out-of-bounds "
            "(compaction) state, start timestamps / ST-zero ingestion, type-and-unit labels, metadata WAL records and custom-bucket "
            "histograms not explored; metadata only through the codec round trip. Open known findings KF-C41-1 (H8: accepted by Append, dropped "
            "by Commit, still counted and 204) and KF-C41-2 (1.0: invalid labels skipped with 204); KF-C41-3 (1.0: exemplars appended before "
            "histograms) is repaired by commit a04f81df02 and now checked.",
    "technique": "TLA+ reference + transcription (WriteHandler.tla) model-checked by TLC; TLC-generated requests replayed through "
                 "remote.NewWriteHandler over a real TSDB head",
    "design_ref": "DESIGN.md §5 C41, §7 H8",
    "level": "model_checking",
}


def run(ctx):
    q = ctx.quick
    from concurrent.futures import ThreadPoolExecutor
    jobs = [("MC_quick.cfg", dict(workers=6, timeout=3000)), ("MC_quick4.cfg", dict(workers=6, timeout=3000)),
            ("SIM.cfg", dict(simulate=(40 if q else 1500), depth=20, workers=4, timeout=(200 if q else 1500)))]
    if not q:
        jobs.append(("MC_big.cfg", dict(workers=8, timeout=3000)))
    with ThreadPoolExecutor(max_workers=len(jobs)) as ex:
        futs = [ex.submit(ctx.tlc, "writehandler", "WriteHandler", c, **kw) for c, kw in jobs]
        results = [f.result() for f in futs]
    cases = []
    for (c, _), r in zip(jobs, results):
        ctx.account(r)
        cases += r.emitted
        ctx.log("%s: %d generated / %d distinct, %d requests, %.0fs" % (c, r.generated, r.distinct, len(r.emitted), r.wall))
    if not cases:
        import vlib
        raise vlib.Infra("no cases emitted")

    def pick(pred):
        for c in cases:
            if pred(c):
                return c
        return cases[0]
    ctx.samples = [pick(lambda c: c["proto"] == "v2" and not c["kf"] and c["ref"]["code"] == 400 and c["ref"]["stored"]["a"]),
                   pick(lambda c: c["proto"] == "v1" and not c["kf"] and c["ref"]["stored"]["b"]),
                   pick(lambda c: "KF_C41_1" in c["kf"]), pick(lambda c: "KF_C41_2" in c["kf"]),
                   pick(lambda c: c["proto"] == "v1" and any(e["lab"] == "b" and e["hs"] and e["ex"] for e in c["req"])),
                   cases[-1]]
    inp = ctx.write_ndjson("requests.ndjson", cases)
    gr = ctx.go_test("storage/remote", ["c41_write_test.go"], "^TestVerifC41$", env={"VERIF_IN": inp}, timeout="40m")
    ctx.absorb(gr, label="C41 replay")
    ctx.assumptions += [
        "receiving TSDB with default options of util/teststorage (out-of-order window 0, exemplar storage enabled), shared between cases; "
        "every case uses its own label value, the pre-request sample/exemplar of series a is committed by a separate appender",
        "handler flags ingestSTZeroSample / enableTypeAndUnitLabels / appendMetadata off",
        "1.0: a request containing an invalid sample must be answered 400 and may store the valid items or nothing; exemplar problems never "
        "fail a 1.0 request; 2.0: partial write, out-of-order exemplar = bad request, exact duplicates count as written",
        "bounded model (see META.note)",
    ]
    return ctx.finish(rule="every request of the bounded model (entries x items built canonically) for both protocol versions + seeded random "
                           "larger requests; each sent once through the real handler", exhaustive=False)
