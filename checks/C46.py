"""C46 — notifier send loops: SendLoop.tla (one process per goroutine: sender, per-Alertmanager loop, owner running
sync / shutdown with stop()+drain) checked by TLC over all interleavings, and Eager-mode behaviours replayed into the
real notifier.Manager by gating the HTTP exchange (Options.Do)."""

META = {
    "text": "SendLoop.tla models Manager.Send -> alertmanagerSet.send -> sendLoop.add (drop-oldest overflow), the loop goroutine "
            "(outer/inner select, nextBatch, HTTP exchange, re-arm), alertmanagerSet.sync and Manager.Stop/Run with sendLoop.stop() and its "
            "drain, Manager.Send in two steps (choose the alertmanager sets under n.mtx, fan out) and ApplyConfig (reload) as a concurrent "
            "process, one process per goroutine. TLC checks over all interleavings: every alert a completed Send owed an Alertmanager was accepted by "
            "its send loop (AllAccepted), received alerts are an in-order subsequence of the accepted "
            "(relabel-surviving) ones, batches <= MaxBatchSize, overflow drops the oldest, every loss is counted in `dropped` (exactly, except "
            "one documented race), sent counter = received, drain-on-shutdown leaves nothing unattempted, and (under fairness) shutdown and set "
            "changes terminate. The same module in Eager mode generates complete schedules (Send / set change / stop / exchange completions "
            "with success or failure) which are reproduced deterministically on the real Manager with every HTTP request blocked at a gate in "
            "Options.Do; after every step the arriving batch, the received log, the counters and the spec's verdict on the observation are "
            "compared. KF-C46-1 (stop() drained without waiting for the loop goroutine; fixed in ce5b29f1f9) is modelled by JoinFix = FALSE "
            "(MC_nojoin.cfg); the default model waits, the plain order and drain-complete properties are checked, and the harness reports a "
            "drain request or a finished shutdown that overlaps a batch the loop goroutine still has in flight.",
    "note": "Bounded: 2 Alertmanagers (one initial, one set change, removed ones never re-added), 3 (quick) to 5 alerts in Send calls of 1-4, capacity 2-3, "
            "batch 2, <=1 failed exchange, one relabel-dropped alert. Fan-out of one Send to all loops is one atomic step (loops are "
            "independent; all adds run under ams.mtx). Replay covers only schedules in which the environment moves when no goroutine can move "
            "(what a gate in Options.Do can enforce); arbitrary interleavings are covered by TLC on the model only. Alerts sent after Stop are "
            "outside the property (silently ignored by the code).",
    "technique": "TLA+ process-per-goroutine model checked by TLC (safety over all interleavings, liveness under weak fairness); gated replay of "
                 "TLC-generated schedules into notifier.Manager through Options.Do",
    "design_ref": "DESIGN.md §5 C46, §7 H5",
    "level": "model_checking",
}


def run(ctx):
    import os
    import random
    import vlib
    from concurrent.futures import ThreadPoolExecutor
    q = ctx.quick
    w = 2 if q else 4

    def tlc(cfg, drain, join=None, extra=None, **kw):
        c = {"Drain": drain}
        if join is not None:
            c["JoinFix"] = join
        c.update(extra or {})
        return ctx.tlc("sendloop", "SendLoop", cfg, constants=c, **kw)

    J = "TRUE"      # JoinFix: stop() waits for the loop goroutine before draining (the code since ce5b29f1f9)
    jobs = {
        "mcT": ("MC_quick.cfg", "TRUE", J, None),
        "mcF": ("MC_quick.cfg", "FALSE", J, None),
        "rpT": ("MC_replay.cfg", "TRUE", J, {"Cap": "2", "NAlerts": "5"}),
        "rpF": ("MC_replay.cfg", "FALSE", J, {"Cap": "2", "NAlerts": "5"}),
        "rp1T": ("MC_replay1.cfg", "TRUE", J, {"Cap": "3", "NAlerts": "6"}),
        "rp1F": ("MC_replay1.cfg", "FALSE", J, {"Cap": "3", "NAlerts": "6"}),
        # Send held between its choice of alertmanager sets and the queueing, with a configuration reload in between
        "rpAT": ("MC_replay_apply.cfg", "TRUE", J, {"Cap": "3", "NAlerts": "4"}),
        "rpAF": ("MC_replay_apply.cfg", "FALSE", J, {"Cap": "3", "NAlerts": "4"}),
        "live": ("MC_live.cfg", "TRUE", J, {"NAlerts": "2" if q else "3"}),
    }
    if not q:
        jobs.update({
            "rp3T": ("MC_replay.cfg", "TRUE", J, {"Cap": "3", "NAlerts": "5"}),
            "rp3F": ("MC_replay.cfg", "FALSE", J, {"Cap": "3", "NAlerts": "5"}),
            "rp6T": ("MC_replay.cfg", "TRUE", J, {"Cap": "2", "NAlerts": "6"}),
            "midT": ("MC_mid.cfg", "TRUE", J, None),
            "midF": ("MC_mid.cfg", "FALSE", J, None),
            "bigT": ("MC_big.cfg", "TRUE", J, None),
            # the code before the fix: the properties hold only with the `racy` disjunct
            "nojoin": ("MC_nojoin.cfg", "TRUE", None, None),
        })
    with ThreadPoolExecutor(max_workers=3 if q else 2) as ex:
        f = {k: ex.submit(tlc, cfg, drain, join, extra, workers=w, timeout=3000) for k, (cfg, drain, join, extra) in jobs.items()}
        r = {k: v.result() for k, v in f.items()}
    if not q:
        # a Send that only snapshots under n.mtx (no lock across the fan-out) must violate AllAccepted in the model
        nl = ctx.tlc("sendloop", "SendLoop", "MC_nolock.cfg", constants={"Drain": "TRUE", "JoinFix": J}, workers=w, timeout=1200,
                     allow_violation=True)
        if nl.violated != "AllAccepted":
            raise vlib.Infra("MC_nolock.cfg: expected AllAccepted to be violated, got %r" % nl.violated)
        ctx.log("nolock: AllAccepted violated as expected when Send does not hold n.mtx across its fan-out")
    for k in jobs:
        ctx.account(r[k])
        ctx.log("%s: %d generated / %d distinct (%.0fs)%s" % (k, r[k].generated, r[k].distinct, r[k].wall,
                                                             ", %d complete schedules" % len(r[k].emitted) if r[k].emitted else ""))
    behs = []
    for k in jobs:
        if k.startswith("rp"):
            behs += r[k].emitted
    if not behs:
        raise vlib.Infra("no behaviours emitted")
    total = len(behs)

    def reload_in_send(b):
        """ApplyConfig is called while a Send sits between its snapshot of the alertmanager sets and its fan-out"""
        held = False
        for s in b:
            if s["a"] == "Send" and s.get("gated"):
                held = True
            elif s["a"] == "SendDone":
                held = False
            elif s["a"] == "ApplyBegin" and held:
                return True
        return False

    def overlap(b):
        """a loop batch completes while the owner (stop / set change with drain) is stopping loops: the schedules in which
        stop() has to wait for the loop goroutine (regression guard for KF-C46-1)"""
        if not b[0].get("drain"):
            return False
        inside = False
        for s in b:
            if s["a"] in ("StopBegin", "SyncBegin"):
                inside = True
            elif s["a"] in ("StopEnd", "SyncEnd"):
                inside = False
            elif inside and s["a"] == "Deliver" and s.get("who") == "loop":
                return True
        return False
    if q:
        rnd = random.Random(ctx.seed)
        keep = [b for b in behs if overlap(b)][:60] + [b for b in behs if reload_in_send(b)]
        one = r["rp1T"].emitted + r["rp1F"].emitted       # single Alertmanager, capacity 3 > batch 2
        two = r["rpT"].emitted + r["rpF"].emitted
        behs = keep + rnd.sample(one, min(900, len(one))) + rnd.sample(two, min(800, len(two)))
    elif len(behs) > 15000:
        behs = random.Random(ctx.seed).sample(behs, 15000)      # keeps the thorough tier within its time budget under -race
    ctx.samples = [behs[0], behs[len(behs) // 2], behs[-1]]
    if os.environ.get("VERIF_CORRUPT"):
        # binding self-test: falsify one predicted counter in an extra behaviour; the check must then exit 1
        import copy
        b = copy.deepcopy(next(x for x in behs if any(s.get("a") == "Deliver" and s.get("ok") for s in x)))
        st = next(s for s in b if s.get("a") == "Deliver" and s.get("ok"))
        st["obs"][0]["cnt"]["sent"] += 1
        behs = behs + [b]
        ctx.log("VERIF_CORRUPT: predicted sent counter falsified in an extra behaviour")
    inp = ctx.write_ndjson("behaviours.ndjson", behs)
    gr = ctx.go_test("notifier", ["c46_sendloop_test.go"], "^TestVerifC46Replay$", env={"VERIF_IN": inp}, race=not q, timeout="40m")
    ctx.absorb(gr, label="C46 gated replay")
    ctx.extra["schedules_generated"] = total
    ctx.assumptions += [
        "bounded model: 2 Alertmanagers, <=5 (thorough 6) alerts, capacity 2 and (single Alertmanager, 6 alerts) 3, batch 2, <=1 failed exchange, <=1 set change, removed Alertmanagers are not re-added",
        "replayed schedules are the Eager ones (environment moves only at quiescence); %d of %d generated schedules replayed in this tier" % (len(behs), total),
        "fan-out of one Send to all send loops is atomic in the model (all adds run under ams.mtx; loops are independent); Send itself is two steps "
        "(snapshot of the sets under n.mtx / fan-out) and ApplyConfig (reload with an unchanged configuration, <=1) is a concurrent process",
        "without drain-on-shutdown stop() does not wait for the loop: LossExact allows one batch already counted as dropped to be sent (not part of the property)",
    ]
    return ctx.finish(rule="every complete Eager schedule of the bounded model (quick: seeded sample) replayed through a gate in Options.Do; each step "
                           "compares arriving batch, received log, counters and the spec's orderOK/drainOK verdict", exhaustive=False)
