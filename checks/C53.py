"""C53 — a read-only open returns what a read-write open would, and changes nothing."""
import random

import C01 as c01

META = {
    "text": "Db.tla supplies the histories (appends, deletes, head and out-of-order compaction, tombstone cleaning, restarts) and the "
            "predicted contents of a read-write open (the committed-and-undeleted ghost set, which TLC proves equal to the modelled "
            "physical layout). At every Reopen of a replayed history the harness, with the DB closed, opens the directory with "
            "tsdb.OpenDBReadOnly (sandbox inside and outside the data dir), queries it through both queriers and compares with the "
            "spec's prediction, then checks by content hash that the directory tree is unchanged and the sandbox is gone.",
    "note": "Same bounds as C01. Only cleanly closed directories are opened read-only here (crashed ones are C03's subject). FlushWAL is "
            "exercised only in the thorough tier.",
    "technique": "TLA+ model of the TSDB (Db.tla) checked by TLC; generated histories replayed into tsdb.DB with a DBReadOnly open compared against the model at every restart point",
    "design_ref": "DESIGN.md §5 C53",
}


def run(ctx):
    import vlib
    try:
        return run2(ctx)
    except vlib.ModelViolation as e:
        return c01.model_cex(ctx, e, "c53")


def run2(ctx):
    q = ctx.quick
    behs = []
    for cfg, part in (("MC_c53_a.cfg", "a"), ("MC_c53_b.cfg", "b"), ("MC_c53_c.cfg", "c")):
        if not ctx.want(part):
            continue
        mc = ctx.tlc("db", "Db", cfg, workers=8, timeout=1800)
        ctx.account(mc)
        ctx.log("%s: %d generated / %d distinct; %d witnesses" % (cfg, mc.generated, mc.distinct, len(mc.emitted)))
        behs += mc.emitted
        st = mc.tagged.get("@@TS", [])
        if st:
            import random
            rnd = random.Random(ctx.seed)
            if q and len(st) > 500:
                st = rnd.sample(st, 500)
            behs += st
            ctx.log("  + %d distinct post-Import state witnesses" % len(st))
    # thorough: the quick tier's walk shape for six consecutive TLC seeds (deeper / more numerous random walks reach corners
    # where Db.tla's restart = WAL replay no longer describes a snapshot restart: see DESIGN.md 9.2b)
    d = 20
    seeds = [ctx.seed] if q else [ctx.seed + i for i in range(6)]
    for w, off, sd in [(w, off, sd) for sd in seeds for (w, off) in ((0, 6), (5, 0))]:   # negative times with OOO + compaction only in the exhaustive configs (see KF-C20-8)
        if not ctx.want("sim"):
            continue
        ctx.tlc_seed = sd
        sim = ctx.tlc("db", "Db", "SIM_c53.cfg", simulate=20, depth=6 * d, workers=8,
                      constants={"MaxOps": d, "W": w, "TOff": off}, timeout=(300 if q else 2400))
        ctx.account(sim)
        behs += sim.emitted
        ctx.log("SIM W=%d TOff=%d seed=%d: %d walks" % (w, off, sd, len(sim.emitted)))
    ctx.tlc_seed = None
    ctx.samples = [behs[0], behs[len(behs) // 2], behs[-1]]
    inp = ctx.write_ndjson("behaviours.ndjson", behs)
    gr = ctx.go_test("tsdb", ["db_replay_test.go", "db_reopen_extras_test.go"], "^TestVerifDbReplay$",
                     env={"VERIF_IN": inp, "VERIF_MODE": "c53"}, timeout="30m")
    ctx.absorb(gr, label="C53 replay")
    ctx.assumptions += [META["note"]]
    return ctx.finish(rule="coverage-class witnesses containing a Reopen and simulated walks; read-only open compared at every Reopen",
                      exhaustive=False)
