"""C08 — compaction planning: Planner.tla (transcription of plan/planClass/selectDirs/splitByRange/
CompactBlockMetas + reference predicate LegalPlan) checked by TLC; every generated directory state is
replayed into the real LeveledCompactor; real plans that differ are judged by Trace_Planner.tla."""

META = {
    "text": "Planner.tla models the block directory under the plan/compact loop of DB.compactBlocks: blocks appear (regular, "
            "out-of-order, stale-/selected-series, failed, with tombstones), Compact applies the transcribed LeveledCompactor.plan "
            "and CompactBlockMetas. TLC checks on every reachable directory state that the plan is one of the three kinds the "
            "property allows (reference predicate LegalPlan, written independently of the transcription), never mixes head-view "
            "classes, excludes the newest and failed blocks from range groups, that merged hints follow the rule, and that every "
            "compaction strictly decreases a variant (convergence; also as <>[] under fairness). Every state with its predicted "
            "plan/compact run is replayed into the real planner (plan(), and Plan(dir) on meta.json directories) and "
            "CompactBlockMetas under several time concretisations (units, aligned positive/negative shifts); real plans that differ "
            "from the transcription are judged by Trace_Planner.tla with the same LegalPlan.",
    "note": "Bounded: exhaustive block sets of <=4..6 blocks over a 12-slot time axis incl. negative times per configuration, up to 10 "
            "blocks and 5 range configurations by seeded simulation. Compaction itself is modelled at the metadata level (tombstones "
            "applied, empty output not written). The sort in planClass is taken to be stable (true for <=12 blocks). "
            "BlockExcludeFilter is not modelled.",
    "technique": "TLA+ transcription + reference predicate (Planner.tla/PlannerOps.tla) checked by TLC; TLC-generated directory states "
                 "replayed into LeveledCompactor.plan/Plan/CompactBlockMetas; trace validation of differing real plans (Trace_Planner.tla)",
    "design_ref": "DESIGN.md §5 C08",
    "level": "model_checking",
}

import os


def run(ctx):
    import vlib
    q = ctx.quick
    # the TLC runs are independent: start them together (2 workers each) so that JVM start-up overlaps
    from concurrent.futures import ThreadPoolExecutor
    d = 14 if q else 16
    jobs = [(("planner", "Planner", cfg), dict(workers=2, timeout=1500))
            for cfg in ["MC_quick.cfg", "MC_deep.cfg", "MC_class.cfg", "MC_noov.cfg"]]
    jobs.append((("planner", "Planner", "MC_live.cfg"), dict(workers=2, timeout=1500)))
    jobs.append((("planner", "Planner", "SIM.cfg"), dict(simulate=(30 if q else 800), depth=d + 3, workers=2,
                                                        constants={"MaxOps": d}, timeout=(240 if q else 1500))))
    if not q:
        jobs.append((("planner", "Planner", "MC_big.cfg"), dict(workers=8, timeout=3000)))
    with ThreadPoolExecutor(len(jobs)) as ex:
        futs = [ex.submit(ctx.tlc, *a, **kw) for a, kw in jobs]
        res = [f.result() for f in futs]
    recs = []
    for (a, _), mc in zip(jobs[:4], res[:4]):
        ctx.account(mc)
        recs += mc.emitted
        ctx.log("%s: %d generated / %d distinct, %d states emitted (%.0fs)" % (a[2], mc.generated, mc.distinct, len(mc.emitted), mc.wall))
    live = res[4]
    ctx.account(live)
    ctx.log("MC_live (Converges under fairness): %d distinct (%.0fs)" % (live.distinct, live.wall))
    sim = res[5]
    ctx.account(sim)
    if not q:
        big = res[6]
        ctx.account(big)
        ctx.log("MC_big: %d generated / %d distinct (%.0fs)" % (big.generated, big.distinct, big.wall))
    nw = 0
    for walk in sim.emitted:
        nw += 1
        recs += walk
    ctx.log("SIM: %d walks" % nw)
    if not recs:
        raise vlib.Infra("no directory states emitted")
    ctx.samples = [recs[len(recs) // 3], recs[-1]]
    if os.environ.get("VERIF_C08_CORRUPT"):
        # binding self-test (notes/C08.md): flip one predicted field of one behaviour -> the check must exit 1
        import copy
        k = next(i for i, r in enumerate(recs) if r["run"])
        recs[k] = copy.deepcopy(recs[k])
        recs[k]["run"][0]["merged"]["stale"] = not recs[k]["run"][0]["merged"]["stale"]
        ctx.log("CORRUPTED record %d: merged.stale flipped" % k)
    inp = ctx.write_ndjson("states.ndjson", recs)
    trace = ctx.tmp("c08_trace.ndjson")
    gr = ctx.go_test("tsdb", ["c08_planner_test.go"], "^TestVerifC08Planner$", env={"VERIF_IN": inp, "VERIF_C08_TRACE": trace}, timeout="60m")
    ctx.absorb(gr, label="C08 replay")
    # legality of real plans (all that differ from the transcription + a sample) decided by the specification
    ntr = sum(1 for _ in open(trace)) if os.path.exists(trace) else 0
    if ntr:
        tv = ctx.tlc("planner", "Trace_Planner", "Trace.cfg", deque=True, files={"trace.ndjson": trace}, timeout=900)
        ctx.account(tv)
        bad = tv.tagged.get("@@BAD", [])
        cases = {}
        for line in open(trace):
            import json
            c = json.loads(line)
            cases[c["n"]] = c
        for b in bad:
            c = cases.get(b["n"])
            ctx.add_violation("real plan %s of record %s step %s is not a plan C08 allows: %s" % (b["real"], c and c.get("rec"), c and c.get("step"), b["reason"]),
                              "illegal-plan:" + b["reason"], c)
        ctx.log("Trace_Planner: %d real plans judged, %d illegal" % (ntr, len(bad)))
        if tv.distinct < ntr:
            raise vlib.Infra("Trace_Planner judged only %d of %d plans" % (tv.distinct, ntr))
    ctx.assumptions += [
        "bounded model: block sets enumerated exhaustively per configuration (see specs/planner/*.cfg), larger sets only by seeded simulation",
        "compaction modelled at the metadata level (CompactBlockMetas + tombstones applied + parents removed)",
        "slices.SortFunc in planClass assumed stable (insertion sort for <= 12 blocks)",
        "exact choice of the plan among legal ones is implementation-shaped: a differing real plan is drift and is judged for legality by Trace_Planner.tla",
    ]
    return ctx.finish(rule="every distinct directory state of the exhaustive configurations + every state visited by seeded walks; each replayed "
                           "along its predicted plan/compact run under 2 time concretisations", exhaustive=False)
