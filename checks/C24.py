"""C24 — persistent blocks round-trip and detect corruption: BlockFmt.tla (abstract block -> everything the
opened block must return; damage of one byte region of a chunk record / series index entry -> which reads must
fail) checked by TLC; generated blocks written with the real block writer, read back, damaged byte by byte."""

META = {
    "text": "BlockFmt.tla builds abstract blocks (series = label set + chunks with an encoding and a sample count) and derives "
            "what the index and chunk readers of the written block must return: symbol table, label names, label values, every "
            "postings list in series (label) order, every series entry with its chunk metas; the same after reopening and after "
            "rewriting the block by a compaction. Damage alters one byte region (length, encoding, first/middle/last data byte, "
            "CRC halves) of one chunk record or series index entry; the specification demands an error for exactly that record "
            "and the unchanged original for all others. TLC checks the index semantics (postings <-> labels, rank bijection), "
            "stability and the damage rule on all generated blocks. Every terminal state is replayed: the block is written by the "
            "real LeveledCompactor.write with a 160-byte segment limit (several segment files), read through IndexReader, "
            "ChunkReader (bytes, encoding, decoded samples) and the block querier; each byte of the damaged region is XORed in the "
            "real file and every entity read again.",
    "note": "Bounded: <=3 series over 2 label names x 2 values (round trip, XOR chunks), <=2 series x <=2 chunks of all three encodings "
            "(damage); 7 chunk-record and 6 series-entry byte regions x 3 masks; quick tier alters <=6 bytes per region. Byte-level "
            "fidelity (chunk bytes identical after reopen) is checked by the replay only; the specification decides the logical "
            "round trip and which records must refuse to be read. Other index sections (symbols, postings, TOC) are not damaged.",
    "technique": "TLA+ reference model (BlockFmt.tla) checked by TLC; TLC-generated blocks written by tsdb.LeveledCompactor, read back "
                 "through tsdb/index and tsdb/chunks readers, damaged on disk",
    "design_ref": "DESIGN.md §5 C24",
    "level": "model_checking",
}

import json
import os
import random


def run(ctx):
    import vlib
    q = ctx.quick
    rnd = random.Random(ctx.seed)
    recs = []
    for cfg, per_class in [("MC_quick.cfg", 6 if q else 20), ("MC_damage.cfg", 1 if q else 3)]:
        mc = ctx.tlc("blockfmt", "BlockFmt", cfg, workers=4, timeout=1500)
        ctx.account(mc)
        by = {}
        for r in mc.emitted:
            by.setdefault(json.dumps(r["cl"]), []).append(r)
        n = 0
        for k in sorted(by):
            v = by[k]
            rnd.shuffle(v)
            recs += v[:per_class]
            n += len(v[:per_class])
        ctx.log("%s: %d generated / %d distinct, %d terminal states in %d classes, %d kept (%.0fs)"
                % (cfg, mc.generated, mc.distinct, len(mc.emitted), len(by), n, mc.wall))
    if not q:
        big = ctx.tlc("blockfmt", "BlockFmt", "MC_big.cfg", workers=8, timeout=3000)
        ctx.account(big)
        ctx.log("MC_big: %d generated / %d distinct (%.0fs)" % (big.generated, big.distinct, big.wall))
    if not recs:
        raise vlib.Infra("no blocks emitted")
    for r in recs:
        r.pop("cl", None)
    ctx.samples = [recs[0], recs[-1]]
    if os.environ.get("VERIF_C24_CORRUPT"):
        # binding self-test (notes/C24.md): drop one series from one predicted postings list -> the check must exit 1
        import copy
        recs[0] = copy.deepcopy(recs[0])
        o = recs[0]["h"][0]["obs"]
        n = sorted(o["postings"])[0]
        v = sorted(o["postings"][n])[0]
        o["postings"][n][v] = o["postings"][n][v][1:]
        ctx.log("CORRUPTED record 0: first series removed from predicted postings %s=%s" % (n, v))
    inp = ctx.write_ndjson("blocks.ndjson", recs)
    gr = ctx.go_test("tsdb", ["c24_blockfmt_test.go"], "^TestVerifC24BlockFmt$", env={"VERIF_IN": inp}, timeout="60m")
    ctx.absorb(gr, label="C24 replay")
    ctx.assumptions += [
        "bounded model (see specs/blockfmt/*.cfg)",
        "blocks written through LeveledCompactor.Write from in-memory index/chunk readers; MaxBlockChunkSegmentSize=160 bytes",
        "a damaged block that OpenBlock refuses entirely is counted as detected (drift: undamaged records become unreadable too)",
    ]
    return ctx.finish(rule="a few blocks per coverage class of the exhaustive configurations (seeded choice); every reader result compared, "
                           "every byte of the damaged region altered (quick: <=6 per region)", exhaustive=False)
