"""C45 — recording rules, staleness markers and reloads: RuleGroup.tla (Group.Eval rule by rule over a TSDB model,
CopyState, cleanupStaleSeries, removed-group cleanup, Manager.Update) checked by TLC against the statement, behaviours
replayed into the real rules.Manager / Group.Eval with the real PromQL engine and TSDB head."""

META = {
    "text": "RuleGroup.tla transcribes Group.Eval (query, rename, append, staleness markers for seriesInPreviousEval minus seriesReturned, "
            "commit, cleanupStaleSeries), Group.CopyState (first-with-first matching by name+labels, unmatched rules' series to staleSeries), "
            "Manager.Update (unchanged groups kept, changed groups copied, removed groups stopped with markStale) and Group.run's start / "
            "removed-group cleanup, over a small TSDB model (in-order appends, same-timestamp duplicates). TLC checks the statement as separate "
            "properties: every result of an input-reading rule is stored at the evaluation time under the rule's name and labels; b = a records "
            "exactly what an `a` rule placed earlier in the same group stored at this timestamp; every series of the previous successful "
            "evaluation gets a sample (value or marker) at this one; nothing else is written; no live series is ever orphaned by a reload "
            "and removed groups -- also those removed before their first evaluation slot (KF-C45-1, fixed) -- mark their series at the time of the stop. Class-directed and random behaviours are "
            "replayed through the real Manager.Update (rule files), Group.Eval, the real engine and a real head; the samples stored at each "
            "evaluation / cleanup time are compared with the prediction.",
    "note": "Bounded: 2 groups, 3 rule kinds (a=m, b=a, c=m with a rule label; duplicates, reordering, moves between groups in 7 configurations), "
            "2-3 input series, <=3 reloads, 6 ops exhaustively (8 in the thorough tier), longer by simulation. Evaluation timestamps are wall-clock "
            "milliseconds at least 2 ms apart with a 1 ms lookback so that a query sees exactly the samples of its own timestamp. Group.run's "
            "evaluation function is replaced by a marker (the harness calls Group.Eval itself); the removed-group cleanup is modelled as "
            "happening before any other step. Concurrent rule evaluation (feature flag), histograms, query offset and limits are not covered.",
    "technique": "TLA+ transcription + reference action properties/invariants checked by TLC; TLC-generated behaviours replayed into rules.Manager/Group",
    "design_ref": "DESIGN.md §5 C45",
    "level": "model_checking",
}


def run(ctx):
    import os
    import vlib
    from concurrent.futures import ThreadPoolExecutor
    q = ctx.quick
    d = 10 if q else 16
    with ThreadPoolExecutor(max_workers=2) as ex:
        f_mc = ex.submit(ctx.tlc, "rulegroup", "RuleGroup", "MC_quick.cfg", workers=1, timeout=1200)
        f_sim = ex.submit(ctx.tlc, "rulegroup", "RuleGroup", "SIM.cfg", simulate=(20 if q else 150), depth=d + 3, workers=2 if q else 4,
                          constants={"MaxOps": d}, timeout=(90 if q else 900))
        mc, sim = f_mc.result(), f_sim.result()
    ctx.account(mc)
    ctx.account(sim)
    ctx.log("MC_quick: %d generated / %d distinct, %d class behaviours (%.0fs); SIM: %d walks (%.0fs)"
            % (mc.generated, mc.distinct, len(mc.emitted), mc.wall, len(sim.emitted), sim.wall))
    if not q:
        big = ctx.tlc("rulegroup", "RuleGroup", "MC_big.cfg", workers=4, timeout=3000)
        ctx.account(big)
        ctx.log("MC_big: %d generated / %d distinct (%.0fs)" % (big.generated, big.distinct, big.wall))
    behs = mc.emitted + sim.emitted
    if not behs:
        raise vlib.Infra("no behaviours emitted")
    # behaviours that remove a group before its first slot first: the harness runs the first six of them with a 300 ms
    # interval so that the removal certainly precedes the slot (regression guard for KF-C45-1)
    behs.sort(key=lambda b: 0 if any(s.get("unstarted") for s in b) else 1)
    ctx.samples = [behs[0], behs[len(behs) // 2], behs[-1]]
    if os.environ.get("VERIF_CORRUPT"):
        import copy
        b = copy.deepcopy(next(x for x in behs if any(s.get("a") == "Eval" and s.get("written") for s in x)))
        st = next(s for s in b if s.get("a") == "Eval" and s.get("written"))
        st["written"][0]["v"] = -1 if st["written"][0]["v"] != -1 else 5
        behs = behs + [b]
        ctx.log("VERIF_CORRUPT: one predicted stored sample falsified in an extra behaviour")
    inp = ctx.write_ndjson("behaviours.ndjson", behs)
    gr = ctx.go_test("rules", ["c45_rulegroup_test.go"], "^TestVerifC45Replay$", env={"VERIF_IN": inp}, timeout="40m")
    ctx.absorb(gr, label="C45 replay")
    ctx.assumptions += [
        "bounded model: 2 groups, rules a=m, b=a, c=m{k=v} in 7 configurations, 2 (simulation 3) input series, <=3 reloads, 6 ops exhaustively",
        "timestamps are wall-clock ms >= 2 ms apart, engine lookback 1 ms; group intervals 10 ms (300 ms for six instances removed before their first slot)",
        "sequential rule evaluation only; the removed-group cleanup runs before any other step",
    ]
    return ctx.finish(rule="one behaviour per class (configuration, group, input, previous results, written series) of the exhaustive run + simulated "
                           "walks; each evaluation / cleanup compares the samples stored at that time", exhaustive=False)
