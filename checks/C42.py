"""C42 — remote read: Read.tla (reference = matching series with their samples inside the range; transcription = SAMPLES
response through ToQueryResult/FromQueryResult and STREAMED_XOR_CHUNKS through StreamChunkedReadResponses/
NewChunkedSeriesSet with frame splitting) checked by TLC; every (data, query) case replayed against a real TSDB through
remote.NewReadHandler and the client-side decoders and compared with a direct Querier."""

META = {
    "text": "Read.tla models stored series as sample sequences whose times and types determine the head's chunk layout (chunk-range "
            "slots, type changes), a query (matcher class, range cutting through chunks, frame budget, external labels) and three ways "
            "to answer it. The reference is the set of matching series with exactly their samples inside the range; the transcription "
            "covers ToQueryResult (floats and histograms in separate lists, merged again by concreteSeriesIterator), "
            "StreamChunkedReadResponses (overlapping chunks cut into frames by the byte budget) and NewChunkedSeriesSet (one series per "
            "frame, trimmed by chunkedSeriesIterator). TLC checks transcription against reference and enumerates all data x query cases "
            "of the bounded model; the data of all cases is appended to one real TSDB (chunk range = model slot, so the real chunk layout "
            "is the modelled one - verified), each query is answered by a direct Querier, by the read handler with SAMPLES decoded by "
            "FromQueryResult and with STREAMED_XOR_CHUNKS decoded by NewChunkedSeriesSet (once over the TSDB, which trims chunks to the range "
            "itself, once over a wrapper that serves overlapping chunks whole); each result is iterated fully and from a Seek at "
            "every point up to the end of the range and compared (labels incl. external labels, timestamps, types, float values, histograms) with the "
            "reference carried in the case.",
    "note": "Bounded: 1 series x 6 time points (3 chunk slots x 2) x float/int-histogram (x float-histogram thorough) with thinned (all "
            "thorough) ranges; 2 series x 2 time points x 5 matcher classes x external label on/off; 2 series x 12 time points x 3 types "
            "by seeded simulation. Frame budget tiny (every chunk its own frame) or 1 MiB. Head chunks only (no persisted blocks), one "
            "query per request, no sample limit, no read hints. The defect found with this check (KF-C42-1: a series the server "
            "splits over several frames was returned by NewChunkedSeriesSet as several series with the same label set) is repaired by "
            "commit 25688644ac; spec and harness now demand the re-assembled series.",
    "technique": "TLA+ reference + transcription (Read.tla) model-checked by TLC; TLC-generated data/query cases replayed against a real TSDB "
                 "through remote.NewReadHandler, FromQueryResult and NewChunkedSeriesSet",
    "design_ref": "DESIGN.md §5 C42",
    "level": "model_checking",
}


def run(ctx):
    q = ctx.quick
    from concurrent.futures import ThreadPoolExecutor
    jobs = [("MC_quick.cfg" if q else "MC_big.cfg", dict(workers=8, timeout=3000)), ("MC_match.cfg", dict(workers=4, timeout=3000)),
            ("SIM.cfg", dict(simulate=(15 if q else 600), depth=40, workers=4, timeout=(200 if q else 1500)))]
    with ThreadPoolExecutor(max_workers=len(jobs)) as ex:
        futs = [ex.submit(ctx.tlc, "remoteread", "Read", c, **kw) for c, kw in jobs]
        results = [f.result() for f in futs]
    cases = []
    for (c, _), r in zip(jobs, results):
        ctx.account(r)
        cases += r.emitted
        ctx.log("%s: %d generated / %d distinct, %d cases, %.0fs" % (c, r.generated, r.distinct, len(r.emitted), r.wall))
    if not cases:
        import vlib
        raise vlib.Infra("no cases emitted")

    def pick(pred):
        for c in cases:
            if pred(c):
                return c
        return cases[0]
    ctx.samples = [pick(lambda c: not c["kf"] and c["ref"] and len(c["ref"][0]["samples"]) >= 2 and c["q"]["lo"] > 0),
                   pick(lambda c: c.get("split")), pick(lambda c: c["q"]["ext"] and c["ref"]), pick(lambda c: c["q"]["m"] == "nea" and c["ref"]),
                   cases[-1]]
    inp = ctx.write_ndjson("cases.ndjson", cases)
    gr = ctx.go_test("storage/remote", ["c42_read_test.go"], "^TestVerifC42$", env={"VERIF_IN": inp}, timeout="40m")
    ctx.absorb(gr, label="C42 replay")
    ctx.assumptions += [
        "one real TSDB (util/teststorage, head only, compaction disabled) holds the data of all cases under case-specific labels; its "
        "chunk range equals one model slot, so chunk cuts are where Read.tla puts them (checked against the ChunkQuerier per data "
        "configuration, drift otherwise)",
        "series without a sample inside the range are not part of any result (all three paths normalised alike)",
        "bounded model (see META.note)",
    ]
    return ctx.finish(rule="every data configuration x query of the bounded model + seeded random larger ones; each answered three ways and "
                           "iterated with Next and with Seek from every point of the range", exhaustive=False)
