"""C13 — the WAL returns exactly the records written: Wlog.tla (TLC) + replay into wlog.WL / Reader / LiveReader."""
import os

META = {
    "text": "Wlog.tla transcribes WL.log / flushPage / nextSegment with the real page (32768) and header (7) constants and "
            "abstract records (stored length, compressed flag), and models wlog.Reader and wlog.LiveReader as scans over the "
            "resulting fragment layout. TLC checks on every reachable state that reading back yields exactly the written "
            "records, that a tailing reader fed any prefix a flush can expose (and every position around a fragment "
            "boundary) returns exactly the records completed in that prefix and never a corruption, that fragments never "
            "cross pages and records never cross segments. One behaviour per coverage class (record length relative to the "
            "free space of page and segment x batch position x compression outcome x segment size) is written with the real "
            "WL; an independent parser checks the raw layout, Reader must return the written bytes before and after Close, "
            "and a persistent LiveReader per segment is fed growing prefixes at every predicted cut point.",
    "note": "Bounded: <=3 records (<=4 thorough) per log, 16 length classes incl. 0, exact fit +-1, > page, > segment, segments of "
            "1-3 pages, batches of 1-3 records, explicit NextSegment. Compression is abstracted to 'stored length + flag'; "
            "the harness searches payloads whose snappy/zstd output has exactly the stored length the model asks for (byte "
            "fidelity of the codecs is replay-only). Partial flushes are emulated by limiting the reader to a prefix of the "
            "append-only segment file (every flush boundary, +-1 and header-split positions around every fragment; random "
            "byte counts in the thorough tier) instead of racing a real writer. Torn/corrupted logs are C04's subject.",
    "technique": "TLA+ transcription of the writer + reader scans (Wlog.tla) model-checked by TLC; TLC-generated logs written by "
                 "wlog.WL and read by wlog.Reader / wlog.LiveReader, compared with the predicted layout and record counts",
    "design_ref": "DESIGN.md §5 C13",
}


def run(ctx):
    import vlib
    import random
    q = ctx.quick
    behs = []
    for cfg in (["MC_quick.cfg", "MC_comp.cfg"] if q else ["MC_quick.cfg", "MC_comp.cfg", "MC_big.cfg"]):
        r = ctx.tlc("wlog", "Wlog", cfg, workers=4, timeout=3000)
        ctx.account(r)
        behs += r.emitted
        ctx.log("%s: %d generated / %d distinct, %d behaviours" % (cfg, r.generated, r.distinct, len(r.emitted)))
    rnd = random.Random(ctx.seed)
    best = {}
    for b in behs:
        key = (len(b["hist"]), rnd.random())
        if b["cl"] not in best or key < best[b["cl"]][0]:
            best[b["cl"]] = (key, b)
    # keep a second, seeded witness per class when available (different history, same class)
    second = {}
    for b in behs:
        if best[b["cl"]][1] is not b and b["cl"] not in second and rnd.random() < 0.5:
            second[b["cl"]] = b
    behs = [v[1] for v in best.values()] + list(second.values())
    ctx.log("%d coverage classes, %d behaviours" % (len(best), len(behs)))
    if not behs:
        raise vlib.Infra("no behaviours emitted")
    ctx.samples = [{"segPages": b["segPages"], "hist": b["hist"], "segs": b["segs"]} for b in (behs[0], behs[len(behs) // 2])]
    if os.environ.get("VERIF_CORRUPT"):      # binding self-test: corrupt one predicted field -> must exit 1
        for b in behs:
            if b["cuts"][0]["at"] and len(b["ends"]) >= 1:
                b["cuts"][0]["at"][-1]["cnt"] += 1
                break
    inp = ctx.write_ndjson("behaviours.ndjson", behs)
    gr = ctx.go_test("tsdb/wlog", ["c13_wlog_test.go"], "^TestVerifC13Wlog$", env={"VERIF_IN": inp})
    ctx.absorb(gr, label="C13 replay")
    ctx.assumptions += [
        "bounded model (see META.note); raw layout differences are drift-only, verdicts come from Reader / LiveReader results",
        "live reading emulated on prefixes of the append-only segment files",
    ]
    return ctx.finish(rule="one or two behaviours per coverage class of the exhaustive runs; each is written with wlog.WL and read "
                           "back with Reader and, at every predicted cut point, with a persistent LiveReader", exhaustive=False)
