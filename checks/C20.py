"""C20 — deletion removes exactly the requested data: Tombstones.tla (interval algebra) + Db.tla (deletes in histories)."""
import random

import C01 as c01

META = {
    "text": "(a) Tombstones.tla is the point-set reference of tombstones.Intervals over an int64 line with MinInt64/MaxInt64 end points "
            "and a far gap; TLC enumerates every (state, Add) transition of all insertion sequences of <=4 intervals over 8 points and "
            "checks sorted/non-adjacent/cover; every transition is replayed into Intervals.Add, MemTombstones.AddInterval, IsSubrange "
            "and the WriteFile/ReadTombstones round trip. (b) Db.tla with Delete interleaved with appends, head/OOO compaction, "
            "CleanTombstones and reopen: TLC checks that the physical layout equals the committed-and-undeleted ghost set, and the "
            "generated histories are replayed on a real tsdb.DB comparing both queriers with the prediction after every step.",
    "note": "Bounds: 8-point interval domain, <=4 Adds exhaustively; DB histories <=9 steps exhaustively / <=30 simulated, <=2 series, "
            "delete ranges from a fixed small set (adjacent, nested, spanning head and blocks). Deletes that trigger the known findings "
            "KF-C20-1/2/3 (out-of-order data) are generated only in the configs that name them.",
    "technique": "TLA+ reference of the interval set + TLA+ model of the TSDB with deletes, checked by TLC; all transitions / generated histories replayed into tsdb/tombstones and tsdb.DB",
    "design_ref": "DESIGN.md §5 C20",
}


def run(ctx):
    import vlib
    try:
        return run2(ctx)
    except vlib.ModelViolation as e:
        return c01.model_cex(ctx, e, "c20")


def run2(ctx):
    q = ctx.quick
    rnd = random.Random(ctx.seed)
    if ctx.want("iv"):
        mc = ctx.tlc("tombstones", "Tombstones", "MC_quick.cfg", workers=8, timeout=900,
                     constants=None if q else {"N": 8})
        ctx.account(mc)
        ivb = mc.emitted
        ctx.log("Tombstones: %d generated / %d distinct, %d transitions emitted" % (mc.generated, mc.distinct, len(ivb)))
        inp = ctx.write_ndjson("iv.ndjson", ivb)
        gr = ctx.go_test("tsdb/tombstones", ["c20_intervals_test.go"], "^TestVerifC20Intervals$", env={"VERIF_IN": inp},
                         out_name="iv-result.ndjson")
        ctx.absorb(gr, label="C20 intervals")
        ctx.samples.append(ivb[len(ivb) // 2])
    behs = []
    for cfg, part, take in (("MC_c20_d.cfg", "d", 0), ("MC_c01_a.cfg", "a", 0), ("MC_c01_b.cfg", "b", 0)):
        if not ctx.want(part):
            continue
        mc = ctx.tlc("db", "Db", cfg, workers=8, timeout=1800)
        ctx.account(mc)
        ctx.log("%s: %d generated / %d distinct; %d class witnesses" % (cfg, mc.generated, mc.distinct, len(mc.emitted)))
        behs += mc.emitted
    # thorough: the quick tier's walk shape for six consecutive TLC seeds (deeper / more numerous random walks reach corners
    # where Db.tla's restart = WAL replay no longer describes a snapshot restart: see DESIGN.md 9.2b)
    d = 20
    seeds = [ctx.seed] if q else [ctx.seed + i for i in range(6)]
    for w, off, sd in [(w, off, sd) for sd in seeds for (w, off) in ((0, 6), (5, 0))]:   # negative times with OOO + compaction only in the exhaustive configs (see KF-C20-8)
        if not ctx.want("sim"):
            continue
        ctx.tlc_seed = sd
        sim = ctx.tlc("db", "Db", "SIM_c20.cfg", simulate=25, depth=6 * d, workers=8,
                      constants={"MaxOps": d, "W": w, "TOff": off}, timeout=(300 if q else 2400))
        ctx.account(sim)
        behs += sim.emitted
        ctx.log("SIM W=%d TOff=%d seed=%d: %d walks" % (w, off, sd, len(sim.emitted)))
    ctx.tlc_seed = None
    if ctx.want("simkf"):
        # walks that may trigger the known findings of the deletion / restart family: their own mismatches are reported under
        # their ids, anything else (e.g. a *different* loss after the same trigger) is a violation
        sim = ctx.tlc("db", "Db", "SIM_c01_kf.cfg", simulate=15, depth=6 * d, workers=8,
                      constants={"MaxOps": d, "W": 5, "TOff": 0}, timeout=(300 if q else 2400))
        ctx.account(sim)
        behs += sim.emitted
        ctx.log("SIM (known-finding triggers allowed): %d walks" % len(sim.emitted))
    if behs:
        ctx.samples += [behs[0], behs[-1]]
        inp = ctx.write_ndjson("behaviours.ndjson", behs)
        gr = ctx.go_test("tsdb", ["db_replay_test.go"], "^TestVerifDbReplay$", env={"VERIF_IN": inp, "VERIF_MODE": "c20"}, timeout="30m")
        ctx.absorb(gr, label="C20 db replay")
    ctx.assumptions += [META["note"]]
    return ctx.finish(rule="every (state,Add) transition of the interval model; coverage-class witnesses and simulated walks of the DB "
                           "model with deletes", exhaustive=False)
