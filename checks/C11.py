"""C11 — native histograms are stored and read back faithfully: HistChunk.tla checked by TLC, behaviours
replayed into the real chunk appenders and a real tsdb.DB. (run_common is shared with C12.)"""

META = {
    "text": "HistChunk.tla models a series of native histogram samples (integer/float, counter/gauge, stale markers, schema, zero "
            "threshold and custom bound changes, buckets added/emptied/dropped, counts up and down, head cuts, out-of-order samples) "
            "and the appenders' decision table (append / expand sample / recode chunk / new chunk + counter reset header). TLC checks "
            "on every reachable history that the stored chunks hold exactly what was appended (Faithful), that a chunk has one layout "
            "and never shrinks (ChunkUniform) and that no read returns an unsound NotCounterReset (HintSound). Every history is "
            "replayed into the four real histogram chunk encodings following the head's protocol (with appender re-opening from bytes) "
            "and a subset into a real tsdb.DB (head, OOO head, m-mapped chunks, OOO block, head block, vertically merged block), and "
            "everything read back through chunk iterators / DB.Querier (full range and sub-ranges) is compared field by field with "
            "what the spec says was appended; the caller's histograms are compared before/after the call.",
    "note": "Bounded: 3 positive + 1 negative bucket index, counts 0..2 (scaled), 2 schemas, 2 thresholds, 2 custom bound sets, <=2 "
            "edits between consecutive samples, histories of 3 appends exhaustively and <=12 by simulation, <=2 out-of-order samples. "
            "Chunk cuts by size/time inside the head are not modelled (they only add chunk boundaries). Appender decisions and chunk "
            "headers predicted by the model are compared as drift only: the property does not fix them.",
    "technique": "TLA+ model (HistChunk.tla) checked by TLC; TLC-generated histories replayed into tsdb/chunkenc appenders and tsdb.DB",
    "design_ref": "DESIGN.md §5 C11",
    "level": "model_checking",
}


def _corrupt(behs, how):
    """Binding self-test: VERIF_CORRUPT=count|snd|drop (one predicted field of one behaviour)."""
    for k, b in enumerate(behs):
        rd = b[-1]
        if rd.get("op") != "Read":
            continue
        for key in ("iores", "res"):
            for i, e in enumerate(rd[key]):
                if how == "count" and e["h"]["P"] and not e["h"]["st"]:
                    e["h"]["P"][0][1] += 1
                    e["h"]["cnt"] += 1
                    if key == "res":
                        return k
                    break
                if how == "snd" and e["snd"] and e["hint"] == "N":
                    e["snd"] = False
                    if key == "res":
                        return k
                    break
            else:
                if how in ("count", "snd"):
                    break
        if how == "drop" and len(rd["res"]) > 1:
            rd["res"] = rd["res"][:-1]
            rd["iores"] = [e for e in rd["iores"] if e["t"] != max(x["t"] for x in rd["iores"])] \
                if rd["iores"] and rd["iores"][-1]["t"] > rd["res"][-1]["t"] else rd["iores"]
            return k
    raise RuntimeError("nothing to corrupt")


def run_common(ctx, prop, files, test):
    import json
    import os
    q = ctx.quick
    cache = os.environ.get("VERIF_HC_CACHE")        # mutation-testing aid: reuse the TLC output of a previous run
    behs = None
    if cache and os.path.exists(cache):
        behs = [json.loads(l) for l in open(cache)]
        ctx.states = ctx.transitions = len(behs)
        ctx.assumptions.append("TLC output reused from VERIF_HC_CACHE (mutation-testing aid, not a registered run)")
    else:
        behs = []
        for cfg in ("MC_quick.cfg", "MC_two.cfg", "MC_ooo.cfg"):
            mc = ctx.tlc("histchunk", "HistChunk", cfg, workers=8, timeout=900)
            ctx.account(mc)
            ctx.log("%s: %d generated / %d distinct, %d histories" % (cfg, mc.generated, mc.distinct, len(mc.emitted)))
            behs += mc.emitted
        if not q:
            big = ctx.tlc("histchunk", "HistChunk", "MC_big.cfg", timeout=3000, heap="12g")
            ctx.account(big)
            ctx.log("MC_big: %d generated / %d distinct (check only)" % (big.generated, big.distinct))
        d = 16 if q else 24
        sim = ctx.tlc("histchunk", "HistChunk", "SIM.cfg", simulate=(5 if q else 600), depth=d + 3, workers=8,
                      constants={"MaxOps": d, "MaxApp": d - 5, "TwoFrom": d - 5}, timeout=(100 if q else 1500))
        ctx.account(sim)
        ctx.log("SIM: %d walks" % len(sim.emitted))
        if not sim.emitted:
            import vlib
            raise vlib.Infra("no walks emitted")
        behs += sim.emitted
        if cache:
            with open(cache, "w") as f:
                for b in behs:
                    f.write(json.dumps(b, separators=(",", ":")) + "\n")
    how = os.environ.get("VERIF_CORRUPT")
    if how:
        k = _corrupt(behs, how)
        ctx.log("binding self-test: corrupted predicted field (%s) of history %d" % (how, k))
    ctx.samples = [behs[0], behs[len(behs) // 3], behs[-1]]
    inp = ctx.write_ndjson("behaviours.ndjson", behs)
    gr = ctx.go_test("tsdb", files, test, env={"VERIF_IN": inp}, timeout="25m")
    ctx.absorb(gr, label=prop + " replay")
    ctx.assumptions += [
        "bounded model: 3 positive / 1 negative bucket index, counts 0..2, 2 schemas, 2 zero thresholds, 2 custom bound sets; "
        "consecutive samples one edit apart (two edits for the last append of MC_two), 3 in-order appends exhaustively, longer "
        "histories and 2 out-of-order samples by seeded simulation only",
        "head-internal chunk cuts by size and predicted end time are not modelled (real chunks may be cut more often than the model's)",
        "stage 2 (real tsdb.DB) replays a deterministic subset of about 800 (quick) / 8000 (thorough) histories per run; stage 1 (chunk appenders) all",
    ]
    return ctx.finish(rule="every maximal history of the exhaustive configurations + seeded walks; each replayed through the chunk "
                           "appenders and (subset) a tsdb.DB, every read compared sample by sample", exhaustive=False)


def run(ctx):
    return run_common(ctx, "C11", ["c11_histchunk_test.go", "c12_hints_test.go"], "^TestVerifC11Replay$")
