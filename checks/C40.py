"""C40 — remote write queue manager: QueueManager.tla model-checked over all interleavings of watcher, shards, send
failures and resharding; TLC-chosen interleavings forced on the real QueueManager (gated replay)."""

META = {
    "text": "QueueManager.tla models the remote-write queue manager with one process per goroutine: the WAL watcher's Append (one action per "
            "enqueue attempt: shard = ref mod shards, partial batch, publication of a full batch or refusal when the batch queue is full or "
            "softShutdown is closed), the shard goroutines (receive a batch, timer flush, send attempts with injected recoverable and "
            "non-recoverable errors, exit) and the resharder (close softShutdown, take the lock and FlushAndShutdown every queue incl. the "
            "once-per-second retry, wait for the shards, start with a new shard count; final Stop). TLC checks on every interleaving of the "
            "bounded model: per-series delivery order = WAL order, no duplicates, no sample of a series dropped by write relabelling, "
            "conservation (every consumed kept sample is in exactly one place), completeness after the final Stop (minus batches failed "
            "non-recoverably) and termination under fairness. One behaviour per distinct state plus seeded complete walks are forced on the "
            "real QueueManager: hook sites park the watcher before each enqueue attempt, every shard after it received a batch and the "
            "stopper after closing softShutdown; the fake WriteClient's Store is the gate of every send attempt and returns the scheduled "
            "result; after the scheduled prefix everything runs to the final Stop. What the endpoint received is compared per series with "
            "the WAL carried in the behaviour.",
    "note": "Bounds: 4 series (two on the same shard, one dropped by relabelling), 6-8 float samples, batch size 2, 1-2 batches of channel "
            "capacity, 1-3 shards, up to 3 reshards, <=3 recoverable and <=1 non-recoverable injected errors. The WAL watcher itself (segments, "
            "checkpoints, SeriesReset), histograms/exemplars/metadata, the age limit and the flush-deadline hard shutdown are not modelled; "
            "Append/StoreSeries are called directly (they are the watcher's callbacks). The BatchSendDeadline timer is part of the model "
            "(MC_live, and MC_big in the thorough tier) but not of the replayed schedules (it cannot be fired deterministically). Trusted: hook placement, TLC, harness.",
    "technique": "TLA+ model (QueueManager.tla) checked by TLC over all interleavings incl. liveness; TLC-generated interleavings replayed on the "
                 "real QueueManager with verifhook scheduler gates and a scripted WriteClient; endpoint log compared with the WAL per series",
    "design_ref": "DESIGN.md §5 C40",
    "level": "model_checking",
}


def run(ctx):
    import vlib
    from concurrent.futures import ThreadPoolExecutor
    q = ctx.quick
    with ThreadPoolExecutor(max_workers=4) as ex:
        f_mc = ex.submit(ctx.tlc, "queuemanager", "QueueManager", "MC_quick.cfg", workers=4, timeout=1500)
        f_live = ex.submit(ctx.tlc, "queuemanager", "QueueManager", "MC_live.cfg", workers=2, timeout=1500)
        # (M) bigger WAL, timer flush enabled, two reshards: check only (thorough tier)
        f_big = None if q else ex.submit(ctx.tlc, "queuemanager", "QueueManager", "MC_big.cfg", workers=4, timeout=3000)
        f_sim = ex.submit(ctx.tlc, "queuemanager", "QueueManager", "SIM.cfg", simulate=(25 if q else 500), depth=140, workers=4,
                          timeout=(300 if q else 1500))
        mc, live, sim = f_mc.result(), f_live.result(), f_sim.result()
        big = f_big.result() if f_big else None
    for r in (mc, live, sim) + ((big,) if big else ()):
        ctx.account(r)
    ctx.log("MC_quick (eager receive): %d generated / %d distinct, %d behaviours (%.0fs); MC_live (all interleavings, timer, safety+liveness) %d distinct (%.0fs); SIM %d walks%s"
            % (mc.generated, mc.distinct, len(mc.emitted), mc.wall, live.distinct, live.wall, len(sim.emitted),
               "; MC_big (timer) %d distinct (%.0fs)" % (big.distinct, big.wall) if big else ""))
    behs = list(mc.emitted)
    if q:
        behs = [b for i, b in enumerate(behs) if (i + ctx.seed) % 2 == 0]
    behs += list(sim.emitted)
    if not behs:
        raise vlib.Infra("no behaviours emitted")
    ctx.samples = [behs[len(behs) // 2], behs[-1]]
    inp = ctx.write_ndjson("behaviours.ndjson", behs)
    gr = ctx.go_test("storage/remote", ["c40_queue_test.go"], "^TestVerifC40Replay$", env={"VERIF_IN": inp}, timeout="40m")
    ctx.absorb(gr, label="C40 replay")
    if not gr.by_kind("done"):
        # vlib.absorb tolerates a missing done record when violation records exist (known findings always produce one)
        raise vlib.Infra("harness C40 replay did not finish (no done record):\n%s" % gr.out[-3000:])
    ctx.assumptions += [
        "bounded model: 4 series, <=8 samples, batch size 2, <=3 shards, <=3 reshards, bounded injected send errors",
        "Append/StoreSeries driven directly (no WAL watcher, checkpoints, SeriesReset); floats only; remote write v1",
        "timer flush only in the model-checked configs, not in replayed schedules; flush-deadline hard shutdown not modelled",
        "global order of the received log and batch composition are drift-only; strict = per-series sequence vs WAL",
    ]
    return ctx.finish(rule="one behaviour per distinct state of the exhaustive model (seeded half in quick) + seeded complete walks; scheduled "
                           "prefix forced with gates and a scripted endpoint, then run to the final Stop; endpoint log compared per series", exhaustive=False)
