"""C40 — remote write queue manager: QueueManager.tla model-checked over all interleavings of watcher, shards, send
failures and resharding; TLC-chosen interleavings forced on the real QueueManager (gated replay)."""

META = {
    "text": "QueueManager.tla models the remote-write queue manager with one process per goroutine: the WAL watcher's Append (one action per "
            "enqueue attempt: shard = ref mod shards, partial batch, publication of a full batch or refusal when the batch queue is full or "
            "softShutdown is closed), the shard goroutines (receive a batch, timer flush, send attempts with injected recoverable and "
            "non-recoverable errors, exit) and the resharder (close softShutdown, take the lock and FlushAndShutdown every queue incl. the "
            "once-per-second retry, wait for the shards, start with a new shard count; final Stop). TLC checks on every interleaving of the "
            "bounded model: per-series delivery order = WAL order, no duplicates, no sample of a series dropped by write relabelling, "
            "conservation (every consumed kept sample is in exactly one place), completeness after the final Stop (minus batches failed "
            "non-recoverably) and termination under fairness. One behaviour per distinct state plus seeded complete walks are forced on the "
            "real QueueManager: hook sites park the watcher before each enqueue attempt, every shard after it received a batch and the "
            "stopper after closing softShutdown; the fake WriteClient's Store is the gate of every send attempt and returns the scheduled "
            "result; after the scheduled prefix everything runs to the final Stop. What the endpoint received is compared per series with "
            "the WAL carried in the behaviour.",
    "note": "Bounds: 4 series (two on the same shard, one dropped by relabelling), 6-8 float samples, batch size 2, 1-2 batches of channel "
            "capacity, 1-3 shards, up to 3 reshards, <=3 recoverable and <=1 non-recoverable injected errors. The WAL watcher itself (segments, "
            "checkpoints, SeriesReset), histograms/exemplars/metadata, the age limit and the flush-deadline hard shutdown are not modelled; "
            "Append/StoreSeries are called directly (they are the watcher's callbacks). The BatchSendDeadline timer is two steps in the model "
            "(commit to the timer case / call queue.Batch()); firing at any idle moment is model-checked (MC_live, MC_big), the replayed "
            "schedules have it fire once per shard goroutine right after start (deadline short at start, long afterwards) with the "
            "queue.Batch() call placed by TLC among the enqueues. Trusted: hook placement, TLC, harness.",
    "technique": "TLA+ model (QueueManager.tla) checked by TLC over all interleavings incl. liveness; TLC-generated interleavings replayed on the "
                 "real QueueManager with verifhook scheduler gates and a scripted WriteClient; endpoint log compared with the WAL per series",
    "design_ref": "DESIGN.md §5 C40",
    "level": "model_checking",
}


def run(ctx):
    import vlib
    from concurrent.futures import ThreadPoolExecutor
    q = ctx.quick
    with ThreadPoolExecutor(max_workers=6) as ex:
        f_mc = ex.submit(ctx.tlc, "queuemanager", "QueueManager", "MC_quick.cfg", workers=4, timeout=1500)
        # (M)+(R) the same with the batch-send-deadline timer: every shard goroutine commits to its timer case right after
        # start (TimerFire) and calls queue.Batch() later (TimerTake), with enqueues in between
        f_tm = ex.submit(ctx.tlc, "queuemanager", "QueueManager", "MC_timer.cfg", workers=4, timeout=1500)
        # (M) non-vacuity: queue.Batch() returning the partial batch before a published one must break the order in the model
        f_bug = ex.submit(ctx.tlc, "queuemanager", "QueueManager", "MC_bug.cfg", workers=2, timeout=900, allow_violation=True)
        f_live = ex.submit(ctx.tlc, "queuemanager", "QueueManager", "MC_live.cfg", workers=2, timeout=1500)
        # (M) bigger WAL, timer flush enabled, two reshards: check only (thorough tier)
        f_big = None if q else ex.submit(ctx.tlc, "queuemanager", "QueueManager", "MC_big.cfg", workers=4, timeout=3000)
        f_sim = ex.submit(ctx.tlc, "queuemanager", "QueueManager", "SIM.cfg", simulate=(25 if q else 500), depth=140, workers=4,
                          timeout=(300 if q else 1500))
        mc, tm, bug, live, sim = f_mc.result(), f_tm.result(), f_bug.result(), f_live.result(), f_sim.result()
        big = f_big.result() if f_big else None
    if bug.violated not in ("ShardFifo", "PerSeriesOrder"):
        raise vlib.Infra("MC_bug: the design mutation (Batch() prefers the partial batch) is not rejected by the model (got %r)" % bug.violated)
    for r in (mc, tm, live, sim) + ((big,) if big else ()):
        ctx.account(r)
    ctx.log("MC_timer: %d generated / %d distinct, %d behaviours (%.0fs)" % (tm.generated, tm.distinct, len(tm.emitted), tm.wall))
    ctx.log("MC_quick (eager receive): %d generated / %d distinct, %d behaviours (%.0fs); MC_live (all interleavings, timer, safety+liveness) %d distinct (%.0fs); SIM %d walks%s"
            % (mc.generated, mc.distinct, len(mc.emitted), mc.wall, live.distinct, live.wall, len(sim.emitted),
               "; MC_big (timer) %d distinct (%.0fs)" % (big.distinct, big.wall) if big else ""))
    # behaviours ending with the shard's queue.Batch() call after its timer fired are always replayed
    key = [b for b in tm.emitted if b["steps"] and b["steps"][-1]["a"] == "TimerTake"]
    rest_t = [b for b in tm.emitted if not (b["steps"] and b["steps"][-1]["a"] == "TimerTake")]
    rest = list(mc.emitted)
    if q:
        rest_t = [b for i, b in enumerate(rest_t) if (i + ctx.seed) % 8 == 0]
        rest = [b for i, b in enumerate(rest) if (i + ctx.seed) % 4 == 0]
    behs = key + rest_t + rest
    behs += list(sim.emitted)
    if not behs:
        raise vlib.Infra("no behaviours emitted")
    ctx.samples = [behs[len(behs) // 2], behs[-1]]
    inp = ctx.write_ndjson("behaviours.ndjson", behs)
    gr = ctx.go_test("storage/remote", ["c40_queue_test.go"], "^TestVerifC40Replay$", env={"VERIF_IN": inp}, timeout="40m")
    ctx.absorb(gr, label="C40 replay")
    if not gr.by_kind("done"):
        # vlib.absorb tolerates a missing done record when violation records exist (known findings always produce one)
        raise vlib.Infra("harness C40 replay did not finish (no done record):\n%s" % gr.out[-3000:])
    ctx.assumptions += [
        "bounded model: 4 series, <=8 samples, batch size 2, <=3 shards, <=3 reshards, bounded injected send errors",
        "Append/StoreSeries driven directly (no WAL watcher, checkpoints, SeriesReset); floats only; remote write v1",
        "timer: any idle moment in the model-checked configs; in replayed schedules once per shard goroutine, fired right after start, queue.Batch() placed by TLC; flush-deadline hard shutdown not modelled",
        "global order of the received log and batch composition are drift-only; strict = per-series sequence vs WAL",
    ]
    return ctx.finish(rule="one behaviour per distinct state of the exhaustive models without and with the timer (quick: all timer-take states, a seeded part of the rest) + seeded complete walks; scheduled "
                           "prefix forced with gates and a scripted endpoint, then run to the final Stop; endpoint log compared per series", exhaustive=False)
