"""C37 — scrape loop: ScrapeLoop.tla (reference layer + transcription of scrape.go, related by TLC) and replay of
TLC-generated scrape histories into the real scrapeLoop."""

META = {
    "text": "ScrapeLoop.tla states C37 as a reference state machine over scrape histories (outcomes: body with churning, aliased, "
            "repeated, relabel-dropped and explicitly timestamped series; transport failure; parse error at any line; label limit; "
            "sample limit; empty body; storage ref change; target removal) that predicts the multiset of samples storage must receive "
            "per scrape (exposed samples at scrape time or explicit timestamp, stale markers at this scrape's time for tracked series "
            "that vanished, for all tracked series on any failure and on target removal, report series up/samples_scraped/"
            "post_relabel/series_added). A second layer transcribes scrapeCache (series, droppedSeries, seriesCur/Prev, updateRef) and "
            "scrapeAndReport; TLC checks exhaustively that both layers produce the same log except for the recorded deviation "
            "KF-C37-1. Every generated history is replayed into the real scrapeLoop (production constructor, real relabelling, limits "
            "and parsers, Appender and AppenderV2, text and OpenMetrics bodies) against a recording storage with collectable refs and "
            "the committed log of every scrape is compared with the reference prediction.",
    "note": "Bounds: 6 metric strings (2 aliased into one series, 1 dropped, 1 over label_limit), bodies <=2 lines exhaustively "
            "(<=3 in simulation and MC_big), histories of 3 steps per coverage class, 2 steps exhaustively (thorough), 12-30 steps by "
            "seeded simulation; sample_limit in {0,1,2,3}. Not modelled: bucket limit (needs native histograms), exemplars, metadata, "
            "storage-side rejections (out-of-order/duplicate), ref change of the aliased series, the timer loop of run() "
            "(scrapeAndReport and endOfRunStaleness are called directly with chosen times). Explicit-timestamp reading: a series is "
            "tracked for staleness by a scrape iff that scrape stored a sample of it without explicit timestamp (or any sample with "
            "track_timestamps_staleness). Report counters are strict on successful scrapes only; series_added only after a "
            "successful scrape. Float text fidelity is replay-only.",
    "technique": "TLA+ reference + transcription (ScrapeLoop.tla) checked by TLC; TLC-generated scrape histories replayed into scrape.scrapeLoop",
    "design_ref": "DESIGN.md §5 C37",
    "level": "model_checking",
}


def run(ctx):
    import vlib
    q = ctx.quick
    behs = []
    # (M)+(R) three-step histories, one behaviour per coverage class of the transcription's branch structure
    cfg = "MC_class.cfg" if q else "MC_class3.cfg"
    mc = ctx.tlc("scrapeloop", "ScrapeLoop", cfg, workers=1, timeout=1500)
    ctx.account(mc)
    behs += mc.emitted
    ctx.log("%s: %d generated / %d distinct, %d class behaviours" % (cfg, mc.generated, mc.distinct, len(mc.emitted)))
    if not q:
        # (M)+(R) every two-step history over the full alphabet
        al = ctx.tlc("scrapeloop", "ScrapeLoop", "MC_quick.cfg", workers=8, timeout=1500)
        ctx.account(al)
        behs += al.emitted
        ctx.log("MC_quick(all): %d generated / %d distinct, %d behaviours" % (al.generated, al.distinct, len(al.emitted)))
        # (M) longer bodies, check only
        big = ctx.tlc("scrapeloop", "ScrapeLoop", "MC_big.cfg", timeout=3000)
        ctx.account(big)
        ctx.log("MC_big: %d generated / %d distinct" % (big.generated, big.distinct))
    # (R) seeded random walks
    d = 12 if q else 30
    sim = ctx.tlc("scrapeloop", "ScrapeLoop", "SIM.cfg", simulate=(25 if q else 400), depth=d + 3, workers=8,
                  constants={"MaxOps": d}, timeout=(60 if q else 900))
    ctx.account(sim)
    behs += sim.emitted
    ctx.log("SIM: %d walks" % len(sim.emitted))
    if not behs:
        raise vlib.Infra("no behaviours emitted")
    for b in behs:           # the coverage class is only needed inside TLC
        for st in b:
            st.pop("cls", None)
    ctx.samples = [behs[0], behs[len(behs) // 2], behs[-1]]
    import os
    if os.environ.get("VERIF_CORRUPT"):
        # binding self-test (notes/C37.md): drop one predicted stale marker of one non-deviating step; the check must exit 1
        done = False
        for b in behs:
            for st in b:
                if not done and st.get("a") == "Scrape" and not st.get("kf") and not st.get("failed") \
                        and any(x["st"] for x in st.get("want", [])) and not any(s2.get("kf") for s2 in b):
                    st["want"] = [x for x in st["want"] if not x["st"]]
                    done = True
        ctx.log("VERIF_CORRUPT: corrupted one behaviour: %s" % done)
    inp = ctx.write_ndjson("behaviours.ndjson", behs)
    gr = ctx.go_test("scrape", ["c37_scrapeloop_test.go"], "^TestVerifC37Replay$", env={"VERIF_IN": inp})
    ctx.absorb(gr, label="C37 replay")
    ctx.assumptions += [
        "bounded model: 6 exposed metric strings (a,a2 -> one series; d dropped; L over label_limit), bodies <=2 lines exhaustively, <=3 by simulation",
        "recording storage accepts every append and resolves refs like the head (live ref wins over labels; collected ref falls back to labels)",
        "scrape times and end-of-run tick are driven by the harness (scrapeAndReport / endOfRunStaleness called directly)",
        "report counters strict only on successful scrapes; scrape_duration_seconds only checked for presence",
    ]
    return ctx.finish(rule="one history per coverage class of the exhaustive run (+ all two-step histories in the thorough tier) + "
                           "seeded walks; after every step the committed append log is compared as a multiset with the reference",
                      exhaustive=False)
