"""C50 — backfilled blocks contain exactly the input samples: Backfill.tla (transcription of promtool's
getMinAndMaxTimestamps/createBlocks loop + reference partition by aligned window) checked by TLC; generated
inputs rendered as OpenMetrics text and run through the real backfill()."""

META = {
    "text": "Backfill.tla builds inputs (samples at window/position timestamps incl. negative windows, window boundaries and last "
            "milliseconds, NaN/Inf values, optionally one sample without timestamp) and runs the transcribed algorithm step by "
            "step (scan for min/max, alignment of the start to its block range -- the floor, as fixed by a01d00d164 --, one loop iteration per block duration "
            "with the next-sample skip, flush). TLC checks that the written blocks are exactly the partition of the input by "
            "aligned window (reference, with floor), that every block lies in one window, that nothing foreign is written, that "
            "an input lacking a timestamp is rejected as a whole, and termination. Every terminal state (input, demanded blocks, "
            "blocks the transcription writes, verdict) is a test case: the harness renders OpenMetrics text (two metric families "
            "or interleaved label variants of one, seeded batch size and custom labels), runs promtool's backfill(), opens the "
            "output with DBReadOnly and compares every block's range, labels, timestamps and values with the demanded blocks.",
    "note": "Bounded: <=3 samples over 2 series and 4 windows exhaustively (quick), 1 series over 6 windows (4 negative) with empty ranges "
            "between samples, 5 value classes over 2 windows, <=9 samples / 3 "
            "series / 7 windows by seeded simulation; block duration 2h only (maxBlockDuration <= 2h). Millisecond values are "
            "restricted to those that survive the OpenMetrics seconds text form (the parser computes int64(seconds*1000)). "
            "Per-series input order is increasing in time (OpenMetrics requirement).",
    "technique": "TLA+ transcription + reference (Backfill.tla) checked by TLC; TLC-generated inputs run through cmd/promtool backfill() "
                 "and the written blocks read back",
    "design_ref": "DESIGN.md §5 C50, §7 H13 (confirmed, fixed by a01d00d164)",
    "level": "model_checking",
}

import json
import os
import random


def run(ctx):
    import vlib
    q = ctx.quick
    rnd = random.Random(ctx.seed)
    recs = []
    # MC_gap: one series over 4 negative and 2 positive block ranges; only the inputs that leave a whole range
    # empty before a later *negative* sample are taken from it (class index 9 = "empty window between populated
    # ones", index 10 = where the first sample after such a gap lies); MC_quick covers the rest
    for cfg, per_class in [("MC_quick.cfg", 1 if q else 3), ("MC_vals.cfg", 2 if q else 6), ("MC_gap.cfg", 1 if q else 3)]:
        mc = ctx.tlc("backfill", "Backfill", cfg, workers=4, timeout=900)
        ctx.account(mc)
        by = {}
        for r in mc.emitted:
            if cfg == "MC_gap.cfg" and not (r["cl"][9] and any(x.startswith("neg") for x in r["cl"][10])):
                continue
            by.setdefault(json.dumps(r["cl"]), []).append(r)
        n = 0
        for k in sorted(by):
            v = by[k]
            rnd.shuffle(v)
            recs += v[:per_class]
            n += len(v[:per_class])
        ctx.log("%s: %d generated / %d distinct, %d inputs in %d classes, %d kept (%.0fs)"
                % (cfg, mc.generated, mc.distinct, len(mc.emitted), len(by), n, mc.wall))
    if not q:
        big = ctx.tlc("backfill", "Backfill", "MC_big.cfg", workers=8, timeout=3000)
        ctx.account(big)
        ctx.log("MC_big: %d generated / %d distinct (%.0fs)" % (big.generated, big.distinct, big.wall))
    sim = ctx.tlc("backfill", "Backfill", "SIM.cfg", simulate=(6 if q else 40), depth=40, workers=4, timeout=(120 if q else 900))
    ctx.account(sim)
    ctx.log("SIM: %d inputs" % len(sim.emitted))
    recs += sim.emitted
    if not recs:
        raise vlib.Infra("no inputs emitted")
    for r in recs:
        r.pop("cl", None)
    ctx.samples = [recs[len(recs) // 3], recs[-1]]
    if os.environ.get("VERIF_C50_CORRUPT"):
        # binding self-test (notes/C50.md): drop one demanded sample -> the check must exit 1
        import copy
        for k, r in enumerate(recs):
            if r["legal"] == "ok" and r["want"] and len(r["want"][0]["samples"]) >= 1 and not r["rejected"]:
                recs[k] = copy.deepcopy(r)
                recs[k]["want"][0]["samples"] = recs[k]["want"][0]["samples"][1:]
                if not recs[k]["want"][0]["samples"]:
                    recs[k]["want"] = recs[k]["want"][1:]
                ctx.log("CORRUPTED record %d: one demanded sample dropped" % k)
                break
    inp = ctx.write_ndjson("inputs.ndjson", recs)
    gr = ctx.go_test("cmd/promtool", ["c50_backfill_test.go"], "^TestVerifC50Backfill$", env={"VERIF_IN": inp}, timeout="30m")
    ctx.absorb(gr, label="C50 replay")
    ctx.assumptions += [
        "bounded model (see specs/backfill/*.cfg); larger inputs only by seeded simulation",
        "block duration 2h; timestamps restricted to milliseconds exactly representable in the OpenMetrics seconds text form",
        "no two input samples share series and timestamp",
    ]
    return ctx.finish(rule="a few inputs per coverage class of the exhaustive configurations (seeded choice) + seeded random inputs; "
                           "every written block compared", exhaustive=False)
