"""C39 — label sets behave as canonical sorted maps in every build.
Labels.tla (label lists, Builder = (base, add, del), ScratchBuilder protocol) checked by TLC; its behaviours
replayed under the three label implementations (build tags)."""
import json
import os

META = {
    "text": "Labels.tla models a labels.Labels value as its list of name/value pairs (a map when strictly sorted by name), "
            "labels.Builder as (base, add, del) with Set/Del/Keep/Get/Range/Labels, labels.ScratchBuilder with "
            "Reset/Add/Sort/Assign/Labels/Overwrite under the usage protocol of its doc comments, the constructors "
            "FromStrings/FromMap/New, Copy and the re-encoding into another symbol table done by Head.RebuildSymbolTable. TLC "
            "checks on the whole reachable state space of three focused configurations (builder, scratch builder, observers) that "
            "constructors and the Builder only produce canonical maps without empty values, that Builder.Get and Builder.Range agree "
            "with Builder.Labels, and that Compare is a total order consistent with equality; it emits one witness history per "
            "distinct state plus seeded random walks mixing all operations. Every history is replayed under -tags verif "
            "(stringlabels), verif,slicelabels and verif,dedupelabels: after every step the content (iteration order) of every "
            "Labels variable, and at the end Len, IsEmpty, Get, Has, Map, String, WithoutEmpty, HasDuplicateLabelNames, Copy, "
            "Equal, Compare, Hash-equality and Bytes-equality between all variables are compared with the predictions.",
    "note": "Bounded: 2-3 label names, values from {'', x, y, long x, long y}, lists of <=2-3 pairs, 1-2 variables plus the Overwrite "
            "target. Strings are concretised per behaviour (long names, values of 254/255/256/1100/70000 bytes, common 253-byte "
            "prefixes, UTF-8, symbol tables pre-loaded with 0-33000 symbols for dedupelabels). Lists that are not maps (unsorted or "
            "repeated names fed to a ScratchBuilder) are compared on content only; their Get/Compare results are compared across the "
            "three implementations as drift. Out-of-protocol ScratchBuilder use (Add after Labels/Assign without Reset, Overwrite "
            "after Assign, two live Overwrite targets) is outside the model: the implementations are documented to differ there "
            "(see notes/C39.md). Hash values themselves are not compared. Trusted: TLC, Json module.",
    "technique": "TLA+ reference model (Labels.tla) model-checked by TLC; TLC-generated behaviours replayed under the three labels "
                 "build tags",
    "design_ref": "DESIGN.md §5 C39",
    "level": "model_checking",
}

TAGS = [("stringlabels", "verif"), ("slicelabels", "verif,slicelabels"), ("dedupelabels", "verif,dedupelabels")]


def generate(ctx):
    cache = os.environ.get("VERIF_C39_CACHE")
    if cache and os.path.exists(cache):
        with open(cache) as f:
            c = json.load(f)
        ctx.states, ctx.transitions = c["states"], c["transitions"]
        ctx.log("TLC stage taken from cache", cache)
        return c["behs"]
    q = ctx.quick
    behs = []
    cfgs = ("MC_builder.cfg", "MC_scratch.cfg", "MC_observe.cfg") if q else ("MC_builder_big.cfg", "MC_scratch_big.cfg", "MC_observe.cfg")
    for cfg in cfgs:
        mc = ctx.tlc("labels", "Labels", cfg, workers=8, timeout=3000)
        ctx.account(mc)
        behs += mc.emitted
        ctx.log("%s: %d generated / %d distinct, %d behaviours (%.0fs)" % (cfg, mc.generated, mc.distinct, len(mc.emitted), mc.wall))
    if not q:
        big = ctx.tlc("labels", "Labels", "MC_big.cfg", timeout=3400)
        ctx.account(big)
        ctx.log("MC_big: %d generated / %d distinct (%.0fs)" % (big.generated, big.distinct, big.wall))
    d = 12 if q else 20
    sim = ctx.tlc("labels", "Labels", "SIM.cfg", simulate=(40 if q else 3000), depth=d + 3, workers=8,
                  constants={"MaxOps": d}, timeout=(200 if q else 1500))
    ctx.account(sim)
    behs += sim.emitted
    ctx.log("SIM: %d walks (%.0fs)" % (len(sim.emitted), sim.wall))
    if cache:
        with open(cache, "w") as f:
            json.dump({"states": ctx.states, "transitions": ctx.transitions, "behs": behs}, f)
    return behs


def corrupt(behs):
    """binding self-test (VERIF_C39_CORRUPT=1): flip one predicted Compare result."""
    for b in behs:
        cmp = b["obs"]["cmp"]
        if len(cmp) >= 2 and b["obs"]["wf"][0] and b["obs"]["wf"][1] and cmp[0][1] != 0:
            cmp[0][1] = -cmp[0][1]
            return True
    return False


def run(ctx):
    import vlib
    behs = [b for b in generate(ctx) if len(b.get("h", [])) >= 2]
    if not behs:
        raise vlib.Infra("no behaviours emitted")
    if os.environ.get("VERIF_C39_CORRUPT"):
        if not corrupt(behs):
            raise vlib.Infra("nothing to corrupt")
        ctx.log("binding self-test: one predicted Compare result flipped")
    ctx.samples = [behs[0], behs[len(behs) // 2], behs[-1]]
    inp = ctx.write_ndjson("behaviours.ndjson", behs)
    digests = {}
    for name, tags in TAGS:
        dg = ctx.tmp("digest_%s.txt" % name)
        gr = ctx.go_test("model/labels", ["c39_labels_test.go"], "^TestVerifC39Replay$", tags=tags,
                         env={"VERIF_IN": inp, "VERIF_C39_DIGEST": dg}, out_name="result_%s.ndjson" % name)
        ctx.absorb(gr, label="C39 replay " + name)
        ctx.log("%s: replayed (%.0fs)" % (name, gr.wall))
        if os.path.exists(dg):
            with open(dg) as f:
                digests[name] = f.read().splitlines()
    # lists that are not maps: the three implementations are only compared with each other
    names = [n for n, _ in TAGS if n in digests]
    ndiff = 0
    if len(names) == 3:
        for a, b, c in zip(*[digests[n] for n in names]):
            if not (a == b == c):
                ndiff += 1
    if ndiff:
        ctx.drift += 1
        ctx.log("model drift: the implementations answer Get/Has/Compare differently on %d behaviours whose lists are not maps "
                "(unsorted or repeated names fed to a ScratchBuilder)" % ndiff)
    ctx.extra["behaviours_with_non_map_lists_where_implementations_differ"] = ndiff
    ctx.traces = ctx.traces // 3 if ctx.traces else 0
    ctx.extra["replays_per_behaviour"] = 3
    ctx.assumptions += [
        "bounded model: 2-3 names, values {'', x, y, Lx, Ly}, <=2-3 pairs per list, 1-2 variables + the Overwrite target; whole "
        "reachable state space of the builder / scratch / observer configurations, larger alphabets by simulation only",
        "ScratchBuilder is used according to the protocol of its doc comments (Reset before re-use)",
        "lists that are not maps are compared on content; their lookups and ordering only across implementations (drift)",
        "hash values are compared as an equivalence relation only",
    ]
    return ctx.finish(rule="one witness history per distinct reachable state of the three focused configurations + seeded walks; each "
                           "history replayed under the three build tags with 2 (quick) or 6 (thorough) string concretisations",
                      exhaustive=False)
