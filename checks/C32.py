"""C32 — histogram query functions agree with the histograms they describe: HistQ.tla (extends the exact
histograms of Hist.tla) decides rank buckets and query bounds; records replayed through the PromQL engine
and promql.HistogramQuantile / HistogramFraction / BucketQuantile."""

META = {
    "text": "HistQ.tla reuses the exact (integer count) native histograms of Hist.tla and decides for each of them, with integer "
            "arithmetic, which bucket(s) hold the rank q*count for q on a grid (walking the buckets upwards as the code does for "
            "q<0.5 and downwards for q>=0.5; both buckets when the rank falls exactly on their border), checks that these rank "
            "buckets never move downwards as q grows (RankMonotone), and names an ascending list of query bounds (-Inf, bucket "
            "boundaries of both signs, points inside buckets, 0, +Inf). Every histogram is built for real, stored as a series and "
            "queried through the PromQL engine and the exported functions: histogram_count/sum/avg must return count, sum and their "
            "ratio; histogram_quantile must lie within the real bounds of a rank bucket and never decrease with q; "
            "histogram_fraction must lie in [0,1], not decrease when the interval grows and be 1 over (-Inf,+Inf). All classic bucket "
            "sets over 3 bounds + Inf with cumulative counts from a small domain (including non-monotonic ones) are enumerated and "
            "histogram_quantile over them must not decrease with q.",
    "note": "Interpolated values themselves are not predicted (floating point); comparisons of real results use a 1e-9 relative "
            "slack. Bounded: <=2 positive and <=1 negative populated bucket, 3 schemas (shifted into -4..8), 3 zero thresholds, "
            "counts {1,3} scaled, custom buckets over 3 bounds; q grid of 9, 14 query bounds (91 intervals) per histogram; classic "
            "sets 4^4. Histograms with NaN observations (count > sum of buckets) are not generated.",
    "technique": "TLA+ reference (HistQ.tla over Hist.tla) checked by TLC; TLC-generated records replayed into promql (engine and exported functions)",
    "design_ref": "DESIGN.md §5 C32",
    "level": "model_checking",
}


def _corrupt(behs, how):
    """Binding self-test: VERIF_CORRUPT=rank|count."""
    for k, b in enumerate(behs):
        rec = b[-1]
        if rec.get("op") != "Query":
            continue
        if how == "rank" and rec["ranks"].get("8") and len(rec["H"]["p"]) == 2 and not rec["H"]["n"] \
                and rec["H"]["k"] == "exp" and abs(rec["H"]["p"][0][0] - rec["H"]["p"][1][0]) >= 2:
            lo = min(rec["H"]["p"], key=lambda e: e[0])
            rec["ranks"]["8"] = [["p", lo[0]]]          # q=1 must be in the highest bucket, claim the lowest
            return k
        if how == "count" and rec["H"]["cnt"] > 0:
            rec["sum"] += 2
            return k
    raise RuntimeError("nothing to corrupt")


def run(ctx):
    import json
    import os
    q = ctx.quick
    cache = os.environ.get("VERIF_HQ_CACHE")        # mutation-testing aid: reuse the TLC output of a previous run
    if cache and os.path.exists(cache):
        behs = [json.loads(l) for l in open(cache)]
        ctx.states = ctx.transitions = len(behs)
        ctx.assumptions.append("TLC output reused from VERIF_HQ_CACHE (mutation-testing aid, not a registered run)")
    else:
        mc = ctx.tlc("hist", "HistQMC", "Q_quick.cfg" if q else "Q_big.cfg", workers=8, timeout=(900 if q else 3000))
        ctx.account(mc)
        behs = mc.emitted
        ctx.log("HistQ: %d generated / %d distinct, %d records" % (mc.generated, mc.distinct, len(behs)))
        if cache:
            with open(cache, "w") as f:
                for b in behs:
                    f.write(json.dumps(b, separators=(",", ":")) + "\n")
    if not behs:
        import vlib
        raise vlib.Infra("no records emitted")
    how = os.environ.get("VERIF_CORRUPT")
    if how:
        k = _corrupt(behs, how)
        ctx.log("binding self-test: corrupted predicted field (%s) of record %d" % (how, k))
    ctx.samples = [behs[0], behs[len(behs) // 2], behs[-1]]
    inp = ctx.write_ndjson("records.ndjson", behs)
    gr = ctx.go_test("promql", ["c32_histfn_test.go"], "^TestVerifC32Replay$", env={"VERIF_IN": inp})
    ctx.absorb(gr, label="C32 replay")
    ctx.assumptions += [
        "integer counts, no NaN observations; interpolated values not predicted (relations only, 1e-9 relative slack)",
        "library: <=2 positive / <=1 negative populated bucket, schemas 0..2 (shifted), thresholds {0, on a boundary, inside a bucket}, "
        "custom buckets over <=3 bounds; q = k/8; 14 ordered query bounds; classic sets: 3 bounds + Inf, counts {0,1,2,4}",
    ]
    return ctx.finish(rule="every histogram of the library and every classic bucket set; 9 quantiles, 91 fraction intervals, "
                           "count/sum/avg per histogram, through the engine and the exported functions", exhaustive=True)
