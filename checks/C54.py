"""C54 — fanout storage: Fanout.tla (reference + transcription of fanout.Querier / secondaryQuerier / merge querier /
fanoutAppender with one failure injection point per storage) checked by TLC; every configuration replayed into
storage.NewFanout over fake storages that wrap real TSDB instances."""

META = {
    "text": "Fanout.tla states the property as a reference (a failing primary fails the operation; a failing secondary never does: result = "
            "merge of the primary and the secondaries that did not fail, nothing from a failed secondary, a warning for it; a Commit that "
            "returns nil reached every storage; a failed primary Commit means no secondary committed) next to a transcription of "
            "fanout.Querier/ChunkQuerier, mergeGenericQuerier.Select, the sync.Once all-or-nothing logic of secondaryQuerier, label queries "
            "and fanoutAppender.Append/Commit. TLC enumerates every configuration (contents of primary and secondaries x one failure "
            "injection point per storage x operation) and checks transcription against reference; each configuration is replayed into "
            "the real storage.NewFanout through Querier and ChunkQuerier (1 or 2 Selects before iteration), LabelNames/LabelValues and "
            "Appender/AppenderV2, with fake storages that wrap real TSDBs and fail at exactly the named point; returned series (which "
            "storages contributed, from the samples), Err, Warnings and the contents of the real storages after Commit are compared with "
            "the reference prediction carried in the case.",
    "note": "Bounded: 1 primary + 2 secondaries (3 in one small configuration), 2 label sets (3 thorough), at most 2 (3 thorough) failing "
            "storages, one failure point per storage out of {Querier(), Select, first Next, Next after j series, LabelNames/Values, Append, "
            "Commit}. Sample-iterator failures inside a series and Close errors are not injected. Which set carries a secondary's warning "
            "is not fixed (union over the query is compared). Outcomes after a secondary's Append/Commit failure are implementation-shaped "
            "(drift only). KF-C54-1 (a secondary's Querier() error failed fanout.Querier) is repaired by commit b4c7e21123 and now "
            "checked; open known finding KF-C54-2 (a secondary failing on a later Next is not discarded and fails the query).",
    "technique": "TLA+ reference + transcription (Fanout.tla) model-checked by TLC; TLC-enumerated configurations replayed into storage.NewFanout "
                 "over failure-injecting fakes wrapping real TSDBs",
    "design_ref": "DESIGN.md §5 C54, §7 H6",
    "level": "model_checking",
}


def run(ctx):
    q = ctx.quick
    from concurrent.futures import ThreadPoolExecutor
    cfgs = ["MC_quick.cfg", "MC_sec3.cfg"] if q else ["MC_big.cfg", "MC_big3.cfg", "MC_sec3.cfg"]
    with ThreadPoolExecutor(max_workers=len(cfgs)) as ex:
        futs = [ex.submit(ctx.tlc, "fanout", "Fanout", c, workers=6, timeout=3000) for c in cfgs]
        results = [f.result() for f in futs]
    cases = []
    for c, r in zip(cfgs, results):
        ctx.account(r)
        cases += r.emitted
        ctx.log("%s: %d generated / %d distinct, %d configurations, %.0fs" % (c, r.generated, r.distinct, len(r.emitted), r.wall))
    if not cases:
        import vlib
        raise vlib.Infra("no cases emitted")
    # evidence samples: one plain, one flagged with each known finding, one append
    def pick(pred):
        for c in cases:
            if pred(c):
                return c
        return cases[0]
    ctx.samples = [pick(lambda c: c["op"] == "query" and not c["kf"] and c["ref"]["warns"]),
                   pick(lambda c: c["op"] == "query" and c["nsel"] == 2 and not c["kf"] and c["ref"]["warns"]),
                   pick(lambda c: any(f["k"] == "querier" for f in c["fail"][1:]) and not c["kf"]), pick(lambda c: "KF_C54_2" in c["kf"]),
                   pick(lambda c: c["op"] == "labels" and c["ref"]["warns"]),
                   pick(lambda c: c["op"] == "append" and c["fail"][0]["k"] == "commit")]
    inp = ctx.write_ndjson("cases.ndjson", cases)
    gr = ctx.go_test("storage", ["c54_fanout_test.go"], "^TestVerifC54$", env={"VERIF_IN": inp}, timeout="40m")
    ctx.absorb(gr, label="C54 replay")
    ctx.assumptions += [
        "one failure injection point per storage and operation; storages fail deterministically at that point and work otherwise",
        "all Selects of a query are issued before the first returned set is iterated, sets are iterated to the end in Select order "
        "(Select after the first Next is documented to panic and is not exercised)",
        "real storages are TSDBs from util/teststorage shared between cases (queries are read-only; appends use case-unique series)",
        "bounded model (see META.note)",
    ]
    return ctx.finish(rule="every configuration (storage contents x failure point per storage x operation) of the bounded model, each replayed "
                           "through two entry points (Querier/ChunkQuerier, LabelNames/LabelValues, Appender/AppenderV2)", exhaustive=True)
