"""C18 — query sharding partitions series deterministically.
Postings.tla generates sharded Select cases (TLC checks the shard algebra), they are replayed through DB.Querier
on head / blocks / both and after a restart; the observed shard of every series and labels.StableHash under the
three build tags are validated by TLC against Trace_Shard.tla (one hash function of the label set)."""
import json
import os

META = {
    "text": "Postings.tla (shared with C16) adds ShardQuery(ms, n): Select with SelectHints.ShardIndex/ShardCount for every "
            "index below n in {1,2,3,5,16,64}; TLC checks that for any hash function the shards of a selection are pairwise "
            "disjoint and cover it, and generates the cases over six pattern stores (all series in the head, in a block, in both, "
            "in three containers, mixed, empty). The harness runs them on a tsdb.DB opened with EnableSharding (head postings use "
            "memSeries.shardHash, blocks use index.Reader.ShardedPostings), checks strictly that every shard answer is part of the "
            "unsharded answer, that no series is in two shards and none is missing, also after closing and reopening the DB (head "
            "rebuilt from the WAL), and records the shard of every returned series. labels.StableHash of every label set seen is "
            "recorded under the build tags stringlabels, slicelabels and dedupelabels (three ways of building the label set each). "
            "TLC validates the merged trace against Trace_Shard.tla: there must be one function H of the label set with every "
            "recorded hash = H(ls) and every observed shard = H(ls) % n (64-bit hashes handled as three 22-bit chunks).",
    "note": "Bounded: label sets over 2 names x {absent, x, y, 35-70 filler values}, 7 single-matcher selections, shard counts "
            "1,2,3,5,16,64 (the quantifier's 1..64 is sampled, not enumerated), one restart per group of queries. Sharding "
            "disabled in the head (Select must fail) and out-of-order data are not explored. Trusted: TLC, Json module.",
    "technique": "TLA+ model (Postings.tla) model-checked by TLC and replayed through tsdb.DB; recorded shard/hash trace validated by "
                 "TLC against Trace_Shard.tla",
    "design_ref": "DESIGN.md §5 C18",
    "level": "model_checking",
}

import importlib.util


def _c16():
    p = os.path.join(os.path.dirname(os.path.abspath(__file__)), "C16.py")
    spec = importlib.util.spec_from_file_location("check_C16_helpers", p)
    m = importlib.util.module_from_spec(spec)
    spec.loader.exec_module(m)
    return m


def run(ctx):
    import vlib
    q = ctx.quick
    mc = ctx.tlc("postings", "Postings", "MC_shard.cfg", workers=8, timeout=1800)
    ctx.account(mc)
    behs = [b for b in mc.emitted if b and b[-1].get("a") == "Shard"]
    retab = mc.tagged.get("@@RE", [None])[0]
    ctx.log("MC_shard: %d generated / %d distinct, %d sharded selections (%.0fs)" % (mc.generated, mc.distinct, len(behs), mc.wall))
    if not behs or retab is None:
        raise vlib.Infra("no behaviours emitted")
    if os.environ.get("VERIF_C18_CORRUPT") == "pred":
        for b in behs:
            if b[-1]["must"][0]:
                b[-1]["may"] = [x for x in b[-1]["may"] if x != b[-1]["must"][0][0]]
                ctx.log("binding self-test: one series removed from a predicted `may`")
                break
    groups = _c16().group_behaviours(behs)
    ctx.samples = [{"steps": g["steps"][:1], "query": g["queries"][0]} for g in (groups[0], groups[-1])]
    inp = ctx.write_ndjson("behaviours.ndjson", [{"kind": "re", "table": retab}] + groups)
    trace_db = ctx.tmp("trace_db.ndjson")
    lsets = ctx.tmp("lsets.ndjson")
    gr = ctx.go_test("tsdb", ["c16_postings_test.go"], "^TestVerifC18Replay$",
                     env={"VERIF_IN": inp, "VERIF_C18_TRACE": trace_db, "VERIF_C18_LSETS": lsets}, timeout="40m")
    ctx.absorb(gr, label="C18 sharded replay")
    if gr.by_kind("violation"):
        return ctx.finish(rule="sharded selections of the pattern stores", exhaustive=False)
    traces = [trace_db]
    for name, tags in (("stringlabels", "verif"), ("slicelabels", "verif,slicelabels"), ("dedupelabels", "verif,dedupelabels")):
        tp = ctx.tmp("trace_hash_%s.ndjson" % name)
        hr = ctx.go_test("model/labels", ["c18_hash_test.go"], "^TestVerifC18Hash$", tags=tags,
                         env={"VERIF_IN": lsets, "VERIF_C18_TRACE": tp}, out_name="result_hash_%s.ndjson" % name)
        ctx.absorb(hr, label="C18 StableHash " + name)
        traces.append(tp)
    # merged trace: all hash events first (the spec needs H before it can judge a shard event)
    events = []
    for tp in traces:
        with open(tp) as f:
            events += [json.loads(l) for l in f if l.strip()]
    hashes = [e for e in events if e["e"] == "hash"]
    shards = [e for e in events if e["e"] == "shard"]
    nraw = len(shards)
    # the same series is seen in the same shard by many selections: keep one event per (label set, n, index, source)
    uniq = {}
    for e in shards:
        uniq.setdefault((e["ls"], e["n"], e["i"], e["src"]), e)
    shards = list(uniq.values())
    if os.environ.get("VERIF_C18_CORRUPT") == "trace":
        shards[len(shards) // 2]["i"] = (shards[len(shards) // 2]["i"] + 1) % max(2, shards[len(shards) // 2]["n"])
        ctx.log("binding self-test: one logged shard index changed")
    if not shards or not hashes:
        raise vlib.Infra("empty trace")
    # ordered by label set, hash events first inside a group (Trace_Shard.tla keeps H of one label set at a time)
    ordered = sorted(hashes, key=lambda e: e["ls"]) + sorted(shards, key=lambda e: e["ls"])
    ordered.sort(key=lambda e: (e["ls"], 0 if e["e"] == "hash" else 1))
    merged = ctx.write_ndjson("trace.ndjson", ordered)
    tv = ctx.tlc("postings", "Trace_Shard", "Trace_Shard.cfg", deque=True, files={"trace.ndjson": merged},
                 allow_violation=True, timeout=3000)
    ctx.account(tv)
    ctx.log("trace validation: %d hash events, %d shard events, %d states (%.0fs)" % (len(hashes), len(shards), tv.distinct, tv.wall))
    if tv.violated:
        m = [l for l in tv.out.splitlines() if "bad = " in l and '"none"' not in l]
        detail = m[-1].strip() if m else tv.violated
        ctx.add_violation("recorded shard / StableHash trace rejected by Trace_Shard.tla (%s): %s" % (tv.violated, detail[:400]),
                          "trace:" + tv.violated, {"detail": detail[:2000]})
    elif tv.distinct < len(hashes) + len(shards):
        raise vlib.Infra("trace validation stopped early: %d states for %d events" % (tv.distinct, len(hashes) + len(shards)))
    ctx.extra["hash_events"] = len(hashes)
    ctx.extra["shard_events"] = len(shards)
    ctx.extra["shard_observations"] = nraw
    ctx.extra["label_sets"] = len({e["ls"] for e in hashes})
    ctx.assumptions += [
        "shard counts sampled: 1,2,3,5,16,64; label sets over 2 names x {absent,x,y,filler class}",
        "the hash is compared between build variants and with the observed shards, not with a fixed expected value",
        "one close/reopen of the DB per seven sharded selections (head rebuilt from the WAL)",
    ]
    return ctx.finish(rule="every (pattern store, single matcher, shard count) of MC_shard.cfg replayed; all recorded shard and hash "
                           "events validated against Trace_Shard.tla", exhaustive=False)
