"""C44 — alert state machine: Alerting.tla (transcription of AlertingRule.Eval / sendAlerts / Group.Eval appends /
RestoreForState / CopyState) checked by TLC against the property-level action properties Ref_*, and TLC-generated
behaviours replayed into the real rules.Group / rules.AlertingRule over a real TSDB head."""

META = {
    "text": "Alerting.tla transcribes the per-alert loop of AlertingRule.Eval, sendAlerts, the sample/stale-marker appends of "
            "Group.Eval, Group.RestoreForState, reload (CopyState with a changed for/keep_firing_for) and restart. TLC checks on every "
            "transition that the transcription implies the statement (pending from first active evaluation, firing exactly when held for "
            "`for`, pending dropped / firing resolved unless within keep_firing_for, retention of resolved alerts, ALERTS / ALERTS_FOR_STATE "
            "written only once restored with staleness markers, restore shift with outage tolerance and grace period). TLC-generated "
            "behaviours (one per branch/boundary class of two exhaustive configurations plus seeded random walks over a larger alphabet) "
            "carry the predicted alert map, ActiveAlerts, notified alerts and stored samples; each is replayed through the real Group.Eval "
            "/ RestoreForState / CopyState with a fake QueryFunc and a real TSDB head and compared after every step.",
    "note": "Bounded: <=2 label sets x 5 steps and 1 label set x 9 steps exhaustively (quick), 3 label sets x 22 steps by simulation; "
            "time is a grid of 300 s units (resolvedRetention = 3 units), non-negative unix times; one rule per group, query offset 0, "
            "no group limit; reload only after the restore has run; restart keeps the same TSDB instance (storage restart is not part of "
            "the property). KeepFiringSince / LastSentAt / ValidUntil mismatches are drift only.",
    "technique": "TLA+ transcription + reference action properties checked by TLC; TLC-generated behaviours replayed into rules.Group/AlertingRule",
    "design_ref": "DESIGN.md §5 C44",
    "level": "model_checking",
}


def run(ctx):
    import vlib
    q = ctx.quick
    behs = []
    from concurrent.futures import ThreadPoolExecutor
    d = 16 if q else 22
    # the three TLC runs are independent: run them side by side (class emission needs workers=1)
    with ThreadPoolExecutor(max_workers=3) as ex:
        f_mc = ex.submit(ctx.tlc, "alerting", "Alerting", "MC_quick.cfg", workers=1, timeout=900)
        f_one = ex.submit(ctx.tlc, "alerting", "Alerting", "MC_one.cfg", workers=1, timeout=900)
        f_sim = ex.submit(ctx.tlc, "alerting", "Alerting", "SIM.cfg", simulate=(25 if q else 400), depth=d + 3, workers=4,
                          constants={"MaxOps": d}, timeout=(100 if q else 1200))
        mc, one, sim = f_mc.result(), f_one.result(), f_sim.result()
    ctx.account(mc)
    behs += mc.emitted
    ctx.log("MC_quick: %d generated / %d distinct, %d class behaviours (%.0fs)" % (mc.generated, mc.distinct, len(mc.emitted), mc.wall))
    ctx.account(one)
    behs += one.emitted
    ctx.log("MC_one: %d generated / %d distinct, %d class behaviours (%.0fs)" % (one.generated, one.distinct, len(one.emitted), one.wall))
    ctx.account(sim)
    ctx.log("SIM: %d walks (%.0fs)" % (len(sim.emitted), sim.wall))
    behs += sim.emitted
    if not q:
        big = ctx.tlc("alerting", "Alerting", "MC_big.cfg", workers=4, timeout=3000)
        ctx.account(big)
        ctx.log("MC_big: %d generated / %d distinct (%.0fs)" % (big.generated, big.distinct, big.wall))
    if not behs:
        raise vlib.Infra("no behaviours emitted")
    ctx.samples = [behs[0], behs[len(behs) // 2], behs[-1]]
    import os
    if os.environ.get("VERIF_CORRUPT"):
        # binding self-test: falsify one predicted field of one behaviour; the check must then exit 1
        import copy
        b = copy.deepcopy(next(x for x in behs if any(s.get("a") == "Eval" and s.get("act") for s in x)))
        st = next(s for s in b if s.get("a") == "Eval" and s.get("act"))
        st["act"][0]["activeAt"] += 1
        behs = behs + [b]
        ctx.log("VERIF_CORRUPT: predicted activeAt of one alert falsified in an extra behaviour")
    inp = ctx.write_ndjson("behaviours.ndjson", behs)
    gr = ctx.go_test("rules", ["c44_alerting_test.go"], "^TestVerifC44Replay$", env={"VERIF_IN": inp})
    ctx.absorb(gr, label="C44 replay")
    ctx.assumptions += [
        "bounded model: 2 label sets x 5 steps (for in {0,3}) and 1 label set x 9 steps (for in {2,3}) exhaustively, keep_firing_for in {0,4}, grace 2, tolerance 6, "
        "steps {1,2,5} units, 1 reload, 1 restart; larger alphabet only by seeded simulation",
        "time grid of 300 s units at non-negative unix seconds; resolvedRetention = 3 units",
        "one alerting rule per group, query offset 0, no group limit, reload only after restore",
        "KeepFiringSince / LastSentAt / ValidUntil are compared as drift only",
    ]
    return ctx.finish(rule="one behaviour per branch/boundary class of the exhaustive runs + simulated walks; each replayed step compares "
                           "the alert map, ActiveAlerts, notified alerts and the samples stored at the evaluation time", exhaustive=False)
