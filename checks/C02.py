"""C02 — append admission and commit ordering: Db.tla restricted to appender actions."""
import random

META = {
    "text": "Db.tla transcribes the head's admission table (memSeries.appendable*, the window snapshot taken at Appender(), the v1 "
            "DiscardOutOfOrder / v2 RejectOutOfOrder options, batch cutting and stale-marker re-typing) and the commit-time re-check in "
            "append order. TLC explores all transaction sequences of the bounded configs (one series / OOO off, one series / OOO on with "
            "both options and both appender interfaces, two series x two interleaved appenders) checking that only pending samples of a "
            "committing appender are ever stored, and emits a witness per admission/commit coverage class and per distinct post-commit "
            "state plus seeded random walks over a larger alphabet (3 sample types, negative times). Every behaviour is replayed on a real "
            "tsdb.DB: the error class of every Append and the query result after every Commit/Rollback must equal the spec's prediction.",
    "note": "Bounds: <=2 series, <=2 appenders used sequentially (interleaved creation, no concurrent goroutines), 4-11 time points, "
            "<=2-4 pending samples per transaction, histories <=8 steps exhaustively / 18-30 by simulation. Time is concretised as "
            "unit*(t+R*k) with several units and offsets incl. negative; values/histograms by symbol. Staleness markers are compared as "
            "markers irrespective of the chunk type that carries them.",
    "technique": "TLA+ model of head admission/commit (Db.tla) checked by TLC; TLC-generated transaction histories replayed into tsdb.DB",
    "design_ref": "DESIGN.md §5 C02",
}


def run(ctx):
    q = ctx.quick
    rnd = random.Random(ctx.seed)
    behs = []
    for cfg, take in (("MC_c02_a.cfg", 400), ("MC_c02_b.cfg", 600), ("MC_c02_c.cfg", 0)):
        if not ctx.want(cfg[7]):
            continue
        mc = ctx.tlc("db", "Db", cfg, workers=8, timeout=1500)
        ctx.account(mc)
        cls = mc.emitted
        st = mc.tagged.get("@@TS", [])
        if q and len(st) > take:
            st = rnd.sample(st, take)
        ctx.log("%s: %d generated / %d distinct; %d class witnesses, %d post-commit state witnesses used"
                % (cfg, mc.generated, mc.distinct, len(cls), len(st)))
        behs += cls + st
    if ctx.want("d"):
        # two interleaved appenders with the out-of-order window on, from a preloaded head: every transition is emitted;
        # histories ending in a Commit contain all others as prefixes
        mc = ctx.tlc("db", "Db", "MC_c02_d.cfg", workers=8, timeout=1500)
        ctx.account(mc)
        fin = [b for b in mc.emitted if b[-1]["a"] == "Commit"]
        ctx.log("MC_c02_d.cfg: %d generated / %d distinct; %d histories ending in Commit" % (mc.generated, mc.distinct, len(fin)))
        behs += fin
    d = 18 if q else 30
    for w in (0, 3):
        if not ctx.want("sim"):
            continue
        sim = ctx.tlc("db", "Db", "SIM_c02.cfg", simulate=(25 if q else 1500), depth=6 * d, workers=8,
                      constants={"MaxOps": d, "W": w}, timeout=(200 if q else 1500))
        ctx.account(sim)
        behs += sim.emitted
        ctx.log("SIM W=%d: %d walks" % (w, len(sim.emitted)))
    ctx.samples = [behs[0], behs[len(behs) // 2], behs[-1]]
    inp = ctx.write_ndjson("behaviours.ndjson", behs)
    gr = ctx.go_test("tsdb", ["db_replay_test.go"], "^TestVerifDbReplay$", env={"VERIF_IN": inp, "VERIF_MODE": "c02"})
    ctx.absorb(gr, label="C02 replay")
    ctx.assumptions += [META["note"]]
    return ctx.finish(rule="coverage-class + post-commit-state witnesses of 3 exhaustive configs and seeded simulated walks; every "
                           "Append error class and every post-commit query result compared with the spec", exhaustive=False)
