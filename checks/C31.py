"""C31 — native histogram arithmetic: Hist.tla (reference with integer counts) checked by TLC on libraries of
histogram pairs, pair records and simulated operation chains replayed into model/histogram."""

META = {
    "text": "Hist.tla is an exact (integer count) reference of native histogram arithmetic: zero-bucket widening to the common "
            "threshold, resolution reduction by index arithmetic, bucket-wise Add/Sub (custom buckets on the intersection of their "
            "bounds), Compact/ToFloat as identities on bucket totals, and DetectReset as the disjunction of the property statement. "
            "TLC checks on every enumerated pair that the sums preserve totals, commute, land on the lower resolution and wider zero "
            "bucket, that growth is never a reset, and that the code's order of steps (transcribed as *Impl) equals the reference "
            "except under an explicit known-finding predicate. Every pair record (with predicted Add/Sub/KahanAdd/ReduceResolution "
            "results and DetectReset answers both ways) and seeded random operation chains over a larger alphabet are replayed into "
            "the real FloatHistogram/Histogram methods and compared bucket by bucket through the real iterators.",
    "note": "Bounded: model schemas -1..2 (shifted to real schemas -4..8 by the harness), <=2 populated buckets per side per operand "
            "in the exhaustive libraries, <=4 per register in simulated chains, 3-4 custom bounds, counts are small integers times an "
            "exact scale. Non-integer float counts, Kahan compensation terms and float rounding are not modelled. Span layouts, index "
            "offsets, thresholds and custom bound values are concretised by the harness (seeded).",
    "technique": "TLA+ reference model (Hist.tla) checked by TLC; TLC-generated pair records and walks replayed into model/histogram",
    "design_ref": "DESIGN.md §5 C31",
    "level": "model_checking",
}


def _corrupt(behs, how):
    """Binding self-test (CONVENTIONS 'corrupt one predicted field'): VERIF_CORRUPT=add|reset|reduce|state."""
    import copy
    for k, b in enumerate(behs):
        for st in b:
            if how == "add" and isinstance(st.get("wAdd"), dict) and st["wAdd"]["p"] and not st.get("wKf"):
                st["wAdd"] = copy.deepcopy(st["wAdd"]); st["wAdd"]["p"][0][1] += 1
                return k
            if how == "reset" and st.get("rAB") in ("reset", "no") and not st.get("iAB"):
                st["rAB"] = "no" if st["rAB"] == "reset" else "reset"
                return k
            if how == "reduce" and st.get("wRed"):
                st["wRed"] = copy.deepcopy(st["wRed"]); st["wRed"][0][1]["cnt"] += 1
                return k
            if how == "state" and st.get("op") in ("Add", "Sub", "Reduce") and not st.get("err") and not st.get("kf"):
                st["A"] = copy.deepcopy(st["A"]); st["A"]["zc"] += 1
                return k
    raise RuntimeError("nothing to corrupt")


def run(ctx):
    import json
    import os
    q = ctx.quick
    cache = os.environ.get("VERIF_C31_CACHE")      # mutation-testing aid: reuse the TLC output of a previous run
    if cache and os.path.exists(cache):
        return _replay(ctx, [json.loads(l) for l in open(cache)], 1, cached=True)
    behs = []
    for cfg in ("MC_quick.cfg", "MC_zero.cfg", "MC_cb.cfg"):
        mc = ctx.tlc("hist", "HistMC", cfg, workers=8, timeout=900)
        ctx.account(mc)
        ctx.log("%s: %d generated / %d distinct, %d pair records" % (cfg, mc.generated, mc.distinct, len(mc.emitted)))
        behs += mc.emitted
    nmc = len(behs)
    if not q:
        big = ctx.tlc("hist", "HistMC", "MC_big.cfg", timeout=3000, heap="12g")
        ctx.account(big)
        ctx.log("MC_big: %d generated / %d distinct (check only)" % (big.generated, big.distinct))
    d = 9 + (12 if q else 20)
    sim = ctx.tlc("hist", "HistMC", "SIM.cfg", simulate=(20 if q else 1500), depth=d + 3, workers=8,
                  constants={"MaxOps": d}, timeout=(100 if q else 1500))
    ctx.account(sim)
    ctx.log("SIM: %d walks of %d steps" % (len(sim.emitted), d))
    behs += sim.emitted
    if not behs or not sim.emitted:
        import vlib
        raise vlib.Infra("no behaviours emitted")
    if cache:
        with open(cache, "w") as f:
            for b in behs:
                f.write(json.dumps(b, separators=(",", ":")) + "\n")
    return _replay(ctx, behs, nmc)


def _replay(ctx, behs, nmc, cached=False):
    import os
    if cached:
        ctx.states = ctx.transitions = len(behs)
        ctx.assumptions.append("TLC output reused from VERIF_C31_CACHE (mutation-testing aid, not a registered run)")
    how = os.environ.get("VERIF_CORRUPT")
    if how:
        k = _corrupt(behs, how)
        ctx.log("binding self-test: corrupted predicted field (%s) of behaviour %d" % (how, k))
    ctx.samples = [behs[0], behs[nmc // 2], behs[-1]]
    inp = ctx.write_ndjson("behaviours.ndjson", behs)
    gr = ctx.go_test("model/histogram", ["c31_hist_test.go"], "^TestVerifC31Replay$", env={"VERIF_IN": inp})
    ctx.absorb(gr, label="C31 replay")
    ctx.assumptions += [
        "integer counts only (exact reference); float rounding and Kahan compensation terms not modelled",
        "exhaustive libraries: <=2 populated buckets per side (A) / <=2 or 1 (B), model schemas 0..2, thresholds {0, on a fine "
        "boundary, inside a fine bucket, on a coarse boundary}; larger alphabet (schemas -1..2, negative buckets, 13 thresholds, "
        "integer histograms, custom buckets) only by seeded simulation",
        "counter reset hints Unknown/Gauge only (CounterReset/NotCounterReset shortcuts of DetectReset are not explored)",
    ]
    return ctx.finish(rule="every pair of the exhaustive libraries (one record per pair with what-if predictions) + seeded simulated "
                           "operation chains; each step compares both registers bucket-wise and DetectReset both ways",
                      exhaustive=False)
