"""C09 — retention and removal of superseded blocks: Retention.tla (transcription of reloadBlocks /
deletableBlocks / BeyondTimeRetention / BeyondSizeRetention + reference predicate RetentionOK) checked by
TLC; generated behaviours replayed into a real DB directory; differing outcomes judged by Trace_Retention.tla."""

META = {
    "text": "Retention.tla models the data directory under DB.reloadBlocks: blocks written by head compaction, children written by "
            "compaction with their parents still present, parents flagged deletable by an empty compaction, tmp-dir residue of a crash "
            "inside a block write, a crash inside deleteBlocks, changed retention settings, Reload and Open. TLC checks on every "
            "reachable state that a successful reload leaves exactly what the property demands (reference predicate RetentionOK: "
            "time-expired blocks, longest newest-first run of the live blocks within MaxBytes/percentage including the head size (superseded "
            "parents are not counted: fix ad17dfe350), superseded and "
            "flagged blocks removed, never a block newer than a retained one), idempotence, head untouched, tmp dirs gone after Open. "
            "Behaviours (a few per coverage class of every Reload/Reopen transition + seeded walks) are replayed into a real DB: block "
            "directories are real blocks whose Block.Size() is controlled to the byte, the head size is real WAL data, limits hit "
            "thresholds exactly; DB.Blocks() and the directory listing are compared after every reload; outcomes that differ from the "
            "transcription are judged by Trace_Retention.tla with the same RetentionOK.",
    "note": "Bounded: <=3-4 blocks created per exhaustive configuration (8 by simulation), 2-3 size classes, MaxTime ties, head size 0 or "
            "one unit. Blocks are copies of one real block with rewritten meta.json (sample times do not match the meta time range, "
            "which reloadBlocks never looks at). The sort in deletableBlocks is taken to be stable (true for <=12 blocks). Corruption = "
            "missing index file only.",
    "technique": "TLA+ transcription + reference predicate (Retention.tla/RetentionOps.tla) checked by TLC; TLC-generated behaviours "
                 "replayed into tsdb.DB (reloadBlocks, Open) on real block directories; trace validation of differing outcomes "
                 "(Trace_Retention.tla)",
    "design_ref": "DESIGN.md §5 C09",
    "level": "model_checking",
}

import json
import os
import random


def run(ctx):
    import vlib
    q = ctx.quick
    per_class = 1 if q else 3
    rnd = random.Random(ctx.seed)
    behs = []
    for cfg in ["MC_time.cfg", "MC_size.cfg", "MC_pct.cfg", "MC_quick.cfg"]:
        mc = ctx.tlc("retention", "Retention", cfg, workers=4, timeout=900)
        ctx.account(mc)
        by = {}
        for r in mc.emitted:
            by.setdefault(json.dumps(r["cl"]), []).append(r["h"])
        n = 0
        for k in sorted(by):
            v = by[k]
            rnd.shuffle(v)
            behs += v[:per_class]
            n += len(v[:per_class])
        ctx.log("%s: %d generated / %d distinct, %d reload transitions in %d classes, %d behaviours kept (%.0fs)"
                % (cfg, mc.generated, mc.distinct, len(mc.emitted), len(by), n, mc.wall))
    if not q:
        big = ctx.tlc("retention", "Retention", "MC_big.cfg", workers=8, timeout=3000)
        ctx.account(big)
        ctx.log("MC_big: %d generated / %d distinct (%.0fs)" % (big.generated, big.distinct, big.wall))
    d = 12 if q else 16
    sim = ctx.tlc("retention", "Retention", "SIM.cfg", simulate=(10 if q else 60), depth=d + 3, workers=4,
                  constants={"MaxOps": d}, timeout=(120 if q else 900))
    ctx.account(sim)
    walks = [r["h"] for r in sim.emitted]
    ctx.log("SIM: %d walks" % len(walks))
    behs += walks
    if not behs:
        raise vlib.Infra("no behaviours emitted")
    ctx.samples = [behs[len(behs) // 3], behs[-1]]
    if os.environ.get("VERIF_C09_CORRUPT"):
        # binding self-test (notes/C09.md): drop one directory from one predicted outcome -> the check must exit 1
        import copy
        for k, b in enumerate(behs):
            st = [i for i, s in enumerate(b) if s["a"] == "Reload" and len(s["obs"]["dirs"]) >= 2 and s["obs"]["legal"] == "ok"]
            if st:
                behs[k] = copy.deepcopy(b)
                o = behs[k][st[0]]["obs"]
                gone = o["dirs"][0]
                o["dirs"] = o["dirs"][1:]
                o["blocks"] = [x for x in o["blocks"] if x != gone]
                ctx.log("CORRUPTED behaviour %d step %d: block %d removed from the predicted outcome" % (k, st[0], gone))
                break
    inp = ctx.write_ndjson("behaviours.ndjson", behs)
    trace = ctx.tmp("c09_trace.ndjson")
    gr = ctx.go_test("tsdb", ["c09_retention_test.go"], "^TestVerifC09Retention$", env={"VERIF_IN": inp, "VERIF_C09_TRACE": trace}, timeout="60m")
    ctx.absorb(gr, label="C09 replay")
    ntr = sum(1 for _ in open(trace)) if os.path.exists(trace) else 0
    if ntr:
        tv = ctx.tlc("retention", "Trace_Retention", "Trace.cfg", deque=True, files={"trace.ndjson": trace}, timeout=900)
        ctx.account(tv)
        cases = {}
        for line in open(trace):
            c = json.loads(line)
            cases[c["n"]] = c
        bad = tv.tagged.get("@@BAD", [])
        for b in bad:
            c = cases.get(b["n"], {})
            sig = "illegal-reload:" + b["reason"]
            ctx.add_violation("behaviour %s step %s: the real reload left %s: %s" % (c.get("beh"), c.get("step"), b["after"], b["reason"]), sig, c)
        ctx.log("Trace_Retention: %d real reload outcomes judged, %d illegal" % (ntr, len(bad)))
        if tv.distinct < ntr:
            raise vlib.Infra("Trace_Retention judged only %d of %d outcomes" % (tv.distinct, ntr))
    ctx.assumptions += [
        "bounded model (see specs/retention/*.cfg); larger alphabets only by seeded simulation",
        "block = copy of one real block with rewritten, padded meta.json; Block.Size() exact; head size = real WAL bytes",
        "slices.SortFunc in deletableBlocks/reloadBlocks assumed stable (insertion sort for <= 12 blocks); order of DB.Blocks() among equal MinTime is drift-only",
        "reload error vs no error with identical directory outcome is drift-only",
    ]
    return ctx.finish(rule="up to %d behaviours per coverage class of every Reload/Reopen transition of the exhaustive configurations "
                           "(seeded choice) + seeded walks; every reload outcome compared" % per_class, exhaustive=False)
