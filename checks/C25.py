"""C25 — head chunks on disk: HeadChunks.tla (ChunkDiskMapper + asynchronous write queue) model-checked over all
interleavings of writer and queue worker; interleavings forced on the real worker goroutine; torn-tail sweep."""

META = {
    "text": "HeadChunks.tla models ChunkDiskMapper with its chunk write queue: WriteChunk takes the reference from the eventual position "
            "and enqueues, the worker pops / cuts a file / writes into the buffer and chunkBuffer / removes the job from chunkRefMap, "
            "CutNewFile, Truncate, Close+reopen with IterateAllChunks; Chunk(ref) is a state function transcribing the lookup order "
            "(pending job, chunkBuffer, m-mapped file). TLC checks over every interleaving that each chunk handed to WriteChunk and not "
            "truncated reads back (ReadYourWrite), that references equal the final file positions, that cut() produces the promised file, "
            "that a clean restart iterates exactly the written, retained chunks in write order and that Truncate(n) removes only older "
            "files (the model includes the fix of KF-C25-1: Truncate keeps the newest file while no file is open for writing). One "
            "behaviour per distinct state (plus seeded walks of a larger alphabet) is replayed on a real ChunkDiskMapper whose worker "
            "goroutine is parked at the verifhook sites; after every step every live chunk is read back and compared byte for byte; at "
            "restarts the iteration sequence and per-chunk metadata are compared and the newest file is cut at every offset and reopened "
            "(outcome per offset class predicted by the spec's torn-tail table).",
    "note": "Bounds: quick 4 chunks (one larger than the write buffer), queue size 2, 1 cut/truncate/restart exhaustively (one behaviour per "
            "state), walks with 7 chunks; thorough 5 chunks, 2 cuts/truncates/restarts (22k states, a seeded third replayed). File-size based cuts, pre-flush of a "
            "half-full buffer and histogram chunks are not modelled; torn header (4-7 bytes of an 8-byte header) excluded from the sweep; "
            "sweep runs on a seeded sample of the restarts. Trusted: hook placement, TLC, harness.",
    "technique": "TLA+ model (HeadChunks.tla) checked by TLC over all interleavings; TLC-generated interleavings replayed on the real "
                 "ChunkDiskMapper with the queue worker gated by verifhook sites; fault sweep over every truncation offset of the newest file",
    "design_ref": "DESIGN.md §5 C25, §4 chunks/HeadChunks.tla",
    "level": "model_checking",
}


def run(ctx):
    import vlib
    from concurrent.futures import ThreadPoolExecutor
    q = ctx.quick
    with ThreadPoolExecutor(max_workers=4) as ex:
        f_mc = ex.submit(ctx.tlc, "headchunks", "HeadChunks", "MC_quick.cfg" if q else "MC_big.cfg", workers=4, timeout=1800)
        f_sim = ex.submit(ctx.tlc, "headchunks", "HeadChunks", "SIM.cfg", simulate=(25 if q else 500), depth=90, workers=4,
                          timeout=(300 if q else 1500))
        mc, sim = f_mc.result(), f_sim.result()
    for r in (mc, sim):
        ctx.account(r)
    ctx.log("MC: %d generated / %d distinct, %d behaviours (%.0fs); SIM %d walks"
            % (mc.generated, mc.distinct, len(mc.emitted), mc.wall, len(sim.emitted)))
    states = list(mc.emitted)
    if not q:
        # 22k states: replay a seeded third of them (the quick tier replays every state of its smaller model)
        states = [b for i, b in enumerate(states) if (i + ctx.seed) % 3 == 0]
    behs = states + list(sim.emitted)
    if not behs:
        raise vlib.Infra("no behaviours emitted")
    ctx.samples = [behs[len(behs) // 2], behs[-1]]
    inp = ctx.write_ndjson("behaviours.ndjson", behs)
    gr = ctx.go_test("tsdb/chunks", ["c25_headchunks_test.go"], "^TestVerifC25Replay$", env={"VERIF_IN": inp}, timeout="40m")
    ctx.absorb(gr, label="C25 replay")
    if not gr.by_kind("done"):
        # vlib.absorb tolerates a missing done record when violation records exist (known findings always produce one)
        raise vlib.Infra("harness C25 replay did not finish (no done record):\n%s" % gr.out[-3000:])
    ctx.assumptions += [
        "bounded model: <=5 chunks exhaustively (7 by simulation), queue size 2-3, write buffer 64 KiB, chunks either tiny or larger than the buffer",
        "KF-C25-1 (cut() sequence mismatch after Truncate deleted every file under a queued job) is fixed; the model transcribes the fixed Truncate and NoMismatch is an invariant",
        "torn-tail sweep: offsets 4..7 (partial file header) excluded; the whole newest file is dropped by DeleteCorrupted after a CorruptionErr",
    ]
    return ctx.finish(rule="one behaviour per distinct state of the exhaustive model + seeded walks; after every step all live chunks are read "
                           "back; restart iteration and a seeded sample of torn-tail sweeps", exhaustive=False)
