"""C04 — damaged on-disk data never yields wrong samples: Damage.tla (Crash.tla's file model + byte classes of the log
files) checked by TLC; every byte class enumerated over the concrete offsets of the real files, damaged copies reopened."""
import random

META = {
    "text": "Damage.tla extends Crash.tla (Db.tla workloads and the files they leave: WAL/WBL segments as record lists, newest "
            "checkpoint, blocks). After a clean Close one file is damaged: the byte-class view of a log file is records framed as "
            "type/len/crc/payload (two fragments for a record larger than a page) plus page padding; Eff gives for every region "
            "class and damage kind (truncate, flip, zero) whether the record holding the byte becomes unreadable. TLC checks on every "
            "closed database of the bounded configs that whatever record a log ends before, the recovered contents are a subset of "
            "what was ever written (NeverInvents), block data never depends on the WAL (BlocksSafe) and the undamaged directory gives "
            "exactly the committed set (Undamaged, FilesAgree), and emits per workload the table: file x first-lost-record -> contents "
            "the property demands (must: blocks + each log to its first damaged record, undamaged logs in full; may: + intact head "
            "chunks). The harness builds the real directory, parses the real WAL/WBL/checkpoint segments and the newest head-chunk "
            "file into those classes (checking the real record kinds against the model's), and for every class enumerates byte "
            "offsets (all in the thorough tier), damages a copy, reopens: a failing Open must leave every undamaged file untouched "
            "(content hash), a succeeding one must return must <= contents <= may with the written values, accept new appends and "
            "keep them over a clean restart.",
    "note": "Single-byte damage or truncation of one file at a time: newest non-empty WAL and WBL segment, the newest checkpoint's "
            "segment, the newest head-chunk file. Workloads as in C03 (<=2 series, one with a >32 KiB label set, scripted scenarios "
            "with restarts, checkpoints, deletes, out-of-order data; one single-series scenario with four m-mapped out-of-order chunks in "
            "one head-chunk file). Quick tier samples offsets inside payload/padding regions "
            "(ends, middle, seeded stride) and uses 4 databases; thorough: every offset. Equality with the prediction is checked up "
            "to the samples that intact head chunks may legitimately add (must <= contents <= may).",
    "technique": "TLA+ model of the on-disk layout and recovery (Damage.tla over Crash.tla/Db.tla) checked by TLC; TLC-generated "
                 "(database, damage class -> required contents) tables swept over concrete byte offsets of real files",
    "design_ref": "DESIGN.md §5 C04, §7 H3",
}

# script of Crash.tla, out-of-order window, extra constants
SCRIPTS = [("d1", 5, {}), ("s1", 0, {}), ("s2", 0, {}), ("s3", 5, {}), ("d2", 20, {"Series": '{"s1"}'})]


def run(ctx):
    q = ctx.quick
    rnd = random.Random(ctx.seed)
    files = {n: ctx.path("specs", "crash", n) for n in ("Crash.tla", "Db.tla", "PlannerOps.tla")}
    for cfg in (["MC_quick.cfg"] if q else ["MC_quick.cfg", "MC_big.cfg"]):
        if not ctx.want(cfg[:-4]):
            continue
        mc = ctx.tlc("damage", "Damage", cfg, workers=4 if q else 8, files=files, timeout=3000)
        ctx.account(mc)
        ctx.log("%s: %d generated / %d distinct" % (cfg, mc.generated, mc.distinct))
    behs = []
    scripts = SCRIPTS
    if q and not ctx._parts:
        scripts = SCRIPTS[:2] + [SCRIPTS[2 + ctx.seed % 2], SCRIPTS[4]]     # quick: d1, s1, d2 and one of s2 / s3 by seed
    for name, w, extra in scripts:
        if not ctx.want(name):
            continue
        sim = ctx.tlc("damage", "Damage", "SIM.cfg", simulate=(1 if q else 2), depth=4000, workers=1 if q else 2, files=files,
                      constants=dict({"ScriptName": '"%s"' % name, "W": w}, **extra), timeout=(300 if q else 3000))
        ctx.account(sim)
        ctx.log("SIM %s: %d databases" % (name, len(sim.emitted)))
        behs += sim.emitted
    if not behs:
        import vlib
        raise vlib.Infra("no behaviours emitted")
    ctx.samples = [[{k: v for k, v in s.items() if k != "exp"} for s in behs[0][:10]],
                   {"file": "wal", "kinds": behs[0][-1]["wal"]["kinds"], "cut1": behs[0][-1]["wal"]["cut"][0]["must"],
                    "eff": behs[0][-1]["eff"][:6]}]
    import os
    if os.environ.get("VERIF_CORRUPT"):      # binding self-test: corrupt one predicted field -> must exit 1
        d = behs[0][-1]                        # the contents required when the WAL ends before its last record lose their newest sample too many
        k = max(0, len(d["wal"]["cut"]) - 2)
        must = d["wal"]["cut"][k]["must"]
        s = [x for x in must if must[x]][0]
        ctx.log("VERIF_CORRUPT: wal cut %d: requiring an extra sample in %s" % (k + 1, s))
        must[s] = must[s] + [{"t": 99, "alts": [{"v": 1, "ty": "f"}]}]
    inp = ctx.write_ndjson("behaviours.ndjson", behs)
    gr = ctx.go_test("tsdb", ["c03_dbhelpers_test.go", "c03_crash_test.go", "c04_damage_test.go"],
                     "^TestVerifC04Damage$", env={"VERIF_IN": inp}, timeout="120m")
    import vlib
    try:
        ctx.absorb(gr, label="C04 damage sweep")
    except vlib.Infra:
        # tsdb's TestMain runs goleak: an Open that fails in wal.Repair (KF-C04-2) leaves the WL.run goroutine of the WAL behind,
        # which makes the test binary exit 1 after our test has passed and written its records. Not a verdict of this check.
        if "found unexpected goroutines" in gr.out and gr.by_kind("done") and "wlog.(*WL).run" in gr.out:
            ctx.log("note: goleak reports WL.run goroutines leaked by failed Opens (product leak on the failed-open path); ignored")
            ctx.extra["goroutines_leaked_by_failed_open"] = gr.out.count("wlog.(*WL).run on top of the stack")
        else:
            raise
    ctx.assumptions += [META["note"]]
    return ctx.finish(rule="per generated database every (file, record, region class, damage kind) of Damage.tla, concretised to byte "
                           "offsets of the real files (region ends, middle and a seeded stride in the quick tier; every offset in the "
                           "thorough tier); each damaged copy reopened, queried, appended to and reopened again", exhaustive=False)
