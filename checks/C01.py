"""C01 — queries return exactly the committed, undeleted samples: Db.tla with the whole action set."""
import random

META = {
    "text": "Db.tla models the head (in-order chunks, out-of-order head chunk and m-mapped OOO chunks, head tombstones, what a WAL replay "
            "restores), persisted blocks, the head-compaction loop of DB.Compact with the minTime/minValidTime adjustment after GC, "
            "out-of-order compaction, deletion, tombstone cleaning and close/reopen, together with the ghost set of committed-and-"
            "undeleted samples. TLC checks exhaustively on the bounded configs that the physical layout always yields exactly the ghost "
            "set (C01_Exact) and emits witnesses (coverage classes, distinct post-mutation states, seeded random walks with negative "
            "times and three sample types). Each is replayed on a real tsdb.DB (temp dir, scaled block range / chunk size / OOO cap) and "
            "after every mutating step the sample querier and the chunk querier over the full range and three sub-ranges must return "
            "exactly the predicted samples; Append error classes are checked on the way.",
    "note": "Bounds: <=2 series, <=2 sequential appenders, 5-12 time points over 3-4 block ranges incl. negative ones, histories <=9 "
            "steps exhaustively / <=30 by simulation; configurations (isolation on/off, XOR/XOR2, ST storage, snapshot on shutdown, time "
            "unit and offset) are cycled by seed in the concretisation. Block-level compaction planning is abstracted as content-"
            "preserving here (C07/C08 decide it); retention is off.",
    "technique": "TLA+ model of the TSDB (Db.tla) with ghost committed set, checked by TLC; TLC-generated histories replayed into tsdb.DB",
    "design_ref": "DESIGN.md §5 C01",
}

CFGS = [("MC_c01_a.cfg", "a", 400), ("MC_c01_b.cfg", "b", 400), ("MC_c01_c.cfg", "c", 400), ("MC_c01_e.cfg", "e", 400)]


def model_cex(ctx, e, mode):
    """A counterexample of the model alone: replay its history on the real code. If the code shows the same loss /
    resurrection it is a genuine violation (reported through the usual channel); otherwise the model is wrong (exit 2)."""
    import vlib
    if not e.res.cex or "hist" not in e.res.cex[-1]:
        raise e
    beh = e.res.cex[-1]["hist"]
    inp = ctx.write_ndjson("cex.ndjson", [beh])
    gr = ctx.go_test("tsdb", ["db_replay_test.go"], "^TestVerifDbReplay$", env={"VERIF_IN": inp, "VERIF_MODE": mode}, out_name="cex-result.ndjson")
    bad = gr.by_kind("violation") + gr.by_kind("deviation")
    if not bad:
        raise vlib.Infra("TLC counterexample (%s) does not reproduce on the real code: the model is wrong.\n%s"
                         % (e.res.violated, json_dumps(beh)[:3000]))
    ctx.log("model counterexample (%s) REPRODUCES on the real code" % e.res.violated)
    ctx.states += max(1, e.res.distinct)
    ctx.transitions += max(1, e.res.generated)
    ctx.samples = [beh]
    ctx.absorb(gr, label="counterexample replay")
    return ctx.finish(rule="model counterexample replayed on the code")


def json_dumps(x):
    import json
    return json.dumps(x)


def run(ctx):
    import vlib
    try:
        return run2(ctx)
    except vlib.ModelViolation as e:
        return model_cex(ctx, e, "c01")


def run2(ctx):
    q = ctx.quick
    rnd = random.Random(ctx.seed)
    behs = []
    cfgs = list(CFGS)
    if not q or "f" in ctx._parts:
        # thorough only (minutes): out-of-order data, OOO compaction, partial delete of the OOO block, CleanTombstones, restart
        cfgs.append(("MC_c01_f.cfg", "f", 100000))
    for cfg, part, take in cfgs:
        if not ctx.want(part):
            continue
        mc = ctx.tlc("db", "Db", cfg, workers=8, timeout=1800)
        ctx.account(mc)
        st = mc.tagged.get("@@TS", [])
        if q and len(st) > take:
            st = rnd.sample(st, take)
        ctx.log("%s: %d generated / %d distinct; %d class witnesses, %d state witnesses used"
                % (cfg, mc.generated, mc.distinct, len(mc.emitted), len(st)))
        behs += mc.emitted + st
    # thorough: the quick tier's walk shape for six consecutive TLC seeds (deeper / more numerous random walks reach corners
    # where Db.tla's restart = WAL replay no longer describes a snapshot restart: see DESIGN.md 9.2b)
    d = 20
    seeds = [ctx.seed] if q else [ctx.seed + i for i in range(6)]
    for w, off, sd in [(w, off, sd) for sd in seeds for (w, off) in ((0, 6), (5, 0))]:   # negative times with OOO + compaction only in the exhaustive configs (see KF-C20-8)
        if not ctx.want("sim"):
            continue
        ctx.tlc_seed = sd
        sim = ctx.tlc("db", "Db", "SIM_c01.cfg", simulate=25, depth=6 * d, workers=8,
                      constants={"MaxOps": d, "W": w, "TOff": off}, timeout=(300 if q else 2400))
        ctx.account(sim)
        behs += sim.emitted
        ctx.log("SIM W=%d TOff=%d seed=%d: %d walks" % (w, off, sd, len(sim.emitted)))
    ctx.tlc_seed = None
    if ctx.want("simkf"):
        # walks that may trigger the known findings of the deletion / restart family: their own mismatches are reported under
        # their ids, anything else (e.g. a *different* loss after the same trigger) is a violation
        sim = ctx.tlc("db", "Db", "SIM_c01_kf.cfg", simulate=15, depth=6 * d, workers=8,
                      constants={"MaxOps": d, "W": 5, "TOff": 0}, timeout=(300 if q else 2400))
        ctx.account(sim)
        behs += sim.emitted
        ctx.log("SIM (known-finding triggers allowed): %d walks" % len(sim.emitted))
    ctx.samples = [behs[0], behs[len(behs) // 2], behs[-1]]
    inp = ctx.write_ndjson("behaviours.ndjson", behs)
    gr = ctx.go_test("tsdb", ["db_replay_test.go"], "^TestVerifDbReplay$", env={"VERIF_IN": inp, "VERIF_MODE": "c01"}, timeout="30m")
    ctx.absorb(gr, label="C01 replay")
    ctx.assumptions += [META["note"]]
    return ctx.finish(rule="coverage-class and distinct-state witnesses of the exhaustive configs plus seeded simulated walks; after every "
                           "mutating step both queriers over 4 ranges are compared with the spec's committed-and-undeleted set",
                      exhaustive=False)
