"""C27 — a range query equals instant queries at each step; offset law.

RangeQuery.tla generates (store, vector expression, start/end/step) cases; the reference RangeEval is by
definition the instant evaluation at each step, and TLC checks that the transcription of the engine's one-pass
range evaluation (PromqlEngine!ImplRangeQuery) and of its instant evaluation both equal it. Every case is run
on a real promql.Engine as one range query and as instant queries at each step, which must agree."""
import os

META = {
    "text": "PromqlEval.tla defines RangeEval(e, start, end, step)[k] = Eval(e, start + k*step). RangeQuery.tla builds stores (irregular "
            "spacing, gaps, staleness markers, NaN/Inf, native histograms) and vector-typed expressions (selectors, range functions over "
            "range selectors and subqueries, timestamp(), offsets, @ fixed times, nesting) with start/end/step (steps smaller and larger "
            "than spacing and ranges, unaligned ends). TLC checks on every case that the transcription of the engine's one-pass range "
            "evaluation (one memoized iterator walked across steps, matrixIterSlice window reuse + ReduceDelta, subquery evaluated once "
            "for the whole range, step-invariant expressions evaluated once and duplicated) and of its instant evaluation at each step "
            "both equal the reference, and the offset law Eval(e offset d, t) = Eval(e, t - d) on the reference. Each case is run on a "
            "real promql.Engine over a real TSDB as one range query and as instant queries at every step; the two answers must be equal "
            "(series, timestamps, float bits NaN-aware, histograms); offset-law pairs likewise. The reference prediction is a second oracle.",
    "note": "Bounded: exhaustive part 1 series x <=3 samples, expressions of <=2 wrappers, 4 steps, step in {1,2,3}; 2 series x <=2 samples; "
            "series of up to ~110 samples whose density changes (runs spaced 1 / 6, 21 samples per 20 ms window) for count/first_over_time "
            "over range selectors and subqueries, 11 steps; larger alphabets (2 series x 4 samples, 4 wrappers, up to 6 steps, unaligned ends, "
            "negative times) only by seeded simulation. "
            "@ start()/end() are excluded (the property excludes queries that refer to the query range). Aggregations and binary operators "
            "are not in this generator (C29/C30 modules may extend PromqlEval). Range/instant results that agree with each other but not "
            "with the reference are reported as drift (they are C28 violations, not C27).",
    "technique": "TLA+ reference (range = instants by definition) + implementation-shaped one-pass range evaluation compared by TLC; "
                 "TLC-generated cases run pairwise (range vs instants) on promql.Engine over a TSDB",
    "design_ref": "DESIGN.md §5 C27",
    "level": "model_checking",
}

FILES = ["c28_evalcommon_test.go", "c27_rangequery_test.go"]
W = int(os.environ.get("VERIF_TLC_WORKERS", "8"))   # TLC workers (shared machine: export 4 while developing)


def corrupt(behs):
    """Binding self-test (VERIF_CORRUPT=1): falsify one logged field: the step of one range case as seen by the instant side.
    A predicted value alone is only the second oracle, so the corrupted field is the query itself: the instant queries are made
    to run with a different lookback than the range query."""
    for b in behs:
        # a selector whose sample lies exactly lookback-1 before some step: shrinking the lookback by 1 loses it
        if b["k"] == "range" and b["q"]["k"] == "vs" and b["q"]["off"] == 0 and b["q"]["at"][0] == "none":
            for s in b["q"]["sel"]:
                ts = [p["t"] for p in b["store"][s] if p["v"][1] != 0]
                stale = [p["t"] for p in b["store"][s] if p["v"][1] == 0]
                steps = range(b["qs"], b["qe"] + 1, b["step"])
                if len(ts) == 1 and not stale and any(t - ts[0] == b["lb"] - 1 for t in steps):
                    b["corrupt_lb"] = 1
                    return
    raise RuntimeError("nothing to corrupt")


def run(ctx):
    q = ctx.quick
    behs = []
    cache = os.environ.get("VERIF_C27_CACHE")
    if cache and os.path.exists(cache):
        import json
        with open(cache) as f:
            saved = json.load(f)
        ctx.states, ctx.transitions = saved["states"], saved["transitions"]
        return replay(ctx, saved["behs"])
    mc = ctx.tlc("promql_eval", "RangeQuery", "RQ_quick.cfg", workers=W, timeout=900)
    ctx.account(mc)
    behs += mc.emitted
    ctx.log("RQ_quick: %d generated / %d distinct, %d cases" % (mc.generated, mc.distinct, len(mc.emitted)))
    two = ctx.tlc("promql_eval", "RangeQuery", "RQ_two.cfg", workers=W, timeout=900)
    ctx.account(two)
    behs += two.emitted
    ctx.log("RQ_two: %d generated / %d distinct, %d cases" % (two.generated, two.distinct, len(two.emitted)))
    # dense float/histogram series of 5 samples: window reuse with several points dropped and added per step
    dense = ctx.tlc("promql_eval", "RangeQuery", "RQ_dense.cfg", workers=W, timeout=900)
    ctx.account(dense)
    behs += dense.emitted
    ctx.log("RQ_dense: %d generated / %d distinct, %d cases" % (dense.generated, dense.distinct, len(dense.emitted)))
    # density changes along the series (runs of 24 / 44 samples spaced 1 or 6): >16 and >32 samples per window after the
    # buffered iterator's ring has wrapped, floats, histograms and mixes, range selectors and subqueries
    den = ctx.tlc("promql_eval", "RangeQuery", "RQ_density.cfg", workers=W, timeout=1500)
    ctx.account(den)
    behs += den.emitted
    ctx.log("RQ_density: %d generated / %d distinct, %d cases" % (den.generated, den.distinct, len(den.emitted)))
    if not q:
        big = ctx.tlc("promql_eval", "RangeQuery", "RQ_big.cfg", workers=W, timeout=3000)
        ctx.account(big)
        ctx.log("RQ_big: %d generated / %d distinct" % (big.generated, big.distinct))
    sim = ctx.tlc("promql_eval", "RangeQuery", "RQ_SIM.cfg", simulate=(150 if q else 6000), depth=20, workers=W,
                  timeout=(90 if q else 900))
    ctx.account(sim)
    behs += sim.emitted
    ctx.log("RQ_SIM: %d walks" % len(sim.emitted))
    if not behs:
        import vlib
        raise vlib.Infra("no cases emitted")
    if cache:
        import json
        with open(cache, "w") as f:
            json.dump({"states": ctx.states, "transitions": ctx.transitions, "behs": behs}, f)
    return replay(ctx, behs)


def replay(ctx, behs):
    if os.environ.get("VERIF_CORRUPT"):
        corrupt(behs)
    ctx.samples = [behs[0], behs[len(behs) // 2], behs[-1]]
    inp = ctx.write_ndjson("cases.ndjson", behs)
    gr = ctx.go_test("promql", FILES, "^TestVerifC27RangeQuery$", env={"VERIF_IN": inp})
    ctx.absorb(gr, label="C27 replay")
    ctx.assumptions += [
        "bounded model: see META.note; exhaustive alphabets in specs/promql_eval/RQ_quick.cfg, RQ_two.cfg (RQ_big.cfg in the thorough "
        "tier), random walks over RQ_SIM.cfg",
        "time is concretised by affine maps (base + k*t) with bases multiple of 60*k so that subquery step alignment is preserved",
        "strict verdict = real range query vs real instant queries (and offset-law pairs); the reference prediction is a second oracle "
        "whose disagreements are drift",
    ]
    return ctx.finish(rule="every (store, expression, start/end/step) of the exhaustive configs + seeded simulated walks; each run as a "
                           "range query and as instant queries at each step on the real engine under 1-2 (quick) or 6 (thorough) time maps",
                      exhaustive=False)
