"""C38 — relabeling follows its documented semantics.
Relabel.tla (reference interpreter of the 11 actions with an anchored leftmost-first regex matcher and
regexp.Expand templates) checked by TLC; its rule chains replayed into relabel.ProcessBuilder."""
import json
import os

META = {
    "text": "Relabel.tla is a direct interpreter of the documented relabel actions (replace, keep, drop, keepequal, dropequal, "
            "hashmod, labelmap, labeldrop, labelkeep, lowercase, uppercase) over label sets whose strings are character sequences: "
            "source-label concatenation with separators, fully anchored regular expressions given as ASTs with a priority-ordered "
            "(leftmost-first, greedy/lazy) submatch semantics, regexp.Expand templates ($1, ${1}, $name, ${name}, $$, longest-name "
            "rule, unknown/unmatched/malformed references), label-name validity of expanded targets, empty value = deletion. TLC "
            "checks on every explored step that results are canonical (no empty values), that the replace fast path of the code is "
            "unobservable, that keep/drop and keepequal/dropequal are complementary and that a dropped set is final; it generates "
            "every (initial label set, rule) pair of the rule families (legacy and utf8 name validation) and seeded random chains "
            "of up to 5 rules. Each chain is run through relabel.ProcessBuilder (whole prefix in one call, and rule by rule with "
            "the label set materialised in between) and keep/drop plus the resulting label set are compared after every rule.",
    "note": "Bounded: initial label sets over <=5 names and 3-4 values, 9 value-regex and 5 name-regex shapes with <=2 capture groups "
            "(one named), 8 replacement and 4 target templates, 7 source lists, 3 separators, moduli 1/2/7; values longer than 7-9 "
            "characters prune the step. Rules are enumerated by families that vary two or three dimensions at a time, not the full "
            "product. hashmod's md5 digest is uninterpreted in the spec (resolved by the harness) and a later rule never reads a "
            "hashmod result. labelmap collisions (two labels copied to one name with different values) are compared as drift only: "
            "the documentation fixes no winner. ASCII only (no Unicode case mapping). Trusted: TLC, Json module.",
    "technique": "TLA+ reference interpreter (Relabel.tla) model-checked by TLC; TLC-generated rule chains replayed into "
                 "relabel.ProcessBuilder",
    "design_ref": "DESIGN.md §5 C38",
    "level": "model_checking",
}


def generate(ctx):
    cache = os.environ.get("VERIF_C38_CACHE")
    if cache and os.path.exists(cache):
        with open(cache) as f:
            c = json.load(f)
        ctx.states, ctx.transitions = c["states"], c["transitions"]
        ctx.log("TLC stage taken from cache", cache)
        return c["behs"]
    q = ctx.quick
    # (M)+(R) every initial label set x every rule of the families, legacy names
    mc = ctx.tlc("relabel", "Relabel", "MC_quick.cfg", workers=8, timeout=1800)
    ctx.account(mc)
    behs = list(mc.emitted)
    ctx.log("MC_quick: %d generated / %d distinct, %d behaviours (%.0fs)" % (mc.generated, mc.distinct, len(mc.emitted), mc.wall))
    # the same for the template families under utf8 name validation
    u8 = ctx.tlc("relabel", "Relabel", "MC_utf8.cfg", workers=8, timeout=1800)
    ctx.account(u8)
    behs += u8.emitted
    ctx.log("MC_utf8: %d generated / %d distinct, %d behaviours (%.0fs)" % (u8.generated, u8.distinct, len(u8.emitted), u8.wall))
    if not q:
        # chains of two rules exhaustively, one behaviour per coverage class of the second step
        ch = ctx.tlc("relabel", "Relabel", "MC_chain.cfg", workers=1, timeout=3400, heap="8g")
        ctx.account(ch)
        behs += ch.emitted
        ctx.log("MC_chain: %d generated / %d distinct, %d class behaviours (%.0fs)" % (ch.generated, ch.distinct, len(ch.emitted), ch.wall))
    # (R) seeded random chains over a larger alphabet
    d = 5
    sim = ctx.tlc("relabel", "Relabel", "SIM.cfg", simulate=(80 if q else 4000), depth=d + 3, workers=8,
                  constants={"MaxOps": d}, timeout=(200 if q else 1500))
    ctx.account(sim)
    behs += sim.emitted
    ctx.log("SIM: %d chains (%.0fs)" % (len(sim.emitted), sim.wall))
    if cache:
        with open(cache, "w") as f:
            json.dump({"states": ctx.states, "transitions": ctx.transitions, "behs": behs}, f)
    return behs


def corrupt(behs):
    """binding self-test (VERIF_C38_CORRUPT=1): change one predicted label value."""
    for b in behs:
        s = b[-1]
        if s.get("a") == "Apply" and s.get("keep") and s.get("ls") and s.get("br") in ("added", "overwritten", "set"):
            for l in s["ls"]:
                if not l["v"].startswith("#"):
                    l["v"] = l["v"] + "Z"
                    return True
    return False


def run(ctx):
    import vlib
    behs = [b for b in generate(ctx) if len(b) >= 2]
    if not behs:
        raise vlib.Infra("no behaviours emitted")
    if os.environ.get("VERIF_C38_CORRUPT"):
        if not corrupt(behs):
            raise vlib.Infra("nothing to corrupt")
        ctx.log("binding self-test: one predicted label value changed")
    ctx.samples = [behs[0], behs[len(behs) // 2], behs[-1]]
    inp = ctx.write_ndjson("behaviours.ndjson", behs)
    gr = ctx.go_test("model/relabel", ["c38_relabel_test.go"], "^TestVerifC38Replay$", env={"VERIF_IN": inp})
    ctx.absorb(gr, label="C38 replay")
    ctx.assumptions += [
        "bounded model: fixed regex/template/source shapes combined by rule families (see Relabel.tla Fam), label values of at most "
        "7-9 characters, chains of 1 rule exhaustively (2 in the thorough tier, by coverage class) and up to 5 rules by simulation",
        "hashmod digest uninterpreted in the model, resolved by the harness with crypto/md5; no rule reads a hashmod result",
        "labelmap collisions with different values are drift-only",
        "every generated Config must pass Config.Validate (else infrastructure error)",
    ]
    return ctx.finish(rule="every transition (initial label set x rule) of the depth-1 configurations, one behaviour per coverage class "
                           "of two-rule chains (thorough), seeded random chains; every prefix of a chain is run through ProcessBuilder",
                      exhaustive=False)
