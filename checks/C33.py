"""C33 — query evaluation never fails internally and does not depend on concurrent queries (exploration):
QueryGen.tla generates batches of printed PromQL queries with time parameters and a data set; Indep.tla states
the law (model-checked on the shared-pool design); the batches are evaluated alone and concurrently on one real
engine and Trace_Indep.tla validates the recorded trace against the law."""
import os
import re

META = {
    "text": "Exploration. QueryGen.tla (TLC -simulate, seeded) builds syntactically valid PromQL expressions bottom-up from ~130 leaves "
            "(selectors with offset/@, matrix selectors, numbers, strings) and ~330 templates (all range-vector and most instant-vector "
            "functions, every aggregation, binary operators with on/ignoring/group_x/fill/bool, set operators, subqueries, unary minus), "
            "nesting depth <=3, with at most one deliberately type-incorrect argument per query, instant and range parameters, grouped "
            "into batches over one of four data sets. Indep.tla states the law (a finished evaluation returns what the query returns "
            "alone; never an internal error) on a model of the engine's shared slice pools and is model-checked. Each distinct query "
            "is evaluated alone (twice), then every batch concurrently on 16 goroutines in the same engine; outcome class and result "
            "digest are compared and the recorded start/end trace is validated by TLC against Trace_Indep.tla.",
    "note": "Observational: absence of runtime faults is not proved. Internal error = engine 'unexpected error' (recovered runtime.Error), "
            "the engine's own internal panics surfacing as errors, or a Go panic. Results are digested order-insensitively; differences "
            "that are float rounding only (<=1e-9, summation order follows map iteration in the engine) are not counted as dependence. "
            "Data: floats, counters with reset and start timestamps, native exponential and custom-bucket histograms, a mixed "
            "float/histogram series, stale markers, NaN/+-Inf/1e308/denormal values, classic buckets, target_info. MaxSamples 20000 so "
            "that some queries end in the user-facing sample-limit error.",
    "technique": "TLC-generated query batches (QueryGen.tla) + model-checked independence law (Indep.tla) + trace validation of the "
                 "recorded concurrent run (Trace_Indep.tla); verdict observational",
    "design_ref": "DESIGN.md §5 C33",
    "level": "exploration",
}


def run(ctx):
    import vlib
    q = ctx.quick
    ctx.level = "exploration"
    # the law on the design (shared pools): exhaustive, small
    law = ctx.tlc("promql_indep", "Indep", "MC_quick.cfg" if q else "MC_big.cfg", workers=4, timeout=1200)
    ctx.account(law)
    ctx.log("Indep law model: %d generated / %d distinct" % (law.generated, law.distinct))
    # the input space: seeded random batches
    reuse = os.environ.get("VERIF_C33_BATCHES")   # debugging aid: replay saved batches (they do not depend on /repo)
    if reuse and os.path.exists(reuse):
        import json
        batches = [json.loads(l) for l in open(reuse)]
    else:
        sim = ctx.tlc("promql_indep", "QueryGen", "SIM.cfg", simulate=(6 if q else 120), depth=600, workers=4,
                      timeout=(200 if q else 1500))
        ctx.account(sim)
        batches = sim.emitted
    nwalk = len(batches)
    if not (reuse and os.path.exists(reuse)):
        # every template once over representative leaves (exhaustive enumeration by TLC, one query per initial
        # state), grouped into batches of 12 in seeded order
        import random
        en = ctx.tlc("promql_indep", "QueryGen", "MC_enum.cfg", workers=4, timeout=900)
        ctx.account(en)
        singles = [b["batch"][0] for b in en.emitted]
        random.Random(ctx.seed).shuffle(singles)
        batches = batches + [{"data": "full", "batch": singles[i:i + 12]} for i in range(0, len(singles), 12)]
        ctx.extra["c33_enumerated_template_queries"] = len(singles)
    ctx.log("QueryGen: %d random batches + %d batches enumerating every template, %d queries"
            % (nwalk, len(batches) - nwalk, sum(len(b["batch"]) for b in batches)))
    if not batches:
        raise vlib.Infra("no batches generated")
    ctx.samples = [{"data": b["data"], "queries": [x["q"] for x in b["batch"][:4]]} for b in batches[:3]]
    inp = ctx.write_ndjson("batches.ndjson", batches)
    if reuse and not os.path.exists(reuse):
        import shutil
        shutil.copy(inp, reuse)
    trace = ctx.tmp("trace.ndjson")
    gr = ctx.go_test("promql", ["c33_indep_test.go"], "^TestVerifC33$", env={"VERIF_IN": inp, "VERIF_TRACE": trace}, timeout="40m")
    ctx.absorb(gr, label="C33 run")
    # thorough: the same run under the Go race detector (a data race between two evaluations is a
    # dependence even when it did not corrupt a result this time)
    if not q or os.environ.get("VERIF_C33_RACE"):
        sub = ctx.write_ndjson("batches_race.ndjson", batches[:60] + batches[-40:])
        gr2 = ctx.go_test("promql", ["c33_indep_test.go"], "^TestVerifC33$", race=True, out_name="result_race.ndjson",
                          env={"VERIF_IN": sub, "VERIF_TRACE": ctx.tmp("trace_race.ndjson")}, timeout="60m")
        races = gr2.out.count("WARNING: DATA RACE")
        ctx.extra["c33_race_detector_reports"] = races
        if races:
            i = gr2.out.index("WARNING: DATA RACE")
            ctx.add_violation("Go race detector: %d data race report(s) while evaluating generated queries concurrently:\n%s"
                              % (races, gr2.out[i:i + 3000]), "data-race", {"batches": len(batches[:60] + batches[-40:])})
        else:
            ctx.absorb(gr2, label="C33 race run")
        ctx.log("race-detector run: %d reports (%.0fs)" % (races, gr2.wall))
    # the law on the recorded behaviour
    if os.environ.get("VERIF_C33_CORRUPT_TRACE") and os.path.exists(trace):
        # binding self-test: flip the digest of the last "end" event of the recorded trace
        lines = open(trace).read().splitlines()
        for i in range(len(lines) - 1, -1, -1):
            if '"e":"end"' in lines[i]:
                lines[i] = re.sub(r'"dig":"[^"]*"', '"dig":"corrupted"', lines[i])
                break
        open(trace, "w").write("\n".join(lines) + "\n")
    if os.path.exists(trace) and os.path.getsize(trace) > 0:
        tv = ctx.tlc("promql_indep", "Trace_Indep", "Trace.cfg", deque=True, files={"trace.ndjson": trace},
                     allow_violation=True, timeout=1200)
        ctx.account(tv)
        ctx.extra["c33_trace_events"] = sum(1 for _ in open(trace))
        if tv.violated:
            m = [x for x in re.findall(r'bad = "([^"]*)"', tv.out) if x]
            what = m[-1] if m else tv.violated
            if tv.violated == "Consumed":
                raise vlib.Infra("recorded trace is not a complete concurrent run (Consumed violated)")
            ctx.add_violation("Trace_Indep: the recorded trace breaks the law at event '%s' (see the harness report)" % what,
                              "trace:" + what.split(":")[0], {"event": what})
        ctx.log("trace validated: %d events, %d states" % (ctx.extra["c33_trace_events"], tv.distinct))
    else:
        raise vlib.Infra("no trace recorded")
    ctx.assumptions += [
        "exploration level: TLC supplies the input space and the law, the verdict is observational",
        "expressions of depth <=3 over the listed leaves/templates; instant and range parameters from a fixed set; 4 data sets",
        "float differences <=1e-9 between runs are treated as rounding (engine summation order is map-iteration dependent)",
    ]
    return ctx.finish(rule="seeded random batches of 12 generated queries; every distinct query alone twice, every batch twice "
                           "concurrently on 16 goroutines; classes and digests compared; trace validated by TLC", exhaustive=False)
