"""C28 — selectors: lookback, staleness, range windows, offset/@, subquery steps.

Selectors.tla generates (store, expression, evaluation time, lookback) cases and predicts each value with the
reference evaluator PromqlEval.tla; TLC also checks that the transcription of the engine's algorithm
(PromqlEngine.tla) agrees with the reference on every generated case. Every case is replayed as an instant
query on a real promql.Engine over a real TSDB."""
import os

META = {
    "text": "PromqlEval.tla is the reference semantics of instant selectors (latest sample in (t-lookback, t], absent when it is a "
            "staleness marker), range selectors (non-stale samples in (t-r, t]), offset / @ (fixed, start(), end()) and subqueries "
            "(inner expression at the multiples of the step inside the window). Selectors.tla builds stores (irregular spacing, float and "
            "histogram staleness markers, NaN/Inf values, native histograms, samples exactly on window edges) and well-typed expressions "
            "(selectors, range functions, timestamp(), nested subqueries) and predicts every result; TLC additionally checks on each case "
            "that the transcribed engine algorithm (PreprocessExpr, select hints, setOffsetForAtModifier, subqueryTimeRange, "
            "vectorSelectorSingle over the memoized iterator, matrixIterSlice over the buffered iterator) equals the reference. Each "
            "case is run as an instant query on a real promql.Engine over a real TSDB under several affine time maps (negative and "
            "large timestamps, ms to minute scales); series set, point timestamps, float bits and histogram identity must match.",
    "note": "Bounded: exhaustive part 1 series x <=3 samples x 3 gaps, expressions of <=2 wrappers over small offset/@/range/step "
            "alphabets; 2 series x <=2 samples for cross-series state; larger alphabets (2 series x 4 samples, 4 wrappers, negative model "
            "times) only by seeded simulation. Sample values are identifiers, not arithmetic. Anchored/smoothed selectors are not covered. "
            "Known findings KF-C28-1 (timestamp() drops the offset of an @-selector) and KF-C28-2 (runSubquery skips re-basing @ offsets when the "
            "first subquery step equals the evaluation start) are reported, not failed; a mismatch counts as known only if the engine returns "
            "exactly what the as-is transcription in PromqlEngine.tla predicts.",
    "technique": "TLA+ reference evaluator + implementation-shaped transcription compared by TLC; TLC-generated cases replayed into promql.Engine over a TSDB",
    "design_ref": "DESIGN.md §5 C28",
    "level": "model_checking",
}

FILES = ["c28_evalcommon_test.go", "c28_selectors_test.go"]
W = int(os.environ.get("VERIF_TLC_WORKERS", "8"))   # TLC workers (shared machine: export 4 while developing)


def corrupt(behs):
    """Binding self-test (VERIF_CORRUPT=1): falsify one predicted field of one case that predicts a value."""
    for b in behs:
        pts = [s for s in b["out"] if b["out"][s]]
        if pts and b["q"]["k"] == "vs":
            b["out"][pts[0]][0]["v"] = [b["out"][pts[0]][0]["v"][0] + 1, 1]
            return
    raise RuntimeError("nothing to corrupt")


def run(ctx):
    q = ctx.quick
    behs = []
    # development aid (mutant runs): reuse the cases of a previous TLC run instead of regenerating them
    cache = os.environ.get("VERIF_C28_CACHE")
    if cache and os.path.exists(cache):
        import json
        with open(cache) as f:
            saved = json.load(f)
        ctx.states, ctx.transitions = saved["states"], saved["transitions"]
        return replay(ctx, saved["behs"])
    # (M)+(R) exhaustive: one series, every store / expression / time of the quick alphabet
    mc = ctx.tlc("promql_eval", "Selectors", "MC_quick.cfg", workers=W, timeout=900)
    ctx.account(mc)
    behs += mc.emitted
    ctx.log("MC_quick: %d generated / %d distinct, %d cases" % (mc.generated, mc.distinct, len(mc.emitted)))
    # (M)+(R) exhaustive: subquery depth (3 wrappers, step 1 so that inner windows sweep over every sample, subquery offset / @)
    sub = ctx.tlc("promql_eval", "Selectors", "MC_sub.cfg", workers=W, timeout=900)
    ctx.account(sub)
    behs += sub.emitted
    ctx.log("MC_sub: %d generated / %d distinct, %d cases" % (sub.generated, sub.distinct, len(sub.emitted)))
    # (M)+(R) exhaustive: two series (iterator / buffer reuse across series)
    two = ctx.tlc("promql_eval", "Selectors", "MC_two.cfg", workers=W, timeout=900)
    ctx.account(two)
    behs += two.emitted
    ctx.log("MC_two: %d generated / %d distinct, %d cases" % (two.generated, two.distinct, len(two.emitted)))
    if not q:
        big = ctx.tlc("promql_eval", "Selectors", "MC_big.cfg", workers=W, timeout=3000)
        ctx.account(big)
        ctx.log("MC_big: %d generated / %d distinct" % (big.generated, big.distinct))
    # (R) seeded random walks over the big alphabet (2 series, 4 samples, 4 wrappers, NaN/Inf, negative times)
    sim = ctx.tlc("promql_eval", "Selectors", "SIM.cfg", simulate=(200 if q else 12000), depth=20, workers=W,
                  timeout=(60 if q else 900))
    ctx.account(sim)
    behs += sim.emitted
    ctx.log("SIM: %d walks" % len(sim.emitted))
    if not behs:
        import vlib
        raise vlib.Infra("no cases emitted")
    if cache:
        import json
        with open(cache, "w") as f:
            json.dump({"states": ctx.states, "transitions": ctx.transitions, "behs": behs}, f)
    return replay(ctx, behs)


def replay(ctx, behs):
    if os.environ.get("VERIF_CORRUPT"):
        corrupt(behs)
    ctx.samples = [behs[0], behs[len(behs) // 2], behs[-1]]
    inp = ctx.write_ndjson("cases.ndjson", behs)
    gr = ctx.go_test("promql", FILES, "^TestVerifC28Selectors$", env={"VERIF_IN": inp})
    ctx.absorb(gr, label="C28 replay")
    ctx.assumptions += [
        "bounded model: see META.note; exhaustive alphabets in specs/promql_eval/MC_quick.cfg, MC_two.cfg (and MC_big.cfg in the "
        "thorough tier), random walks over SIM.cfg",
        "time is concretised by affine maps (base + k*t) with bases multiple of 60*k so that subquery step alignment is preserved",
        "metric-name retention is compared as drift only (not part of C28)",
    ]
    return ctx.finish(rule="every (store, expression, time) of the exhaustive configs + seeded simulated walks; each case evaluated on "
                           "the real engine under 1-2 (quick) or 6 (thorough) time maps and compared with the reference prediction",
                      exhaustive=False)
