"""C51 — API JSON: ApiJson.tla (structure of the encoded result, bucket boundary rules; Decode(Encode) checked by TLC) and replay of
generated results through the API's JSON codec with an independent decode."""

META = {
    "text": "ApiJson.tla defines the JSON tree the query API must write for scalars, strings, instant vectors and range matrices of "
            "float and native-histogram samples (keys present, omitted empty lists, floats before histograms, bucket list with only "
            "non-empty buckets in ascending order, boundary code from the bucket kind: positive (lo,hi], negative [lo,hi), zero bucket "
            "closed, custom buckets (lo,hi] with the first closed at -Inf, boundaries clamped to the zero threshold) and a structural "
            "decoder; TLC checks on every generated result that decoding the encoding gives back exactly the non-empty buckets with "
            "their boundaries and inclusiveness, that buckets ascend and every point is preserved. Each result is concretised (float "
            "classes around the 1e-6/1e21 formatting cut-offs, +-0, subnormal, max, NaN, +-Inf; timestamps with small fractions, "
            "negative, beyond 2^53 and at the API's min/max time; label values needing escapes; exponential schemas -2..2 and custom "
            "bounds), encoded with JSONCodec.Encode(Response{QueryData}), decoded with encoding/json (UseNumber) and compared: "
            "timestamps exactly in milliseconds (big.Rat), floats bit-exact up to NaN payload, structure as specified.",
    "note": "The specification decides the structural/case-analysis part; float and timestamp text fidelity is replay-only (seeded "
            "concretisation classes, 5 per result in quick, 20 in thorough). Bounds: <=3 points per series, <=2 series/samples, two "
            "exponential buckets per sign + zero bucket, three custom buckets. Exponential bounds for schema > 0 are compared with "
            "relative tolerance 1e-14 (they come from the histogram package, not the codec). Not covered: exemplar and label-API "
            "responses, stats, warnings.",
    "technique": "TLA+ specification of the JSON structure (ApiJson.tla) checked by TLC; TLC-generated results replayed through web/api/v1 JSONCodec and decoded independently",
    "design_ref": "DESIGN.md §5 C51",
    "level": "model_checking",
}


def run(ctx):
    import os
    import vlib
    q = ctx.quick
    behs = []
    for cfg in ["MC_hist.cfg", "MC_values.cfg", "MC_struct_emit.cfg", "MC_multi.cfg"]:
        mc = ctx.tlc("apijson", "ApiJson", cfg, workers=4, timeout=1500)
        ctx.account(mc)
        behs += mc.emitted
        ctx.log("%s: %d results" % (cfg, len(mc.emitted)))
    if not q:
        big = ctx.tlc("apijson", "ApiJson", "MC_struct.cfg", timeout=3000)
        ctx.account(big)
        ctx.log("MC_struct: %d generated / %d distinct" % (big.generated, big.distinct))
    if not behs:
        raise vlib.Infra("no behaviours emitted")
    ctx.samples = [behs[0], behs[len(behs) // 2], behs[-1]]
    if os.environ.get("VERIF_CORRUPT"):
        # binding self-test (notes/C51.md): flip one predicted boundary code
        for b in behs:
            for it in b["out"].get("result", []):
                h = (it.get("point") or {}).get("hist")
                if h and h["buckets"]:
                    h["buckets"][0]["code"] = (h["buckets"][0]["code"] + 1) % 4
                    ctx.log("VERIF_CORRUPT: corrupted one result")
                    break
            else:
                continue
            break
    inp = ctx.write_ndjson("results.ndjson", behs)
    gr = ctx.go_test("web/api/v1", ["c51_json_test.go"], "^TestVerifC51Replay$", env={"VERIF_IN": inp})
    ctx.absorb(gr, label="C51 replay")
    ctx.assumptions += [
        "results are built directly as promql values (no query evaluation); encoded through JSONCodec.Encode(Response{QueryData})",
        "independent decoder: encoding/json with UseNumber; timestamps via math/big, floats via strconv.ParseFloat",
    ]
    return ctx.finish(rule="every result of the bounded configs, each under several seeded concretisations", exhaustive=False)
