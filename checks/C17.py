"""C17 — optimized regex matching equals regular-expression semantics.
Regex.tla (denotational semantics over a finite string universe) evaluated by TLC for every expression of
the optimiser-shaped families; languages compared with labels.FastRegexMatcher on the whole universe."""
import json
import os

META = {
    "text": "Regex.tla gives regular expressions (literals, '.', '.' without newline, classes, concatenation, alternation, * + ?, "
            "captures, (?i:) scopes, ^ and $) a denotational semantics over all strings of length <= 3 over an 8-character alphabet "
            "(a A b B, a 2-byte rune pair é É, U+00AA whose NFKD form is 'a', newline) and enumerates 332 expressions in 13 shape "
            "families that mirror the entry conditions of the optimiser in model/labels/regexp.go (plain and grouped literal "
            "alternations with 2/3/15/16/17 alternates, case-insensitive ones, literal prefix/suffix/contains with .* .+ .? and "
            "their no-newline variants, contains chains, alternations of contains and of prefixes incl. >= 16, classes, captures, "
            "inner anchors). TLC checks laws of the semantics (alternation = union, captures transparent, folding monotone and "
            "idempotent, literal alternations denote exactly their literals, .* / .+) and emits the language of every expression; "
            "the harness compares FastRegexMatcher.MatchString, Matcher.Matches for =~ and !~ and SetMatches with it on all 585 "
            "strings, and cross-checks the language against package regexp (^(?s:re)$; disagreement = exit 2).",
    "note": "Numeric/codec limit: the spec decides the case analysis (which strings of a small universe an expression matches); "
            "strings longer than 3 characters, other runes, invalid UTF-8, counted repetitions, and expressions outside the listed "
            "families are not explored. The language comes from the TLA+ semantics, package regexp is only a cross-check of that "
            "semantics. The two defects this check found (KF-C17-1, KF-C17-2) are repaired in the repository; their inputs stay in "
            "the enumerated families and are compared strictly.",
    "technique": "TLA+ denotational semantics (Regex.tla) evaluated by TLC over a finite universe; languages compared with "
                 "labels.FastRegexMatcher / labels.Matcher",
    "design_ref": "DESIGN.md §5 C17",
    "level": "model_checking",
}


def run(ctx):
    import vlib
    q = ctx.quick
    cache = os.environ.get("VERIF_C17_CACHE")
    if cache and os.path.exists(cache):
        with open(cache) as f:
            c = json.load(f)
        ctx.states, ctx.transitions, behs = c["states"], c["transitions"], c["behs"]
    else:
        mc = ctx.tlc("regex", "Regex", "MC_quick.cfg" if q else "MC_big.cfg", workers=8, timeout=3400)
        ctx.account(mc)
        behs = mc.emitted
        ctx.log("%d expressions, %d states (%.0fs)" % (len(behs), mc.distinct, mc.wall))
        if cache:
            with open(cache, "w") as f:
                json.dump({"states": ctx.states, "transitions": ctx.transitions, "behs": behs}, f)
    if not behs:
        raise vlib.Infra("no expressions emitted")
    if os.environ.get("VERIF_C17_CORRUPT"):
        for b in behs:
            if b[0]["lang"] and len(b[0]["lang"]) < 100:
                b[0]["lang"] = b[0]["lang"][1:]
                ctx.log("binding self-test: one string removed from the language of", b[0]["re"])
                break
    ctx.samples = [{"re": b[0]["re"], "lang_size": len(b[0]["lang"]), "lang_head": sorted(b[0]["lang"])[:8]} for b in (behs[0], behs[len(behs) // 2], behs[-1])]
    inp = ctx.write_ndjson("cases.ndjson", behs)
    env = {"VERIF_IN": inp}
    if os.environ.get("VERIF_C17_CORRUPT"):
        env["VERIF_C17_NOXCHECK"] = "1"   # the self-test corrupts the prediction: the regexp cross-check would stop it first
    gr = ctx.go_test("model/labels", ["c17_regex_test.go"], "^TestVerifC17Replay$", env=env)
    ctx.absorb(gr, label="C17 replay")
    ctx.assumptions += [
        "string universe: all strings of length <= 3 (4 in the thorough tier) over {a, A, b, B, é, É, U+00AA, newline}",
        "expressions: the shape families of Regex.tla (Fam); literals from a pool of 20 one- and two-character strings",
        "the specification's language is cross-checked against package regexp on the whole universe (disagreement = exit 2)",
    ]
    return ctx.finish(rule="every expression of the families x every string of the universe", exhaustive=True)
