"""C06 — queries racing with head compaction / truncation, OOO compaction and block compaction + deletion:
Truncation.tla model-checked over all interleavings; TLC-chosen interleavings forced on real goroutines (gated replay)."""

META = {
    "text": "Truncation.tla models one maintenance thread (head block write, reloadBlocks swap under db.mtx, lastMemoryTruncationTime / "
            "memTruncationInProcess stores, wait for overlapping readers, minTime store, gc; OOO snapshot, OOO block write, swap, "
            "lastGarbageCollectedMmapRef publication under db.mtx, wait for OOO readers, gc; block compaction, swap, parent Close/remove) and "
            "query threads (DB.Querier step by step: RLock + block snapshot, head querier registration, the two loads of "
            "IsQuerierCollidingWithTruncation, close/re-open from newMint, OOO read tracking, block readers, return; Select+drain; Close), "
            "each action being the code between two verifhook sites. TLC checks over every interleaving that each query returns exactly the "
            "committed samples of its range without error (ExactlyOnce), that no block is removed while a query reads it (NoUseAfterRelease), "
            "the ordering lemma FlagImpliesTime, and that maintenance terminates under fairness (Progress); five named design mutations are "
            "required to violate the invariants in the model. One behaviour per coverage class (query step x protocol position x range) and "
            "seeded complete walks are then forced on a real tsdb.DB with the hook sites as scheduler gates; what every querier returns, "
            "fresh probe queries at every maintenance site during completion, maintenance completion and block release are compared with the "
            "property.",
    "note": "Bounds: one maintenance thread, 2 query threads exhaustively (3 in thorough / simulation), three committed samples (one per "
            "location class: in-order below the truncation time, in-order above it, out-of-order), three query ranges. Select+drain is atomic "
            "in the model (no gate inside Select), so races between chunk listing and chunk reads are not explored; duplicates are masked by the "
            "merge querier in the code and in the model. The code's reader waits poll every 500 ms, which bounds the number of replays: quick "
            "replays a seeded quarter of the classes. Non-negative timestamps only. Trusted: verifhook site placement, TLC, harness scheduler.",
    "technique": "TLA+ model (Truncation.tla) checked by TLC over all interleavings incl. liveness; TLC-generated interleavings replayed on real "
                 "goroutines through verifhook scheduler gates; querier results, probe queries and completion compared with the property",
    "design_ref": "DESIGN.md §5 C06, Appendix A.2",
    "level": "model_checking",
}

VARIANTS_QUICK = ["no_wait", "reload_after_gc"]
VARIANTS_ALL = ["no_wait", "reload_after_gc", "no_owait", "publish_before_reload", "no_close_wait"]


def run(ctx):
    import vlib
    from concurrent.futures import ThreadPoolExecutor
    q = ctx.quick
    variants = VARIANTS_QUICK if q else VARIANTS_ALL
    with ThreadPoolExecutor(max_workers=8) as ex:
        # (M)+(R) exhaustive, one behaviour per coverage class (registry in TLCGet(1): workers=1)
        f_mc = ex.submit(ctx.tlc, "truncation", "Truncation", "MC_quick.cfg", workers=1, timeout=1500)
        # (M) liveness: maintenance finishes once queriers close
        f_live = ex.submit(ctx.tlc, "truncation", "Truncation", "MC_live.cfg", workers=4, timeout=1500)
        # (M) the invariants must reject the named design mutations (non-vacuity)
        f_var = {v: ex.submit(ctx.tlc, "truncation", "Truncation", "MC_variant.cfg", workers=2, timeout=900,
                              allow_violation=True, constants={"Variant": '"%s"' % v}) for v in variants}
        # (R) seeded complete walks with three query threads
        f_sim = ex.submit(ctx.tlc, "truncation", "Truncation", "SIM.cfg", simulate=(6 if q else 100), depth=90, workers=4,
                          timeout=(300 if q else 1500))
        mc, live, sim = f_mc.result(), f_live.result(), f_sim.result()
        var = {v: f.result() for v, f in f_var.items()}
    for v, res in var.items():
        if res.violated not in ("ExactlyOnce", "NoUseAfterRelease", "ReadersOnLiveBlocks"):
            raise vlib.Infra("design mutation %s is not rejected by the model (got %r): the invariants are too weak" % (v, res.violated))
    ctx.account(mc)
    ctx.account(live)
    ctx.log("MC_quick: %d generated / %d distinct, %d class behaviours (%.0fs); MC_live ok (%.0fs); variants rejected: %s"
            % (mc.generated, mc.distinct, len(mc.emitted), mc.wall, live.wall, ", ".join(variants)))
    if not q:
        big = ctx.tlc("truncation", "Truncation", "MC_big.cfg", timeout=3000)
        ctx.account(big)
        ctx.log("MC_big (3 query threads): %d generated / %d distinct (%.0fs)" % (big.generated, big.distinct, big.wall))
    classes = list(mc.emitted)
    if q:
        # the code's reader waits poll every 500 ms: replay a seeded quarter of the classes in the quick tier
        classes = [b for i, b in enumerate(classes) if (i + ctx.seed) % 4 == 0]
    behs = classes + list(sim.emitted)
    ctx.account(sim)
    ctx.log("replaying %d class behaviours + %d walks" % (len(classes), len(sim.emitted)))
    if not behs:
        raise vlib.Infra("no behaviours emitted")
    ctx.samples = [behs[len(behs) // 2], behs[-1]]
    inp = ctx.write_ndjson("behaviours.ndjson", behs)
    gr = ctx.go_test("tsdb", ["c06_truncation_test.go"], "^TestVerifC06Replay$", env={"VERIF_IN": inp}, timeout="40m")
    ctx.absorb(gr, label="C06 replay")
    if not gr.by_kind("done"):
        # vlib.absorb tolerates a missing done record when violation records exist (known findings always produce one)
        raise vlib.Infra("harness C06 replay did not finish (no done record):\n%s" % gr.out[-3000:])
    ctx.assumptions += [
        "bounded model: 1 maintenance thread, 2-3 query threads, 3 samples (in-order low/high, out-of-order), ranges lo/full/hi",
        "Select+drain atomic w.r.t. maintenance steps; ChainedSeriesMerge collapses equal timestamps (duplicates cannot be observed)",
        "db.mtx modelled with writer preference; Head.minTime read once per DB.Querier segment",
        "quick tier replays a seeded quarter of the coverage classes (500 ms reader-wait polls in the code)",
    ]
    return ctx.finish(rule="one behaviour per coverage class (step, protocol position, ranges) of the exhaustive 2-query model + seeded complete "
                           "walks of the 3-query model; scheduled prefix forced with gates, then completion with probe queries at every "
                           "maintenance site", exhaustive=False)
