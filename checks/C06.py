"""C06 — queries racing with head compaction / truncation, OOO compaction and block compaction + deletion:
Truncation.tla model-checked over all interleavings; TLC-chosen interleavings forced on real goroutines (gated replay)."""

META = {
    "text": "Truncation.tla models one maintenance thread (head block write, reloadBlocks swap under db.mtx, lastMemoryTruncationTime / "
            "memTruncationInProcess stores, wait for overlapping readers, minTime store, gc; OOO snapshot, OOO block write, swap, "
            "lastGarbageCollectedMmapRef publication under db.mtx, wait for OOO readers, gc; block compaction, swap, parent Close/remove) and "
            "query threads (DB.Querier step by step: RLock + block snapshot, head querier registration, the two loads of "
            "IsQuerierCollidingWithTruncation, close/re-open from newMint, OOO read tracking, block readers, return; Select+drain; Close), "
            "each action being the code between two verifhook sites. TLC checks over every interleaving that each query returns exactly the "
            "committed samples of its range without error (ExactlyOnce), that no block is removed while a query reads it (NoUseAfterRelease), "
            "the ordering lemma FlagImpliesTime, and that maintenance terminates under fairness (Progress); five named design mutations are "
            "required to violate the invariants in the model. One behaviour per coverage class (query step x protocol position x range) and "
            "seeded complete walks are then forced on a real tsdb.DB with the hook sites as scheduler gates; what every querier returns, "
            "fresh probe queries at every maintenance site during completion, maintenance completion and block release are compared with the "
            "property.",
    "note": "Bounds: one maintenance thread, 2 query threads x 4 ranges and 1 query thread x 11 ranges exhaustively (3 threads in thorough / "
            "simulation); five committed samples on an abstract time axis around the truncation time T (out-of-order below everything, "
            "in-order at the old head minimum, at T-1, at T, at T+1); query ranges with mint in {below the OOO data, old head minimum, T-1, T} "
            "and maxt in {T-1, T, T+1}. Select+drain is atomic "
            "in the model (no gate inside Select), so races between chunk listing and chunk reads are not explored; duplicates are masked by the "
            "merge querier in the code and in the model. The code's reader waits poll every 500 ms, which bounds the number of replays: quick "
            "always replays the ~400 behaviours in which the single querier of each range is drained / reads the truncation time at each protocol position, plus a seeded sixteenth of the other classes. Only DB.Querier (DB.ChunkQuerier duplicates the logic but has no gate sites). Non-negative timestamps only. Trusted: verifhook site placement, TLC, harness scheduler.",
    "technique": "TLA+ model (Truncation.tla) checked by TLC over all interleavings incl. liveness; TLC-generated interleavings replayed on real "
                 "goroutines through verifhook scheduler gates; querier results, probe queries and completion compared with the property",
    "design_ref": "DESIGN.md §5 C06, Appendix A.2",
    "level": "model_checking",
}

VARIANTS_QUICK = ["collide_le", "no_wait", "reload_after_gc"]
VARIANTS_ALL = ["collide_le", "no_wait", "reload_after_gc", "no_owait", "publish_before_reload", "no_close_wait"]


def run(ctx):
    import vlib
    from concurrent.futures import ThreadPoolExecutor
    q = ctx.quick
    variants = VARIANTS_QUICK if q else VARIANTS_ALL
    with ThreadPoolExecutor(max_workers=8) as ex:
        # (M)+(R) exhaustive, one behaviour per coverage class (registry in TLCGet(1): workers=1):
        # two query threads over four ranges, and one query thread over all eleven ranges placed around the truncation time
        f_mc = ex.submit(ctx.tlc, "truncation", "Truncation", "MC_quick.cfg", workers=1, timeout=1800)
        f_one = ex.submit(ctx.tlc, "truncation", "Truncation", "MC_one.cfg", workers=1, timeout=1800)
        # (M) liveness: maintenance finishes once queriers close
        f_live = ex.submit(ctx.tlc, "truncation", "Truncation", "MC_live.cfg", workers=4, timeout=1500)
        # (M) the invariants must reject the named design mutations (non-vacuity)
        f_var = {v: ex.submit(ctx.tlc, "truncation", "Truncation", "MC_variant.cfg", workers=2, timeout=900,
                              allow_violation=True, constants={"Variant": '"%s"' % v}) for v in variants}
        # (R) seeded complete walks with three query threads
        f_sim = ex.submit(ctx.tlc, "truncation", "Truncation", "SIM.cfg", simulate=(6 if q else 100), depth=90, workers=4,
                          timeout=(300 if q else 1500))
        mc, one, live, sim = f_mc.result(), f_one.result(), f_live.result(), f_sim.result()
        var = {v: f.result() for v, f in f_var.items()}
    for v, res in var.items():
        if res.violated not in ("ExactlyOnce", "NoUseAfterRelease", "ReadersOnLiveBlocks"):
            raise vlib.Infra("design mutation %s is not rejected by the model (got %r): the invariants are too weak" % (v, res.violated))
    ctx.account(mc)
    ctx.account(one)
    ctx.account(live)
    ctx.log("MC_quick: %d generated / %d distinct, %d class behaviours (%.0fs); MC_one: %d distinct, %d class behaviours (%.0fs); "
            "MC_live ok (%.0fs); variants rejected: %s"
            % (mc.generated, mc.distinct, len(mc.emitted), mc.wall, one.distinct, len(one.emitted), one.wall, live.wall, ", ".join(variants)))
    if not q:
        big = ctx.tlc("truncation", "Truncation", "MC_big.cfg", timeout=3000)
        ctx.account(big)
        ctx.log("MC_big (3 query threads): %d generated / %d distinct (%.0fs)" % (big.generated, big.distinct, big.wall))
    # MC_one: every behaviour in which a querier of some range is drained (q_iter) or reads the truncation time
    # inside the truncation window (q_checktime) at some position of the maintenance protocol is always replayed;
    # the code's reader waits poll every 500 ms, so the quick tier replays only a seeded sixteenth of the other classes
    key = [b for b in one.emitted if b["steps"][-1]["a"] in ("q_iter", "q_checktime")]
    rest = [b for b in one.emitted if b["steps"][-1]["a"] not in ("q_iter", "q_checktime")] + list(mc.emitted)
    if q:
        rest = [b for i, b in enumerate(rest) if (i + ctx.seed) % 16 == 0]
    classes = key + rest
    behs = classes + list(sim.emitted)
    ctx.account(sim)
    ctx.log("replaying %d class behaviours + %d walks" % (len(classes), len(sim.emitted)))
    if not behs:
        raise vlib.Infra("no behaviours emitted")
    ctx.samples = [behs[len(behs) // 2], behs[-1]]
    inp = ctx.write_ndjson("behaviours.ndjson", behs)
    gr = ctx.go_test("tsdb", ["c06_truncation_test.go"], "^TestVerifC06Replay$", env={"VERIF_IN": inp}, timeout="40m")
    ctx.absorb(gr, label="C06 replay")
    if not gr.by_kind("done"):
        # vlib.absorb tolerates a missing done record when violation records exist (known findings always produce one)
        raise vlib.Infra("harness C06 replay did not finish (no done record):\n%s" % gr.out[-3000:])
    ctx.assumptions += [
        "bounded model: 1 maintenance thread, 1-3 query threads, 5 samples (OOO; in-order at old head min, T-1, T, T+1), ranges mint x maxt around T",
        "Select+drain atomic w.r.t. maintenance steps; ChainedSeriesMerge collapses equal timestamps (duplicates cannot be observed)",
        "db.mtx modelled with writer preference; Head.minTime read once per DB.Querier segment",
        "quick tier: all q_iter / q_checktime classes of the one-query model + a seeded sixteenth of the other classes (500 ms reader-wait polls in the code)",
    ]
    return ctx.finish(rule="one behaviour per coverage class (step, protocol position, ranges) of the exhaustive 2-query model + seeded complete "
                           "walks of the 3-query model; scheduled prefix forced with gates, then completion with probe queries at every "
                           "maintenance site", exhaustive=False)
