"""C30 — rate/increase/delta/irate/idelta/resets/changes: RateFns.tla (closed-form reference +
step-by-step transcription of extrapolatedRate/instantValue/funcResets/funcChanges in exact rationals,
checked against each other by TLC) generates series, windows and predicted outputs that are replayed
on a real TSDB (with start-timestamp storage) and promql.Engine."""
import concurrent.futures
import os

META = {
    "text": "RateFns.tla defines in exact rational arithmetic the documented algorithms of rate, increase, delta (reset correction, "
            "start-timestamp resets and the start-timestamp zero sample, extrapolation to the window boundaries limited by 1.1x the "
            "average sample interval, half-interval extrapolation beyond it, counter zero-point clamp), irate, idelta, resets and "
            "changes, both as closed formulas and as a step-by-step transcription of promql/functions.go; TLC checks that the two "
            "agree on every explored (series, window, function) and that non-negative counters give non-negative rates, increase = "
            "rate x range, the offset law and bounds hold. Every explored case is emitted with its predicted output (presence and "
            "exact value) and replayed as an instant query -- and, for the range configurations, as a range query whose every step is "
            "compared with the prediction for that evaluation time (steps smaller and larger than the range, data holes, start "
            "timestamps that change between windows; the spec models matrixIterSlice's window reuse, invariant WindowReuse) -- "
            "against a real TSDB with start-timestamp storage; presence is compared "
            "exactly, values to 1e-9 relative, and increase = rate x range is also checked on the real answers.",
    "note": "Bounded: one float series of <=4 samples (<=5 by simulation) on a millisecond grid with spacing classes around the 1.1x "
            "threshold (+-1 ms), small integer values, NaN, resets first/last, 8 start-timestamp patterns. Exact ties of the "
            "threshold comparison are excluded (float64 1.1 is not 11/10). Floating-point rounding is outside the model (tolerance "
            "1e-9). Histogram samples and the anchored/smoothed selectors are out of scope. Time base and scale are concretised per "
            "seed (scale 1, 7, 1000, 60000).",
    "technique": "TLA+ reference + implementation-shaped state machine checked by TLC; TLC-generated cases with predicted outputs replayed "
                 "into promql.Engine over a real TSDB (AppenderV2 with start timestamps)",
    "design_ref": "DESIGN.md §5 C30",
    "level": "model_checking",
}

QUICK = ["MC_quick_spacing.cfg", "MC_quick_values.cfg", "MC_quick_st.cfg", "MC_quick_range.cfg"]
BIG = ["MC_big.cfg"]


def run(ctx):
    q = ctx.quick
    behs = []
    cfgs = list(QUICK)
    dbg = os.environ.get("VERIF_C30_CFGS")       # debugging aid: only these configurations, no simulation
    if dbg:
        cfgs = dbg.split(",")
    reuse = os.environ.get("VERIF_C30_CASES")    # debugging aid: replay a saved cases file
    if reuse and os.path.exists(reuse):
        import json
        behs = [json.loads(l) for l in open(reuse)]
        ctx.states = ctx.transitions = len(behs)
        cfgs, dbg = [], "reuse"

    def one(cfg):
        return cfg, ctx.tlc("promql_rate", "RateFns", cfg, workers=(3 if q else 4), timeout=1500)

    with concurrent.futures.ThreadPoolExecutor(max_workers=4) as ex:
        for cfg, mc in ex.map(one, cfgs):
            ctx.account(mc)
            behs += mc.emitted
            ctx.log("%s: %d generated / %d distinct, %d cases (%.0fs)" % (cfg, mc.generated, mc.distinct, len(mc.emitted), mc.wall))
    if not q and not dbg:
        for cfg in BIG:
            mc = ctx.tlc("promql_rate", "RateFns", cfg, workers=6, timeout=3000)
            ctx.account(mc)
            behs += mc.emitted
            ctx.log("%s: %d generated / %d distinct, %d cases (%.0fs)" % (cfg, mc.generated, mc.distinct, len(mc.emitted), mc.wall))
    if not dbg:
        sim = ctx.tlc("promql_rate", "RateFns", "SIM.cfg", simulate=(250 if q else 6000), depth=30, workers=4,
                      timeout=(100 if q else 1200))
        ctx.account(sim)
        behs += sim.emitted
        ctx.log("SIM: %d cases" % len(sim.emitted))
    if not behs:
        import vlib
        raise vlib.Infra("no cases emitted")
    ctx.samples = [behs[0], behs[len(behs) // 2], behs[-1]]
    inp = ctx.write_ndjson("cases.ndjson", behs)
    if reuse and not os.path.exists(reuse):
        import shutil
        shutil.copy(inp, reuse)
    gr = ctx.go_test("promql", ["c30_ratefns_test.go"], "^TestVerifC30$", env={"VERIF_IN": inp}, timeout="40m")
    ctx.absorb(gr, label="C30 replay")
    ctx.assumptions += [
        "one float series of at most 4 samples (5 by simulation), millisecond grid, small integer values and NaN",
        "exact ties duration = 1.1 x average interval are excluded (TieFree)",
        "values compared to 1e-9 relative; presence/absence of the output sample exactly",
        "time base/scale concretised per seed; rates converted from per-ms (model) to per-second",
    ]
    return ctx.finish(rule="every case of the exhaustive configurations (spacing, values/resets, start-timestamp patterns) + seeded "
                           "simulated cases; each evaluated as an instant query and compared with the predicted presence and value",
                      exhaustive=False)
