"""C19 — merging series sets: Merge.tla (series-set level), Chain.tla (sample level, Next/Seek scripts) and
Compact.tla (chunk level) checked by TLC; the generated cases are replayed into storage.NewMergeSeriesSet /
NewMergeChunkSeriesSet / ChainedSeriesMerge / NewCompactingChunkSeriesMerger."""

META = {
    "text": "Three TLA+ modules state the merge property as a reference (sorted distinct label sets merged from exactly the inputs "
            "that contain them; sorted union of timestamps with one sample per timestamp from some input that has one; Next/Seek as "
            "on that merged sequence; chunk-level output time-ordered, non-overlapping, sample-equal to the sample-level merge, groups "
            "of identical chunks collapsed) next to a step-by-step transcription of genericMergeSeriesSet, chainSampleIterator and "
            "compactChunkIterator; TLC checks transcription against reference exhaustively on small constants. Every input "
            "configuration / Next-Seek transition TLC generates is replayed into the real code through its public entry points (list "
            "series, real XOR/histogram chunks, re-used iterator objects, one-series series sets) under several int64 time maps "
            "(incl. MinInt64/MaxInt64 clusters), and the returned value type, timestamp and value are compared with the prediction "
            "carried in the case (value: membership in the set of allowed inputs).",
    "note": "Bounded: sample level 2 inputs x 3 time points and 3 inputs x 2 time points exhaustively with every reachable "
            "iterator state x {Next, Seek(t)}; 4 inputs x 6 time points x 3 sample types by seeded simulation; chunk level 2-3 inputs x 3 "
            "time points (4 in the thorough tier) exhaustively, 2 inputs x 3 time points x int/float histograms x 2 counter levels per "
            "input (inputs at different levels make the merged stream contain counter resets, i.e. chunks cut by the histogram appender "
            "without recoding), 3x6 with levels by simulation; set level 0-4 sets (5-6 thorough) over 3 label sets, "
            "limits 0-2. Iterator errors are out of scope (C54). Counter-reset hints and start timestamps are not compared. The series "
            "limit and the concatenating merger are outside the property statement (drift only). The defects found with this check (KF-C19-1: a "
            "sample at math.MinInt64 skipped by chainSampleIterator.Next; KF-C19-2: re-used iterator object, first call Seek(MinInt64)) are "
            "repaired by commits 66c6d27753 / e70e80fdf9 and the MinInt64 concretisations are now checked like any other. Seek "
            "on an already exhausted iterator is treated as outside the chunkenc.Iterator contract.",
    "technique": "TLA+ reference + transcription (Merge.tla, Chain.tla, Compact.tla) model-checked by TLC; TLC-generated cases replayed into "
                 "storage merge code",
    "design_ref": "DESIGN.md §5 C19, §7 H11",
    "level": "model_checking",
}


def _par(ctx, jobs):
    """Run several independent TLC jobs concurrently (each its own JVM / scratch dir); results in job order."""
    from concurrent.futures import ThreadPoolExecutor
    with ThreadPoolExecutor(max_workers=len(jobs)) as ex:
        futs = [ex.submit(ctx.tlc, *a, **kw) for a, kw in jobs]
        res = []
        err = None
        for f in futs:
            try:
                res.append(f.result())
            except Exception as e:      # keep the first failure, but let the other JVMs finish
                err = err or e
                res.append(None)
        if err:
            raise err
        return res


def run(ctx):
    q = ctx.quick
    ops = 8 if q else 12
    W = 4
    jobs = [
        # sample level: every transition of the reachable iterator state graph is a replayed behaviour
        (("merge", "Chain", "MC_chain_quick.cfg"), dict(workers=W, timeout=1500)),
        (("merge", "Chain", "MC_chain_k3.cfg"), dict(workers=W, timeout=1500)),
        (("merge", "Chain", "MC_chain_reuse.cfg"), dict(workers=2, timeout=1500)),
        (("merge", "Chain", "SIM_chain.cfg"), dict(simulate=(25 if q else 1500), depth=24 + ops + 3, workers=W,
                                                    constants={"MaxOps": ops}, timeout=(200 if q else 1500))),
        # chunk level: one case per input configuration, all paths of the transcription checked by TLC
        (("merge", "Compact", "MC_compact_quick.cfg"), dict(workers=W, timeout=1500)),
        (("merge", "Compact", "MC_compact_k3.cfg"), dict(workers=W, timeout=1500)),
        (("merge", "Compact", "MC_compact_t4.cfg"), dict(workers=W, timeout=1500)),
        (("merge", "Compact", "MC_compact_lv.cfg"), dict(workers=W, timeout=1500)),
        (("merge", "Compact", "SIM_compact.cfg"), dict(simulate=(15 if q else 700), depth=19, workers=W,
                                                        timeout=(200 if q else 1500))),
        # series-set level
        (("merge", "Merge", "MC_sets_quick.cfg"), dict(workers=W, timeout=1500)),
    ]
    names = ["MC_chain_quick", "MC_chain_k3", "MC_chain_reuse", "SIM_chain", "MC_compact_quick", "MC_compact_k3", "MC_compact_t4", "MC_compact_lv", "SIM_compact",
             "MC_sets_quick"]
    if not q:
        jobs += [(("merge", "Chain", "MC_chain_big.cfg"), dict(workers=W, timeout=3000)),
                 (("merge", "Compact", "MC_compact_big.cfg"), dict(workers=W, timeout=3000)),
                 (("merge", "Merge", "MC_sets_big.cfg"), dict(workers=W, timeout=3000))]
        names += ["MC_chain_big", "MC_compact_big", "MC_sets_big"]
    res = dict(zip(names, _par(ctx, jobs)))
    chain, compact, sets = [], [], []
    for n in names:
        r = res[n]
        ctx.account(r)
        ctx.log("%s: %d generated / %d distinct, %d cases emitted, %.0fs" % (n, r.generated, r.distinct, len(r.emitted), r.wall))
        (chain if "chain" in n else compact if "compact" in n else sets).extend(r.emitted)

    if not chain or not compact or not sets:
        import vlib
        raise vlib.Infra("no cases emitted (chain=%d compact=%d sets=%d)" % (len(chain), len(compact), len(sets)))
    ctx.samples = [chain[len(chain) // 2], chain[-1], compact[len(compact) // 2], compact[-1], sets[len(sets) // 2], sets[-1]]
    env = {"VERIF_IN_CHAIN": ctx.write_ndjson("chain.ndjson", chain),
           "VERIF_IN_COMPACT": ctx.write_ndjson("compact.ndjson", compact),
           "VERIF_IN_SETS": ctx.write_ndjson("sets.ndjson", sets)}
    gr = ctx.go_test("storage", ["c19_merge_test.go"], "^TestVerifC19$", env=env)
    ctx.absorb(gr, label="C19 replay")
    ctx.assumptions += [
        "inputs are well-formed: label-sorted series sets, strictly increasing timestamps per input series, time-ordered non-overlapping "
        "single-type chunks per input chunk series, no iterator errors",
        "bounded model (see META.note); larger alphabets only by seeded simulation",
        "value equality is bitwise for floats and structural (ignoring the counter-reset hint) for histograms",
        "Compact.tla abstracts the vertical series merge by the reference merge that Chain.tla establishes for chainSampleIterator",
    ]
    return ctx.finish(rule="sample level: one behaviour per transition of the exhaustively explored iterator state graph (inputs x reachable "
                           "iterator state x {Next, Seek(t)}) + simulated walks; chunk and set level: one case per input configuration; each "
                           "replayed through 3 entry points x 2 time/value concretisations", exhaustive=False)
