"""C47 — discovery manager convergence: Manager.tla (discoverers, per-provider updaters, sender with trigger re-arming,
slow consumer, ApplyConfig) checked by TLC (safety over all interleavings, convergence under fairness); behaviours run
against the real discovery.Manager with fake discoverers, a slow consumer and randomized delays under the race detector."""

META = {
    "text": "Manager.tla has one process per goroutine of discovery.Manager: each provider's updater (receive a group, updateGroup once per "
            "subscribed job, non-blocking trigger), the sender (take the trigger, build allGroups(), offer on the unbuffered syncCh, re-arm "
            "the trigger when the consumer is busy), a slow consumer, and ApplyConfig (cancel providers without subscribers, drop removed jobs, "
            "copy a kept provider's groups to its new jobs, start new providers, pull the trigger). TLC checks over all interleavings that "
            "m.targets follows the latest non-empty group per source, that whenever the consumer's view differs from the expected one a step "
            "leading to a new delivery is pending (no lost update), that delivered maps carry exactly the configured jobs, and under fairness "
            "(updaters and sender run, a slow consumer receives infinitely often) that the delivered map converges to, and stays at, the "
            "reference fold (latest non-empty group of every source of every provider serving each job; emptied sources absent; jobs without "
            "targets present and empty). TLC-generated environment behaviours (updates, reloads) with the expected final delivery are executed on "
            "the real Manager with fake Discoverers, a slow SyncCh consumer and seeded random delays, several at a time under -race; the last "
            "received map must converge to the predicted one and every received map must carry the jobs of an applied configuration.",
    "note": "Bounded: 2 provider configurations, 2 jobs, 2 sources, 5 configurations, <=3 updates and 1 reload exhaustively (quick: 2 updates), "
            "<=5 updates and 2 reloads by simulation. allGroups() is one atomic step in the model (the code locks per provider). The conformance "
            "binding checks the final state and the job sets of intermediate deliveries, not every intermediate map; interleavings on the real "
            "code are sampled by random delays, not enumerated. Updatert is shortened to 10 ms. Providers that fail to start, nil groups and "
            "StaticConfig fallbacks are not covered.",
    "technique": "TLA+ process-per-goroutine model checked by TLC (invariants, action property, liveness under WF/SF); TLC-generated environment "
                 "behaviours with predicted final delivery run against discovery.Manager under -race",
    "design_ref": "DESIGN.md §5 C47",
    "level": "model_checking",
}


def run(ctx):
    import os
    import random
    import vlib
    from concurrent.futures import ThreadPoolExecutor
    q = ctx.quick
    w = 2 if q else 4
    nu = "2" if q else "3"
    with ThreadPoolExecutor(max_workers=3) as ex:
        f_mc = ex.submit(ctx.tlc, "discovery", "Manager", "MC_quick.cfg", workers=w, timeout=2400,
                         constants={"MaxUpd": nu, "MaxReload": "1"})
        f_lv = ex.submit(ctx.tlc, "discovery", "Manager", "MC_live.cfg", workers=w, timeout=2400,
                         constants={"MaxUpd": nu, "MaxReload": "1"})
        f_sim = ex.submit(ctx.tlc, "discovery", "Manager", "SIM.cfg", simulate=(40 if q else 400), depth=80, workers=2 if q else 4,
                          constants={"MaxUpd": "5", "MaxReload": "2"}, timeout=(100 if q else 900))
        mc, lv, sim = f_mc.result(), f_lv.result(), f_sim.result()
    for name, r in (("MC", mc), ("LIVE", lv), ("SIM", sim)):
        ctx.account(r)
        ctx.log("%s: %d generated / %d distinct (%.0fs), %d behaviours" % (name, r.generated, r.distinct, r.wall, len(r.emitted)))
    rnd = random.Random(ctx.seed)
    mcb = mc.emitted
    if len(mcb) > (250 if q else 2500):
        mcb = rnd.sample(mcb, 250 if q else 2500)
    behs = mcb + sim.emitted
    if not behs:
        raise vlib.Infra("no behaviours emitted")
    ctx.samples = [behs[0], behs[len(behs) // 2], behs[-1]]
    if os.environ.get("VERIF_CORRUPT"):
        import copy
        b = copy.deepcopy(next(x for x in behs if any(j["groups"] for j in x[-1]["expected"])))
        j = next(j for j in b[-1]["expected"] if j["groups"])
        j["groups"][0]["v"] += 100
        behs = behs + [b]
        ctx.log("VERIF_CORRUPT: the expected final delivery of one extra behaviour falsified")
    inp = ctx.write_ndjson("behaviours.ndjson", behs)
    gr = ctx.go_test("discovery", ["c47_manager_test.go"], "^TestVerifC47Replay$", env={"VERIF_IN": inp}, race=True, timeout="40m")
    ctx.absorb(gr, label="C47 run")
    ctx.assumptions += [
        "bounded model: 2 provider configurations x 2 jobs x 2 sources, 5 configurations, %s updates + 1 reload exhaustively, 5 updates + 2 reloads by simulation" % nu,
        "allGroups() atomic in the model; ApplyConfig does not overlap an updater's apply loop (p.mu)",
        "real interleavings sampled with seeded random delays and a randomly slow consumer (2 schedules per behaviour, 4 in the thorough tier), -race",
        "only the final delivery and the job sets of intermediate deliveries are compared",
    ]
    return ctx.finish(rule="complete environment behaviours of the exhaustive run (sampled) and of random walks, each run with several random schedules; "
                           "final delivered map compared with the spec's expected fold", exhaustive=False)
