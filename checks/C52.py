"""C52 — the head's reported counters match its contents: Counters.tla (Db.tla + hand-maintained counters) + replay."""
import os
import random

META = {
    "text": "Counters.tla extends the TSDB model Db.tla with the set of memSeries that exist in the head, the newest in-order sample "
            "each series has stored (what memSeries.sampleState reads), the counters as the code maintains them by hand (numSeries, "
            "numStaleSeries, numNativeHistogramSeries, numNativeHistogramBuckets, activeAppenders: a transcription of the Inc/Dec "
            "rules of Appender / initAppender, getOrCreate, commitFloats / commitHistograms, gc, gcSeries, deleteSeriesByID, WAL "
            "replay) and the two eviction calls DB.CompactSelectedSeries / DB.CompactStaleHead. TLC checks on the bounded configs "
            "that the maintained counters always equal the recount of the contents (CountersMatch), that the appender count is zero "
            "whenever no appender is open (AppendersZero) and that no counter goes negative. The generated histories (rollback of "
            "the very first appender, float<->histogram switches, staleness markers incl. converted ones, eviction, head and "
            "out-of-order compaction, restarts from the WAL and from a chunk snapshot) are replayed on a real tsdb.DB opened with its "
            "own prometheus.Registry; after every step the head's gauges are compared with a recount of the real head (every "
            "memSeries of the by-ref maps: chunks counted, newest in-order sample decoded from the newest in-order chunk) and with "
            "the spec's values.",
    "note": "Strict: gauge = recount for series, stale series, native-histogram series, native-histogram buckets, head chunks; "
            "active appenders = open appenders of the history (spec); Head.Num*() = gauges; chunks = created - removed. The spec's "
            "derived values vs the recount are model drift (content questions belong to C01/C23). Bounds: 2-3 series, 3-4 time "
            "points (13 in walks), 2 value symbols (histogram symbols have different bucket layouts), float / histogram / float "
            "histogram, <=2 appenders, histories <=6 steps exhaustively and <=22 by seeded walks; one thread. Known findings "
            "KF-C52-1 (snapshot restart) and KF-C52-2 (histogram expanded to the chunk layout) are recognised by the harness by their "
            "exact shape; the affected gauge is not compared for the rest of that history.",
    "technique": "TLA+ model of the head's counter maintenance on top of Db.tla checked by TLC; generated histories replayed into "
                 "tsdb.DB with gauges (prometheus.Registry), recount of Head.series and spec values compared after every step",
    "design_ref": "DESIGN.md §5 C52",
}

HARNESS = ["c52_counters_test.go"]


def run(ctx):
    q = ctx.quick
    rnd = random.Random(ctx.seed)
    behs = []
    for cfg, part, take in (("MC_cnt_init.cfg", "init", 40), ("MC_cnt_quick.cfg", "quick", 110), ("MC_cnt_ooo.cfg", "ooo", 60)) + \
            (() if q else (("MC_cnt_deep.cfg", "deep", 400),)):
        if not ctx.want(part):
            continue
        mc = ctx.tlc("db", "Counters", cfg, workers=1, timeout=3000)
        ctx.account(mc)
        em = list(mc.emitted)
        if q and len(em) > take:
            em = rnd.sample(em, take)
        ctx.log("%s: %d generated / %d distinct; %d class witnesses, %d used" % (cfg, mc.generated, mc.distinct, len(mc.emitted), len(em)))
        behs += em
    if not q and ctx.want("big"):
        big = ctx.tlc("db", "Counters", "MC_cnt_big.cfg", timeout=6000)
        ctx.account(big)
        ctx.log("MC_cnt_big: %d generated / %d distinct" % (big.generated, big.distinct))
    d = 22
    for w, off in ((0, 0), (5, 0)):
        if not ctx.want("sim"):
            continue
        sim = ctx.tlc("db", "Counters", "SIM_cnt.cfg", simulate=(3 if q else 60), depth=6 * d, workers=4,
                      constants={"MaxOps": d, "W": w, "TOff": off}, timeout=(600 if q else 3000))
        ctx.account(sim)
        behs += sim.emitted
        ctx.log("SIM W=%d: %d walks" % (w, len(sim.emitted)))
    if not behs:
        import vlib
        raise vlib.Infra("no behaviours emitted")
    ctx.samples = [behs[0], behs[len(behs) // 2], behs[-1]]
    if os.environ.get("VERIF_CORRUPT"):
        # binding proof: falsify one prediction (open appenders after a step) -> the check must exit 1
        behs[0]["c"][-1]["apps"] += 1
    inp = ctx.write_ndjson("behaviours.ndjson", behs)
    gr = ctx.go_test("tsdb", HARNESS, "^TestVerifC52Replay$", env={"VERIF_IN": inp}, timeout="40m")
    ctx.absorb(gr, label="C52 replay")
    ctx.assumptions += [META["note"]]
    return ctx.finish(rule="one history per coverage class of the exhaustive configs (sampled by seed in the quick tier) plus seeded "
                           "balanced walks with and without an out-of-order window; gauges, recount and spec values compared after every step",
                      exhaustive=False)
