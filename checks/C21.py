"""C21 — exemplar ring: Ring.tla exhaustive (quick bounds) + class-directed and simulated
behaviours replayed into tsdb.CircularExemplarStorage."""

META = {
    "text": "Ring.tla is the reference ring of accepted exemplars (validation rules, eviction in acceptance order, resize, per-series "
            "time-ordered view). TLC checks its invariants exhaustively on small constants and generates behaviours (one per coverage "
            "class and per distinct state of MC_quick, every transition of the single-series deep-OOO config, seeded random walks over a "
            "larger alphabet); every behaviour is replayed step by step into the real CircularExemplarStorage and the error class, the "
            "retained exemplars in acceptance order and Select per series and sub-range are compared after every step.",
    "note": "Bounded: <=3 series, <=5 timestamps, capacity <=6, histories <=6 steps exhaustively and <=24 by simulation. The label-hash "
            "tie-break is concretised from the real labels.Hash. Concurrency of the store (single RWMutex) is not explored.",
    "technique": "TLA+ reference model (Ring.tla) checked by TLC; TLC-generated behaviours replayed into tsdb.CircularExemplarStorage",
    "design_ref": "DESIGN.md §5 C21",
}


def run(ctx):
    q = ctx.quick
    # (M)+(R) exhaustive small model; emits one behaviour per coverage class
    mc = ctx.tlc("exemplar", "Ring", "MC_quick.cfg", workers=1, timeout=900)
    ctx.account(mc)
    behs = list(mc.emitted)
    ctx.log("MC_quick: %d generated / %d distinct, %d class behaviours" % (mc.generated, mc.distinct, len(behs)))
    # (M)+(R) single series, long time axis and wide window: deep out-of-order insertion / anchor eviction
    ooo = ctx.tlc("exemplar", "Ring", "MC_ooo.cfg", workers=8, timeout=900)
    ctx.account(ooo)
    behs += ooo.emitted
    ctx.log("MC_ooo: %d generated / %d distinct, %d behaviours" % (ooo.generated, ooo.distinct, len(ooo.emitted)))
    # (M) bigger constants, check only
    if not q:
        big = ctx.tlc("exemplar", "Ring", "MC_big.cfg", timeout=3000)
        ctx.account(big)
        ctx.log("MC_big: %d generated / %d distinct" % (big.generated, big.distinct))
    # (R) seeded random walks over the big alphabet, every walk emitted
    d = 14 if q else 24
    sim = ctx.tlc("exemplar", "Ring", "SIM.cfg", simulate=(40 if q else 2500), depth=d + 3, workers=8,
                  constants={"MaxOps": d}, timeout=(120 if q else 1500))
    ctx.account(sim)
    walks = [b for b in sim.emitted]
    ctx.log("SIM: %d walks" % len(walks))
    behs += walks
    if not behs:
        raise ctx_infra("no behaviours emitted")
    ctx.samples = [behs[0], behs[len(behs) // 2], behs[-1]]
    inp = ctx.write_ndjson("behaviours.ndjson", behs)
    gr = ctx.go_test("tsdb", ["c21_ring_test.go"], "^TestVerifC21Replay$", env={"VERIF_IN": inp})
    ctx.absorb(gr, label="C21 replay")
    ctx.assumptions += [
        "bounded model: 2 series, 3 timestamps, 2 values, 2 exemplar label sets + 1 over-long, capacity<=3 exhaustively (quick); "
        "larger alphabet only by seeded simulation",
        "exemplar label hash order taken from the real labels.Hash at harness start",
        "Resize return value (migrated) is drift-only: the property does not fix it",
    ]
    return ctx.finish(rule="one behaviour per coverage class of the exhaustive run + simulated walks; each replayed step compares "
                           "error class, retained ring in acceptance order and Select per series/sub-range", exhaustive=False)


def ctx_infra(msg):
    import vlib
    return vlib.Infra(msg)
