"""C35 — exposition formats: Expo.tla (entry stream each parser must yield + cross-format agreement checked by TLC) and replay of
expfmt-encoded payloads through the three parsers, plus token-level mutations for totality."""

META = {
    "text": "Expo.tla defines, for payloads of metric family descriptors (counter/gauge/untyped/summary/classic histogram; plain, "
            "_total and UTF-8 names; help; unit; label, value, timestamp and exemplar classes; with/without quantiles, buckets and "
            "explicit +Inf), the entry stream each of the three parsers must yield: HELP/TYPE/UNIT entries and their family names, "
            "series order, _bucket/_sum/_count suffixes, le/quantile labels, which series carry timestamps and exemplars, "
            "__type__/__unit__ labels. TLC checks on every payload that the three streams agree on all they can express (samples, "
            "labels, values, timestamps; exemplars OM=protobuf; metadata up to the _total rule), that each sample occurs once and "
            "histograms are complete. Each payload is concretised, encoded with prometheus/common expfmt in the three formats, "
            "parsed by textparse.New (EnableTypeAndUnitLabels on/off) and compared entry by entry (labels, float bits up to NaN, "
            "timestamps, exemplars, metadata) with the specified stream. Totality: a TLC-enumerated list of single-character "
            "mutations is applied to the encoded bytes of each format; every parse must terminate without panic.",
    "note": "Float text, escaping and timestamp arithmetic are observed only through the concretised replay (seeded value, timestamp, "
            "name and label classes); the specification decides the logical content. Native histograms in protobuf are covered by "
            "C36's payloads only. Start timestamps (_created) and parser options other than EnableTypeAndUnitLabels are not "
            "covered. Totality covers grammar-adjacent inputs (single-character mutations of valid payloads), not arbitrary bytes. "
            "Bounds: 1 family x 1 metric over all classes, 2 families (metadata carry-over), 1 family x 2 metrics, and seeded "
            "random subsets for 3 families x 2 metrics.",
    "technique": "TLA+ specification of the per-format entry streams (Expo.tla) checked by TLC; TLC-generated payloads encoded with expfmt and replayed through textparse.New",
    "design_ref": "DESIGN.md §5 C35",
    "level": "model_checking",
}


def run(ctx):
    import os
    import vlib
    q = ctx.quick
    behs, muts = [], []
    for cfg in ["MC_expo_quick.cfg", "MC_expo_pairs.cfg", "MC_expo_multi.cfg"]:
        mc = ctx.tlc("expo", "Expo", cfg, workers=4, timeout=1500)
        ctx.account(mc)
        behs += mc.emitted
        muts += mc.tagged.get("@@MU", [])
        ctx.log("%s: %d payloads" % (cfg, len(mc.emitted)))
    for k in range(1 if q else 8):
        sim = ctx.tlc("expo", "Expo", "SIM_expo.cfg", workers=4, timeout=1500,
                      extra_args=["-seed", str(ctx.seed * 100 + k)], constants={"SimPick": 5 if q else 7})
        ctx.account(sim)
        behs += sim.emitted
        ctx.log("SIM_expo[%d]: %d payloads" % (k, len(sim.emitted)))
    if not behs or not muts:
        raise vlib.Infra("no behaviours / mutation list emitted")
    if q:
        # totality in the quick tier: mutate a deterministic sample of the pair payloads
        n = 0
        for b in behs:
            if b.get("mut"):
                n += 1
                b["mut"] = (n % 9 == 0)
    ctx.samples = [behs[0], behs[len(behs) // 2], behs[-1]]
    if os.environ.get("VERIF_CORRUPT"):
        # binding self-test (notes/C35.md): swap the order of two predicted series of one payload
        for b in behs:
            ss = [i for i, e in enumerate(b["proto"]) if e["k"] == "ser"]
            if len(ss) >= 2:
                b["proto"][ss[0]], b["proto"][ss[1]] = b["proto"][ss[1]], b["proto"][ss[0]]
                ctx.log("VERIF_CORRUPT: corrupted one payload")
                break
    inp = ctx.write_ndjson("payloads.ndjson", behs)
    mut = ctx.write_ndjson("mutations.ndjson", muts[:1])
    gr = ctx.go_test("model/textparse", ["c35_expo_test.go"], "^TestVerifC35Replay$", env={"VERIF_IN": inp, "VERIF_MUT": mut})
    ctx.absorb(gr, label="C35 replay")
    ctx.assumptions += [
        "reference encoder = prometheus/common expfmt with NoEscaping (UTF-8 names quoted)",
        "exemplars: counters and the first finite bucket; one fixed exemplar timestamp",
        "totality = single-character mutations (12 character classes x 8 operations x first/middle/last occurrence) of valid payloads",
    ]
    return ctx.finish(rule="every payload of the bounded configs + seeded random-subset payloads, each in 3 formats x typeAndUnitLabels; "
                           "mutation list applied to the pair payloads", exhaustive=False)
