"""C10 — float chunks return exactly what was appended: FloatChunk.tla (operation/iterator state machine with
class-level encoder state) checked by TLC, behaviours concretised to boundary values and replayed into the
real XOR / XOR2 chunks."""

META = {
    "text": "FloatChunk.tla models a float chunk as the sequence of appended (start timestamp, timestamp, value) triples with the "
            "encoder state at class level (timestamp delta-of-delta classes around the 13/14/17/20/64-bit packing boundaries, value "
            "XOR classes: same / inside the leading-trailing window / new window / clamp and 64-bit wrap extremes / staleness marker / "
            "other NaNs / signed zero / infinity, start timestamp classes: none / constant / previous timestamp / jitter around the "
            "varbit bucket boundaries / arbitrary) and the operations Append, Reopen (new Appender on the same chunk or on a chunk "
            "reloaded from its bytes), Open, Next, Seek. TLC enumerates the operation sequences and predicts which sample every "
            "iterator call must stand on (Seek = first sample at or after the target, never moving backwards). Each behaviour is "
            "concretised (boundary exact and +-1, seeded) and replayed into the real XOR and XOR2 chunks; every predicted iterator "
            "result and three complete reads (fresh, recycled, reloaded-from-bytes iterator) are compared bit for bit with the "
            "appended triples, walks are also stretched to ~2000 samples, and the delta-of-delta ranges named by the spec are swept "
            "value by value.",
    "note": "TLC decides the operation/iterator state machine and which encoding branches are exercised; bit exactness of the codecs "
            "is observed only through the concretised replay. Bounded: all class sequences of length 3 with a re-open at every "
            "position, iterator scripts of <=3 calls on chunks of <=3 samples exhaustively, walks of <=40 samples (x60 stretched) by "
            "seeded simulation. Timestamps stay within +-2^62. XOR chunks do not store start timestamps (AtST = 0 is expected).",
    "technique": "TLA+ state machine (FloatChunk.tla) checked by TLC; TLC-generated behaviours concretised and replayed into tsdb/chunkenc",
    "design_ref": "DESIGN.md §5 C10",
    "level": "model_checking",
}


def _corrupt(behs, how):
    """Binding self-test: VERIF_CORRUPT=seek|next (one predicted iterator result of one behaviour)."""
    for k, b in enumerate(behs):
        for st in b:
            if how == "seek" and st.get("op") == "Seek" and st.get("at", 0) > 1:
                st["at"] -= 1
                return k
            if how == "next" and st.get("op") == "Next" and st.get("at", 0) == 0:
                st["at"] = 1
                return k
    raise RuntimeError("nothing to corrupt")


def run(ctx):
    import json
    import os
    q = ctx.quick
    cache = os.environ.get("VERIF_FC_CACHE")        # mutation-testing aid: reuse the TLC output of a previous run
    if cache and os.path.exists(cache):
        behs = [json.loads(l) for l in open(cache)]
        ctx.states = ctx.transitions = len(behs)
        ctx.assumptions.append("TLC output reused from VERIF_FC_CACHE (mutation-testing aid, not a registered run)")
    else:
        behs = []
        for cfg in ("MC_quick.cfg", "MC_len4.cfg", "MC_iter.cfg"):
            mc = ctx.tlc("floatchunk", "FloatChunk", cfg, workers=8, timeout=900)
            ctx.account(mc)
            ctx.log("%s: %d generated / %d distinct, %d behaviours" % (cfg, mc.generated, mc.distinct, len(mc.emitted)))
            behs += mc.emitted
        if not q:
            big = ctx.tlc("floatchunk", "FloatChunk", "MC_big.cfg", timeout=3000, heap="12g")
            ctx.account(big)
            ctx.log("MC_big: %d generated / %d distinct, %d behaviours" % (big.generated, big.distinct, len(big.emitted)))
            behs += big.emitted
        sim = ctx.tlc("floatchunk", "FloatChunk", "SIM.cfg", simulate=(3 if q else 400), depth=56, workers=8,
                      timeout=(100 if q else 1500))
        ctx.account(sim)
        ctx.log("SIM: %d walks" % len(sim.emitted))
        if not sim.emitted:
            import vlib
            raise vlib.Infra("no walks emitted")
        behs += sim.emitted
        if cache:
            with open(cache, "w") as f:
                for b in behs:
                    f.write(json.dumps(b, separators=(",", ":")) + "\n")
    how = os.environ.get("VERIF_CORRUPT")
    if how:
        k = _corrupt(behs, how)
        ctx.log("binding self-test: corrupted predicted field (%s) of behaviour %d" % (how, k))
    ctx.samples = [behs[0], behs[len(behs) // 2], behs[-1]]
    inp = ctx.write_ndjson("behaviours.ndjson", behs)
    gr = ctx.go_test("tsdb/chunkenc", ["c10_floatchunk_test.go"], "^TestVerifC10Replay$", env={"VERIF_IN": inp})
    ctx.absorb(gr, label="C10 replay")
    ctx.assumptions += [
        "class-level model: bit exactness is decided by the concretised replay only (several concrete values per class, seeded)",
        "exhaustive: class sequences of length 3 over 12 dod / 5 value / 2 start-timestamp classes with a re-open at every position; "
        "iterator scripts of <=3 calls; longer chunks (<=40 samples, stretched x60 to ~2000) by seeded simulation",
        "timestamps within +-2^62, strictly increasing; XOR chunks ignore start timestamps",
    ]
    return ctx.finish(rule="every maximal behaviour of the exhaustive configurations + seeded walks, each with 2 (quick) / 6 "
                           "(thorough) concretisations; plus an exhaustive sweep of the delta-of-delta ranges named by the spec",
                      exhaustive=False)
