"""C03 — acknowledged writes survive a process crash at any point: Crash.tla (Db.tla + persistence programs over named
files, Crash between any two steps, Recover = Open) checked by TLC; crash points executed on the real code by SIGKILLing a
child process at verifhook sites."""
import json
import os
import random

META = {
    "text": "Crash.tla extends the TSDB model Db.tla: every mutating call is its effect on memory plus a program of persistence "
            "steps (one per write/rename/fsync/remove boundary of WL.Log and segment rotation, WAL checkpointing and truncation, "
            "block writing, reloadBlocks/deleteBlocks, tombstone and meta rewrites, out-of-order compaction and WBL truncation, "
            "block compaction planned by PlannerOps.tla, CleanTombstones, Close, Open with WL.Repair) over named files; Crash may "
            "fall between any two steps, also during recovery, and the recovered contents are a function of the files. TLC checks "
            "that every acknowledged sample and deletion survives, nothing but the commit in flight is added and values are "
            "unaltered (Survive), and that the file model agrees with Db.tla (FilesAgree, BlocksAgree). The behaviours TLC emits "
            "(workload, site, hit, predicted trace and contents) are executed on the real code: a child process runs the workload "
            "against a real tsdb.DB with an fsynced ack log and is SIGKILLed at the hit-th arrival at the site; the parent reopens "
            "the directory and checks acked <= contents <= acked + in-flight with the ack log as acked, unaltered values, that Open "
            "succeeds and that the recovered DB keeps new writes over a clean restart. Every workload is also run dry, its real hook "
            "trace compared with the trace predicted by the spec, and killed at the (site, hit) pairs of the real trace.",
    "note": "Process kills only (written bytes survive; no power-loss semantics). Workloads: <=2 series (one with a label set larger "
            "than a WAL page, which makes torn records and segment rotation reachable), one appender at a time, 2-page WAL segments, "
            "block range 4 model time units; scripted scenarios exhaustively over their data choices plus seeded random walks. "
            "chunks_head files and chunk snapshots are opaque to the model (their hook sites are crash points taken from the real "
            "trace). Retention is off. Quick tier: hit <= 3 per site and a budget per workload; thorough: all hits and random-time kills.",
    "technique": "TLA+ model of the persistence protocols (Crash.tla over Db.tla) checked by TLC; TLC-generated (workload, site, hit) "
                 "triples executed by killing a child process at verifhook crash-point sites and reopening the directory",
    "design_ref": "DESIGN.md §5 C03, Appendix A.3",
}

# sites the spec models (projection for the trace comparison); everything else the hooks report is either an observation
# site of other properties or belongs to the opaque files
SITES = [
    "wlog.page.flushed/wal", "wlog.page.flushed/wbl", "wlog.page.flushed/tmp", "wlog.segment.created/wal", "wlog.segment.created/wbl",
    "wlog.segment.removed/wal", "wlog.segment.removed/wbl", "wlog.opened/wal", "wlog.opened/wbl", "wlog.opened/tmp",
    "wlog.closed/wal", "wlog.closed/wbl", "wlog.closed/tmp",
    "wlog.repair.later_removed/wal", "wlog.repair.renamed/wal", "wlog.repair.recreated/wal", "wlog.repair.tmp_removed/wal", "wlog.repair.done/wal",
    "checkpoint.tmp.created", "checkpoint.dir.synced", "checkpoint.renamed", "checkpoint.old.removed", "head.wal_trunc.begin", "head.wal_trunc.done",
    "block.tmp.created", "block.populated", "block.files.closed", "blockmeta.tmp.written", "tombstones.tmp.written", "block.dir.synced",
    "block.renamed", "block.marked_deletable", "fileutil.renamed", "fileutil.replace.dest_removed",
    "db.compact_head.written", "db.compact_head.reloaded", "db.compact_ooo.written", "db.compact_ooo.reloaded",
    "db.reload.pre_swap", "db.reload.swapped", "db.delete.closed", "db.delete.renamed", "db.delete.removed",
    "db.open.tmp_cleaned", "db.open.reloaded", "db.open.head_init_failed", "db.open.done", "head.close.mmapped", "cdm.closed", "head.close.done", "closed",
]

DB_FILES = None


def spec_files(ctx):
    # specs/crash holds frozen copies of specs/db/Db.tla and specs/planner/PlannerOps.tla (see notes/C03.md): Crash.tla assigns
    # every variable of Db.tla in its recovery actions, so it must not follow edits of Db.tla silently
    return None


def to_cases(behs, rnd, max_crashes_per_workload):
    """Group the emitted behaviours: a behaviour ending in End is a full workload (dry run + real-trace crash points);
    one ending in Recover is workload-prefix + Crash [+ Crash] + Recover. Prefixes are grouped by identical workload."""
    full = {}
    partial = {}
    for b in behs:
        ops = [s for s in b if s["a"] not in ("Crash", "Recover", "End")]
        key = json.dumps(ops, sort_keys=True)
        last = b[-1]
        if last["a"] == "End":
            full.setdefault(key, {"w": ops + [last], "crashes": [], "sites": SITES})
        else:
            cr = [s for s in b if s["a"] == "Crash"]
            rec = dict(cr[0])
            rec["must"], rec["may"] = last.get("must"), last.get("may")
            rec["exp"] = last.get("exp")
            if len(cr) > 1:
                rec["site2"], rec["hit2"] = cr[1]["site"], cr[1]["hit"]
            rec["rtrace"] = last.get("trace")
            rec["ckf"] = last.get("ckf", [])
            partial.setdefault(key, {"w": ops, "crashes": [], "sites": SITES})["crashes"].append(rec)
    # a crash behaviour whose workload is also a full workload joins that case
    for key, c in list(partial.items()):
        if key in full:
            full[key]["crashes"] += c["crashes"]
            del partial[key]
    cases = list(full.values()) + list(partial.values())
    for c in cases:
        if len(c["crashes"]) > max_crashes_per_workload:
            c["crashes"] = rnd.sample(c["crashes"], max_crashes_per_workload)
    return cases


# scripted scenarios of Crash.tla (see `Script`): name, out-of-order window, odds of a crash per step (simulation)
SCRIPTS = [("s1", 0, 400), ("s2", 0, 250), ("s3", 5, 300), ("s4", 0, 150), ("k1", 5, 60), ("c1", 0, 300)]


def run(ctx):
    q = ctx.quick
    rnd = random.Random(ctx.seed)
    files = spec_files(ctx)
    behs = []
    # (M) exhaustive: every crash point of every small history; one witness per crash class
    for cfg in (["MC_quick.cfg", "MC_k1.cfg"] if q else ["MC_quick.cfg", "MC_k1.cfg", "MC_big.cfg", "MC_big2.cfg"]):
        if not ctx.want(cfg[:-4]):
            continue
        mc = ctx.tlc("crash", "Crash", cfg, workers=1 if cfg in ("MC_quick.cfg", "MC_k1.cfg") else 8, files=files, timeout=3000)
        ctx.account(mc)
        ctx.log("%s: %d generated / %d distinct; %d behaviours emitted" % (cfg, mc.generated, mc.distinct, len(mc.emitted)))
        behs += mc.emitted
    # (M)+(R) scripted scenarios, seeded random walks (data choices and crash points)
    scripts = SCRIPTS
    if q and not ctx._parts:
        # quick tier: k1 and two of the four long scenarios, rotating with the seed (all of them in the thorough tier)
        long = SCRIPTS[:4]
        scripts = [long[ctx.seed % 4], long[(ctx.seed + 1) % 4], SCRIPTS[4], SCRIPTS[5]]
    for name, w, odds in scripts:
        if not ctx.want(name):
            continue
        sim = ctx.tlc("crash", "Crash", "SIM.cfg", simulate=(4 if q else 12), depth=4000, workers=4 if q else 8, files=files,
                      constants={"ScriptName": '"%s"' % name, "W": w, "CrashOdds": odds}, timeout=(300 if q else 3000))
        ctx.account(sim)
        ctx.log("SIM %s: %d behaviours" % (name, len(sim.emitted)))
        for b in sim.emitted:
            b[0]["script"] = name
        behs += sim.emitted
    cases = to_cases(behs, rnd, 6 if q else 12)
    full = [c for c in cases if c["w"][-1]["a"] == "End"]
    part = [c for c in cases if c["w"][-1]["a"] != "End"]
    if q:
        # budget of the quick tier: a few complete workloads (dry run + real-trace crash points) and the model's crash points
        rnd.shuffle(full)
        rnd.shuffle(part)
        # complete workloads: one per script first (the shutdown-snapshot scenario c1 always), then up to the budget
        by, pick = {}, []
        for c in full:
            by.setdefault(c["w"][0].get("script", "mc"), []).append(c)
        for k in sorted(by, key=lambda x: (x != "c1", x)):
            pick.append(by[k].pop(0))
        rest = [c for k in sorted(by) for c in by[k]]
        full, part = (pick + rest)[:5], part[:40]
    else:
        rnd.shuffle(full)
        rnd.shuffle(part)
        full, part = full[:20], part[:250]
    cases = full + part
    if not cases:
        raise Exception("no behaviours")
    ctx.samples = [cases[0]["w"][:14]] + [c["crashes"][0] for c in cases if c["crashes"]][:2]
    ctx.log("%d complete workloads, %d crash prefixes, %d model crash points" % (len(full), len(part), sum(len(c["crashes"]) for c in cases)))
    if os.environ.get("VERIF_CORRUPT"):      # binding self-test: corrupt one predicted field -> must exit 1
        for c in cases:                        # drop one sample from the predicted contents of the first complete workload's last commit
            if c["w"][-1]["a"] != "End":
                continue
            for st in reversed(c["w"]):
                if st["a"] == "Commit" and any(st["exp"][s] for s in st["exp"]):
                    s = [x for x in st["exp"] if st["exp"][x]][0]
                    ctx.log("VERIF_CORRUPT: removing %s from the predicted contents of a Commit" % st["exp"][s][-1])
                    st["exp"][s] = st["exp"][s][:-1]
                    break
            break
    inp = ctx.write_ndjson("cases.ndjson", cases)
    traces_out = ctx.tmp("real_traces.ndjson")
    gr = ctx.go_test("tsdb", ["c03_dbhelpers_test.go", "c03_crash_test.go"], "^TestVerifC03Crash$",
                     env={"VERIF_IN": inp, "C03_TRACES_OUT": traces_out}, timeout="120m")
    ctx.absorb(gr, label="C03 crash runs")
    # (T) the hook traces of the dry runs must be behaviours of Crash.tla (Trace_Crash.tla, one TLC run per OOO window)
    if os.path.exists(traces_out):
        by_w = {}
        for line in open(traces_out):
            r = json.loads(line)
            w = [s for s in cases[r["id"]]["w"] if s["a"] != "End"]
            by_w.setdefault(w[0]["W"], []).append({"id": r["id"], "w": w, "tr": r["tr"]})
        accepted = 0
        for wnd, trs in sorted(by_w.items()):
            tf = ctx.write_ndjson("trace_w%d.ndjson" % wnd, trs)
            tv = ctx.tlc("crash", "Trace_Crash", "Trace.cfg", workers=1, files={"trace.ndjson": tf}, constants={"W": wnd}, timeout=900)
            ctx.account(tv)
            ok = {x["id"] for x in tv.tagged.get("@@OK", [])}
            accepted += len(ok)
            for t in trs:
                if t["id"] not in ok:
                    ctx.drift += 1
                    ctx.log("model drift: the real hook trace of workload %d is not a behaviour of Crash.tla (Trace_Crash.tla)" % t["id"])
        ctx.traces += accepted
        ctx.extra["traces_accepted_by_Trace_Crash"] = accepted
        ctx.log("Trace_Crash: %d of %d real traces accepted" % (accepted, sum(len(v) for v in by_w.values())))
    ctx.assumptions += [META["note"]]
    return ctx.finish(rule="crash classes of the exhaustive config and seeded walks through the scripted scenarios (random crash point, "
                           "second crash during recovery); per complete workload the (site, hit) pairs of its real hook trace; each "
                           "executed by SIGKILL of a child process and judged on the reopened directory against the ack log",
                      exhaustive=False)
