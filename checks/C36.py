"""C36 — classic histogram -> NHCB conversion: Nhcb.tla (reference + transcription of NHCBParser / TempHistogram, related by TLC)
and replay of every generated payload through textparse.New in text, OpenMetrics and protobuf form."""

META = {
    "text": "Nhcb.tla defines, for a payload of groups (classic histogram of one family/label set/timestamp in any line order and "
            "with missing +Inf / _count / _sum / buckets, plain series, missing TYPE, an inconsistent histogram, a metric that also "
            "has an exponential histogram), the entry stream C36 demands: per group the classic lines (keep-classic or not "
            "convertible) followed by one NHCB with the finite bounds, de-cumulated counts, count, sum, the group's timestamp and its "
            "exemplars. A second layer transcribes NHCBParser.Next / handleClassicHistogramSeries / processNHCB and "
            "convertnhcb.TempHistogram as a state machine over the line stream; TLC checks on every payload that both agree. Each payload is rendered as Prometheus text, OpenMetrics and "
            "delimited protobuf, parsed by textparse.New with ConvertClassicHistogramsToNHCB (keep-classic on/off) and the entry "
            "stream (labels, values, timestamps, histogram bounds/buckets/count/sum/exemplars) is compared with the reference.",
    "note": "Bounds: <=2 groups exhaustively over 2 shapes (quick), all 6 shapes x 3 line orders x exemplars for single groups, <=3 "
            "groups in MC_nhcb_big, <=4 groups from seeded random group subsets; 2 histogram families x 2 label sets + 1 gauge. "
            "Lines of one classic histogram are contiguous and no series is exposed twice (format rules). Protobuf: conversion "
            "happens inside ProtobufParser (not transcribed; compared with the same reference), classic series there are only "
            "checked for presence/absence. Start timestamps (_created) are not covered. Integer vs float counts, bound values and "
            "float text are concretised by seed (replay-only fidelity).",
    "technique": "TLA+ reference + transcription (Nhcb.tla) checked by TLC; TLC-generated payloads replayed through textparse.New (text, OpenMetrics, protobuf)",
    "design_ref": "DESIGN.md §5 C36",
    "level": "model_checking",
}


def run(ctx):
    import os
    import vlib
    q = ctx.quick
    behs = []
    for cfg in ["MC_nhcb_shapes.cfg", "MC_nhcb_quick.cfg"]:
        mc = ctx.tlc("expo", "Nhcb", cfg, workers=8, timeout=1500)
        ctx.account(mc)
        behs += mc.emitted
        ctx.log("%s: %d generated / %d distinct, %d payloads" % (cfg, mc.generated, mc.distinct, len(mc.emitted)))
    if not q:
        big = ctx.tlc("expo", "Nhcb", "MC_nhcb_big.cfg", timeout=3000)
        ctx.account(big)
        ctx.log("MC_nhcb_big: %d generated / %d distinct" % (big.generated, big.distinct))
    # payloads of up to 4 groups over a seeded random subset of all groups (exhaustive over the subset)
    for k in range(1 if q else 6):
        sim = ctx.tlc("expo", "Nhcb", "SIM_nhcb.cfg", workers=8, timeout=1500,
                      extra_args=["-seed", str(ctx.seed * 100 + k)], constants={"SimPick": 7 if q else 9})
        ctx.account(sim)
        behs += sim.emitted
        ctx.log("SIM_nhcb[%d]: %d payloads" % (k, len(sim.emitted)))
    if not behs:
        raise vlib.Infra("no behaviours emitted")
    for b in behs:
        b.pop("lines_unused", None)
    ctx.samples = [behs[0], behs[len(behs) // 2], behs[-1]]
    if os.environ.get("VERIF_CORRUPT"):
        # binding self-test (notes/C36.md): change one predicted bucket count of one payload without deviation
        for b in behs:
            hs = [e for e in b["want"] if e["k"] == "H" and e["ls"] != "x"]
            if hs and b["text"]:
                hs[0]["cnts"][0] += 1
                ctx.log("VERIF_CORRUPT: corrupted one payload")
                break
    inp = ctx.write_ndjson("payloads.ndjson", behs)
    gr = ctx.go_test("model/textparse", ["c36_nhcb_test.go"], "^TestVerifC36Replay$", env={"VERIF_IN": inp})
    ctx.absorb(gr, label="C36 replay")
    ctx.assumptions += [
        "lines of one classic histogram are contiguous; no series appears twice in a payload",
        "the outcome for the inconsistent histogram itself (count below last bucket, no +Inf) is not fixed; entries with its label set are ignored",
        "protobuf: classic series of a converted metric are only checked for presence (keep) / absence (no keep)",
        "start timestamps are not generated",
    ]
    return ctx.finish(rule="every payload of the bounded configs + seeded random-subset payloads; each parsed in 3 formats and compared "
                           "entry by entry with the reference stream", exhaustive=False)
