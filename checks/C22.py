"""C22 — samples are never attributed to the wrong series: Refs.tla (reference-level model of the TSDB) + replay."""
import os
import random

META = {
    "text": "Refs.tla models every place of the TSDB that stores a series reference: the allocator Head.lastSeriesID, the by-ref and "
            "by-hash series maps, series / sample / tombstone records in WAL segments and in the checkpoint (wlog.Checkpoint with "
            "Head.walExpiries), the WBL, the chunks of the head-chunk files (ChunkDiskMapper cut / Truncate), the chunk snapshot, "
            "series_state.json (fast startup: clean flag, ticker, findLastSeriesID scan) and the references a caller keeps from Append; "
            "every sample carries as ghost the label sets it may be returned under. Actions: scrapes that re-use held references, appends "
            "with references of other series, out-of-order appends, m-mapping, head / out-of-order / selected-series / stale-series "
            "compaction with series gc and eviction, WAL segment cuts, clean restarts and kills with fast startup on or off; tsdb.Open is "
            "a transcription of Head.Init (snapshot, m-map chunks, series_state.json, checkpoint, segments with multiRef, WBL, gc). TLC "
            "checks RightLabels (every visible sample lies under a label set it was appended with), NoReuse (no ref bound to a series is "
            "still carried for another label set by a record, head chunk, snapshot or caller), MapsAgree, AllocAbove and AppendRight "
            "exhaustively on the small configs and on seeded walks / scenario skeletons. Every emitted history is replayed on a real "
            "tsdb.DB: after every step all samples returned by Querier and ChunkQuerier are traced back through their unique values to "
            "the label sets of their Append (strict); at every hand-out of a new reference the real WAL, WBL and chunks_head files are "
            "decoded and must not carry that reference for another label set (strict); reference numbers, lastSeriesID, head series, "
            "WAL entries, head-chunk files and query contents predicted by the spec are compared as drift.",
    "note": "Bounds: 2-3 label sets, clock <= 6 (exhaustive, 4 steps) / <= 14 (walks of 16 steps, scenario skeletons of 12-14 steps), "
            "chunk range 4, float samples only, unbounded out-of-order window, one appender at a time (macro-steps), no Delete, no "
            "retention. A kill loses exactly the chunks buffered for the current head-chunk file; the series_state ticker fires only at "
            "Tick steps (the harness parks the real ticker). Known findings KF-C22-1/2: their triggers are disabled in the checked "
            "configs and enabled in MC_refs_kf.cfg, where the harness reports the deviation under the finding's id. The scrape cache "
            "(scrapeCache.updateRef) is represented by the caller-side cache of the harness, not by a scrapeLoop run.",
    "technique": "TLA+ model of series-reference handling (Refs.tla) checked by TLC; TLC-generated histories replayed into tsdb.DB with "
                 "label attribution of every returned sample and on-disk reference inventory checked",
    "design_ref": "DESIGN.md §5 C22, §7 H10",
}

HARNESS = ["c22_refs_test.go"]


def run(ctx):
    q = ctx.quick
    rnd = random.Random(ctx.seed)
    behs = []
    # exhaustive small configurations, one witness per coverage class
    for cfg, part, take in (("MC_refs_quick.cfg", "quick", 70), ("MC_refs_fast.cfg", "fast", 90), ("MC_refs_ckpt.cfg", "ckptmc", 120),
                            ("MC_refs_dup.cfg", "dup", 60)):
        if not ctx.want(part):
            continue
        mc = ctx.tlc("db", "Refs", cfg, workers=1, timeout=3000)
        ctx.account(mc)
        em = list(mc.emitted)
        if q and len(em) > take:
            em = rnd.sample(em, take)
        ctx.log("%s: %d generated / %d distinct; %d class witnesses, %d used" % (cfg, mc.generated, mc.distinct, len(mc.emitted), len(em)))
        behs += em
    if not q and ctx.want("big"):
        big = ctx.tlc("db", "Refs", "MC_refs_big.cfg", timeout=6000)
        ctx.account(big)
        ctx.log("MC_refs_big: %d generated / %d distinct" % (big.generated, big.distinct))
    # the known findings: triggers enabled, the harness must see the deviations the spec predicts
    if ctx.want("kf"):
        kf = ctx.tlc("db", "Refs", "MC_refs_kf.cfg", workers=1, timeout=3000)
        ctx.account(kf)
        kb = [b for b in kf.emitted if b[-1].get("kfs")]
        ctx.log("MC_refs_kf: %d generated / %d distinct; %d witnesses, %d pass a known-finding trigger" % (kf.generated, kf.distinct, len(kf.emitted), len(kb)))
        behs += (rnd.sample(kb, 8) if q and len(kb) > 8 else kb)
        # DESIGN H10 end to end: the retired ref's out-of-order chunk ends up under the new series' labels
        h10 = ctx.tlc("db", "Refs", "MC_refs_h10.cfg", workers=1, timeout=3000)
        ctx.account(h10)
        hb = [b for b in h10.emitted if b[-1].get("kfs")]
        ctx.log("MC_refs_h10: %d generated / %d distinct; %d witnesses, %d pass the trigger" % (h10.generated, h10.distinct, len(h10.emitted), len(hb)))
        behs += hb
    # seeded walks: free, and along the scenario skeletons (checkpoint / fast startup / out-of-order ghosts)
    sims = [("SIM_refs.cfg", "sim", 16, 4), ("SIM_refs_ckpt.cfg", "ckpt", 14, 4),
            ("SIM_refs_fast.cfg", "fastsim", 12, 3), ("SIM_refs_ooo.cfg", "ooo", 16, 3)]
    if q and not ctx._parts:
        sims = [sims[0], sims[1 + ctx.seed % 3]]       # quick tier: the free walks and one skeleton, chosen by the seed
    for cfg, part, depth, n in sims:
        if not ctx.want(part):
            continue
        sim = ctx.tlc("db", "Refs", cfg, simulate=(n if q else 15 * n), depth=depth + 3, workers=4,
                      constants={"MaxOps": depth}, timeout=(600 if q else 3000))
        ctx.account(sim)
        ctx.log("%s: %d walks" % (cfg, len(sim.emitted)))
        behs += sim.emitted
    if not behs:
        import vlib
        raise vlib.Infra("no behaviours emitted")
    ctx.samples = [behs[0], behs[len(behs) // 2], behs[-1]]
    if os.environ.get("VERIF_CORRUPT"):
        # binding proof: falsify one prediction (the label sets a sample may be returned under) -> the check must exit 1
        for b in behs:
            st = [s for s in b if s.get("apps") and not s.get("kfs")]
            if st and st[0]["apps"][0]["own"] == ["a"]:
                st[0]["apps"][0]["own"] = ["b"]
                break
    inp = ctx.write_ndjson("behaviours.ndjson", behs)
    gr = ctx.go_test("tsdb", HARNESS, "^TestVerifC22Replay$", env={"VERIF_IN": inp}, timeout="40m")
    ctx.absorb(gr, label="C22 replay")
    ctx.assumptions += [META["note"]]
    return ctx.finish(rule="one history per coverage class of the exhaustive configs (sampled by seed in the quick tier), the "
                           "known-finding witnesses, and seeded walks (free and along three scenario skeletons); every step is checked",
                      exhaustive=False)
