"""C05 — head isolation: Isolation.tla model-checked over all interleavings of appenders, commits, rollbacks,
chunk cuts, m-mapping and queriers; every TLC-chosen interleaving forced on real goroutines (gated replay)."""

META = {
    "text": "Isolation.tla models the head's isolation protocol with one process per goroutine and one action per critical section "
            "(Appender+Append, one commitFloats iteration per sample, closeAppend, Rollback, mmapHeadChunks, isolation.State, "
            "isolationState.Close) and carries transcriptions of memSeries.iterator and of the Seek path over stopIterator. TLC checks, over every interleaving of the bounded "
            "model, that no querier sees a sample of an appender that had not closed when it was created (NoDirty), that what a querier "
            "sees never changes (Stable), that trimming the per-series append-id ring is safe (CleanupSafe, RingConsistent), and that the "
            "querier sees exactly the samples of the appenders closed before it (Complete, Atomic) except in the narrowly characterised "
            "situation KF-C05-1, and that reading through Seek agrees with Next and never shows a hidden sample (KF-C05-2, fixed). Every transition of the quick model and seeded random walks of a larger one are then forced on the real "
            "tsdb.DB: appender goroutines are parked by the verifhook gate after each per-sample critical section of Commit, queriers are "
            "opened exactly where TLC placed them, and the samples each querier returns are compared with the spec's predictions.",
    "note": "Bounds: quick = 2 appenders x 3 samples over 2 series (chunk cut at 2 samples) x 2 readers with rollback, exhaustively, one replayed "
            "behaviour per distinct state with an open reader; 3 appenders x 1 series x 2 readers (watermark interplay) likewise; 9 strictly "
            "serial single-sample transactions on one series with 2 readers that stay open (physical txRing: capacity 4, growth while "
            "wrapped with the first slot at 0..3) likewise; 4 appenders x 3 "
            "series x 3 readers by seeded simulation with views checked after every step. Thorough replays every transition of the first model, adds a "
            "6-samples-in-one-series model (ring growth), two 3-appender models check-only (0.6M and 2.7M states) and 1600 walks. Float samples only, OOO disabled, "
            "one head chunk range. Steps inside one Select (chunk list snapshot vs iterator creation) are not interleaved with commits. "
            "Trusted: the verifhook gate placement (after series.Unlock in commitFloats), TLC, the harness' value->owner decoding.",
    "technique": "TLA+ model (Isolation.tla) checked by TLC over all interleavings; TLC-generated interleavings replayed on real goroutines "
                 "through verifhook scheduler gates; querier results compared with spec-predicted views",
    "design_ref": "DESIGN.md §5 C05, §7 H2, Appendix A.1",
    "level": "model_checking",
}


def run(ctx):
    import vlib
    q = ctx.quick
    from concurrent.futures import ThreadPoolExecutor
    with ThreadPoolExecutor(max_workers=7) as ex:
        # (M)+(R) two appenders x three samples, two readers, rollback: every transition emitted
        f_mc = ex.submit(ctx.tlc, "isolation", "Isolation", "MC_quick.cfg", workers=4, timeout=1500,
                         constants={"EmitMode": '"state"' if q else '"all"'})
        # the model must expose the H2 shape when the raw property is checked (guards against a vacuous KF disjunct)
        f_h2 = ex.submit(ctx.tlc, "isolation", "Isolation", "MC_h2.cfg", workers=2, timeout=600, allow_violation=True)
        # (R) seeded random walks of the 4-appender model, predicted views after every step
        f_sim = ex.submit(ctx.tlc, "isolation", "Isolation", "SIM.cfg", simulate=(8 if q else 400), depth=45, workers=4,
                          timeout=(200 if q else 1500))
        # (M)+(R) three appenders x one series x two readers (cleanup bound taken from the oldest reader): one per state
        f_wm = ex.submit(ctx.tlc, "isolation", "Isolation", "MC_wm.cfg", workers=4, timeout=1500)
        # (M)+(R) nine serial single-sample transactions on one series, two readers that stay open: the watermark cleanup
        # walks the first slot of the 4-slot txRing round and a reader pins the watermark while the ring fills up, so the
        # ring grows while wrapped with its first slot at 0, 1, 2 and 3 (code-shaped coverage dimension `grow`)
        f_ser = ex.submit(ctx.tlc, "isolation", "Isolation", "MC_serial.cfg", workers=4, timeout=1500)
        futs = {}
        if not q:
            # (M)+(R) six samples in one series (three chunks, ring growth): one behaviour per distinct state
            futs["ring"] = ex.submit(ctx.tlc, "isolation", "Isolation", "MC_ring.cfg", workers=4, timeout=3000)
        mc, h2, sim, wm, ser = f_mc.result(), f_h2.result(), f_sim.result(), f_wm.result(), f_ser.result()
        ring = futs["ring"].result() if futs else None
    if h2.violated != "Complete":
        raise vlib.Infra("MC_h2: expected the raw Complete invariant to fail in the model (KF-C05-1 shape), got %r" % h2.violated)
    ctx.account(mc)
    behs = list(mc.emitted)
    ctx.log("MC_quick: %d generated / %d distinct, %d behaviours (%.0fs)" % (mc.generated, mc.distinct, len(behs), mc.wall))
    ctx.account(wm)
    behs += wm.emitted
    ctx.log("MC_wm: %d generated / %d distinct, %d behaviours (%.0fs)" % (wm.generated, wm.distinct, len(wm.emitted), wm.wall))
    ctx.account(ser)
    behs += ser.emitted
    grown = {st.get("grow") for b in ser.emitted for st in b["steps"] if st.get("a") == "CommitSample"}
    if not {0, 1, 2, 3} <= grown:
        raise vlib.Infra("MC_serial: ring growth with the first slot at 0..3 not all covered (got %s)" % sorted(grown))
    ctx.log("MC_serial: %d generated / %d distinct, %d behaviours, ring grew with first slot at %s (%.0fs)"
            % (ser.generated, ser.distinct, len(ser.emitted), sorted(g for g in grown if g is not None and g >= 0), ser.wall))
    if ring:
        ctx.account(ring)
        behs += ring.emitted
        ctx.log("MC_ring: %d generated / %d distinct, %d behaviours (%.0fs)" % (ring.generated, ring.distinct, len(ring.emitted), ring.wall))
    if not q:
        # (M) three appenders: check only
        for cfg in ("MC_mid.cfg", "MC_big.cfg"):
            big = ctx.tlc("isolation", "Isolation", cfg, timeout=3000)
            ctx.account(big)
            ctx.log("%s: %d generated / %d distinct (%.0fs)" % (cfg, big.generated, big.distinct, big.wall))
    ctx.account(sim)
    ctx.log("SIM: %d walks (%.0fs)" % (len(sim.emitted), sim.wall))
    behs += sim.emitted
    if not behs:
        raise vlib.Infra("no behaviours emitted")
    ctx.samples = [behs[len(behs) // 3], behs[-1]]
    inp = ctx.write_ndjson("behaviours.ndjson", behs)
    gr = ctx.go_test("tsdb", ["c05_isolation_test.go"], "^TestVerifC05Replay$", env={"VERIF_IN": inp}, timeout="30m")
    ctx.absorb(gr, label="C05 replay")
    if not gr.by_kind("done"):
        # vlib.absorb tolerates a missing done record when violation records exist (known findings always produce one)
        raise vlib.Infra("harness C05 replay did not finish (no done record):\n%s" % gr.out[-3000:])
    ctx.assumptions += [
        "bounded model: <=4 appenders, <=3 series, <=3 readers, float samples, OOO disabled, one chunk range, SamplesPerChunk=1 (cut at 2 samples)",
        "Begin = Head.Appender + all Append calls atomically; reads of one series are atomic w.r.t. commit steps (appenders parked at gates)",
        "Complete/Atomic are checked as Prop \\/ KF_C05_1 (known finding: committed samples hidden behind a sample of a still-open appender in the same series)",
        "ring contents (logical and physical: capacity, first slot), chunk partition and m-map counts are compared as drift only",
    ]
    return ctx.finish(rule="one behaviour per distinct state with an open reader (quick) / per transition (thorough) of MC_quick, per state of MC_wm "
                           "(and MC_ring in thorough), seeded walks of SIM; each replayed on "
                           "real goroutines with gates; after the scheduled steps every open querier is drained per series and compared "
                           "with the predicted view", exhaustive=False)
