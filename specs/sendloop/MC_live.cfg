SPECIFICATION FairSpec
CONSTANTS
  AMs = {"am1", "am2"}
  InitAMs = {"am1"}
  Cap = 2
  MaxBatch = 2
  SendSizes = {1, 2}
  DropIds = {}
  MaxFail = 1
  MaxSync = 1
  Eager = FALSE
  SendHoldsLock = TRUE
  MaxApply = 1
  Gated = {FALSE}
  Hist = FALSE
  EmitMode = "none"
INVARIANTS TypeOK
PROPERTIES StopTerminates SyncTerminates
CHECK_DEADLOCK FALSE
