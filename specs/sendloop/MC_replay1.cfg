SPECIFICATION Spec
CONSTANTS
  AMs = {"am1"}
  InitAMs = {"am1"}
  MaxBatch = 2
  SendSizes = {1, 2, 4}
  DropIds = {2}
  MaxFail = 1
  MaxSync = 1
  Eager = TRUE
  SendHoldsLock = TRUE
  MaxApply = 0
  Gated = {FALSE}
  Hist = TRUE
  EmitMode = "settled"
VIEW View
INVARIANTS TypeOK OrderPreserved BatchBound AcceptedAreSurvivors QueueIsSuffix LossCounted LossExact AllAccepted SentCounted DrainComplete
PROPERTIES DropOldest
ACTION_CONSTRAINT Emit
CHECK_DEADLOCK FALSE
