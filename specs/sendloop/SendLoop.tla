------------------------------ MODULE SendLoop ------------------------------
(***************************************************************************)
(* The notifier's per-Alertmanager send loops (notifier/sendloop.go),      *)
(* their owner alertmanagerSet (notifier/alertmanagerset.go) and           *)
(* Manager.Send / reload / Stop+Run (notifier/manager.go) -- property C46. *)
(*                                                                         *)
(* One process per goroutine:                                              *)
(*   sender        Manager.Send -> alertmanagerSet.send -> sendLoop.add    *)
(*                 for every loop, all under ams.mtx (one atomic step)     *)
(*   Loop(am)      sendLoop.loop: outer select, inner select, nextBatch,   *)
(*                 sendAll (an HTTP exchange = a separate step), re-arm    *)
(*   owner         alertmanagerSet.sync (reload) and Manager.Run's cleanup *)
(*                 after Stop; both hold n.mtx and ams.mtx for the whole   *)
(*                 critical section and call sendLoop.stop() for each      *)
(*                 removed Alertmanager *synchronously*, including the     *)
(*                 drain (queueLen / nextBatch / sendAll steps)            *)
(*                                                                         *)
(* Alerts are the integers 1..NAlerts in the order they are handed to      *)
(* Manager.Send, so "same order" = increasing.                             *)
(*                                                                         *)
(* sendLoop.stop() closes `stopped` and, when draining, waits for the loop *)
(* goroutine to return (loopWG) before it drains from the caller's         *)
(* goroutine.  JoinFix = FALSE is the code before commit ce5b29f1f9        *)
(* (KF-C46-1, DESIGN H5): no wait, the loop may still hold a batch while   *)
(* the drain runs or while stop() returns; then the order and              *)
(* drain-complete properties only hold with the `racy` disjunct.           *)
(***************************************************************************)
EXTENDS Integers, Sequences, FiniteSets, TLC, Json

CONSTANTS AMs,         \* Alertmanager names, a subset of {"am1","am2","am3"}
          InitAMs,     \* subset of AMs discovered initially
          Cap,         \* Options.QueueCapacity
          MaxBatch,    \* Options.MaxBatchSize
          NAlerts,     \* alerts are 1..NAlerts
          SendSizes,   \* sizes of one Manager.Send call
          DropIds,     \* alerts removed by alert relabelling
          Drain,       \* Options.DrainOnShutdown
          MaxFail,     \* bound on failed HTTP exchanges
          MaxSync,     \* bound on Alertmanager set changes
          SendHoldsLock, \* TRUE = the code: Manager.Send holds n.mtx (read) from its snapshot of the sets to the end of the fan-out
          MaxApply,    \* bound on ApplyConfig calls (configuration reloads with an unchanged configuration)
          Gated,       \* subset of BOOLEAN: may a Send be held between its snapshot and its fan-out (harness gate)?
          JoinFix,     \* TRUE = current code (stop waits for the loop before draining); FALSE = before ce5b29f1f9
          Eager,       \* only schedules a gated harness can reproduce
          Hist,        \* record the history variable (FALSE for liveness checking)
          EmitMode     \* "stopend" | "none"

VARIABLES nextId,      \* next alert to be sent
          loops,       \* domain of alertmanagerSet.sendLoops
          gone,        \* Alertmanagers removed so far (never re-added in this model)
          q,           \* sendLoop.queue
          tok,         \* len(sendLoop.hasWork)
          stopped,     \* sendLoop.stopped closed
          lpc, lb,     \* loop goroutine: program counter and batch in hand
          spc, sb,     \* stop() call for this loop: program counter and batch in hand
          recv,        \* batches received by the Alertmanager, in order of arrival
          acc,         \* alerts accepted by add() (after relabelling), in order
          cnt,         \* [sent, dropped, errors] counters
          racy,        \* ghost: stop() began while the loop goroutine held (or could still take) a batch
          lock,        \* "free" | "sync" | "stop": n.mtx / ams.mtx critical section of the owner
          pend,        \* loops still to stop in the current critical section
          mgr,         \* "run" | "stopped"
          mpc, msnap,  \* Manager.Send in progress: "idle" | "fan"; what it took under the lock: [gen, surv, gated]
          setgen,      \* generation of the alertmanagerSet objects (ApplyConfig builds new ones and moves the send loops over)
          applyPend,   \* an ApplyConfig call is waiting for / about to take n.mtx
          napply,
          due,         \* ghost: per Alertmanager the alerts every completed Send owed it (survivors, while it had a loop)
          fails, syncs, hist

lvars == <<q, tok, stopped, lpc, lb, spc, sb, recv, acc, cnt, racy>>
mvars == <<mpc, msnap, setgen, applyPend, napply, due>>
vars == <<nextId, loops, gone, q, tok, stopped, lpc, lb, spc, sb, recv, acc, cnt, racy, lock, pend, mgr, mpc, msnap, setgen, applyPend, napply, due, fails, syncs, hist>>
View == <<nextId, loops, gone, q, tok, stopped, lpc, lb, spc, sb, recv, acc, cnt, racy, lock, pend, mgr, mpc, msnap, setgen, applyPend, napply, due, fails, syncs>>

\* discovery order = order of the slice alertmanagerSet.ams (the harness lists targets in this order)
Idx(am) == CASE am = "am1" -> 1 [] am = "am2" -> 2 [] am = "am3" -> 3

Min(a, b) == IF a < b THEN a ELSE b
Max(a, b) == IF a > b THEN a ELSE b
Range(s) == {s[i] : i \in 1..Len(s)}
RECURSIVE Flat(_)
Flat(ss) == IF ss = <<>> THEN <<>> ELSE Head(ss) \o Flat(Tail(ss))
Drop(s, n) == SubSeq(s, n + 1, Len(s))
Take(s, n) == SubSeq(s, 1, Min(n, Len(s)))
Ids(a, b) == [i \in 1..(b - a + 1) |-> a + i - 1]

\* what a harness can observe of one Alertmanager, plus the spec's verdict on that observation:
\* orderOK = the received alerts are still an in-order subsequence of the accepted ones
StrictSeq(x) == \A i \in 1..(Len(x) - 1) : x[i] < x[i + 1]
ObsOf(am, qq, rr, cc) == {[am |-> am, q |-> qq[am], recv |-> rr[am], cnt |-> cc[am],
                          orderOK |-> StrictSeq(Flat(rr[am])) /\ Range(Flat(rr[am])) \subseteq Range(acc[am])]}

Log(e) == IF Hist THEN Append(hist, e) ELSE hist

-----------------------------------------------------------------------------
(* sender                                                                   *)

\* sendLoop.add under s.mtx (never concurrent with stop(): both callers hold ams.mtx)
AddQ(qq, al) ==
  LET d1  == Max(Len(al) - Cap, 0)                 \* batch larger than the capacity
      al2 == Drop(al, d1)
      d2  == Max(Len(qq) + Len(al2) - Cap, 0)       \* queue full: oldest out
  IN [q |-> Drop(qq, d2) \o al2, dropped |-> d1 + d2]

\* Manager.Send, first half: the stop check, n.mtx.RLock, relabelAlerts, and the alertmanager sets it will fan out to.
\* (In the code the read lock is held until the fan-out is done; SendHoldsLock = FALSE models a Send that only
\* snapshots under the lock.)
SendSnap(n, g) ==
  LET ids  == Ids(nextId, nextId + n - 1)
      surv == SelectSeq(ids, LAMBDA i : i \notin DropIds)        \* relabelAlerts
  IN /\ lock = "free" /\ mgr = "run" /\ mpc = "idle"
     /\ ~(SendHoldsLock /\ applyPend)                            \* a waiting writer blocks new readers
     /\ nextId + n - 1 <= NAlerts
     /\ nextId' = nextId + n
     /\ IF surv = <<>> THEN UNCHANGED <<mpc, msnap>>            \* nothing left after relabelling: return
        ELSE mpc' = "fan" /\ msnap' = [gen |-> setgen, surv |-> surv, gated |-> g]
     /\ UNCHANGED <<loops, gone, q, tok, stopped, lpc, lb, spc, sb, recv, acc, cnt, racy, lock, pend, mgr, fails, syncs,
                    setgen, applyPend, napply, due>>
     /\ hist' = Log([a |-> "Send", ids |-> ids, surv |-> surv, gated |-> g /\ surv # <<>>])

\* Manager.Send, second half: alertmanagerSet.send -> sendLoop.add for every loop of the set object it holds.
\* A set object replaced by ApplyConfig in the meantime has given its send loops away: nothing is queued.
SendFan ==
  LET surv == msnap.surv
      live == IF msnap.gen = setgen THEN loops ELSE {} IN
  /\ mpc = "fan"
  /\ (lock = "free" \/ ~SendHoldsLock)
  /\ q'   = [am \in AMs |-> IF am \in live THEN AddQ(q[am], surv).q ELSE q[am]]
  /\ tok' = [am \in AMs |-> IF am \in live THEN 1 ELSE tok[am]]          \* notifyWork
  /\ acc' = [am \in AMs |-> IF am \in live THEN acc[am] \o surv ELSE acc[am]]
  /\ cnt' = [am \in AMs |-> IF am \in live
                            THEN [cnt[am] EXCEPT !.dropped = @ + AddQ(q[am], surv).dropped]
                            ELSE cnt[am]]
  /\ due' = [am \in AMs |-> IF am \in loops THEN due[am] \o surv ELSE due[am]]
  /\ mpc' = "idle"
  /\ UNCHANGED <<nextId, loops, gone, stopped, lpc, lb, spc, sb, recv, racy, lock, pend, mgr, fails, syncs,
                 msnap, setgen, applyPend, napply>>
  /\ hist' = Log([a |-> "SendDone",
                   after |-> {[am |-> am, q |-> q'[am], dropped |-> cnt'[am].dropped] : am \in loops}])

\* Manager.ApplyConfig with an unchanged configuration (a reload): called ...
ApplyBegin ==
  /\ lock = "free" /\ mgr = "run" /\ ~applyPend /\ napply < MaxApply
  /\ applyPend' = TRUE
  /\ napply' = napply + 1
  /\ UNCHANGED <<nextId, loops, gone, q, tok, stopped, lpc, lb, spc, sb, recv, acc, cnt, racy, lock, pend, mgr, fails, syncs,
                 mpc, msnap, setgen, due>>
  /\ hist' = Log([a |-> "ApplyBegin"])

\* ... and executed under n.mtx (write): new alertmanagerSet objects take over the send loops of the old ones
ApplyRun ==
  /\ applyPend /\ lock = "free"
  /\ SendHoldsLock => mpc = "idle"
  /\ setgen' = setgen + 1
  /\ applyPend' = FALSE
  /\ UNCHANGED <<nextId, loops, gone, q, tok, stopped, lpc, lb, spc, sb, recv, acc, cnt, racy, lock, pend, mgr, fails, syncs,
                 mpc, msnap, napply, due>>
  /\ hist' = Log([a |-> "ApplyEnd"])

-----------------------------------------------------------------------------
(* Loop(am): sendLoop.loop                                                  *)

LoopOuter(am) ==           \* outer select: stop has priority
  /\ lpc[am] = "outer"
  /\ lpc' = [lpc EXCEPT ![am] = IF stopped[am] THEN "exit" ELSE "inner"]
  /\ UNCHANGED <<q, tok, stopped, lb, spc, sb, recv, acc, cnt, racy>>

LoopInnerStop(am) ==       \* inner select, case <-s.stopped
  /\ lpc[am] = "inner" /\ stopped[am]
  /\ lpc' = [lpc EXCEPT ![am] = "exit"]
  /\ UNCHANGED <<q, tok, stopped, lb, spc, sb, recv, acc, cnt, racy>>

LoopInnerWork(am) ==       \* inner select, case <-s.hasWork (chosen at random if both are ready)
  /\ lpc[am] = "inner" /\ tok[am] = 1
  /\ tok' = [tok EXCEPT ![am] = 0]
  /\ lpc' = [lpc EXCEPT ![am] = "take"]
  /\ UNCHANGED <<q, stopped, lb, spc, sb, recv, acc, cnt, racy>>

LoopTake(am) ==            \* sendOneBatch: nextBatch under s.mtx
  /\ lpc[am] = "take"
  /\ lb' = [lb EXCEPT ![am] = Take(q[am], MaxBatch)]
  /\ q' = [q EXCEPT ![am] = Drop(q[am], Min(MaxBatch, Len(q[am])))]
  /\ lpc' = [lpc EXCEPT ![am] = IF q[am] = <<>> THEN "post" ELSE "send"]    \* sendAll(empty) = true
  /\ UNCHANGED <<tok, stopped, spc, sb, recv, acc, cnt, racy>>

LoopSendOK(am) ==          \* sendAll: the Alertmanager answers 2xx
  /\ lpc[am] = "send"
  /\ recv' = [recv EXCEPT ![am] = Append(@, lb[am])]
  /\ cnt' = [cnt EXCEPT ![am].sent = @ + Len(lb[am])]
  /\ lb' = [lb EXCEPT ![am] = <<>>]
  /\ lpc' = [lpc EXCEPT ![am] = "post"]
  /\ UNCHANGED <<q, tok, stopped, spc, sb, acc, racy>>

LoopSendFail(am) ==        \* sendAll fails: errors += n, then sendOneBatch: dropped += n
  /\ lpc[am] = "send"
  /\ cnt' = [cnt EXCEPT ![am].errors = @ + Len(lb[am]), ![am].dropped = @ + Len(lb[am])]
  /\ lb' = [lb EXCEPT ![am] = <<>>]
  /\ lpc' = [lpc EXCEPT ![am] = "post"]
  /\ UNCHANGED <<q, tok, stopped, spc, sb, recv, acc, racy>>

LoopPost(am) ==            \* if s.queueLen() > 0 { s.notifyWork() }
  /\ lpc[am] = "post"
  /\ \/ /\ q[am] # <<>> /\ tok' = [tok EXCEPT ![am] = 1]
     \/ /\ (q[am] = <<>> \/ stopped[am]) /\ UNCHANGED tok       \* notifyWork: case <-s.stopped
  /\ lpc' = [lpc EXCEPT ![am] = "outer"]
  /\ UNCHANGED <<q, stopped, lb, spc, sb, recv, acc, cnt, racy>>

LoopInternal(am) == LoopOuter(am) \/ LoopInnerStop(am) \/ LoopInnerWork(am) \/ LoopTake(am) \/ LoopPost(am)

-----------------------------------------------------------------------------
(* owner: sync / Run cleanup, and sendLoop.stop() for one loop at a time    *)

SyncBegin(S) ==            \* alertmanagerSet.sync: addSendLoops(new), then cleanSendLoops(removed)
  /\ lock = "free" /\ mgr = "run" /\ syncs < MaxSync
  /\ mpc = "idle" /\ ~applyPend                             \* reload takes n.mtx (write)
  /\ S # loops /\ S \cap gone = {}
  /\ lock' = "sync"
  /\ syncs' = syncs + 1
  /\ loops' = loops \cup S                                   \* go sendLoop.loop() for the new ones
  /\ lpc' = [am \in AMs |-> IF am \in S \ loops THEN "outer" ELSE lpc[am]]
  /\ pend' = loops \ S
  /\ UNCHANGED <<nextId, gone, q, tok, stopped, lb, spc, sb, recv, acc, cnt, racy, mgr, fails, mvars>>
  /\ hist' = Log([a |-> "SyncBegin", set |-> S])

StopAllBegin ==            \* Manager.Stop; Run: cleanSendLoops(all) under n.mtx
  /\ lock = "free" /\ mgr = "run"
  /\ mpc = "idle" /\ ~applyPend                             \* Run's cleanup takes n.mtx (write)
  /\ lock' = "stop"
  /\ mgr' = "stopped"
  /\ pend' = loops
  /\ UNCHANGED <<nextId, loops, gone, q, tok, stopped, lpc, lb, spc, sb, recv, acc, cnt, racy, fails, syncs, mvars>>
  /\ hist' = Log([a |-> "StopBegin"])

InStop == \E am \in AMs : spc[am] \notin {"idle", "done"}

StopClose(am) ==           \* cleanSendLoops iterates in slice order; stop(): close(s.stopped)
  /\ lock # "free" /\ am \in pend /\ ~InStop /\ spc[am] = "idle"
  /\ \A o \in pend : Idx(am) <= Idx(o)
  /\ stopped' = [stopped EXCEPT ![am] = TRUE]
  /\ racy' = [racy EXCEPT ![am] = lpc[am] \in {"take", "send"} \/ (lpc[am] = "inner" /\ tok[am] = 1)]
  /\ spc' = [spc EXCEPT ![am] = IF ~Drain THEN "count" ELSE IF JoinFix THEN "join" ELSE "drain"]
  /\ UNCHANGED <<q, tok, lpc, lb, sb, recv, acc, cnt>>

StopJoin(am) ==            \* s.loopWG.Wait(): the loop goroutine has returned (or was never started)
  /\ spc[am] = "join" /\ lpc[am] \in {"exit", "none"}
  /\ spc' = [spc EXCEPT ![am] = "drain"]
  /\ UNCHANGED <<q, tok, stopped, lpc, lb, sb, recv, acc, cnt, racy>>

StopCount(am) ==           \* no drain: dropped += queueLen()
  /\ spc[am] = "count"
  /\ cnt' = [cnt EXCEPT ![am].dropped = @ + Len(q[am])]
  /\ spc' = [spc EXCEPT ![am] = "fin"]
  /\ UNCHANGED <<q, tok, stopped, lpc, lb, sb, recv, acc, racy>>

StopDrainCheck(am) ==      \* drainQueue: for s.queueLen() > 0
  /\ spc[am] = "drain"
  /\ spc' = [spc EXCEPT ![am] = IF q[am] = <<>> THEN "fin" ELSE "dtake"]
  /\ UNCHANGED <<q, tok, stopped, lpc, lb, sb, recv, acc, cnt, racy>>

StopDTake(am) ==           \* sendOneBatch: nextBatch
  /\ spc[am] = "dtake"
  /\ sb' = [sb EXCEPT ![am] = Take(q[am], MaxBatch)]
  /\ q' = [q EXCEPT ![am] = Drop(q[am], Min(MaxBatch, Len(q[am])))]
  /\ spc' = [spc EXCEPT ![am] = IF q[am] = <<>> THEN "drain" ELSE "dsend"]
  /\ UNCHANGED <<tok, stopped, lpc, lb, recv, acc, cnt, racy>>

StopSendOK(am) ==
  /\ spc[am] = "dsend"
  /\ recv' = [recv EXCEPT ![am] = Append(@, sb[am])]
  /\ cnt' = [cnt EXCEPT ![am].sent = @ + Len(sb[am])]
  /\ sb' = [sb EXCEPT ![am] = <<>>]
  /\ spc' = [spc EXCEPT ![am] = "drain"]
  /\ UNCHANGED <<q, tok, stopped, lpc, lb, acc, racy>>

StopSendFail(am) ==
  /\ spc[am] = "dsend"
  /\ cnt' = [cnt EXCEPT ![am].errors = @ + Len(sb[am]), ![am].dropped = @ + Len(sb[am])]
  /\ sb' = [sb EXCEPT ![am] = <<>>]
  /\ spc' = [spc EXCEPT ![am] = "drain"]
  /\ UNCHANGED <<q, tok, stopped, lpc, lb, recv, acc, racy>>

StopFin(am) ==             \* stop() returns; cleanSendLoops: delete(s.sendLoops, us)
  /\ spc[am] = "fin"
  /\ spc' = [spc EXCEPT ![am] = "done"]
  /\ loops' = loops \ {am}
  /\ gone' = gone \cup {am}
  /\ pend' = pend \ {am}
  /\ UNCHANGED <<nextId, q, tok, stopped, lpc, lb, sb, recv, acc, cnt, racy, lock, mgr, fails, syncs, hist, mvars>>

StopInternal(am) == StopClose(am) \/ StopJoin(am) \/ StopCount(am) \/ StopDrainCheck(am) \/ StopDTake(am)

OwnerEnd ==                \* the critical section ends (sync returns / Run returns)
  /\ lock # "free" /\ pend = {} /\ ~InStop
  /\ lock' = "free"
  /\ UNCHANGED <<nextId, loops, gone, q, tok, stopped, lpc, lb, spc, sb, recv, acc, cnt, racy, pend, mgr, fails, syncs, mvars>>
  /\ hist' = Log([a |-> IF lock = "sync" THEN "SyncEnd" ELSE "StopEnd",
                   obs |-> UNION {ObsOf(am, q, recv, cnt) : am \in AMs},
                   \* the spec's verdict: has every accepted alert of a drained loop been attempted?
                   drainOK |-> {[am |-> am, ok |-> q[am] = <<>> /\ lpc[am] \notin {"take", "send"}] :
                                am \in {x \in AMs : Drain /\ spc[x] = "done"}},
                   inflight |-> {am \in AMs : lpc[am] = "send"}])

-----------------------------------------------------------------------------
Init ==
  /\ nextId = 1
  /\ loops = InitAMs /\ gone = {}
  /\ q = [am \in AMs |-> <<>>] /\ tok = [am \in AMs |-> 0] /\ stopped = [am \in AMs |-> FALSE]
  /\ lpc = [am \in AMs |-> IF am \in InitAMs THEN "outer" ELSE "none"]
  /\ lb = [am \in AMs |-> <<>>] /\ sb = [am \in AMs |-> <<>>]
  /\ spc = [am \in AMs |-> "idle"]
  /\ recv = [am \in AMs |-> <<>>] /\ acc = [am \in AMs |-> <<>>]
  /\ cnt = [am \in AMs |-> [sent |-> 0, dropped |-> 0, errors |-> 0]]
  /\ racy = [am \in AMs |-> FALSE]
  /\ lock = "free" /\ pend = {} /\ mgr = "run" /\ fails = 0 /\ syncs = 0
  /\ mpc = "idle" /\ msnap = [gen |-> 0, surv |-> <<>>, gated |-> FALSE] /\ setgen = 0
  /\ applyPend = FALSE /\ napply = 0 /\ due = [am \in AMs |-> <<>>]
  /\ hist = <<[a |-> "Init", ams |-> InitAMs, cap |-> Cap, maxBatch |-> MaxBatch, drain |-> Drain,
               dropIds |-> DropIds, nalerts |-> NAlerts]>>

gvars == <<nextId, loops, gone, lock, pend, mgr, syncs, mpc, msnap, setgen, applyPend, napply, due>>
\* steps of the loop goroutine that need no cooperation of the environment.  Reaching the HTTP
\* exchange with a non-empty batch is logged ("Arrive"): a harness sees the request at its gate.
LoopStep(am) ==
  \/ /\ LoopOuter(am) \/ LoopInnerStop(am) \/ LoopInnerWork(am) \/ LoopPost(am)
     /\ UNCHANGED <<gvars, fails, hist>>
  \/ /\ LoopTake(am) /\ UNCHANGED <<gvars, fails>>
     /\ hist' = IF q[am] = <<>> THEN hist
                ELSE Log([a |-> "Arrive", am |-> am, who |-> "loop", ids |-> Take(q[am], MaxBatch)])

StopStep(am) ==
  \/ /\ StopClose(am) \/ StopJoin(am) \/ StopCount(am) \/ StopDrainCheck(am)
     /\ UNCHANGED <<gvars, fails, hist>>
  \/ /\ StopDTake(am) /\ UNCHANGED <<gvars, fails>>
     /\ hist' = IF q[am] = <<>> THEN hist
                ELSE Log([a |-> "Arrive", am |-> am, who |-> "stop", ids |-> Take(q[am], MaxBatch)])
  \/ StopFin(am)

\* (the end of the owner's critical section needs no cooperation either: sync / Run return)
Internal == \/ (\E am \in AMs : LoopStep(am) \/ StopStep(am)) \/ OwnerEnd
            \/ (~msnap.gated /\ SendFan)          \* an ordinary Send runs through
            \/ ApplyRun

\* an HTTP exchange completes (the harness opens the gate)
LoopExchangeOK(am) ==
  /\ LoopSendOK(am) /\ UNCHANGED <<gvars, fails>>
  /\ hist' = Log([a |-> "Deliver", am |-> am, who |-> "loop", ok |-> TRUE, ids |-> lb[am], obs |-> ObsOf(am, q', recv', cnt')])
StopExchangeOK(am) ==
  /\ StopSendOK(am) /\ UNCHANGED <<gvars, fails>>
  /\ hist' = Log([a |-> "Deliver", am |-> am, who |-> "stop", ok |-> TRUE, ids |-> sb[am], obs |-> ObsOf(am, q', recv', cnt')])
LoopExchangeFail(am) ==
  /\ fails < MaxFail /\ LoopSendFail(am) /\ fails' = fails + 1 /\ UNCHANGED gvars
  /\ hist' = Log([a |-> "Deliver", am |-> am, who |-> "loop", ok |-> FALSE, ids |-> lb[am], obs |-> ObsOf(am, q', recv', cnt')])
StopExchangeFail(am) ==
  /\ fails < MaxFail /\ StopSendFail(am) /\ fails' = fails + 1 /\ UNCHANGED gvars
  /\ hist' = Log([a |-> "Deliver", am |-> am, who |-> "stop", ok |-> FALSE, ids |-> sb[am], obs |-> ObsOf(am, q', recv', cnt')])
Exchange == \E am \in AMs : LoopExchangeOK(am) \/ StopExchangeOK(am) \/ LoopExchangeFail(am) \/ StopExchangeFail(am)

External ==
  \/ \E n \in SendSizes, g \in Gated : SendSnap(n, g)
  \/ (msnap.gated /\ SendFan)                     \* the harness opens its gate in alertmanagerSet.send
  \/ ApplyBegin
  \/ \E S \in SUBSET AMs : SyncBegin(S)
  \/ StopAllBegin
  \/ Exchange

\* Eager: the environment moves only when no goroutine can move on its own -- exactly the
\* schedules a harness that gates the HTTP exchange can reproduce deterministically
Next == \/ Internal
        \/ (~Eager \/ ~ENABLED Internal) /\ External

Spec == Init /\ [][Next]_vars

\* fairness, only for the liveness property: goroutines run, exchanges complete
Fair == /\ \A am \in AMs : WF_vars(LoopStep(am)) /\ WF_vars(StopStep(am))
        /\ \A am \in AMs : WF_vars(LoopExchangeOK(am)) /\ WF_vars(StopExchangeOK(am))
        /\ WF_vars(OwnerEnd)
FairSpec == Spec /\ Fair

-----------------------------------------------------------------------------
(* The property (C46).                                                      *)

Pcs == {"none", "outer", "inner", "take", "send", "post", "exit"}
TypeOK ==
  /\ loops \subseteq AMs /\ gone \subseteq AMs /\ loops \cap gone = {}
  /\ \A am \in AMs : /\ lpc[am] \in Pcs
                     /\ spc[am] \in {"idle", "join", "count", "drain", "dtake", "dsend", "fin", "done"}
                     /\ tok[am] \in {0, 1}
                     /\ Len(q[am]) <= Cap

Strictly(s) == \A i \in 1..(Len(s) - 1) : s[i] < s[i + 1]

\* the alerts an Alertmanager receives are a subsequence, in the same order, of the accepted ones
Order(am) == Strictly(Flat(recv[am])) /\ Range(Flat(recv[am])) \subseteq Range(acc[am])
OrderPreserved == \A am \in AMs : Order(am)
OrderPreservedKF == \A am \in AMs : Order(am) \/ racy[am]           \* KF-C46-1

\* batches no larger than the configured maximum (and never empty)
BatchBound == \A am \in AMs : /\ \A i \in 1..Len(recv[am]) : Len(recv[am][i]) \in 1..MaxBatch
                              /\ Len(lb[am]) <= MaxBatch /\ Len(sb[am]) <= MaxBatch

\* only survivors of relabelling are accepted, in order, by every loop that exists at the time
AcceptedAreSurvivors == \A am \in AMs : Strictly(acc[am]) /\ Range(acc[am]) \cap DropIds = {}

\* overflow drops the oldest: the queue is always the newest accepted alerts not yet taken
QueueIsSuffix == \A am \in AMs : \E k \in 0..Len(acc[am]) : q[am] = Drop(acc[am], k)
DropOldest == [][\A am \in AMs : Len(acc'[am]) > Len(acc[am]) =>
                   /\ Len(q'[am]) = Min(Cap, Len(q[am]) + Len(acc'[am]) - Len(acc[am]))
                   /\ q'[am] = Drop(q[am] \o Drop(acc'[am], Len(acc[am])), Len(q[am]) + Len(acc'[am]) - Len(acc[am]) - Len(q'[am]))]_vars

\* every loss is counted: accepted alerts that were not received and are not waiting any more
Abandoned(am) == ~Drain /\ spc[am] \in {"fin", "done"}        \* queue given up at a stop without drain
Held(am) == (IF Abandoned(am) THEN 0 ELSE Len(q[am])) + Len(lb[am]) + Len(sb[am])
Lost(am) == Len(acc[am]) - Len(Flat(recv[am])) - Held(am)
LossCounted == \A am \in AMs : Lost(am) <= cnt[am].dropped
\* the count is exact, except that a loop that is stopped without draining may still send one batch
\* of alerts already counted as dropped
LossExact == \A am \in AMs : Lost(am) = cnt[am].dropped \/ (Abandoned(am) /\ racy[am])
LossExactFix == \A am \in AMs : Lost(am) = cnt[am].dropped
\* no alert is lost unnoticed on its way into the queues: whatever a completed Send owed an Alertmanager was
\* accepted by that Alertmanager's send loop (and from there on it is received, held or counted, see above)
AllAccepted == \A am \in AMs : due[am] = acc[am]
SentCounted == \A am \in AMs : cnt[am].sent = Len(Flat(recv[am]))

\* with draining, when stop() returns every accepted alert has been attempted or counted
Drained(am) == q[am] = <<>> /\ lpc[am] \notin {"take", "send"}
DrainComplete == Drain => \A am \in AMs : spc[am] \in {"fin", "done"} => Drained(am)
DrainCompleteKF == Drain => \A am \in AMs : spc[am] \in {"fin", "done"} => (Drained(am) \/ racy[am])   \* KF-C46-1

\* liveness: a drain-on-shutdown stop terminates and leaves nothing queued, provided exchanges complete
StopTerminates == (mgr = "stopped") ~> (lock = "free" /\ loops = {})
SyncTerminates == (lock = "sync") ~> (lock # "sync")

-----------------------------------------------------------------------------
\* complete runs only: print the history when the manager has shut down and no exchange is in flight
Settled == mgr = "stopped" /\ lock = "free" /\ mpc = "idle" /\ ~applyPend /\ \A am \in AMs : lpc[am] \notin {"take", "send"}
Emit == \/ EmitMode = "none" \/ hist' = hist
        \/ ~Settled' \/ Settled
        \/ PrintT("@@TR " \o ToJson(hist'))
=============================================================================
