SPECIFICATION Spec
CONSTANTS
  AMs = {"am1", "am2"}
  InitAMs = {"am1"}
  Cap = 3
  MaxBatch = 2
  NAlerts = 5
  SendSizes = {1, 2, 4}
  DropIds = {2}
  MaxFail = 1
  MaxSync = 1
  Eager = FALSE
  SendHoldsLock = TRUE
  MaxApply = 1
  Gated = {FALSE}
  Hist = FALSE
  EmitMode = "none"
INVARIANTS TypeOK OrderPreserved BatchBound AcceptedAreSurvivors QueueIsSuffix LossCounted LossExact AllAccepted SentCounted DrainComplete
PROPERTIES DropOldest
CHECK_DEADLOCK FALSE
