SPECIFICATION Spec
CONSTANTS
  AMs = {"am1", "am2"}
  InitAMs = {"am1"}
  Cap = 2
  MaxBatch = 2
  NAlerts = 3
  SendSizes = {1, 2}
  DropIds = {2}
  MaxFail = 1
  MaxSync = 1
  Eager = FALSE
  SendHoldsLock = TRUE
  MaxApply = 1
  Gated = {FALSE}
  Hist = FALSE
  EmitMode = "none"
INVARIANTS TypeOK OrderPreservedKF BatchBound AcceptedAreSurvivors QueueIsSuffix LossCounted LossExact AllAccepted SentCounted DrainCompleteKF
PROPERTIES DropOldest
CHECK_DEADLOCK FALSE
CONSTANTS
  JoinFix = FALSE
