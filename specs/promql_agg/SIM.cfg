SPECIFICATION Spec
CONSTANTS
  MNS = {"m", "n"}
  VAS = {"", "x", "y"}
  VBS = {"", "x"}
  VCS = {"", "z"}
  Nums = {0, 1, 2, 3}
  NegNums = {1, 2}
  Specials = {"NaN", "+Inf", "-Inf"}
  MaxL = 4
  MaxR = 3
  MaxTot = 7
  Kinds = {"agg", "vv", "vs"}
  AggOps = {"sum","avg","min","max","count","group","stddev","stdvar","quantile","topk","bottomk","limitk","count_values"}
  ByGrps = {{}, {"a"}, {"b"}, {"a", "b"}, {"__name__"}, {"c"}, {"__name__", "a"}, {"a", "b", "c"}, {"v"}}
  WoGrps = {{}, {"a"}, {"b"}, {"a", "b"}, {"__name__"}, {"c"}, {"a", "c"}, {"v"}}
  KPars = {0, 1, 2, 3, 5}
  QNums = {0, 1, 2, 3, 4, 5, 8}
  QDen = 4
  QNeg = TRUE
  QNaN = TRUE
  CVLabs = {"v", "a", "c", "__name__"}
  ArithOps = {"+", "-", "*", "/", "%", "^", "atan2"}
  CmpOps = {"==", "!=", ">", "<", ">=", "<="}
  SetOps = {"and", "or", "unless"}
  Bools = {FALSE, TRUE}
  OnLists = {{}, {"a"}, {"b"}, {"a", "b"}, {"__name__"}, {"__name__", "a"}, {"c"}}
  IgnLists = {{}, {"a"}, {"b"}, {"a", "b"}, {"c"}, {"__name__"}}
  Cards = {"1:1", "N:1", "1:N"}
  IncLists = {{}, {"b"}, {"c"}, {"b", "c"}, {"a"}}
  FillModes = {"none", "left", "right", "both", "both2"}
  FillA = 0
  FillB = 3
  Scalars = {0, 1, 2}
  NegScalars = {1, 2}
  BuildMode = TRUE
  AllOrders = FALSE
  EmitOn = TRUE
INVARIANTS TypeOK ImplMatchesRef AggPartition AggBounds KCount NameDropped BoolIsZeroOne SetLaws Commutes Emit
CHECK_DEADLOCK FALSE
