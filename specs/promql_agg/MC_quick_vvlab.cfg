SPECIFICATION Spec
CONSTANTS
  MNS = {"m", "n"}
  VAS = {"", "x"}
  VBS = {"", "x"}
  VCS = {""}
  Nums = {1}
  NegNums = {}
  Specials = {}
  MaxL = 2
  MaxR = 2
  MaxTot = 3
  Kinds = {"vv"}
  AggOps = {"sum","avg","min","max","count","group","stddev","stdvar","quantile","topk","bottomk","limitk","count_values"}
  ByGrps = {{}}
  WoGrps = {}
  KPars = {0, 1, 2}
  QNums = {0, 1, 2, 4, 5}
  QDen = 4
  QNeg = TRUE
  QNaN = TRUE
  CVLabs = {"v"}
  ArithOps = {"+"}
  CmpOps = {">="}
  SetOps = {"and", "or", "unless"}
  Bools = {FALSE}
  OnLists = {{"a"}}
  IgnLists = {{}, {"b"}}
  Cards = {"1:1", "N:1", "1:N"}
  IncLists = {{}, {"b"}}
  FillModes = {"none"}
  FillA = 0
  FillB = 1
  Scalars = {1}
  NegScalars = {}
  BuildMode = FALSE
  AllOrders = FALSE
  EmitOn = TRUE
INVARIANTS TypeOK ImplMatchesRef AggPartition AggBounds KCount NameDropped BoolIsZeroOne SetLaws Commutes Emit
CHECK_DEADLOCK FALSE
