SPECIFICATION Spec
CONSTANTS
  MNS = {"m", "n"}
  VAS = {""}
  VBS = {""}
  VCS = {""}
  Nums = {0, 2}
  NegNums = {1}
  Specials = {"NaN", "+Inf"}
  MaxL = 2
  MaxR = 0
  MaxTot = 2
  Kinds = {"vs"}
  AggOps = {"sum","avg","min","max","count","group","stddev","stdvar","quantile","topk","bottomk","limitk","count_values"}
  ByGrps = {{}}
  WoGrps = {}
  KPars = {0, 1, 2}
  QNums = {0, 1, 2, 4, 5}
  QDen = 4
  QNeg = TRUE
  QNaN = TRUE
  CVLabs = {"v"}
  ArithOps = {"+", "-", "*", "/", "%", "^", "atan2"}
  CmpOps = {"==", "!=", ">", "<", ">=", "<="}
  SetOps = {}
  Bools = {FALSE, TRUE}
  OnLists = {}
  IgnLists = {{}}
  Cards = {"1:1"}
  IncLists = {{}}
  FillModes = {"none"}
  FillA = 0
  FillB = 1
  Scalars = {0, 2}
  NegScalars = {1}
  BuildMode = FALSE
  AllOrders = FALSE
  EmitOn = TRUE
INVARIANTS TypeOK ImplMatchesRef AggPartition AggBounds KCount NameDropped BoolIsZeroOne SetLaws Commutes Emit
CHECK_DEADLOCK FALSE
