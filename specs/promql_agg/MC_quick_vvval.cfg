SPECIFICATION Spec
CONSTANTS
  MNS = {"m"}
  VAS = {""}
  VBS = {""}
  VCS = {""}
  Nums = {0, 1, 2}
  NegNums = {1, 2}
  Specials = {"NaN", "+Inf", "-Inf"}
  MaxL = 1
  MaxR = 1
  MaxTot = 2
  Kinds = {"vv"}
  AggOps = {"sum","avg","min","max","count","group","stddev","stdvar","quantile","topk","bottomk","limitk","count_values"}
  ByGrps = {{}}
  WoGrps = {}
  KPars = {0, 1, 2}
  QNums = {0, 1, 2, 4, 5}
  QDen = 4
  QNeg = TRUE
  QNaN = TRUE
  CVLabs = {"v"}
  ArithOps = {"+", "-", "*", "/", "%", "^", "atan2"}
  CmpOps = {"==", "!=", ">", "<", ">=", "<="}
  SetOps = {}
  Bools = {FALSE, TRUE}
  OnLists = {}
  IgnLists = {{}}
  Cards = {"1:1", "1:N"}
  IncLists = {{}}
  FillModes = {"none", "both2"}
  FillA = 0
  FillB = 1
  Scalars = {1}
  NegScalars = {}
  BuildMode = FALSE
  AllOrders = FALSE
  EmitOn = TRUE
INVARIANTS TypeOK ImplMatchesRef AggPartition AggBounds KCount NameDropped BoolIsZeroOne SetLaws Commutes Emit
CHECK_DEADLOCK FALSE
