------------------------------ MODULE AggBinop ------------------------------
(***************************************************************************)
(* C29 -- aggregation operators and binary operators of PromQL on instant  *)
(* vectors of float samples.                                               *)
(*                                                                         *)
(* Two layers live in this module:                                         *)
(*                                                                         *)
(*  (1) the *reference* (section "Documented semantics"): declarative      *)
(*      definitions written from docs/querying/operators.md -- which       *)
(*      groups / matched pairs exist, what the output labels are, what the *)
(*      value is, which matching error is raised.  Values are exact        *)
(*      rationals extended with NaN, +Inf, -Inf following IEEE 754         *)
(*      (there is no rounding in here and no signed zero).                 *)
(*                                                                         *)
(*  (2) an *implementation-shaped transcription* of promql/engine.go as a  *)
(*      state machine: one action per step of                              *)
(*        rangeEvalAgg / aggregation / aggregationK /                      *)
(*        aggregationCountValues, rangeEval (signatures), VectorBinop      *)
(*        (right index loop, left match loop, fill loop, doBinOp),         *)
(*        VectorAnd/Or/Unless, VectorscalarBinop, and the final            *)
(*        ContainsSameLabelset check.                                      *)
(*      Kahan compensation terms are a numeric-accuracy device and are     *)
(*      absent (exact arithmetic); the float64-overflow switch of avg to   *)
(*      the incremental mean is kept because +Inf inputs take it.          *)
(*                                                                         *)
(* TLC checks on every explored case that (2) computes what (1) demands    *)
(* (invariant ImplMatchesRef), except for the named deviation KF_C29_2     *)
(* below, and checks algebraic laws of the reference.                      *)
(* Every finished case is emitted ("@@TR" line) with the result the        *)
(* reference predicts; the Go harness loads the vectors into a real TSDB,  *)
(* evaluates the printed query on a real promql.Engine and compares.       *)
(*                                                                         *)
(* A case is (L, R, q): the left/only input vector, the right input vector *)
(* (vector/vector operators only) and the expression.                      *)
(***************************************************************************)
EXTENDS Integers, Sequences, FiniteSets, TLC, Json, SequencesExt, FiniteSetsExt

CONSTANTS
  MNS,          \* metric names (strings)
  VAS, VBS, VCS,\* values of the labels a, b, c; "" means "label absent"
  Nums, NegNums,\* finite sample values: the integers in Nums and the negations of those in NegNums
                \* (a TLC configuration file cannot contain a negative number)
  Specials,     \* subset of {"NaN", "+Inf", "-Inf"}
  MaxL, MaxR,   \* maximal sizes of the input vectors
  MaxTot,       \* maximal size of both together
  Kinds,        \* subset of {"agg", "vv", "vs"}
  AggOps,       \* subset of {"sum","avg","min","max","count","group","stddev","stdvar",
                \*            "quantile","topk","bottomk","limitk","count_values"}
  ByGrps, WoGrps,   \* grouping label lists (sets of sets of label names) for by(...) / without(...)
  KPars,        \* integer parameters k of topk/bottomk/limitk
  QNums, QDen,  \* quantile parameters QNums/QDen (QDen a power of two), plus -1/QDen if QNeg, NaN if QNaN
  QNeg, QNaN,
  CVLabs,       \* value-label names of count_values
  ArithOps,     \* subset of {"+","-","*","/","%","^","atan2"}
  CmpOps,       \* subset of {"==","!=",">","<",">=","<="}
  SetOps,       \* subset of {"and","or","unless"}
  Bools,        \* subset of BOOLEAN: the bool modifier on comparisons
  OnLists, IgnLists,  \* label lists for on(...) / ignoring(...)
  Cards,        \* subset of {"1:1","N:1","1:N"}   (N:1 = group_left, 1:N = group_right)
  IncLists,     \* label lists of group_left(...)/group_right(...)
  FillModes,    \* subset of {"none","left","right","both","both2"}
  FillA, FillB, \* fill values (integers); "both2" uses fill_left(FillA) fill_right(FillB)
  Scalars, NegScalars, \* integer scalars of vector/scalar operations (specials are added from Specials)
  BuildMode,    \* TRUE: the case is built by actions (simulation); FALSE: Init enumerates all cases
  AllOrders,    \* TRUE: every loop over a vector explores every iteration order
  EmitOn        \* TRUE: finished cases are printed for the replay harness

VARIABLES
  pc,     \* control state of the evaluation
  L, R,   \* input vectors: functions label set -> value
  q,      \* the expression
  todo,   \* label sets of the current loop not yet visited
  acc,    \* aggregation: group key -> accumulator; binop: signature -> one-side label set
  msigs,  \* binop: signature -> set of result metrics already produced for it
  res,    \* output vector built so far: function label set -> value
  dupl,   \* an output label set was produced twice
  err,    \* "none" or the error class raised
  ref,    \* what the reference demands for (L, R, q); computed once, when the evaluation has finished
  plan    \* BuildMode only: the sizes the two vectors are going to have

vars == <<pc, L, R, q, todo, acc, msigs, res, dupl, err, ref, plan>>

-----------------------------------------------------------------------------
(* Values: exact rationals plus IEEE specials.  One record shape for all.    *)

F(n, d) == [t |-> "f", n |-> n, d |-> d]
NaN     == [t |-> "NaN", n |-> 0, d |-> 1]
PInf    == [t |-> "+Inf", n |-> 0, d |-> 1]
NInf    == [t |-> "-Inf", n |-> 0, d |-> 1]
Unk     == [t |-> "unk", n |-> 0, d |-> 1]   \* a float the reference does not predict (transcendental)
None    == [t |-> "none", n |-> 0, d |-> 1]  \* "no parameter"

Abs(i) == IF i < 0 THEN -i ELSE i
RECURSIVE GCD(_, _)
GCD(a, b) == IF b = 0 THEN a ELSE GCD(b, a % b)
Q(n, d) == LET s == IF d < 0 THEN -1 ELSE 1
               g == GCD(Abs(n), Abs(d))
           IN  F((s * n) \div g, (s * d) \div g)
I(n) == F(n, 1)

Special(s) == CASE s = "NaN" -> NaN [] s = "+Inf" -> PInf [] s = "-Inf" -> NInf
ValSet == {I(n) : n \in Nums} \cup {I(-n) : n \in NegNums} \cup {Special(s) : s \in Specials}

IsFin(x) == x.t = "f"
IsNaN(x) == x.t = "NaN"
IsInf(x) == x.t \in {"+Inf", "-Inf"}
IsUnk(x) == x.t = "unk"
Sgn(x)   == CASE x.t = "+Inf" -> 1 [] x.t = "-Inf" -> -1
              [] OTHER -> IF x.n > 0 THEN 1 ELSE IF x.n < 0 THEN -1 ELSE 0
Neg(x)   == CASE x.t = "f" -> F(-x.n, x.d) [] x.t = "+Inf" -> NInf [] x.t = "-Inf" -> PInf [] OTHER -> x
InfOf(s) == IF s > 0 THEN PInf ELSE NInf

XAdd(x, y) ==
  CASE IsUnk(x) \/ IsUnk(y) -> Unk
    [] IsNaN(x) \/ IsNaN(y) -> NaN
    [] IsFin(x) /\ IsFin(y) -> Q(x.n * y.d + y.n * x.d, x.d * y.d)
    [] IsInf(x) /\ IsInf(y) -> IF x = y THEN x ELSE NaN
    [] IsInf(x) -> x
    [] OTHER -> y
XSub(x, y) == XAdd(x, Neg(y))
XMul(x, y) ==
  CASE IsUnk(x) \/ IsUnk(y) -> Unk
    [] IsNaN(x) \/ IsNaN(y) -> NaN
    [] IsFin(x) /\ IsFin(y) -> Q(x.n * y.n, x.d * y.d)
    [] OTHER -> IF Sgn(x) * Sgn(y) = 0 THEN NaN ELSE InfOf(Sgn(x) * Sgn(y))
XDiv(x, y) ==
  CASE IsUnk(x) \/ IsUnk(y) -> Unk
    [] IsNaN(x) \/ IsNaN(y) -> NaN
    [] IsInf(x) /\ IsInf(y) -> NaN
    [] IsInf(x) -> InfOf(Sgn(x) * (IF Sgn(y) < 0 THEN -1 ELSE 1))
    [] IsInf(y) -> I(0)
    [] y.n = 0  -> IF x.n = 0 THEN NaN ELSE InfOf(Sgn(x))
    [] OTHER    -> Q(x.n * y.d, x.d * y.n)
\* math.Mod: result has the sign of x, |result| < |y|
Trunc(n, d) == IF n >= 0 THEN n \div d ELSE -((-n) \div d)      \* d > 0
XMod(x, y) ==
  CASE IsNaN(x) \/ IsNaN(y) -> NaN
    [] IsInf(x) -> NaN
    [] IsInf(y) -> x
    [] y.n = 0  -> NaN
    [] OTHER    -> LET k == XDiv(x, y) IN XSub(x, XMul(y, I(Trunc(k.n, k.d))))
RECURSIVE IPow(_, _)
IPow(x, k) == IF k = 0 THEN I(1) ELSE XMul(x, IPow(x, k - 1))
\* math.Pow restricted to what is exactly representable; everything else is Unk
XPow(x, y) ==
  CASE IsFin(y) /\ y.n = 0 -> I(1)                    \* pow(x, 0) = 1 for any x, even NaN
    [] x = I(1) -> I(1)                               \* pow(1, y) = 1 for any y, even NaN
    [] IsNaN(x) \/ IsNaN(y) -> NaN
    [] IsFin(x) /\ IsFin(y) /\ y.d = 1 ->
         IF y.n > 0 THEN IPow(x, y.n)
         ELSE IF x.n = 0 THEN PInf ELSE XDiv(I(1), IPow(x, -y.n))
    [] OTHER -> Unk

\* IEEE comparisons: anything with NaN is false, except !=
Ord(x) == CASE x.t = "-Inf" -> -1 [] x.t = "+Inf" -> 1 [] OTHER -> 0
XLt(x, y) == /\ ~IsNaN(x) /\ ~IsNaN(y)
             /\ IF IsFin(x) /\ IsFin(y) THEN x.n * y.d < y.n * x.d ELSE Ord(x) < Ord(y)
XEq(x, y) == ~IsNaN(x) /\ ~IsNaN(y) /\ x = y
XLe(x, y) == XLt(x, y) \/ XEq(x, y)

IsArith(op) == op \in {"+", "-", "*", "/", "%", "^", "atan2"}
IsCmp(op)   == op \in {"==", "!=", ">", "<", ">=", "<="}
IsSetOp(op) == op \in {"and", "or", "unless"}

\* vectorElemBinop on two floats: the value and whether the element is kept
Elem(op, a, b) ==
  CASE op = "+"  -> [v |-> XAdd(a, b), keep |-> TRUE]
    [] op = "-"  -> [v |-> XSub(a, b), keep |-> TRUE]
    [] op = "*"  -> [v |-> XMul(a, b), keep |-> TRUE]
    [] op = "/"  -> [v |-> XDiv(a, b), keep |-> TRUE]
    [] op = "%"  -> [v |-> XMod(a, b), keep |-> TRUE]
    [] op = "^"  -> [v |-> XPow(a, b), keep |-> TRUE]
    [] op = "atan2" -> [v |-> Unk, keep |-> TRUE]
    [] op = "==" -> [v |-> a, keep |-> XEq(a, b)]
    [] op = "!=" -> [v |-> a, keep |-> ~XEq(a, b)]
    [] op = ">"  -> [v |-> a, keep |-> XLt(b, a)]
    [] op = "<"  -> [v |-> a, keep |-> XLt(a, b)]
    [] op = ">=" -> [v |-> a, keep |-> XLe(b, a)]
    [] op = "<=" -> [v |-> a, keep |-> XLe(a, b)]

-----------------------------------------------------------------------------
(* Label sets: total functions over Names; "" = absent.                      *)

Names == {"__name__", "a", "b", "c", "v"}   \* "v" only ever appears as the value label of count_values
LSet(n, a, b, c) == [l \in Names |-> CASE l = "__name__" -> n [] l = "a" -> a [] l = "b" -> b [] l = "c" -> c [] OTHER -> ""]
LSets == {LSet(n, a, b, c) : n \in MNS, a \in VAS, b \in VBS, c \in VCS}
IsLSet(m) == m["__name__"] \in MNS /\ m["a"] \in VAS /\ m["b"] \in VBS /\ m["c"] \in VCS /\ m["v"] = ""
Keep(m, S) == [l \in Names |-> IF l \in S THEN m[l] ELSE ""]
Del(m, S)  == [l \in Names |-> IF l \in S THEN "" ELSE m[l]]
NoName(m)  == Del(m, {"__name__"})
Empty      == [l \in Names |-> ""]

Vecs(k) == UNION {[S -> ValSet] : S \in UNION {kSubset(i, LSets) : i \in 0..k}}
Put(f, m, v) == [x \in DOMAIN f \cup {m} |-> IF x = m THEN v ELSE f[x]]
NoVec == <<>>       \* the empty function

-----------------------------------------------------------------------------
(* Expressions.  One record shape for every kind (unused fields blank).      *)

Blank == [k |-> "", op |-> "", par |-> None, lab |-> "", by |-> TRUE, grp |-> {},
          bool |-> FALSE, on |-> FALSE, ml |-> {}, card |-> "", inc |-> {},
          fl |-> None, fr |-> None, sc |-> None, swap |-> FALSE]

ParsOf(op) ==
  CASE op \in {"topk", "bottomk", "limitk"} -> {[par |-> I(k), lab |-> ""] : k \in KPars}
    [] op = "quantile" -> {[par |-> Q(n, QDen), lab |-> ""] : n \in QNums}
                            \cup (IF QNaN THEN {[par |-> NaN, lab |-> ""]} ELSE {})
                            \cup (IF QNeg THEN {[par |-> Q(-1, QDen), lab |-> ""]} ELSE {})
    [] op = "count_values" -> {[par |-> None, lab |-> l] : l \in CVLabs}
    [] OTHER -> {[par |-> None, lab |-> ""]}
Groupings == {[by |-> TRUE, grp |-> g] : g \in ByGrps} \cup {[by |-> FALSE, grp |-> g] : g \in WoGrps}
AggExprs == UNION {{[Blank EXCEPT !.k = "agg", !.op = op, !.par = p.par, !.lab = p.lab, !.by = g.by, !.grp = g.grp]
                      : p \in ParsOf(op), g \in Groupings} : op \in AggOps}

FillPairs == {<<IF m \in {"left", "both", "both2"} THEN I(FillA) ELSE None,
                CASE m \in {"right", "both"} -> I(FillA) [] m = "both2" -> I(FillB) [] OTHER -> None>>
                : m \in FillModes}
Matchings == {[on |-> TRUE, ml |-> s] : s \in OnLists} \cup {[on |-> FALSE, ml |-> s] : s \in IgnLists}
\* checkAST: a label may not occur in on(...) and in group_x(...) at once; group labels only with N:1 / 1:N
CardIncs(m) == {[card |-> c, inc |-> i] : c \in Cards, i \in IncLists} \cap
               {ci \in [card : Cards, inc : IncLists] :
                    /\ ci.card = "1:1" => ci.inc = {}
                    /\ m.on => ci.inc \cap m.ml = {}}
VVArithCmp ==
  UNION {{[Blank EXCEPT !.k = "vv", !.op = ob[1], !.bool = ob[2], !.on = m.on, !.ml = m.ml,
                        !.card = ci.card, !.inc = ci.inc, !.fl = f[1], !.fr = f[2]]
            : ci \in CardIncs(m), f \in FillPairs}
         : ob \in ({<<o, FALSE>> : o \in ArithOps} \cup (CmpOps \X Bools)), m \in Matchings}
VVSet == {[Blank EXCEPT !.k = "vv", !.op = o, !.on = m.on, !.ml = m.ml, !.card = "N:N"]
            : o \in SetOps, m \in Matchings}
VVExprs == VVArithCmp \cup VVSet

VVSkeletons == {[x EXCEPT !.on = FALSE, !.ml = {}, !.inc = {}] : x \in VVExprs}

ScalarSet == {I(n) : n \in Scalars} \cup {I(-n) : n \in NegScalars} \cup {Special(s) : s \in Specials}
VSExprs == {[Blank EXCEPT !.k = "vs", !.op = ob[1], !.bool = ob[2], !.sc = s, !.swap = w]
              : ob \in ({<<o, FALSE>> : o \in ArithOps} \cup (CmpOps \X Bools)), s \in ScalarSet, w \in BOOLEAN}

-----------------------------------------------------------------------------
(* Documented semantics (the reference).                                     *)
(* Results: [err, v] with v a function label set -> value; for the k-family  *)
(* kg = set of [must, may, n] (one per bucket) instead of v.                 *)

RECURSIVE SumSeq(_)
SumSeq(s) == IF s = <<>> THEN I(0) ELSE XAdd(Head(s), SumSeq(Tail(s)))
\* the values of a group as a bag (sequence in arbitrary order)
ValsOf(vec, S) == LET sq == SetToSeq(S) IN [i \in 1..Len(sq) |-> vec[sq[i]]]
SeqRange(s) == {s[i] : i \in 1..Len(s)}

\* NaN is only ever the minimum/maximum if every aggregated value is NaN
RefMin(s) == LET nn == {x \in SeqRange(s) : ~IsNaN(x)} IN
             IF nn = {} THEN NaN ELSE CHOOSE x \in nn : \A y \in nn : XLe(x, y)
RefMax(s) == LET nn == {x \in SeqRange(s) : ~IsNaN(x)} IN
             IF nn = {} THEN NaN ELSE CHOOSE x \in nn : \A y \in nn : XLe(y, x)
\* population variance; IEEE arithmetic makes it NaN as soon as a value is not finite
RefVar(s) == IF \E i \in 1..Len(s) : ~IsFin(s[i]) THEN NaN
             ELSE LET n == I(Len(s))
                      mean == XDiv(SumSeq(s), n)
                      dev2 == [i \in 1..Len(s) |-> XMul(XSub(s[i], mean), XSub(s[i], mean))]
                  IN XDiv(SumSeq(dev2), n)
\* NaN sorts first ("NaN is considered the smallest possible value")
QLess(x, y) == IF IsNaN(x) THEN ~IsNaN(y) ELSE XLt(x, y)
SortVals(s) == SortSeq(s, QLess)
\* the phi-quantile: the value at rank phi*(N-1), interpolating linearly between neighbours
\* when the rank is not an integer.
RefQuantile(phi, s) ==
  IF Len(s) = 0 \/ IsNaN(phi) THEN NaN
  ELSE IF XLt(phi, I(0)) THEN NInf
  ELSE IF XLt(I(1), phi) THEN PInf
  ELSE LET v    == SortVals(s)
           n    == Len(s)
           rank == XMul(phi, I(n - 1))
           lo   == rank.n \div rank.d
           hi   == IF lo + 1 > n - 1 THEN n - 1 ELSE lo + 1
           w    == XSub(rank, I(lo))
       IN IF w = I(0) THEN v[lo + 1]
          ELSE XAdd(XMul(v[lo + 1], XSub(I(1), w)), XMul(v[hi + 1], w))

RefAggVal(op, par, s) ==
  CASE op = "sum"    -> SumSeq(s)
    [] op = "avg"    -> XDiv(SumSeq(s), I(Len(s)))
    [] op = "min"    -> RefMin(s)
    [] op = "max"    -> RefMax(s)
    [] op = "count"  -> I(Len(s))
    [] op = "group"  -> I(1)
    [] op = "stdvar" -> RefVar(s)
    [] op = "stddev" -> RefVar(s)          \* emitted with sq = TRUE: the harness compares result^2
    [] op = "quantile" -> RefQuantile(par, s)

\* output label set of a group = the grouping key
GroupKey(e, m) == IF e.by THEN Keep(m, e.grp) ELSE Del(m, e.grp \cup {"__name__"})
GroupsOf(e, vec) == {GroupKey(e, m) : m \in DOMAIN vec}
Members(e, vec, g) == {m \in DOMAIN vec : GroupKey(e, m) = g}

RefAggSimple(e, vec) ==
  [err |-> "none", kg |-> {},
   v |-> [g \in GroupsOf(e, vec) |-> RefAggVal(e.op, e.par, ValsOf(vec, Members(e, vec, g)))]]

\* topk/bottomk: NaN is farthest from the top (bottom); ties at the k-th place may be broken either way.
\* Better(op, x, y): x ranks strictly before y.
Better(op, x, y) == IF IsNaN(x) THEN FALSE
                    ELSE IF IsNaN(y) THEN TRUE
                    ELSE IF op = "topk" THEN XLt(y, x) ELSE XLt(x, y)
Min2(a, b) == IF a < b THEN a ELSE b
RefAggK(e, vec) ==
  LET k == e.par.n IN
  IF k < 1 THEN [err |-> "none", v |-> NoVec, kg |-> {}]
  ELSE
  [err |-> "none", v |-> NoVec,
   kg |-> {LET S == Members(e, vec, g)
               n == Min2(k, Cardinality(S))
           IN IF e.op = "limitk"
              THEN [must |-> NoVec, may |-> [m \in S |-> vec[m]], n |-> n]
              ELSE LET nb(m) == Cardinality({x \in S : Better(e.op, vec[x], vec[m])})
                       \* surely in: fewer than k elements are better-or-tied
                       sure == {m \in S : Cardinality({x \in S \ {m} : ~Better(e.op, vec[m], vec[x])}) < n}
                       poss == {m \in S : nb(m) < n} \ sure
                   IN [must |-> [m \in sure |-> vec[m]], may |-> [m \in poss |-> vec[m]], n |-> n]
             : g \in GroupsOf(e, vec)}]

\* count_values: the value (as text, concretised by the harness through the real formatter)
\* becomes label e.lab, then the usual grouping applies -- by(...) keeps the value label too.
CVName(x) == CASE x.t = "f" -> ToString(x.n) [] OTHER -> x.t
CVKey(e, m, x) == LET m2 == [m EXCEPT ![e.lab] = CVName(x)]
                  IN IF e.by THEN Keep(m2, e.grp \cup {e.lab}) ELSE Del(m2, e.grp \cup {"__name__"})
RefCountValues(e, vec) ==
  LET keys == {CVKey(e, m, vec[m]) : m \in DOMAIN vec} IN
  [err |-> "none", kg |-> {},
   v |-> [g \in keys |-> I(Cardinality({m \in DOMAIN vec : CVKey(e, m, vec[m]) = g}))]]

RefAgg(e, vec) ==
  CASE e.op \in {"topk", "bottomk", "limitk"} -> RefAggK(e, vec)
    [] e.op = "count_values" -> RefCountValues(e, vec)
    [] OTHER -> RefAggSimple(e, vec)

\* ---- vector matching ----
\* match signature: on(...) -> exactly those labels; ignoring(...) -> all but those and the metric name
Sig(e, m) == IF e.on THEN Keep(m, e.ml) ELSE Del(m, e.ml \cup {"__name__"})
\* result labels of a matched pair; mm = the element of the "many" side (left unless group_right),
\* om = the element of the "one" side
ResultMetric(e, mm, om) ==
  LET b1 == IF e.bool \/ IsArith(e.op) THEN NoName(mm) ELSE mm
      b2 == IF e.card = "1:1" THEN (IF e.on THEN Keep(b1, e.ml) ELSE Del(b1, e.ml)) ELSE b1
  IN [l \in Names |-> IF l \in e.inc THEN om[l] ELSE b2[l]]
\* the value: operands in source order whatever side is "many"
PairVal(e, mv, ov) ==
  LET r == IF e.card = "1:N" THEN Elem(e.op, ov, mv) ELSE Elem(e.op, mv, ov)
  IN IF e.bool THEN [v |-> IF r.keep THEN I(1) ELSE I(0), keep |-> TRUE] ELSE r

ManyOf(e, l, r) == IF e.card = "1:N" THEN r ELSE l
OneOf(e, l, r)  == IF e.card = "1:N" THEN l ELSE r
\* fill_left fills in elements missing on the LEFT, fill_right those missing on the RIGHT
RefFillMany(e) == IF e.card = "1:N" THEN e.fr ELSE e.fl
RefFillOne(e)  == IF e.card = "1:N" THEN e.fl ELSE e.fr

\* all pairs (real or filled): [mm, mv, om, ov, s]
PairsWith(e, many, one, fMany, fOne) ==
  LET real == UNION {{[mm |-> x, mv |-> many[x], om |-> y, ov |-> one[y], s |-> Sig(e, x)]
                        : y \in {z \in DOMAIN one : Sig(e, z) = Sig(e, x)}} : x \in DOMAIN many}
      fo   == IF fOne = None THEN {}
              ELSE {[mm |-> x, mv |-> many[x], om |-> Sig(e, x), ov |-> fOne, s |-> Sig(e, x)]
                      : x \in {z \in DOMAIN many : \A y \in DOMAIN one : Sig(e, y) # Sig(e, z)}}
      fm   == IF fMany = None THEN {}
              ELSE {[mm |-> Sig(e, y), mv |-> fMany, om |-> y, ov |-> one[y], s |-> Sig(e, y)]
                      : y \in {z \in DOMAIN one : \A x \in DOMAIN many : Sig(e, x) # Sig(e, z)}}
  IN real \cup fo \cup fm

VVWith(e, l, r, fMany, fOne) ==
  LET many == ManyOf(e, l, r)
      one  == OneOf(e, l, r)
      ps   == PairsWith(e, many, one, fMany, fOne)
      kept == {p \in ps : PairVal(e, p.mv, p.ov).keep}
      RM(p) == ResultMetric(e, p.mm, p.om)
  IN
  IF (DOMAIN l = {} /\ DOMAIN r = {}) \/ ((DOMAIN l = {} \/ DOMAIN r = {}) /\ fMany = None /\ fOne = None)
    THEN [err |-> "none", v |-> NoVec, kg |-> {}]           \* nothing can match
  ELSE IF \E y1, y2 \in DOMAIN one : y1 # y2 /\ Sig(e, y1) = Sig(e, y2)
    THEN [err |-> "many-to-many", v |-> NoVec, kg |-> {}]   \* matching labels must be unique on the "one" side
  ELSE IF e.card = "1:1" /\ \E p1, p2 \in ps : p1 # p2 /\ p1.s = p2.s
    THEN [err |-> "multi-match", v |-> NoVec, kg |-> {}]    \* many-to-one matching must be explicit
  ELSE IF e.card # "1:1" /\ \E p1, p2 \in ps : p1 # p2 /\ p1.s = p2.s /\ RM(p1) = RM(p2)
    THEN [err |-> "group-unique", v |-> NoVec, kg |-> {}]   \* every result series must be uniquely identifiable
  ELSE IF \E p1, p2 \in kept : p1 # p2 /\ RM(p1) = RM(p2)
    THEN [err |-> "dup-labelset", v |-> NoVec, kg |-> {}]
  ELSE [err |-> "none", kg |-> {},
        v |-> [m \in {RM(p) : p \in kept} |->
                 LET p == CHOOSE p \in kept : RM(p) = m IN PairVal(e, p.mv, p.ov).v]]

RefVVSet(e, l, r) ==
  LET sl == {Sig(e, x) : x \in DOMAIN l}
      sr == {Sig(e, y) : y \in DOMAIN r}
      keepL == CASE e.op = "and"    -> {x \in DOMAIN l : Sig(e, x) \in sr}
                 [] e.op = "unless" -> {x \in DOMAIN l : Sig(e, x) \notin sr}
                 [] e.op = "or"     -> DOMAIN l
      keepR == IF e.op = "or" THEN {y \in DOMAIN r : Sig(e, y) \notin sl} ELSE {}
  IN IF keepL \cap keepR # {} THEN [err |-> "dup-labelset", v |-> NoVec, kg |-> {}]
     ELSE [err |-> "none", kg |-> {}, v |-> [m \in keepL \cup keepR |-> IF m \in keepL THEN l[m] ELSE r[m]]]

RefVV(e, l, r) == IF IsSetOp(e.op) THEN RefVVSet(e, l, r)
                  ELSE VVWith(e, l, r, RefFillMany(e), RefFillOne(e))

\* vector (op) scalar: the vector element is always the one that is filtered / kept
VSVal(e, x) ==
  LET r == IF e.swap THEN Elem(e.op, e.sc, x) ELSE Elem(e.op, x, e.sc)
      v == IF IsCmp(e.op) THEN x ELSE r.v
  IN IF e.bool THEN [v |-> IF r.keep THEN I(1) ELSE I(0), keep |-> TRUE] ELSE [v |-> v, keep |-> r.keep]
VSMetric(e, m) == IF IsArith(e.op) \/ e.bool THEN NoName(m) ELSE m
RefVS(e, l) ==
  LET kept == {m \in DOMAIN l : VSVal(e, l[m]).keep} IN
  IF \E m1, m2 \in kept : m1 # m2 /\ VSMetric(e, m1) = VSMetric(e, m2)
    THEN [err |-> "dup-labelset", v |-> NoVec, kg |-> {}]
  ELSE [err |-> "none", kg |-> {},
        v |-> [m \in {VSMetric(e, x) : x \in kept} |->
                 VSVal(e, l[CHOOSE x \in kept : VSMetric(e, x) = m]).v]]

Ref(e, l, r) == CASE e.k = "agg" -> RefAgg(e, l)
                  [] e.k = "vv"  -> RefVV(e, l, r)
                  [] e.k = "vs"  -> RefVS(e, l)

-----------------------------------------------------------------------------
(* Named deviations of the code from the documentation (known findings).     *)

\* quantile() of promql/quantile.go as transcribed: since the fix of KF-C29-1 (commit 9f9c388878) it returns
\* v[lo] when the weight is 0 instead of adding the zero-weight term v[hi]*0 (= NaN for an infinite v[hi]).
\* The transcription is kept separate from RefQuantile; ImplMatchesRef demands that they agree, and the
\* replay fails with a plain violation if the real code computes 0*Inf again.
ImplQuantile(phi, s) ==
  IF Len(s) = 0 \/ IsNaN(phi) THEN NaN
  ELSE IF XLt(phi, I(0)) THEN NInf
  ELSE IF XLt(I(1), phi) THEN PInf
  ELSE LET v    == SortVals(s)
           n    == Len(s)
           rank == XMul(phi, I(n - 1))
           lo   == rank.n \div rank.d
           hi   == IF lo + 1 > n - 1 THEN n - 1 ELSE lo + 1
           w    == XSub(rank, I(lo))
       IN IF w = I(0) THEN v[lo + 1]
          ELSE XAdd(XMul(v[lo + 1], XSub(I(1), w)), XMul(v[hi + 1], w))

\* KF-C29-2: VectorBinop swaps the sides for group_right but keeps using FillValues.RHS for the
\* (swapped) left loop and FillValues.LHS for the right loop: fill_left / fill_right act on the
\* opposite sides when group_right is used.
ImplFillOne(e)  == e.fr
ImplFillMany(e) == e.fl
KF_C29_2(e) == e.k = "vv" /\ e.card = "1:N" /\ e.fl # e.fr

-----------------------------------------------------------------------------
(* The evaluation as the engine performs it.                                 *)

\* eval(): dispatch on the node type -- the first step of the evaluation of expression e
EntryPC(e) ==
  CASE e.k = "agg" /\ e.op \in {"topk", "bottomk", "limitk"} -> "aggk"
    [] e.k = "agg" /\ e.op = "count_values" -> "cv"
    [] e.k = "agg" -> "agg.group"
    [] e.k = "vv" /\ IsSetOp(e.op) -> "set"
    [] e.k = "vv" -> "vv.start"
    [] e.k = "vs" -> "vs"

AccInit == [seen |-> FALSE, fv |-> I(0), mean |-> I(0), cnt |-> 0, incr |-> FALSE, heap |-> <<>>]

Init ==
  /\ acc = <<>> /\ msigs = <<>> /\ res = NoVec /\ dupl = FALSE /\ err = "none" /\ ref = <<>>
  /\ plan = <<>>
  /\ IF BuildMode
       THEN pc = "build" /\ L = NoVec /\ R = NoVec /\ q = Blank
       ELSE /\ \/ "agg" \in Kinds /\ q \in AggExprs /\ L \in Vecs(MaxL) /\ R = NoVec
               \/ "vv"  \in Kinds /\ q \in VVExprs  /\ L \in Vecs(MaxL) /\ R \in Vecs(MaxR)
                  /\ Cardinality(DOMAIN L) + Cardinality(DOMAIN R) <= MaxTot
               \/ "vs"  \in Kinds /\ q \in VSExprs  /\ L \in Vecs(MaxL) /\ R = NoVec
            /\ pc = EntryPC(q)
  /\ todo = IF q.op = "count_values" \/ q.k = "vs" THEN DOMAIN L ELSE {}

\* ---- building a case step by step (BuildMode, used for random simulation) ----
\* kind, then operator/parameters, then grouping/matching lists, then the vector sizes, then the
\* storage appends; every step has a moderate number of equally likely successors.
Query0 == /\ pc = "build"
          /\ \E k \in Kinds : q' = [Blank EXCEPT !.k = k]
          /\ pc' = "build1"
          /\ UNCHANGED <<L, R, todo, acc, msigs, res, dupl, err, plan>>
Query1 == /\ pc = "build1"
          /\ CASE q.k = "agg" -> \E op \in AggOps : \E p \in ParsOf(op) :
                                   q' = [q EXCEPT !.op = op, !.par = p.par, !.lab = p.lab]
               [] q.k = "vv"  -> \E e \in VVSkeletons : q' = e
               [] q.k = "vs"  -> \E e \in VSExprs : q' = e
          /\ pc' = "build2"
          /\ UNCHANGED <<L, R, todo, acc, msigs, res, dupl, err, plan>>
Query2 == /\ pc = "build2"
          /\ CASE q.k = "agg" -> \E g \in Groupings : q' = [q EXCEPT !.by = g.by, !.grp = g.grp]
               [] q.k = "vv"  -> \E m \in Matchings :
                                   IF IsSetOp(q.op) THEN q' = [q EXCEPT !.on = m.on, !.ml = m.ml]
                                   ELSE \E ci \in CardIncs(m) : ci.card = q.card /\
                                          q' = [q EXCEPT !.on = m.on, !.ml = m.ml, !.inc = ci.inc]
               [] OTHER -> q' = q
          /\ pc' = "build3"
          /\ UNCHANGED <<L, R, todo, acc, msigs, res, dupl, err, plan>>
Sizes  == /\ pc = "build3"
          /\ \E nl \in 0..MaxL, nr \in 0..(IF q.k = "vv" THEN MaxR ELSE 0) :
                nl + nr <= MaxTot /\ plan' = <<nl, nr>>
          /\ pc' = "append"
          /\ UNCHANGED <<L, R, q, todo, acc, msigs, res, dupl, err>>
AppendL(m, v) == /\ pc = "append" /\ m \notin DOMAIN L /\ Cardinality(DOMAIN L) < plan[1]
                 /\ L' = Put(L, m, v)
                 /\ UNCHANGED <<pc, R, q, todo, acc, msigs, res, dupl, err, plan>>
AppendR(m, v) == /\ pc = "append" /\ Cardinality(DOMAIN L) = plan[1]
                 /\ m \notin DOMAIN R /\ Cardinality(DOMAIN R) < plan[2]
                 /\ R' = Put(R, m, v)
                 /\ UNCHANGED <<pc, L, q, todo, acc, msigs, res, dupl, err, plan>>
Run    == /\ pc = "append" /\ Cardinality(DOMAIN L) = plan[1] /\ Cardinality(DOMAIN R) = plan[2]
          /\ pc' = EntryPC(q)
          /\ todo' = IF q.op = "count_values" \/ q.k = "vs" THEN DOMAIN L ELSE {}
          /\ UNCHANGED <<L, R, q, acc, msigs, res, dupl, err, plan>>

Pick(S, P(_)) == IF AllOrders THEN \E x \in S : P(x) ELSE LET c == CHOOSE x \in S : TRUE IN P(c)
Fail(e) == /\ err' = e /\ pc' = "dup" /\ res' = NoVec
Goto(p) == pc' = p

\* rangeEvalAgg: map every input series to its output group (generateGroupingKey /
\* generateGroupingLabels); groups start unseen
AggGroup ==
  /\ pc = "agg.group"
  /\ acc' = [g \in GroupsOf(q, L) |-> AccInit]
  /\ todo' = DOMAIN L
  /\ Goto("agg.acc")
  /\ UNCHANGED <<L, R, q, msigs, res, dupl, err>>

\* aggregation(): one iteration of `for si := range inputMatrix`
AccFirst(op, f) ==
  [AccInit EXCEPT !.seen = TRUE, !.fv = CASE op \in {"stdvar", "stddev"} -> IF IsFin(f) THEN I(0) ELSE NaN
                                          [] op = "group" -> I(1)
                                          [] OTHER -> f,
                  !.mean = f, !.cnt = 1, !.heap = IF op = "quantile" THEN <<f>> ELSE <<>>]
AccNext(op, a, f) ==
  CASE op = "sum" -> [a EXCEPT !.fv = XAdd(a.fv, f)]                 \* kahansum.Inc without the compensation
    [] op = "avg" ->
         LET c    == a.cnt + 1
             newV == XAdd(a.fv, f)
             qq   == Q(c - 1, c)
         IN IF ~a.incr /\ ~IsInf(newV)
              THEN [a EXCEPT !.cnt = c, !.fv = newV]                 \* direct mean: keep summing
              ELSE \* the sum would overflow float64: incremental mean from here on
                   LET m0 == IF a.incr THEN a.mean ELSE XDiv(a.fv, I(c - 1))
                   IN [a EXCEPT !.cnt = c, !.incr = TRUE, !.mean = XAdd(XDiv(f, I(c)), XMul(qq, m0))]
    [] op = "group" -> a
    [] op = "max" -> IF XLt(a.fv, f) \/ IsNaN(a.fv) THEN [a EXCEPT !.fv = f] ELSE a
    [] op = "min" -> IF XLt(f, a.fv) \/ IsNaN(a.fv) THEN [a EXCEPT !.fv = f] ELSE a
    [] op = "count" -> [a EXCEPT !.cnt = a.cnt + 1]
    [] op \in {"stdvar", "stddev"} ->                                \* Welford
         LET c     == a.cnt + 1
             delta == XSub(f, a.mean)
             mean2 == XAdd(a.mean, XDiv(delta, I(c)))
         IN [a EXCEPT !.cnt = c, !.mean = mean2, !.fv = XAdd(a.fv, XMul(delta, XSub(f, mean2)))]
    [] op = "quantile" -> [a EXCEPT !.heap = Append(a.heap, f)]
AggAccOne(m) ==
  LET g == GroupKey(q, m)
      a == acc[g]
  IN /\ acc' = [acc EXCEPT ![g] = IF ~a.seen THEN AccFirst(q.op, L[m]) ELSE AccNext(q.op, a, L[m])]
     /\ todo' = todo \ {m}
AggAcc ==
  /\ pc = "agg.acc" /\ todo # {}
  /\ Pick(todo, AggAccOne)
  /\ UNCHANGED <<pc, L, R, q, msigs, res, dupl, err>>

\* aggregation(): "Construct the output matrix from the aggregated groups"
AccFinal(op, par, a) ==
  CASE op = "avg"   -> IF a.incr THEN a.mean ELSE XDiv(a.fv, I(a.cnt))
    [] op = "count" -> I(a.cnt)
    [] op \in {"stdvar", "stddev"} -> XDiv(a.fv, I(a.cnt))
    [] op = "quantile" -> ImplQuantile(par, a.heap)
    [] OTHER -> a.fv
AggFin ==
  /\ pc = "agg.acc" /\ todo = {}
  /\ res' = [g \in {x \in DOMAIN acc : acc[x].seen} |-> AccFinal(q.op, q.par, acc[g])]
  /\ Goto("dup")
  /\ UNCHANGED <<L, R, q, todo, acc, msigs, dupl, err>>

\* aggregationK(): the heap is abstracted to the documented choice (ties may go either way), so
\* the k-family is evaluated by the reference in one step
AggK ==
  /\ pc = "aggk"
  /\ Goto("dup")
  /\ UNCHANGED <<L, R, q, todo, acc, msigs, res, dupl, err>>

\* aggregationCountValues(): set the value label, then group on it (per series, map keyed by group)
CVOne(m) ==
  LET g == CVKey(q, m, L[m]) IN
  /\ res' = Put(res, g, IF g \in DOMAIN res THEN XAdd(res[g], I(1)) ELSE I(1))
  /\ todo' = todo \ {m}
CV ==
  /\ pc = "cv"
  /\ IF todo = {} THEN Goto("dup") /\ UNCHANGED <<todo, res>>
     ELSE Pick(todo, CVOne) /\ UNCHANGED pc
  /\ UNCHANGED <<L, R, q, acc, msigs, dupl, err>>

\* VectorAnd / VectorOr / VectorUnless
SetOp ==
  /\ pc = "set"
  /\ LET r == RefVVSet(q, L, R) IN res' = r.v /\ dupl' = (r.err # "none")
  /\ Goto("dup")
  /\ UNCHANGED <<L, R, q, todo, acc, msigs, err>>

\* VectorBinop: short-circuit, then swap sides for one-to-many
Many == ManyOf(q, L, R)
One  == OneOf(q, L, R)
VVStart ==
  /\ pc = "vv.start"
  /\ IF (DOMAIN L = {} /\ DOMAIN R = {}) \/ ((DOMAIN L = {} \/ DOMAIN R = {}) /\ q.fl = None /\ q.fr = None)
       THEN Goto("dup") /\ UNCHANGED todo
       ELSE Goto("vv.right") /\ todo' = DOMAIN One
  /\ UNCHANGED <<L, R, q, acc, msigs, res, dupl, err>>

\* "Add all rhs samples to a map": a second sample with the same signature is a many-to-many match
VVRightOne(y) ==
  LET s == Sig(q, y) IN
  IF s \in DOMAIN acc THEN Fail("many-to-many") /\ UNCHANGED <<acc, todo>>
  ELSE /\ acc' = Put(acc, s, y) /\ todo' = todo \ {y}
       /\ UNCHANGED <<pc, res, err>>
VVRight ==
  /\ pc = "vv.right"
  /\ IF todo = {} THEN Goto("vv.left") /\ todo' = DOMAIN Many /\ UNCHANGED <<acc, res, err>>
     ELSE Pick(todo, VVRightOne)
  /\ UNCHANGED <<L, R, q, msigs, dupl>>

\* doBinOp: compute, detect duplicate matches, filter, append
DoBinOp(mm, mv, om, ov, s) ==
  LET pv     == PairVal(q, mv, ov)
      metric == ResultMetric(q, mm, om)
      seen   == IF s \in DOMAIN msigs THEN msigs[s] ELSE {}
  IN IF q.card = "1:1" /\ s \in DOMAIN msigs THEN Fail("multi-match") /\ UNCHANGED <<msigs, dupl>>
     ELSE IF q.card # "1:1" /\ metric \in seen THEN Fail("group-unique") /\ UNCHANGED <<msigs, dupl>>
     ELSE /\ msigs' = Put(msigs, s, seen \cup {metric})
          /\ IF pv.keep THEN res' = Put(res, metric, pv.v) /\ dupl' = (dupl \/ metric \in DOMAIN res)
                        ELSE UNCHANGED <<res, dupl>>
          /\ UNCHANGED <<pc, err>>

\* "For all lhs samples, find a respective rhs sample"; the code reads FillValues.RHS here even
\* after the sides were swapped (ImplFillOne)
VVLeftOne(x) ==
  LET s == Sig(q, x) IN
  /\ todo' = todo \ {x}
  /\ IF s \in DOMAIN acc THEN DoBinOp(x, Many[x], acc[s], One[acc[s]], s)
     ELSE IF ImplFillOne(q) # None THEN DoBinOp(x, Many[x], s, ImplFillOne(q), s)
     ELSE UNCHANGED <<msigs, res, dupl, pc, err>>
VVLeft ==
  /\ pc = "vv.left"
  /\ IF todo = {}
       THEN /\ IF ImplFillMany(q) # None THEN Goto("vv.fill") /\ todo' = DOMAIN One
                                         ELSE Goto("dup") /\ UNCHANGED todo
            /\ UNCHANGED <<msigs, res, dupl, err>>
       ELSE Pick(todo, VVLeftOne)
  /\ UNCHANGED <<L, R, q, acc>>

\* "For any rhs samples which have not been matched": fill value from FillValues.LHS
VVFillOne(y) ==
  LET s == Sig(q, y) IN
  /\ todo' = todo \ {y}
  /\ IF s \in DOMAIN msigs THEN UNCHANGED <<msigs, res, dupl, pc, err>>
     ELSE DoBinOp(s, ImplFillMany(q), y, One[y], s)
VVFill ==
  /\ pc = "vv.fill"
  /\ IF todo = {} THEN Goto("dup") /\ UNCHANGED <<todo, msigs, res, dupl, err>>
     ELSE Pick(todo, VVFillOne)
  /\ UNCHANGED <<L, R, q, acc>>

\* VectorscalarBinop
VSOne(m) ==
  LET pv == VSVal(q, L[m]) IN
  /\ todo' = todo \ {m}
  /\ IF pv.keep THEN res' = Put(res, VSMetric(q, m), pv.v) /\ dupl' = (dupl \/ VSMetric(q, m) \in DOMAIN res)
                ELSE UNCHANGED <<res, dupl>>
VS ==
  /\ pc = "vs"
  /\ IF todo = {} THEN Goto("dup") /\ UNCHANGED <<todo, res, dupl>>
     ELSE Pick(todo, VSOne) /\ UNCHANGED pc
  /\ UNCHANGED <<L, R, q, acc, msigs, err>>

\* rangeEval, instant query: result.ContainsSameLabelset() -- the last step of every evaluation
\* (an error raised earlier has already unwound the evaluation).  The step has a single successor,
\* so a finished case is emitted exactly once; it also asks the reference for its answer, once.
Dup ==
  /\ pc = "dup"
  /\ err' = IF err # "none" THEN err ELSE IF dupl THEN "dup-labelset" ELSE "none"
  /\ res' = IF err' # "none" THEN NoVec ELSE res
  /\ pc' = "end"
  /\ ref' = Ref(q, L, R)
  /\ UNCHANGED <<L, R, q, todo, acc, msigs, dupl, plan>>

Next ==
  \/ /\ \/ Query0 \/ Query1 \/ Query2 \/ Sizes \/ Run
        \/ \E m \in LSets, v \in ValSet : AppendL(m, v)
        \/ \E m \in LSets, v \in ValSet : AppendR(m, v)
     /\ UNCHANGED ref
  \/ /\ \/ AggGroup \/ AggAcc \/ AggFin \/ AggK \/ CV \/ SetOp
        \/ VVStart \/ VVRight \/ VVLeft \/ VVFill \/ VS
     /\ UNCHANGED <<ref, plan>>
  \/ Dup

Spec == Init /\ [][Next]_vars

-----------------------------------------------------------------------------
(* Properties.                                                               *)

Finished == pc = "end"
Impl == [err |-> err, v |-> res]
RefRes == ref

\* what the engine computes is what the documentation demands, up to the named deviations
ImplMatchesRef ==
  Finished =>
    \/ q.k = "agg" /\ q.op \in {"topk", "bottomk", "limitk"}       \* evaluated by the reference itself
    \/ (Impl.err = RefRes.err /\ Impl.v = RefRes.v)
    \/ KF_C29_2(q)

\* the deviations are real: each one changes some result in the explored space (checked by the
\* driver on the emitted cases, not an invariant)
Deviates == Finished /\ ~(q.k = "agg" /\ q.op \in {"topk", "bottomk", "limitk"})
            /\ ~(Impl.err = RefRes.err /\ Impl.v = RefRes.v)

TypeOK ==
  /\ pc \in {"build", "build1", "build2", "build3", "append", "agg.group", "agg.acc", "aggk", "cv", "set", "vv.start", "vv.right",
             "vv.left", "vv.fill", "vs", "dup", "end"}
  /\ \A m \in DOMAIN L \cup DOMAIN R : IsLSet(m)
  /\ err \in {"none", "many-to-many", "multi-match", "group-unique", "dup-labelset"}
  /\ dupl \in BOOLEAN

\* the error decision hinges on a match group with several elements on one side and none on the
\* other: the documentation does not say whether that is an error -> not strict
Hinge ==
  /\ q.k = "vv" /\ ~IsSetOp(q.op)
  /\ \/ \E y1, y2 \in DOMAIN One : y1 # y2 /\ Sig(q, y1) = Sig(q, y2)
                                   /\ \A x \in DOMAIN Many : Sig(q, x) # Sig(q, y1)
     \/ q.card = "1:1" /\ \E x1, x2 \in DOMAIN Many : x1 # x2 /\ Sig(q, x1) = Sig(q, x2)
                                   /\ \A y \in DOMAIN One : Sig(q, y) # Sig(q, x1)

\* Laws of the reference on the explored case ------------------------------

\* aggregation groups partition the input: counts add up, and by()/without() never keep a dropped label
AggPartition ==
  (Finished /\ q.k = "agg" /\ q.op = "count") =>
     LET v == RefRes.v IN
     /\ SumSeq(ValsOf(v, DOMAIN v)) = I(Cardinality(DOMAIN L))
     /\ \A g \in DOMAIN v : IF q.by THEN \A l \in Names \ q.grp : g[l] = ""
                            ELSE \A l \in q.grp \cup {"__name__"} : g[l] = ""
\* min <= avg <= max and min <= quantile(0..1) <= max on finite groups
AggBounds ==
  (Finished /\ q.k = "agg" /\ q.op \in {"avg", "quantile"} /\ \A m \in DOMAIN L : IsFin(L[m])
     /\ (q.op = "quantile" => (IsFin(q.par) /\ XLe(I(0), q.par) /\ XLe(q.par, I(1))))) =>
     \A g \in DOMAIN RefRes.v :
        LET s == ValsOf(L, Members(q, L, g)) IN XLe(RefMin(s), RefRes.v[g]) /\ XLe(RefRes.v[g], RefMax(s))
\* topk/bottomk/limitk return exactly min(k, bucket size) elements per bucket and can always do so
KCount ==
  (Finished /\ q.k = "agg" /\ q.op \in {"topk", "bottomk", "limitk"}) =>
     \A b \in RefRes.kg : /\ Cardinality(DOMAIN b.must) <= b.n
                          /\ Cardinality(DOMAIN b.must) + Cardinality(DOMAIN b.may) >= b.n
                          /\ DOMAIN b.must \cap DOMAIN b.may = {}
\* arithmetic and bool results never carry a metric name; filtered comparisons keep the value of the
\* left-hand (vector) element
NameDropped ==
  (Finished /\ err = "none" /\ q.k \in {"vv", "vs"} /\ (IsArith(q.op) \/ q.bool)) =>
     \A m \in DOMAIN RefRes.v : m["__name__"] = ""
BoolIsZeroOne ==
  (Finished /\ err = "none" /\ q.bool) => \A m \in DOMAIN RefRes.v : RefRes.v[m] \in {I(0), I(1)}
\* set operators: (A and B) and (A unless B) partition A; A or B contains A
SetLaws ==
  (Finished /\ q.k = "vv" /\ IsSetOp(q.op)) =>
     LET a == RefVVSet([q EXCEPT !.op = "and"], L, R).v
         u == RefVVSet([q EXCEPT !.op = "unless"], L, R).v
         o == RefVVSet([q EXCEPT !.op = "or"], L, R).v
     IN /\ DOMAIN a \cap DOMAIN u = {} /\ DOMAIN a \cup DOMAIN u = DOMAIN L
        /\ \A m \in DOMAIN L : o[m] = L[m]
        /\ \A m \in DOMAIN o \ DOMAIN L : o[m] = R[m]
\* one-to-one matching without fill is symmetric for commutative operators: L + R = R + L
Commutes ==
  (Finished /\ q.k = "vv" /\ q.op \in {"+", "*"} /\ q.card = "1:1" /\ q.fl = None /\ q.fr = None /\ ~Hinge) =>
     LET a == RefVV(q, L, R) b == RefVV(q, R, L) IN (a.err = "none") = (b.err = "none") /\ a.v = b.v

-----------------------------------------------------------------------------
(* Emission of finished cases for the replay harness.                        *)

VecJson(f) == LET sq == SetToSeq(DOMAIN f) IN [i \in 1..Len(sq) |-> [m |-> sq[i], v |-> f[sq[i]]]]
KGJson(kg) == LET sq == SetToSeq(kg) IN
              [i \in 1..Len(sq) |-> [must |-> VecJson(sq[i].must), may |-> VecJson(sq[i].may), n |-> sq[i].n]]
ExprJson(e) == [e EXCEPT !.grp = SetToSeq(e.grp), !.ml = SetToSeq(e.ml), !.inc = SetToSeq(e.inc)]
Case ==
  LET r  == RefRes
      kf == IF KF_C29_2(q) /\ Deviates THEN "KF-C29-2" ELSE ""
  IN [l |-> VecJson(L), r |-> VecJson(R), q |-> ExprJson(q),
      out |-> [err |-> r.err, v |-> VecJson(r.v), kg |-> KGJson(r.kg),
               sq |-> (q.op = "stddev"),
               ord |-> CASE q.op = "topk" -> "desc" [] q.op = "bottomk" -> "asc" [] OTHER -> ""],
      strict |-> ~Hinge,
      kf |-> kf,
      impl |-> IF kf = "" THEN [err |-> "", v |-> <<>>] ELSE [err |-> Impl.err, v |-> VecJson(Impl.v)]]

Emit == ~EmitOn \/ pc # "end" \/ PrintT("@@TR " \o ToJson(Case))
=============================================================================
