SPECIFICATION Spec
CONSTANTS
  MNS = {"m", "n"}
  VAS = {"", "x"}
  VBS = {"", "x"}
  VCS = {""}
  Nums = {1, 2}
  NegNums = {}
  Specials = {}
  MaxL = 2
  MaxR = 0
  MaxTot = 2
  Kinds = {"agg"}
  AggOps = {"sum", "min", "topk", "limitk", "count_values"}
  ByGrps = {{}, {"a"}, {"a", "b"}, {"__name__"}, {"c"}, {"__name__", "a"}}
  WoGrps = {{}, {"a"}, {"b"}, {"a", "b"}, {"__name__"}}
  KPars = {1}
  QNums = {2}
  QDen = 4
  QNeg = FALSE
  QNaN = FALSE
  CVLabs = {"v", "a"}
  ArithOps = {"+"}
  CmpOps = {">="}
  SetOps = {"and", "or", "unless"}
  Bools = {FALSE}
  OnLists = {{"a"}}
  IgnLists = {{}, {"b"}}
  Cards = {"1:1", "N:1", "1:N"}
  IncLists = {{}, {"b"}}
  FillModes = {"none"}
  FillA = 0
  FillB = 1
  Scalars = {1}
  NegScalars = {}
  BuildMode = FALSE
  AllOrders = FALSE
  EmitOn = TRUE
INVARIANTS TypeOK ImplMatchesRef AggPartition AggBounds KCount NameDropped BoolIsZeroOne SetLaws Commutes Emit
CHECK_DEADLOCK FALSE
