SPECIFICATION Spec
CONSTANTS
  MNS = {"m", "n"}
  VAS = {"", "x"}
  VBS = {""}
  VCS = {""}
  Nums = {1, 2}
  NegNums = {}
  Specials = {"NaN"}
  MaxL = 3
  MaxR = 2
  MaxTot = 4
  Kinds = {"agg", "vv", "vs"}
  AggOps = {"sum","avg","min","max","count","group","stddev","stdvar","quantile","topk","bottomk","limitk","count_values"}
  ByGrps = {{}, {"a"}}
  WoGrps = {}
  KPars = {1}
  QNums = {2}
  QDen = 4
  QNeg = FALSE
  QNaN = FALSE
  CVLabs = {"v"}
  ArithOps = {"+"}
  CmpOps = {">="}
  SetOps = {"and", "or", "unless"}
  Bools = {FALSE}
  OnLists = {{"a"}}
  IgnLists = {{}}
  Cards = {"1:1", "N:1", "1:N"}
  IncLists = {{}}
  FillModes = {"none", "both2"}
  FillA = 0
  FillB = 1
  Scalars = {1}
  NegScalars = {}
  BuildMode = FALSE
  AllOrders = TRUE
  EmitOn = FALSE
INVARIANTS TypeOK ImplMatchesRef AggPartition AggBounds KCount NameDropped BoolIsZeroOne SetLaws Commutes Emit
CHECK_DEADLOCK FALSE
