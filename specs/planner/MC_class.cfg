SPECIFICATION Spec
CONSTANTS
  RangeCfgs = {"r24"}
  OvModes = {TRUE}
  TNeg = 2
  TMax = 4
  ExtraOffs = {}
  ExtraLens = {}
  Attrs = {"reg", "ooo", "stale", "staleooo", "sel", "tall"}
  MaxBlocks = 4
  Interleave = FALSE
  MaxOps = 0
  EmitMode = "all"
VIEW View
INVARIANTS TypeOK AllOf EmitState
PROPERTIES RankDecreases NoWiden
CHECK_DEADLOCK FALSE
