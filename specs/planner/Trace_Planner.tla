---------------------------- MODULE Trace_Planner ----------------------------
(***************************************************************************)
(* Legality of plans returned by the *real* LeveledCompactor.Plan.         *)
(* The replay harness writes one line per (directory state, real plan) it  *)
(* wants judged -- every case where the real plan differs from the plan    *)
(* predicted by Planner.tla, plus a sample of agreeing ones -- to          *)
(* trace.ndjson:                                                           *)
(*   {"ranges":[..], "overlap":b, "blocks":[{id,mint,maxt,stale,sel,ooo,   *)
(*    failed,tombs,series}..], "real":[ids in plan order], "n": case no}   *)
(* This module evaluates the reference predicate LegalPlan of PlannerOps   *)
(* on each of them; an illegal plan is reported as a "@@BAD" line carrying *)
(* the reason, which the driver turns into a violation of C08.             *)
(***************************************************************************)
EXTENDS PlannerOps, TLC, Json

\* the file is read once (TLC re-evaluates a definition at every use) and kept in TLC register 2
Trace == TLCGet(2)

VARIABLE i
Init == i = 1 /\ TLCSet(2, ndJsonDeserialize("trace.ndjson"))
Next == i <= Len(Trace) /\ i' = i + 1
Spec == Init /\ [][Next]_i

BlocksOf(c) == Range(c.blocks)
RealPlan(c) == {b \in BlocksOf(c) : \E k \in 1..Len(c.real) : c.real[k] = b.id}
Known(c)    == \A k \in 1..Len(c.real) : \E b \in BlocksOf(c) : b.id = c.real[k]

Verdict(c) ==
  LET B == BlocksOf(c)
      p == RealPlan(c) IN
  IF ~Known(c) THEN "unknown-block"
  ELSE IF Len(c.real) # Cardinality(p) THEN "duplicate-block"
  ELSE IF LegalPlan(p, B, c.ranges, c.overlap) THEN "ok"
  ELSE Reason(p, B, c.ranges, c.overlap)

\* always TRUE; reports every illegal plan
Judge ==
  i > Len(Trace) \/
    LET c == Trace[i]
        v == Verdict(c) IN
    v = "ok" \/ PrintT("@@BAD " \o ToJson([n |-> c.n, reason |-> v, real |-> c.real]))

Judged == i <= Len(Trace) + 1
=============================================================================
