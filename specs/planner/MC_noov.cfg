SPECIFICATION Spec
CONSTANTS
  RangeCfgs = {"r24"}
  OvModes = {FALSE}
  TNeg = 4
  TMax = 4
  ExtraOffs = {1}
  ExtraLens = {2, 3}
  Attrs = {"reg", "fail"}
  MaxBlocks = 5
  Interleave = FALSE
  MaxOps = 0
  EmitMode = "all"
VIEW View
INVARIANTS TypeOK AllOf EmitState
PROPERTIES RankDecreases NoWiden
CHECK_DEADLOCK FALSE
