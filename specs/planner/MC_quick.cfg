SPECIFICATION Spec
CONSTANTS
  RangeCfgs = {"r248", "r3"}
  OvModes = {TRUE}
  TNeg = 4
  TMax = 8
  ExtraOffs = {1, 5}
  ExtraLens = {2, 3}
  Attrs = {"reg", "fail", "tmid"}
  MaxBlocks = 3
  Interleave = FALSE
  MaxOps = 0
  EmitMode = "all"
VIEW View
INVARIANTS TypeOK AllOf EmitState
PROPERTIES RankDecreases NoWiden
CHECK_DEADLOCK FALSE
