SPECIFICATION Spec
CONSTANTS
  RangeCfgs = {"r248"}
  OvModes = {TRUE, FALSE}
  TNeg = 4
  TMax = 8
  ExtraOffs = {1, 5}
  ExtraLens = {2, 3}
  Attrs = {"reg", "fail", "tmid", "stale"}
  MaxBlocks = 4
  Interleave = FALSE
  MaxOps = 0
  EmitMode = "none"
VIEW View
INVARIANTS TypeOK PlanLegal KindOK NeverMixesClasses NewestAndFailedExcluded RegularNotStarved MergedOK RunBounded
PROPERTIES RankDecreases NoWiden
CHECK_DEADLOCK FALSE
