SPECIFICATION FairSpec
CONSTANTS
  RangeCfgs = {"r24"}
  OvModes = {TRUE, FALSE}
  TNeg = 2
  TMax = 4
  ExtraOffs = {1}
  ExtraLens = {2}
  Attrs = {"reg", "tmid", "tall", "stale"}
  MaxBlocks = 3
  Interleave = FALSE
  MaxOps = 0
  EmitMode = "none"
INVARIANTS TypeOK PlanLegal RunBounded
PROPERTIES Converges RankDecreases
CHECK_DEADLOCK FALSE
