SPECIFICATION Spec
CONSTANTS
  RangeCfgs = {"r248"}
  OvModes = {TRUE}
  TNeg = 2
  TMax = 8
  ExtraOffs = {3}
  ExtraLens = {1}
  Attrs = {"reg", "fail"}
  MaxBlocks = 5
  Interleave = FALSE
  MaxOps = 0
  EmitMode = "all"
VIEW View
INVARIANTS TypeOK AllOf EmitState
PROPERTIES RankDecreases NoWiden
CHECK_DEADLOCK FALSE
