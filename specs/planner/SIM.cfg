SPECIFICATION Spec
CONSTANTS
  RangeCfgs = {"r248", "r26", "r3", "r139", "r2", "r24", "r2488", "r36"}
  OvModes = {TRUE, FALSE}
  TNeg = 8
  TMax = 12
  ExtraOffs = {1, 3, 6, 11}
  ExtraLens = {1, 2, 3, 5}
  Attrs = {"reg", "ooo", "fail", "tlow", "tmid", "tall", "tsmall", "stale", "staleooo", "stalet", "sel", "selooo", "both", "failt"}
  MaxBlocks = 8
  Interleave = TRUE
  EmitMode = "none"
INVARIANTS TypeOK EmitWalk
CHECK_DEADLOCK FALSE
