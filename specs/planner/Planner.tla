------------------------------- MODULE Planner -------------------------------
(***************************************************************************)
(* The block directory of a TSDB under the plan/compact loop of            *)
(* DB.compactBlocks (tsdb/db.go) with LeveledCompactor.Plan and            *)
(* CompactBlockMetas (tsdb/compact.go).  Property C08.                     *)
(*                                                                         *)
(* State: the set of block metas in the directory (PlannerOps.tla explains *)
(* the record), the configured ranges and EnableOverlappingCompaction.     *)
(*                                                                         *)
(* Actions                                                                 *)
(*   AddBlock(iv, at)  a block appears: head compaction (regular),         *)
(*                     compactOOO ("ooo"), stale-/selected-series          *)
(*                     compaction, a block whose compaction failed, a      *)
(*                     block with tombstones (Delete + tombstone file)     *)
(*   DropOldest        retention deletes the oldest block (simulation only)  *)
(*   Compact           one iteration of the loop in DB.compactBlocks:      *)
(*                     Plan, LeveledCompactor.Compact (CompactBlockMetas   *)
(*                     at the metadata level), reloadBlocks drops parents  *)
(* The loop stops when Plan is empty (no action enabled: stuttering).      *)
(***************************************************************************)
EXTENDS PlannerOps, TLC, Json

CONSTANTS RangeCfgs,   \* set of names of range configurations, see RangesOf (TLC cfg files cannot hold tuples)
          OvModes,     \* subset of BOOLEAN: EnableOverlappingCompaction values explored
          TNeg, TMax,  \* blocks are created inside the window [-TNeg, TMax] of the time axis (slots);
                       \* (TLC cfg files cannot hold negative numbers)
          ExtraOffs, ExtraLens,  \* besides the aligned ones, intervals <<s, s+l>>, s = -TNeg + off, are created
          Attrs,       \* set of attribute names, see AttrRec
          MaxBlocks,   \* at most this many blocks in the directory
          Interleave,  \* FALSE: all AddBlock before the first Compact, in canonical order (every set once)
                       \* TRUE : AddBlock and Compact interleave freely, ids in creation order
          MaxOps,      \* bound of a simulated walk (Interleave only)
          EmitMode     \* "all" | "class" | "none"

VARIABLES blocks, ranges, overlap, phase, nextId, nops, hist

vars == <<blocks, ranges, overlap, phase, nextId, nops, hist>>
View == <<blocks, ranges, overlap, phase>>

RangesOf(n) ==
  CASE n = "r248"  -> <<2, 4, 8>>
    [] n = "r26"   -> <<2, 6>>
    [] n = "r3"    -> <<3>>
    [] n = "r139"  -> <<1, 3, 9>>
    [] n = "r2"    -> <<2>>
    [] n = "r24"   -> <<2, 4>>
    [] n = "r2488" -> <<2, 4, 8, 8>>
    [] n = "r36"   -> <<3, 6>>

AttrOrder == <<"reg", "ooo", "fail", "tlow", "tmid", "tall", "tsmall", "stale", "staleooo", "stalet",
               "sel", "selooo", "both", "failt">>
AttrRank(a) == CHOOSE i \in 1..Len(AttrOrder) : AttrOrder[i] = a

Base == [stale |-> FALSE, sel |-> FALSE, ooo |-> FALSE, failed |-> FALSE, tombs |-> 0, series |-> 20]
AttrRec(a) ==
  CASE a = "reg"      -> Base
    [] a = "ooo"      -> [Base EXCEPT !.ooo = TRUE]                       \* written by compactOOO
    [] a = "fail"     -> [Base EXCEPT !.failed = TRUE]                    \* Compaction.Failed
    [] a = "tlow"     -> [Base EXCEPT !.tombs = 1, !.series = 19]         \* exactly 5%: not enough
    [] a = "tmid"     -> [Base EXCEPT !.tombs = 1, !.series = 18]         \* just above 5%
    [] a = "tall"     -> [Base EXCEPT !.tombs = 18, !.series = 18]        \* entirely deleted
    [] a = "tsmall"   -> [Base EXCEPT !.tombs = 3, !.series = 4]          \* > 5% but not all
    [] a = "stale"    -> [Base EXCEPT !.stale = TRUE]                     \* stale-series compaction
    [] a = "staleooo" -> [Base EXCEPT !.stale = TRUE, !.ooo = TRUE]
    [] a = "stalet"   -> [Base EXCEPT !.stale = TRUE, !.tombs = 18, !.series = 18]
    [] a = "sel"      -> [Base EXCEPT !.sel = TRUE]                       \* selected-series compaction
    [] a = "selooo"   -> [Base EXCEPT !.sel = TRUE, !.ooo = TRUE]
    [] a = "both"     -> [Base EXCEPT !.stale = TRUE, !.sel = TRUE]
    [] a = "failt"    -> [Base EXCEPT !.failed = TRUE, !.tombs = 18, !.series = 18]

TMin == 0 - TNeg
\* intervals a block may be created with: every aligned window of every configured range inside
\* [TMin, TMax], plus the misaligned / odd-sized ones of Extra
Aligned(R) == UNION {{<<k * R[i], (k + 1) * R[i]>> : k \in (TMin \div R[i])..(TMax \div R[i])} : i \in 1..Len(R)}
Extra == {<<TMin + o, TMin + o + l>> : o \in ExtraOffs, l \in ExtraLens}
Ivals(R) == {iv \in Aligned(R) \cup Extra : iv[1] >= TMin /\ iv[2] <= TMax}

Span == TMax - TMin + 1
Key(iv, a) == (AttrRank(a) * Span + (iv[2] - TMin)) * Span + (iv[1] - TMin) + 1

Mk(id, iv, a) ==
  LET r == AttrRec(a) IN
  [id |-> id, mint |-> iv[1], maxt |-> iv[2], stale |-> r.stale, sel |-> r.sel, ooo |-> r.ooo,
   failed |-> r.failed, tombs |-> r.tombs, series |-> r.series, level |-> 1, src |-> {id}]

ThePlan == Plan(blocks, ranges, overlap)

-----------------------------------------------------------------------------
(* What is handed to the replay harness for one directory state: the state, *)
(* and the whole plan/compact run from it as predicted by this module.      *)

RECURSIVE SeqById(_)
SeqById(S) == IF S = {} THEN <<>>
              ELSE LET m == CHOOSE x \in S : \A y \in S : x.id <= y.id IN <<m>> \o SeqById(S \ {m})

\* one element per iteration of the plan/compact loop until the plan is empty:
\*   plan    ids of the planned blocks in plan order, kind = the rule that produced it
\*   legal   "ok" or the reason why the reference LegalPlan rejects it (only KF-C08-1 can occur, see PlanLegal)
\*   merged  CompactBlockMetas of the planned blocks; gone = the output would be empty and is not written
\*   series  NumSeries of the output (tombstones applied)
RECURSIVE Run(_, _, _, _)
Run(B, R, ov, uid) ==
  LET pl == Plan(B, R, ov)
      P  == Range(pl.dirs) IN
  IF pl.dirs = <<>> THEN <<>>
  ELSE <<[kind |-> pl.kind, plan |-> Ids(pl.dirs),
          legal |-> IF LegalPlan(P, B, R, ov) THEN "ok" ELSE Reason(P, B, R, ov),
          merged |-> Merge(uid, pl.dirs), gone |-> Gone(pl.dirs), series |-> SumSeries(P)]>>
       \o Run(After(B, uid, pl.dirs), R, ov, uid + 1)

Rec(B, R, ov, uid) ==
  [ranges |-> R, overlap |-> ov, blocks |-> SeqById(B), rank |-> Rank(B), uid |-> uid,
   run |-> Run(B, R, ov, uid)]

-----------------------------------------------------------------------------
Init == /\ blocks = {}
        /\ ranges \in {RangesOf(n) : n \in RangeCfgs}
        /\ overlap \in OvModes
        /\ phase = "grow"
        /\ nextId = 1
        /\ nops = 0
        /\ hist = <<>>
        /\ TLCSet(1, {})

AddBlock(iv, a) ==
  /\ Cardinality(blocks) < MaxBlocks
  /\ IF Interleave
     THEN /\ blocks' = blocks \cup {Mk(nextId, iv, a)}
          /\ nextId' = nextId + 1
          /\ UNCHANGED phase
     ELSE /\ phase = "grow"
          /\ \A b \in blocks : b.id < Key(iv, a)
          /\ blocks' = blocks \cup {Mk(Key(iv, a), iv, a)}
          /\ nextId' = Key(iv, a) + 1
          /\ UNCHANGED phase
  /\ UNCHANGED <<ranges, overlap>>

Compact ==
  LET pl == ThePlan IN
  /\ pl.dirs # <<>>
  /\ blocks' = After(blocks, nextId, pl.dirs)
  /\ nextId' = nextId + 1
  /\ phase' = "compact"
  /\ UNCHANGED <<ranges, overlap>>

\* retention (DB.reloadBlocks / BeyondTimeRetention) removes the oldest block; only in free interleaving
DropOldest ==
  /\ Interleave /\ blocks # {}
  /\ LET o == CHOOSE x \in blocks : \A y \in blocks : x.maxt < y.maxt \/ (x.maxt = y.maxt /\ x.id <= y.id)
     IN blocks' = blocks \ {o}
  /\ UNCHANGED <<ranges, overlap, phase, nextId>>

Step == \/ \E iv \in Ivals(ranges), a \in Attrs : AddBlock(iv, a)
        \/ Compact
        \/ DropOldest

\* exhaustive mode: no history; simulation: every visited directory state is kept (its record is
\* computed when the walk is printed -- TLC evaluates hist' for every candidate successor)
Next == \/ /\ ~Interleave
           /\ Step
           /\ UNCHANGED <<nops, hist>>
        \/ /\ Interleave /\ nops < MaxOps
           /\ Step
           /\ nops' = nops + 1
           /\ hist' = Append(hist, [b |-> blocks', uid |-> nextId'])
        \/ /\ Interleave /\ nops = MaxOps /\ nops' = MaxOps + 1          \* End: print the walk once
           /\ UNCHANGED <<blocks, ranges, overlap, phase, nextId, hist>>

Spec == Init /\ [][Next]_vars
FairSpec == Spec /\ WF_vars(Compact /\ UNCHANGED <<nops, hist>>)

-----------------------------------------------------------------------------
(* C08 on the design                                                        *)

TypeOK == /\ \A b \in blocks : b.mint < b.maxt /\ b.level >= 1 /\ b.tombs >= 0 /\ b.series >= 0
          /\ \A a, b \in blocks : a.id = b.id => a = b
          /\ phase \in {"grow", "compact"}

\* The named properties are operators of the plan pl so that the quick configurations can evaluate the
\* (expensive) transcription once per state (AllOf); the big/live configurations list them one by one.
PS(pl) == Range(pl.dirs)

\* every plan is one of the three kinds of the statement (or the recorded finding KF-C08-1)
PlanLegalP(pl) == \/ LegalPlan(PS(pl), blocks, ranges, overlap)
                  \/ KF_C08_1(PS(pl), blocks, ranges, overlap)

\* the transcription agrees with itself about which kind it found
KindOKP(pl) ==
  CASE pl.kind = "none"    -> pl.dirs = <<>>
    [] pl.kind = "overlap" -> IsOverlapPlan(PS(pl), overlap)
    [] pl.kind = "range"   -> IsRangePlan(PS(pl), blocks, ranges) \/ KF_C08_1(PS(pl), blocks, ranges, overlap)
    [] pl.kind = "tomb"    -> IsTombPlan(PS(pl))

\* stale-series, selected-series and regular blocks are never planned together
NeverMixesClassesP(pl) == SameClass(PS(pl))

\* range plans never contain the newest block of the class nor a block whose compaction failed
NewestAndFailedExcludedP(pl) ==
  pl.kind = "range" => /\ ExcludesNewest(PS(pl), blocks)
                       /\ \A b \in PS(pl) : ~b.failed

\* partial-view blocks are only planned when there is nothing to do for the regular ones
RegularNotStarvedP(pl) ==
  (\E b \in PS(pl) : ClassOf(b) # "reg") => PlanClass(OfClass(blocks, "reg"), ranges, overlap).dirs = <<>>

\* merged metadata: hints, time range covering the inputs, level, sources
MergedOKP(pl) ==
  pl.dirs # <<>> =>
    LET m == Merge(nextId, pl.dirs) IN
    /\ HintsOK(m, PS(pl))
    /\ m.ooo = (\A b \in PS(pl) : b.ooo)
    /\ \A b \in PS(pl) : m.mint <= b.mint /\ b.maxt <= m.maxt /\ m.level > b.level /\ b.src \subseteq m.src

PlanLegal               == PlanLegalP(ThePlan)
KindOK                  == KindOKP(ThePlan)
NeverMixesClasses       == NeverMixesClassesP(ThePlan)
NewestAndFailedExcluded == NewestAndFailedExcludedP(ThePlan)
RegularNotStarved       == RegularNotStarvedP(ThePlan)
MergedOK                == MergedOKP(ThePlan)

\* the conjunction of the six, with the plan computed once
AllOf == LET pl == ThePlan IN
         /\ PlanLegalP(pl) /\ KindOKP(pl) /\ NeverMixesClassesP(pl)
         /\ NewestAndFailedExcludedP(pl) /\ RegularNotStarvedP(pl) /\ MergedOKP(pl)

\* convergence: every Compact step strictly decreases the variant, which is bounded below
RankDecreases == [][blocks' # blocks /\ phase' = "compact" => Rank(blocks') < Rank(blocks)]_vars
RunBounded == Len(Run(blocks, ranges, overlap, nextId)) <= Rank(blocks)
\* and, as a temporal formula under weak fairness of Compact: the plan is eventually empty for good
Converges == <>[](ThePlan.dirs = <<>>)

\* a compaction never widens the covered time nor loses a source block's identity
NoWiden == [][phase' = "compact" /\ blocks' # blocks =>
               \A n \in blocks' \ blocks : \E a, b \in blocks \ blocks' : n.mint = a.mint /\ n.maxt = b.maxt]_vars

-----------------------------------------------------------------------------
(* Emission                                                                 *)

\* coverage class of a directory state: mirrors the branch structure of plan/planClass/selectDirs
Class ==
  LET pl == ThePlan
      P  == PS(ThePlan)
      ds == IF P = {} THEN <<>> ELSE pl.dirs
  IN <<ranges, overlap, pl.kind, Len(pl.dirs), NClasses(blocks), Cardinality(blocks),
       IF P = {} THEN "-" ELSE ClassOf(ds[1]),
       \E b \in blocks : b.mint < 0,
       IF P = {} THEN 0 ELSE ds[Len(ds)].maxt - ds[1].mint,
       \E b \in blocks : b.failed,
       \E b \in blocks : b.tombs > 0,
       IF P = {} THEN "-" ELSE IF \A b \in P : b.ooo THEN "allooo" ELSE IF \E b \in P : b.ooo THEN "someooo" ELSE "noooo",
       Len(Run(blocks, ranges, overlap, nextId))>>

\* Only states of the grow phase are emitted: every compact-phase state is a successor along the run
\* of a grow-phase state and is replayed as part of that run.
EmitState ==
  CASE phase # "grow" -> TRUE
    [] EmitMode = "all"   -> PrintT("@@TR " \o ToJson(Rec(blocks, ranges, overlap, nextId)))
    [] EmitMode = "class" -> LET cl == Class IN
                             \/ cl \in TLCGet(1)
                             \/ /\ TLCSet(1, TLCGet(1) \cup {cl})
                                /\ PrintT("@@TR " \o ToJson(Rec(blocks, ranges, overlap, nextId)))
    [] OTHER -> TRUE

EmitWalk == nops <= MaxOps \/
            PrintT("@@TR " \o ToJson([k \in 1..Len(hist) |-> Rec(hist[k].b, ranges, overlap, hist[k].uid)]))
=============================================================================
