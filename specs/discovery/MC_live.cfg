SPECIFICATION FairSpec
CONSTANTS
  PCfgs = {"P1", "P2"}
  Jobs = {"j1", "j2"}
  Srcs = {"s1", "s2"}
  ConfigIds = {1, 2, 3, 4, 5}
  InitConfig = 1
  Hist = FALSE
  EmitMode = "none"
INVARIANTS TypeOK
PROPERTIES Convergence
CHECK_DEADLOCK FALSE
