------------------------------- MODULE Manager -------------------------------
(***************************************************************************)
(* discovery.Manager (discovery/manager.go) -- property C47.               *)
(*                                                                         *)
(* One process per goroutine:                                              *)
(*   Discoverer(p)  the provider's Discoverer.Run: hands target groups to  *)
(*                  its updater over an unbuffered channel                 *)
(*   Updater(p)     Manager.updater: receive, updateGroup once per         *)
(*                  subscribed job (a critical section of targetsMtx       *)
(*                  each, p.mu read-locked over the loop), then a          *)
(*                  non-blocking send on triggerSend (capacity 1)          *)
(*   Sender         Manager.sender: on a timer tick take the trigger,      *)
(*                  build allGroups(), offer it on the unbuffered syncCh;  *)
(*                  if the consumer is not receiving, re-arm the trigger   *)
(*   Consumer       reads syncCh when it is ready (it may be slow)         *)
(*   Reload(c)      Manager.ApplyConfig under m.mtx: registerProviders,    *)
(*                  cancel providers without subscribers (their targets    *)
(*                  are deleted, cleaner), drop removed jobs of kept       *)
(*                  providers, copy the provider's targets to its new      *)
(*                  jobs, start new providers, pull the trigger            *)
(*                                                                         *)
(* A target group is (source, version); version 0 = a group without        *)
(* targets.  Provider configurations are "P1","P2"; a configuration maps   *)
(* job names to sets of provider configurations.                           *)
(***************************************************************************)
EXTENDS Integers, Sequences, FiniteSets, TLC, Json

CONSTANTS PCfgs,       \* provider configurations (strings)
          Jobs,        \* job names
          Srcs,        \* target group sources
          ConfigIds,   \* configurations Reload may install (indices into Configs)
          InitConfig,
          MaxUpd,      \* number of target-group updates over the run
          MaxReload,
          Hist, EmitMode

VARIABLES conf,        \* current configuration id
          run,         \* running providers: pcfg -> [inst (instance number), subs (set of jobs)] ; absent = not running
          targets,     \* m.targets: <<job, pcfg>> -> (source -> version), only non-empty groups
          upc, utodo, ucur,   \* updater(p): "recv" | "apply"; jobs still to update; group in hand
          trig,        \* len(triggerSend)
          spc, snap,   \* sender: "wait" | "offer"; the allGroups() value offered
          delivered,   \* last map received by the consumer ("none" before the first)
          latest,      \* ghost: pcfg -> (source -> last version handed over by the running instance)
          nupd, nrel, ver, hist

vars == <<conf, run, targets, upc, utodo, ucur, trig, spc, snap, delivered, latest, nupd, nrel, ver, hist>>

\* configurations: job -> set of provider configurations ({} = job not configured)
Configs ==
  <<[j1 |-> {"P1"},       j2 |-> {"P2"}],
    [j1 |-> {"P1"},       j2 |-> {"P1"}],
    [j1 |-> {"P1", "P2"}, j2 |-> {}],
    [j1 |-> {"P2"},       j2 |-> {"P1"}],
    [j1 |-> {"P1"},       j2 |-> {}]>>

JobsOf(c) == {j \in Jobs : Configs[c][j] # {}}
SubsOf(c, p) == {j \in Jobs : p \in Configs[c][j]}
Running == DOMAIN run
Log(e) == IF Hist THEN Append(hist, e) ELSE hist

\* a map source -> version as a set of pairs (JSON friendly, no lazy functions)
Put(m, s, v) == {x \in m : x[1] # s} \cup (IF v = 0 THEN {} ELSE {<<s, v>>})
TargetsOf(j, p) == {x[3] : x \in {y \in targets : y[1] = j /\ y[2] = p}}

\* allGroups(): for every job of every running provider the groups of its pool, jobs without targets present and empty
AllGroups == {[job |-> j, groups |-> UNION {{[p |-> p, src |-> g[1], v |-> g[2]] : g \in TargetsOf(j, p)} :
                                            p \in {q \in Running : j \in run[q].subs}}] :
              j \in UNION {run[p].subs : p \in Running}}

\* what the property demands to be delivered in the end: the latest non-empty group of every source of every
\* provider serving the job (from the ghost `latest`, not from `targets`)
Expected == {[job |-> j, groups |-> UNION {{[p |-> p, src |-> g[1], v |-> g[2]] : g \in latest[p]} :
                                           p \in {q \in Running : j \in run[q].subs}}] :
             j \in UNION {run[p].subs : p \in Running}}

-----------------------------------------------------------------------------
\* Discoverer(p) -> Updater(p): the updater receives one group from the running instance
Discover(p, s, empty) ==
  /\ p \in Running /\ upc[p] = "recv" /\ nupd < MaxUpd
  /\ LET v == IF empty THEN 0 ELSE ver + 1 IN
     /\ ucur' = [ucur EXCEPT ![p] = <<s, v>>]
     /\ latest' = [latest EXCEPT ![p] = Put(@, s, v)]
     /\ hist' = Log([a |-> "Disc", p |-> p, inst |-> run[p].inst, src |-> s, v |-> v])
  /\ ver' = ver + 1
  /\ upc' = [upc EXCEPT ![p] = "apply"]
  /\ utodo' = [utodo EXCEPT ![p] = run[p].subs]
  /\ nupd' = nupd + 1
  /\ UNCHANGED <<conf, run, targets, trig, spc, snap, delivered, nrel>>

\* updateGroup(poolKey{job, p}, tgs) for one subscribed job
Apply(p, j) ==
  /\ upc[p] = "apply" /\ j \in utodo[p]
  /\ targets' = {x \in targets : ~(x[1] = j /\ x[2] = p /\ x[3][1] = ucur[p][1])}
                \cup (IF ucur[p][2] = 0 THEN {} ELSE {<<j, p, ucur[p]>>})
  /\ utodo' = [utodo EXCEPT ![p] = @ \ {j}]
  /\ UNCHANGED <<conf, run, upc, ucur, trig, spc, snap, delivered, latest, nupd, nrel, ver, hist>>

\* select { case m.triggerSend <- struct{}{}: default: }
Trigger(p) ==
  /\ upc[p] = "apply" /\ utodo[p] = {}
  /\ trig' = 1
  /\ upc' = [upc EXCEPT ![p] = "recv"]
  /\ UNCHANGED <<conf, run, targets, utodo, ucur, spc, snap, delivered, latest, nupd, nrel, ver, hist>>

\* sender: a tick finds the trigger, allGroups() is evaluated
SenderTake ==
  /\ spc = "wait" /\ trig = 1
  /\ trig' = 0
  /\ snap' = AllGroups
  /\ spc' = "offer"
  /\ UNCHANGED <<conf, run, targets, upc, utodo, ucur, delivered, latest, nupd, nrel, ver, hist>>

\* case m.syncCh <- groups: the consumer is receiving
SenderSend ==
  /\ spc = "offer"
  /\ delivered' = snap
  /\ spc' = "wait"
  /\ hist' = Log([a |-> "Recv", m |-> snap])
  /\ UNCHANGED <<conf, run, targets, upc, utodo, ucur, trig, snap, latest, nupd, nrel, ver>>

\* default: the consumer is busy; make sure the update is not missed
SenderRearm ==
  /\ spc = "offer"
  /\ trig' = 1
  /\ spc' = "wait"
  /\ UNCHANGED <<conf, run, targets, upc, utodo, ucur, snap, delivered, latest, nupd, nrel, ver, hist>>

\* ApplyConfig(c).  It needs p.mu of every kept provider, so it cannot overlap an updater's apply loop.
Reload(c) ==
  /\ c # conf /\ nrel < MaxReload
  /\ \A p \in Running : upc[p] = "recv"
  /\ LET keep  == {p \in Running : SubsOf(c, p) # {}}
         new   == {p \in PCfgs \ Running : SubsOf(c, p) # {}}
         \* targets of kept providers: removed jobs dropped, new jobs get a copy of the provider's groups
         ref(p) == UNION {TargetsOf(j, p) : j \in run[p].subs}
         kept  == UNION {UNION {{<<j, p, g>> : g \in ref(p)} : j \in SubsOf(c, p)} : p \in keep}
     IN /\ targets' = {x \in kept : TRUE}
        /\ run' = [p \in keep \cup new |->
                     IF p \in keep THEN [inst |-> run[p].inst, subs |-> SubsOf(c, p)]
                     ELSE [inst |-> nrel + 1, subs |-> SubsOf(c, p)]]
        /\ latest' = [p \in PCfgs |-> IF p \in keep THEN latest[p] ELSE {}]
        /\ hist' = Log([a |-> "Reload", conf |-> c, cfg |-> Configs[c], started |-> new, cancelled |-> Running \ keep])
  /\ conf' = c
  /\ trig' = 1
  /\ nrel' = nrel + 1
  /\ UNCHANGED <<upc, utodo, ucur, spc, snap, delivered, nupd, ver>>

Init ==
  /\ conf = InitConfig
  /\ run = [p \in {q \in PCfgs : SubsOf(InitConfig, q) # {}} |-> [inst |-> 0, subs |-> SubsOf(InitConfig, p)]]
  /\ targets = {}
  /\ upc = [p \in PCfgs |-> "recv"] /\ utodo = [p \in PCfgs |-> {}] /\ ucur = [p \in PCfgs |-> <<"", 0>>]
  /\ trig = 1                                  \* ApplyConfig pulls the trigger
  /\ spc = "wait" /\ snap = {}
  /\ delivered = {[job |-> "none", groups |-> {}]}
  /\ latest = [p \in PCfgs |-> {}]
  /\ nupd = 0 /\ nrel = 0 /\ ver = 0
  /\ hist = <<[a |-> "Init", conf |-> InitConfig, cfg |-> Configs[InitConfig]]>>

Upd == \E p \in PCfgs : (\E j \in Jobs : Apply(p, j)) \/ Trigger(p)
Env == \/ \E p \in PCfgs, s \in Srcs, e \in BOOLEAN : Discover(p, s, e)
       \/ \E c \in ConfigIds : Reload(c)
Next == Env \/ Upd \/ SenderTake \/ SenderSend \/ SenderRearm

Spec == Init /\ [][Next]_vars
\* updaters and the sender run; the consumer is slow but receives infinitely often when offered (strong fairness)
FairSpec == Spec /\ WF_vars(Upd) /\ WF_vars(SenderTake) /\ SF_vars(SenderSend)

-----------------------------------------------------------------------------
TypeOK == /\ trig \in {0, 1} /\ spc \in {"wait", "offer"}
          /\ \A p \in Running : run[p].subs # {}
          /\ \A x \in targets : x[2] \in Running /\ x[1] \in run[x[2]].subs /\ x[3][2] # 0

\* m.targets never holds a group the running instance has not handed over, and once an updater is idle its
\* pools equal the latest non-empty groups
TargetsFollowLatest ==
  \A p \in Running : upc[p] = "recv" => \A j \in run[p].subs : TargetsOf(j, p) = latest[p]

\* No update is lost while the consumer is slow: whenever what the consumer has differs from what it should
\* have, some step that will lead to a new delivery is pending
Pending == trig = 1 \/ spc = "offer" \/ \E p \in Running : upc[p] = "apply"
NoLostUpdate == (delivered # Expected) => Pending

\* Convergence: updates stop (they are bounded), so eventually the delivered map is and stays the expected one
Convergence == <>[](delivered = Expected)

\* every delivered map has exactly the configured jobs of some moment (jobs without targets present and empty)
DeliveredJobs == [][(delivered' # delivered) => {m.job : m \in delivered'} \in {JobsOf(c) : c \in ConfigIds \cup {InitConfig}}]_vars

-----------------------------------------------------------------------------
\* behaviours for the harness: the environment's actions in order and the expected final delivery
Quiet == nupd = MaxUpd /\ ~Pending /\ delivered = Expected
Emit == \/ EmitMode = "none" \/ ~Quiet' \/ Quiet
        \/ PrintT("@@TR " \o ToJson(Append(hist', [a |-> "Final", expected |-> Expected', conf |-> conf'])))
View == <<conf, run, targets, upc, utodo, ucur, trig, spc, snap, delivered, latest, nupd, nrel>>
=============================================================================
