SPECIFICATION CSpec
CONSTANTS
  Series = {"s1", "s2"}
  TOff = 0
  TimesRaw = {1, 2, 3, 5, 9, 10, 13, 14, 17, 21}
  Vals = {1, 2}
  Types = {"f"}
  Apps = {"a1"}
  R = 4
  W = 0
  OOOCap = 2
  Acts = {"NewAppender", "Append", "Commit", "Rollback", "Delete", "Compact", "CompactOOO", "CleanTombstones", "Mmap", "Reopen"}
  Apis = {"v1", "v2"}
  Rej = {FALSE}
  DelLo = {0, 3, 6, 9}
  DelHi = {2, 5, 8, 14}
  MaxPend = 3
  AllowKF = {}
  KFInitOpts = TRUE
  KFV1Hist = TRUE
  MaxOps = 30
  Balanced = FALSE
  EmitMode = "none"
  BigSeries = {"s2"}
  ScriptName = "s1"
  MaxCrashes = 2
  CAllowKF = {"KF-C03-1", "KF-C03-2", "KF-C03-3"}
  CrashOdds = 150
  RecOdds = 25
  CEmit = "walk"
INVARIANTS Survive FilesAgree BlocksAgree OpenCleans WalShape CEmitWalk
CHECK_DEADLOCK FALSE
