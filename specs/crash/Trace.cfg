SPECIFICATION TSpec
CONSTANTS
  Series = {"s1", "s2"}
  TOff = 0
  TimesRaw = {1, 2, 3, 4, 5, 8, 9, 10, 12, 13, 14, 17, 21}
  Vals = {1, 2}
  Types = {"f"}
  Apps = {"a1"}
  R = 4
  W = 0
  OOOCap = 2
  Acts = {"NewAppender", "Append", "Commit", "Rollback", "Delete", "Compact", "CompactOOO", "CleanTombstones", "Mmap", "Reopen"}
  Apis = {"v1", "v2"}
  Rej = {FALSE}
  DelLo = {0, 3, 6, 9}
  DelHi = {2, 5, 8, 14}
  MaxPend = 3
  AllowKF = {}
  KFInitOpts = TRUE
  KFV1Hist = TRUE
  MaxOps = 100
  Balanced = FALSE
  EmitMode = "none"
  BigSeries = {"s2"}
  ScriptName = "free"
  MaxCrashes = 0
  CAllowKF = {"KF-C03-3"}
  CrashOdds = 1
  RecOdds = 1
  CEmit = "none"
VIEW TView
CHECK_DEADLOCK FALSE
