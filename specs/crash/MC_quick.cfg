SPECIFICATION CSpec
CONSTANTS
  Series = {"s1", "s2"}
  TOff = 0
  TimesRaw = {1, 9}
  Vals = {1}
  Types = {"f"}
  Apps = {"a1"}
  R = 4
  W = 0
  OOOCap = 2
  Acts = {"NewAppender", "Append", "Commit", "Compact", "Reopen"}
  Apis = {"v1"}
  Rej = {FALSE}
  DelLo = {0}
  DelHi = {9}
  MaxPend = 2
  AllowKF = {}
  KFInitOpts = TRUE
  KFV1Hist = TRUE
  MaxOps = 5
  Balanced = FALSE
  EmitMode = "none"
  BigSeries = {"s2"}
  ScriptName = "free"
  MaxCrashes = 2
  CAllowKF = {"KF-C03-1", "KF-C03-2", "KF-C03-3"}
  CrashOdds = 1
  RecOdds = 1
  CEmit = "class"
VIEW CView
INVARIANTS Survive FilesAgree BlocksAgree OpenCleans WalShape InoSorted
ACTION_CONSTRAINT CEmitAC
CHECK_DEADLOCK FALSE
