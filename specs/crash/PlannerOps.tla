----------------------------- MODULE PlannerOps -----------------------------
(***************************************************************************)
(* Pure operators shared by Planner.tla (state machine, checked by TLC)    *)
(* and Trace_Planner.tla (legality of plans returned by the real code).    *)
(*                                                                         *)
(* Part 1 is a literal transcription of tsdb/compact.go                    *)
(*   LeveledCompactor.plan / planClass / selectOverlappingDirs /           *)
(*   selectDirs / splitByRange  and  CompactBlockMetas.                    *)
(* Part 2 is the *reference*: what property C08 demands of a plan, written *)
(* without looking at how the code finds it.                               *)
(*                                                                         *)
(* A block meta is a record                                                *)
(*   [id, mint, maxt, stale, sel, ooo, failed, tombs, series, level, src]  *)
(* id    rank of the ULID (directory order of blockDirs = ULID order)      *)
(* stale/sel/ooo   the three compaction hints                              *)
(* tombs/series    Stats.NumTombstones / Stats.NumSeries                   *)
(* src   set of ids of the level-1 source blocks (Compaction.Sources)      *)
(* Times are integers in "slots"; the harness multiplies by a unit and     *)
(* shifts by a multiple of every range.                                    *)
(***************************************************************************)
EXTENDS Integers, Sequences, FiniteSets

Max2(a, b) == IF a > b THEN a ELSE b
MinOf(S) == CHOOSE x \in S : \A y \in S : x <= y
MaxOf(S) == CHOOSE x \in S : \A y \in S : x >= y
Range(q) == {q[i] : i \in 1..Len(q)}
Ids(q) == [i \in 1..Len(q) |-> q[i].id]

None == [kind |-> "none", dirs |-> <<>>]

-----------------------------------------------------------------------------
(* Part 1: transcription                                                    *)

\* plan(): `switch { case FromStaleSeries: stale; case FromSelectedSeries: selected; default: nonHint }`
ClassOf(b) == IF b.stale THEN "stale" ELSE IF b.sel THEN "sel" ELSE "reg"

\* planClass(): slices.SortFunc by MinTime. For <= 12 elements the Go implementation is an insertion
\* sort, i.e. stable, and the input is in directory (= ULID) order: ties are broken by id.
Before(a, b) == a.mint < b.mint \/ (a.mint = b.mint /\ a.id < b.id)
RECURSIVE SortByMint(_)
SortByMint(S) == IF S = {} THEN <<>>
                 ELSE LET m == CHOOSE x \in S : \A y \in S \ {x} : Before(x, y)
                      IN <<m>> \o SortByMint(S \ {m})

\* selectOverlappingDirs(ds): `for i, d := range ds[1:]` -- d = ds[i+1], ds[i] is its predecessor (1-based)
RECURSIVE OvLoop(_, _, _, _)
OvLoop(ds, i, gmax, acc) ==
  IF i > Len(ds) - 1 THEN acc
  ELSE LET d == ds[i + 1] IN
       IF d.mint < gmax
       THEN OvLoop(ds, i + 1, Max2(gmax, d.maxt),
                   IF acc = <<>> THEN <<ds[i], d>> ELSE Append(acc, d))
       ELSE IF acc # <<>> THEN acc                                  \* break
       ELSE OvLoop(ds, i + 1, Max2(gmax, d.maxt), acc)
SelectOverlapping(ds, ov) ==
  IF ~ov \/ Len(ds) < 2 THEN <<>> ELSE OvLoop(ds, 1, ds[1].maxt, <<>>)

\* splitByRange: start of the aligned range of size tr containing t. The Go code spells the floor out
\* for negative t (tr*((t-tr+1)/tr) with truncating division); TLA+ \div is the floor already.
FloorTo(t, tr) == tr * (t \div tr)

RECURSIVE SplitLoop(_, _, _, _)
SplitLoop(ds, tr, i, acc) ==
  IF i > Len(ds) THEN acc
  ELSE LET m  == ds[i]
           t0 == FloorTo(m.mint, tr) IN
       IF m.maxt > t0 + tr THEN SplitLoop(ds, tr, i + 1, acc)       \* mis-aligned or larger than tr: skip
       ELSE LET K == {k \in i..Len(ds) : ds[k].maxt > t0 + tr}
                j == IF K = {} THEN Len(ds) + 1 ELSE MinOf(K)
            IN SplitLoop(ds, tr, j, Append(acc, SubSeq(ds, i, j - 1)))
SplitByRange(ds, tr) == SplitLoop(ds, tr, 1, <<>>)

\* selectDirs: the `Outer` loop body for one candidate group p of range iv
GroupOK(p, iv, high) ==
  /\ \A x \in 1..Len(p) : ~p[x].failed
  /\ (p[Len(p)].maxt - p[1].mint = iv \/ p[Len(p)].maxt <= high)
  /\ Len(p) > 1

RECURSIVE SelRanges(_, _, _, _)
SelRanges(ds, R, k, high) ==
  IF k > Len(R) THEN <<>>
  ELSE LET parts == SplitByRange(ds, R[k])
           I == {x \in 1..Len(parts) : GroupOK(parts[x], R[k], high)}
       IN IF I = {} THEN SelRanges(ds, R, k + 1, high) ELSE parts[MinOf(I)]
SelectDirs(ds, R) ==
  IF Len(R) < 2 \/ Len(ds) < 1 THEN <<>>
  ELSE SelRanges(ds, R, 2, ds[Len(ds)].mint)                        \* c.ranges[1:], highTime

\* planClass: "Compact any blocks with big enough time range that have >5% tombstones", newest first
Over5pct(m) == 20 * m.tombs > m.series + 1          \* float64(tombs)/float64(series+1) > 0.05
RECURSIVE TombLoop(_, _, _)
TombLoop(ds, R, i) ==
  IF i < 1 THEN None
  ELSE LET m == ds[i] IN
       IF m.maxt - m.mint < R[(Len(R) \div 2) + 1]                  \* c.ranges[len(c.ranges)/2]
       THEN IF m.tombs > 0 /\ m.tombs >= m.series
            THEN [kind |-> "tomb", dirs |-> <<m>>] ELSE None        \* break
       ELSE IF Over5pct(m) THEN [kind |-> "tomb", dirs |-> <<m>>]
       ELSE TombLoop(ds, R, i - 1)

PlanClass(S, R, ov) ==
  IF S = {} THEN None
  ELSE LET ds == SortByMint(S)
           o  == SelectOverlapping(ds, ov) IN
       IF o # <<>> THEN [kind |-> "overlap", dirs |-> o]
       ELSE LET ds2 == SubSeq(ds, 1, Len(ds) - 1)                   \* drop the block with max(minTime)
                r   == SelectDirs(ds2, R) IN
            IF r # <<>> THEN [kind |-> "range", dirs |-> r]
            ELSE TombLoop(ds2, R, Len(ds2))

OfClass(B, c) == {b \in B : ClassOf(b) = c}
NClasses(B) == Cardinality({ClassOf(b) : b \in B})

\* plan(): classes are planned independently, regular first, then stale, then selected
Plan(B, R, ov) ==
  IF B = {} THEN None
  ELSE IF NClasses(B) > 1
  THEN LET a == PlanClass(OfClass(B, "reg"), R, ov) IN
       IF a.dirs # <<>> THEN a
       ELSE LET s == PlanClass(OfClass(B, "stale"), R, ov) IN
            IF s.dirs # <<>> THEN s ELSE PlanClass(OfClass(B, "sel"), R, ov)
  ELSE PlanClass(B, R, ov)

\* CompactBlockMetas(uid, blocks...): ps = the planned blocks in plan order
Merge(uid, ps) ==
  LET P == Range(ps) IN
  [id      |-> uid,
   mint    |-> MinOf({b.mint : b \in P}),
   maxt    |-> MaxOf({b.maxt : b \in P}),
   level   |-> MaxOf({b.level : b \in P}) + 1,
   stale   |-> \E b \in P : b.stale,               \* any-source semantics
   sel     |-> \E b \in P : b.sel,
   ooo     |-> \A b \in P : b.ooo,                 \* all-sources semantics
   parents |-> Ids(ps),
   src     |-> UNION {b.src : b \in P}]

\* Metadata-level model of LeveledCompactor.Compact + DB.reloadBlocks: tombstones are applied (each
\* tombstone is taken to delete one whole series, as planClass itself assumes), an output without
\* series is not written and its parents become deletable.
RECURSIVE SumSeries(_)
SumSeries(P) == IF P = {} THEN 0
                ELSE LET b == CHOOSE x \in P : TRUE
                     IN Max2(0, b.series - b.tombs) + SumSeries(P \ {b})
Gone(ps) == SumSeries(Range(ps)) = 0
Compacted(uid, ps) ==
  LET m == Merge(uid, ps) IN
  [id |-> uid, mint |-> m.mint, maxt |-> m.maxt, stale |-> m.stale, sel |-> m.sel, ooo |-> m.ooo,
   failed |-> FALSE, tombs |-> 0, series |-> SumSeries(Range(ps)), level |-> m.level, src |-> m.src]
After(B, uid, ps) == (B \ Range(ps)) \cup (IF Gone(ps) THEN {} ELSE {Compacted(uid, ps)})

\* variant (ranking) function of the plan/compact loop in DB.compactBlocks
Rank(B) == 2 * Cardinality(B) + Cardinality({b \in B : b.tombs > 0})

-----------------------------------------------------------------------------
(* Part 2: reference -- what C08 allows a plan p (a set of blocks of B) to be *)

Overlaps(a, b) == a.mint < b.maxt /\ b.mint < a.maxt

\* "a set of mutually overlapping blocks": the overlap graph on p is connected
RECURSIVE Reach(_, _)
Reach(F, p) == LET N == F \cup {b \in p : \E a \in F : Overlaps(a, b)} IN IF N = F THEN F ELSE Reach(N, p)
OverlapConnected(p) == \A b \in p : Reach({b}, p) = p

NonOverlapping(p) == \A a, b \in p : a = b \/ ~Overlaps(a, b)

\* "lies within one configured range": one aligned window [k*r, (k+1)*r] of a configured range r
WithinOneRange(p, R) ==
  \E k \in 1..Len(R) :
    LET t0 == FloorTo(MinOf({b.mint : b \in p}), R[k]) IN \A b \in p : b.maxt <= t0 + R[k]

\* "excludes the newest block": some block of the same class outside p is at least as new as all of p
ExcludesNewest(p, B) ==
  \E n \in B \ p : /\ \A b \in p : ClassOf(n) = ClassOf(b) /\ n.mint >= b.mint

SameClass(p) == \A a, b \in p : ClassOf(a) = ClassOf(b)

IsOverlapPlan(p, ov) == ov /\ Cardinality(p) >= 2 /\ OverlapConnected(p)
IsRangePlanButOverlap(p, B, R) ==
  /\ Cardinality(p) >= 2 /\ WithinOneRange(p, R) /\ ExcludesNewest(p, B) /\ \A b \in p : ~b.failed
IsRangePlan(p, B, R) == IsRangePlanButOverlap(p, B, R) /\ NonOverlapping(p)
IsTombPlan(p) == Cardinality(p) = 1 /\ \A b \in p : Over5pct(b)

LegalPlan(p, B, R, ov) ==
  \/ p = {}
  \/ /\ p \subseteq B
     /\ SameClass(p)
     /\ IsOverlapPlan(p, ov) \/ IsRangePlan(p, B, R) \/ IsTombPlan(p)

\* Known finding KF-C08-1: with EnableOverlappingCompaction = false the range rule (selectDirs) is
\* applied to whatever blocks are in the directory, overlapping or not, so a plan can be a range
\* group that contains overlapping blocks -- vertical compaction although it is disabled.
KF_C08_1(p, B, R, ov) ==
  /\ ~ov /\ p \subseteq B /\ SameClass(p)
  /\ IsRangePlanButOverlap(p, B, R) /\ ~NonOverlapping(p)

\* why a plan is illegal (signature for the verdict)
Reason(p, B, R, ov) ==
  IF ~(p \subseteq B) THEN "unknown-block"
  ELSE IF ~SameClass(p) THEN "mixes-classes"
  ELSE IF Cardinality(p) = 1 THEN "single-block-without-tombstones"
  ELSE IF KF_C08_1(p, B, R, ov) THEN "overlapping-range-group-while-disabled"
  ELSE IF OverlapConnected(p) /\ ~NonOverlapping(p) THEN "overlap-plan-while-disabled"
  ELSE IF ~NonOverlapping(p) THEN "overlapping-blocks-not-connected"
  ELSE IF ~WithinOneRange(p, R) THEN "not-within-one-range"
  ELSE IF \E b \in p : b.failed THEN "includes-failed-block"
  ELSE IF ~ExcludesNewest(p, B) THEN "includes-newest-block"
  ELSE "other"

\* Merged metadata (C08, last sentence)
HintsOK(m, p) ==
  /\ m.ooo => \A b \in p : b.ooo                       \* OOO hint only if every input has it
  /\ (\A b \in p : ClassOf(b) = "stale") => m.stale    \* keeps the partial-view hint of its class
  /\ (\A b \in p : ClassOf(b) = "sel") => m.sel
  /\ m.stale => \E b \in p : b.stale                   \* and invents none
  /\ m.sel => \E b \in p : b.sel
=============================================================================
